import PolyVerif.Model.GenbankBuild
import PolyVerif.Spec.GbStrict
import PolyVerif.Spec.GbRoundTrip
import PolyVerif.Driver.C01
import PolyVerif.Spec.Insdc
/-
C03 driver.  Cases:
  `rec <record fields>` : a structured record (canonical serialisation, see harness ops_c03.go)
  `img <text>`          : the record is `genbank.Parse(text)` (image of the real parser); it is
                          reported back by the harness in the same serialisation
Reply: `ok` ("-" | "x" <record fields>) out identical pstatus wrstatus <fields of Parse(Build(x))>.
-/
namespace PolyVerif.Driver.C03
open PolyVerif PolyVerif.GenbankBuild PolyVerif.Spec.GbStrict
open PolyVerif.Location (PLoc)

/-! ### (de)serialisation -/

def intOfStr (s : Str) : Int :=
  match s with
  | '-' :: r => -((natOfDigits r : Nat) : Int)
  | r => ((natOfDigits r : Nat) : Int)

/-- `(start stop cjft sub sub ...)`; returns the location and the unread rest -/
def parseLocF : Nat → Str → Option (PLoc × Str)
  | 0, _ => none
  | f + 1, s =>
    match s with
    | '(' :: r =>
      let a := r.takeWhile (· != ' ')
      let r := (r.dropWhile (· != ' ')).drop 1
      let b := r.takeWhile (· != ' ')
      let r := (r.dropWhile (· != ' ')).drop 1
      match r with
      | c :: j :: p5 :: p3 :: r =>
        let rec subs (g : Nat) (r : Str) (acc : List PLoc) : Option (List PLoc × Str) :=
          match g with
          | 0 => none
          | g + 1 =>
            match r with
            | ' ' :: r' =>
              match parseLocF f r' with
              | some (l, r'') => subs g r'' (l :: acc)
              | none => none
            | ')' :: r' => some (acc.reverse, r')
            | _ => none
        match subs (r.length + 1) r [] with
        | some (ss, r') =>
          some ({ start := intOfStr a, stop := intOfStr b, complement := c == '1', join := j == '1',
                  five := p5 == '1', three := p3 == '1', subs := ss }, r')
        | none => none
      | _ => none
    | _ => none

def parseLoc (s : String) : Option PLoc :=
  match parseLocF (s.length + 1) s.toList with
  | some (l, []) => some l
  | _ => none

def takeN {α : Type} (n : Nat) (l : List α) : Option (List α × List α) :=
  if n ≤ l.length then some (l.take n, l.drop n) else none

def decodePairs : Nat → List String → Option (List (Str × Str) × List String)
  | 0, f => some ([], f)
  | n + 1, k :: v :: f =>
    match decodePairs n f with
    | some (ps, f') => some ((k.toList, v.toList) :: ps, f')
    | none => none
  | _, _ => none

def decodeRefs : Nat → List String → Option (List Reference × List String)
  | 0, f => some ([], f)
  | n + 1, i :: a :: t :: j :: p :: r :: g :: f =>
    match decodeRefs n f with
    | some (rs, f') =>
      some ({ index := i.toList, authors := a.toList, title := t.toList, journal := j.toList,
              pubMed := p.toList, remark := r.toList, range := g.toList } :: rs, f')
    | none => none
  | _, _ => none

def decodeFeats : Nat → List String → Option (List Feature × List String)
  | 0, f => some ([], f)
  | n + 1, ty :: gl :: loc :: na :: f =>
    match parseLoc loc, decodePairs (natOfStr na) f with
    | some l, some (attrs, f') =>
      match decodeFeats n f' with
      | some (fs, f'') =>
        some ({ type := ty.toList, gbkLocationString := gl.toList, sequenceLocation := l, attributes := attrs } :: fs, f'')
      | none => none
    | _, _ => none
  | _, _ => none

/-- a record and the unread fields -/
def decodeRec (f : List String) : Option (Sequence × List String) :=
  match f with
  | name :: len :: mol :: div :: date :: coding :: circ :: lin :: de :: ac :: ve :: kw :: so :: og :: nr :: f =>
    match decodeRefs (natOfStr nr) f with
    | some (refs, no :: f) =>
      match decodePairs (natOfStr no) f with
      | some (other, nf :: f) =>
        match decodeFeats (natOfStr nf) f with
        | some (feats, seq :: f) =>
          some ({ metadata := { locus := { name := name.toList, sequenceLength := len.toList, moleculeType := mol.toList,
                                           genbankDivision := div.toList, modificationDate := date.toList,
                                           sequenceCoding := coding.toList, circular := circ == "1", linear := lin == "1" },
                                definition := de.toList, accession := ac.toList, version := ve.toList, keywords := kw.toList,
                                source := so.toList, organism := og.toList, references := refs, other := other },
                  features := feats, sequence := seq.toList }, f)
        | _ => none
      | _ => none
    | _ => none
  | _ => none

/-! ### rendering -/

def render (f : List String) : List String :=
  match f with
  | "rec" :: r => "c03rec" :: r
  | ["img", text] => ["c03img", text]
  | "img01" :: c01case =>
    -- a file laid out by property C01's independent writer (`GbLayout.layoutFile`, via C01's `render`)
    match Driver.C01.render c01case with
    | [_, _, text] => ["c03img", text]
    | _ => ["bad"]
  | _ => ["bad"]

/-! ### judging -/

/-- the parser MODEL's result (property C01's `Genbank.parse`) against the real parser's result as the
harness reports it: every field the model has -/
def parsedSame (ym : Genbank.Sequence) (yr : Sequence) : Bool :=
  let a := ym.md
  let b := yr.metadata
  ym.seq == yr.sequence
    && a.locus.name == b.locus.name && a.locus.seqLength == b.locus.sequenceLength && a.locus.molType == b.locus.moleculeType
    && a.locus.division == b.locus.genbankDivision && a.locus.date == b.locus.modificationDate
    && a.locus.coding == b.locus.sequenceCoding && a.locus.circular == b.locus.circular && a.locus.linear == b.locus.linear
    && a.definition == b.definition && a.accession == b.accession && a.version == b.version && a.keywords == b.keywords
    && a.source == b.source && a.organism == b.organism
    && Spec.GbRoundTrip.listApprox (fun (r : Genbank.Reference) (q : Reference) =>
          r.index == q.index && r.authors == q.authors && r.title == q.title && r.journal == q.journal
            && r.pubmed == q.pubMed && r.remark == q.remark && r.range == q.range) a.references b.references
    && sortedEntries a.other == sortedEntries b.other
    && Spec.GbRoundTrip.listApprox (fun (f : Genbank.Feature) (g : Feature) =>
          f.type == g.type && f.gbkLoc == g.gbkLocationString && sortedEntries f.attrs == sortedEntries g.attributes)
        ym.features yr.features

def firstLine (s : Str) : Str := s.takeWhile (· != '\n')

/-- `s` with its first line replaced by `l` -/
def withFirstLine (l s : Str) : Str := l ++ s.dropWhile (· != '\n')

/-- an iteration order different from the insertion order -/
def otherOrders : MapOrders := { other := [3, 1, 4, 1, 5, 9, 2, 6, 5, 3, 5], quals := fun i => [i, 2, 7, 1, 8, 2, 8, 1, 8] }

def tailsOf : Str → List Str
  | [] => [[]]
  | c :: r => (c :: r) :: tailsOf r

def isInfix (p s : Str) : Bool := (tailsOf s).any fun t => p.isPrefixOf t

def dnaShadowed : List Str := ["genomic DNA", "other DNA", "unassigned DNA"].map String.toList

/-- a date-like piece `dd-MMM-yyyy` somewhere in `s` -/
def hasDate (s : Str) : Bool := (tailsOf s).any fun t => isDate (t.take 11)

/-- regression class of the repaired defect C03-odd-quote (fix 9a46c6b): a qualifier value with an
odd number of quotation marks (the writer does not double them) -/
def clsOddQuote (x : Sequence) : Bool :=
  x.features.any fun f => f.attributes.any fun kv => (kv.2.filter (· == '"')).length % 2 == 1

/-- regression class of the repaired defect C03-locus-search (fix d6becc3): a name containing a
molecule type / division / date / topology token, or a molecule type containing a shorter one -/
def clsLocusSearch (x : Sequence) : Bool :=
  let l := x.metadata.locus
  dnaShadowed.contains l.moleculeType
    || (molTypes ++ divisions).any (fun t => isInfix t l.name) || hasDate l.name || topologies.contains l.name

def subKeywords : List Str := ["ORGANISM", "AUTHORS", "TITLE", "JOURNAL", "PUBMED", "REMARK"].map String.toList

def topKeywords : List Str :=
  ["LOCUS", "DEFINITION", "ACCESSION", "VERSION", "KEYWORDS", "SOURCE", "REFERENCE", "FEATURES", "ORIGIN"].map String.toList

/-- some continuation line of the written header begins with one of `ws` as a word -/
def contStartsWith (ws : List Str) (out : Str) : Bool :=
  (lines out).any fun l => isCont l && (match tokens (l.drop 12) with | t :: _ => ws.contains t | [] => false)

/-- regression class of the repaired defect C03-toplevel-continuation (fix 1a072ef): a continuation
line begins with a TOP-LEVEL keyword as a word -/
def clsTopKeyword (out : Str) : Bool := contStartsWith topKeywords out

/-- regression class of the repaired defect C03-subkeyword-continuation (fix 49c2e81): a continuation
line begins with a sub-keyword as a word -/
def clsSubKeyword (out : Str) : Bool := contStartsWith subKeywords out

/-- regression class of the repaired defect C03-reference-wrapped (fix bca7ebf): the writer wraps the `REFERENCE` line (number + range longer than
68 columns); the parser reads only the first line of a `REFERENCE` block -/
def clsRefWrapped (out : Str) : Bool :=
  let ls := lines out
  (ls.zip (ls.drop 1)).any fun (a, b) => keywordIs "REFERENCE" a && isCont b

/-- the header part of a written record -/
def headerLines (out : Str) : List Str := (lines out).takeWhile fun l => !keywordIs "FEATURES" l

/-- which conjunct of the layout domain fails (evidence only) -/
def whyNotLayout (x : Sequence) : String :=
  let m := x.metadata
  (if wfLocusJ m.locus then "" else "locus ")
  ++ (if textJ m.definition && textJ m.accession && textJ m.version && textJ m.keywords
        && textJ m.source && textJ m.organism then "" else "metadata-text ")
  ++ (if m.references.all wfRefJ then "" else "reference-text ")
  ++ (if nodupKeys m.other && m.other.all (wfOtherJ 11) then "" else "other ")
  ++ (if x.features.all wfFeature then "" else "feature ")
  ++ (if x.features.all wfFeatureLocJ then "" else "not-a-location ")
  ++ (if x.sequence != [] && x.sequence.all isLetter then "" else "sequence ")

/-- names of the compared fields in which `x` and `y` differ -/
def diffFields (x y : Sequence) : List String :=
  let a := x.metadata
  let b := y.metadata
  let d (n : String) (ok : Bool) : List String := if ok then [] else [n]
  d "sequence" (x.sequence == y.sequence)
  ++ d "locus.name" (a.locus.name == b.locus.name) ++ d "locus.length" (a.locus.sequenceLength == b.locus.sequenceLength)
  ++ d "locus.moltype" (a.locus.moleculeType == b.locus.moleculeType)
  ++ d "locus.division" (a.locus.genbankDivision == b.locus.genbankDivision)
  ++ d "locus.date" (a.locus.modificationDate == b.locus.modificationDate)
  ++ d "locus.topology" (a.locus.circular == b.locus.circular && a.locus.linear == b.locus.linear)
  ++ d "definition" (a.definition == b.definition) ++ d "accession" (a.accession == b.accession)
  ++ d "version" (a.version == b.version) ++ d "keywords" (a.keywords == b.keywords)
  ++ d "source" (a.source == b.source) ++ d "organism" (a.organism == b.organism)
  ++ d "references" (listBeq refBeq a.references b.references)
  ++ d "other" (sortedEntries a.other == sortedEntries b.other)
  ++ d "features" (listBeq featBeq x.features y.features)

/-- the round-trip equality with the exclusions applied PER FIELD / PER FEATURE: a record outside the round-trip
domain only because of its topology flags (`Circular && Linear`: the line has one topology word) or because of single
features (`wfFeatureRT`: a qualifier key with `/`, a cached text that does not denote the structure) is still compared
in everything else -/
def seqEquivPart (x y : Sequence) : Bool :=
  let a := x.metadata
  let b := y.metadata
  let amb := a.locus.circular && a.locus.linear
  seqEquiv { x with metadata := { a with locus := { a.locus with circular := if amb then b.locus.circular else a.locus.circular,
                                                                  linear := if amb then b.locus.linear else a.locus.linear } },
                    features := [] } { y with features := [] }
    && listBeq (fun f g => !wfFeatureRT f || featBeq f g) x.features y.features

/-! ### the two known findings: which replies still ARE the finding

A known finding is identified by the input class and by WHERE the reply fails, not by the exact bytes the
present code happens to write: a record of the class that still fails to round-trip in the fields the finding
names is the known finding, whatever the values there; a difference anywhere else is a new failure.
* `C03-blank-run-at-wrap`: a metadata text may differ from the one given only in the runs of blanks that fall on a
  wrap point of `WrapString(a, 68)` (the positions of the syntactic class), each shortened to at least one blank;
  every other character, every other run of blanks must be as given (`allowedEq`);
* `C03-nameless-locus`: only what the finding names is excused — the NAME and the LENGTH (whose tokens shift into
  the name): molecule type, topology, division, date and everything outside the LOCUS line must be as given
  (up to the blank-run rule, which a name-less record may fall under as well). -/

/-- `w` = what `WrapString` writes for `a`; `b` is `a` except that a run of blanks which `w` replaces by a line break
may be shorter (at least one blank): walk `w`, `a` and `b` together -/
def allowedEq : Str → Str → Str → Bool
  | [], a, b => a.all (· == ' ') && b.all (· == ' ') && b.length ≤ a.length
  | '\n' :: w, a, b =>
    let ra := (a.takeWhile (· == ' ')).length
    let rb := (b.takeWhile (· == ' ')).length
    1 ≤ rb && rb ≤ ra && allowedEq w (a.dropWhile (· == ' ')) (b.dropWhile (· == ' '))
  | c :: w, a0 :: a, b0 :: b => c == a0 && c == b0 && allowedEq w a b
  | _, _, _ => false

def tEqW (w a b : Str) : Bool := a == b || allowedEq w a b

/-- `a` expected, `b` read -/
def blockEqK (a b : SBlock) : Bool :=
  let w := if a.key == "REFERENCE".toList then rangeWrapped a.num a.text else StrBuild.wrapString a.text 68
  a.key == b.key && a.num == b.num && tEqW w a.text b.text
    && listBeq (fun (p q : Str × Str) => p.1 == q.1 && tEqW (StrBuild.wrapString p.2 68) p.2 q.2) a.subs b.subs

def recEqK (a b : Rec) : Bool :=
  a.locus == b.locus && listBeq blockEqK a.blocks b.blocks && a.feats == b.feats && a.origin == b.origin

def relaxText (a b : Str) : Str := if allowedEq (StrBuild.wrapString a 68) a b then b else a

def relaxRefs : Nat → List Reference → List Reference → List Reference
  | i, r :: rs, q :: qs =>
    { r with range := (if allowedEq (rangeWrapped (refNum i r) r.range) r.range q.range then q.range else r.range),
             authors := relaxText r.authors q.authors, title := relaxText r.title q.title,
             journal := relaxText r.journal q.journal, pubMed := relaxText r.pubMed q.pubMed,
             remark := relaxText r.remark q.remark } :: relaxRefs (i + 1) rs qs
  | _, rs, _ => rs

/-- `x` with every text that loses a blank at a wrap point replaced by `y`'s when the two differ in blanks only -/
def relaxTo (x y : Sequence) : Sequence :=
  let a := x.metadata
  let b := y.metadata
  { x with metadata := { a with
      definition := relaxText a.definition b.definition, accession := relaxText a.accession b.accession,
      version := relaxText a.version b.version, keywords := relaxText a.keywords b.keywords,
      source := relaxText a.source b.source, organism := relaxText a.organism b.organism,
      references := relaxRefs 0 a.references b.references,
      other := a.other.map fun kv => (kv.1, relaxText kv.2 (StrBuild.lookupD b.other kv.1)) } }

def firstDiff (a b : Str) : Nat := ((a.zip b).takeWhile fun (p : Char × Char) => p.1 == p.2).length

def snippet (s : Str) (at_ : Nat) : String := String.ofList ((s.drop (at_ - 40)).take 120)

def sizeTag (n : Nat) : String :=
  if n = 0 then "0" else if n ≤ 3 then "1-3" else if n ≤ 10 then "4-10" else "11+"

def judgeRec (kind : String) (x : Sequence) (tail : List String) : Verdict :=
  match tail with
  | out :: identical :: pst :: wrst :: yf =>
    let outL := out.toList
    let m := build x MapOrders.id
    let m2 := build x otherOrders
    let y := (decodeRec yf).map (·.1)
    -- the parser model on the model's text against the real parser on the real text
    -- (`Genbank.parse` leaves `parseLocation` to property C02's model: a panic there is a panic of Parse)
    let locPanics (ym : Genbank.Sequence) : Bool :=
      ym.features.any fun f => match Location.parseLocation f.gbkLoc with | .panic => true | _ => false
    -- (on the REAL text: it is the model's text whenever the writer corresponds)
    let pcorr := match Genbank.parse outL, pst, y with
      | .ok ym, "ok", some yr => !locPanics ym && parsedSame ym yr
      | .ok ym, "panic", _ => locPanics ym
      | .panic, "panic", _ => true
      | _, _, _ => false
    -- `img`: the cached location text the real parser reported must denote the structure it reported — when the
    -- text IS a location (INSDC grammar, 3′ marker on either side of the end position: the quantifier of C02);
    -- what `parseLocation` makes of any other text (`bX`, `acc:1..4`, `3^4`, unbalanced) no property constrains
    let isLocationText (t : Str) : Bool := (Insdc.insdcLenient t).isSome
    let cacheOk := kind == "rec" || x.features.all fun f =>
      f.gbkLocationString == [] || !isLocationText f.gbkLocationString || cacheConsistent f
    let layoutDom := wfLayoutJ x
    let rtDom := wfSeqJ x
    let thmDom := wfSeq x
    let c2 := identical == "true"
    let got := strictRead outL
    -- a LOCUS line cannot carry an empty name (`nameless_class_fails`: no text is read back as a name-less record): of a
    -- name-less record the independent reader must recover everything the record HAS, under whatever name the line carries
    let c3 := if clsNameless x then
                (match got with | some r => r == { abs x with locus := { (abs x).locus with name := r.locus.name } } | none => false)
              else got == some (abs x)
    let diffs := match y with | some y => diffFields (withDefaultIndex x) y | none => ["unparsed"]
    -- `Reference.Index` is preserved when set; an unset one comes back as the position (be39eee)
    let xd := withDefaultIndex x
    -- judged on every record of the layout domain below 10^8 bases; `seqEquivPart` = `seqEquiv` on the round-trip domain
    let rtJudged := layoutDom && x.sequence.length < 100000000
    let c4 := pst == "ok" && wrst == "same" && (match y with | some y => seqEquivPart xd y && codingOk x y | none => false)
    let j := c2 && c3 && (!rtJudged || c4)
    -- the two known findings (disjoint classes, name-less first): a FAILING case is tagged when it fails only where
    -- the finding says (see `recEqK` / `relaxTo` above); a difference anywhere else is a new failure
    let nameless := clsNameless x
    let anyKf := clsBlankRun x || nameless
    -- name-less: the finding excuses the name and the length only.  Either the strict reader reads the text as it is
    -- and everything but name / length is as given, or it does so once a placeholder name is INSERTED into the
    -- implementation's own LOCUS line (`LOCUS   <length> bp …` without a length has no token for the name)
    let xp : Sequence := { x with metadata := { x.metadata with locus := { x.metadata.locus with name := "x".toList } } }
    let inserted : Str :=
      if ("LOCUS       ".toList).isPrefixOf outL then "LOCUS       x     ".toList ++ outL.drop 12 else outL
    let c3K := if nameless then
                 (match got with
                  | some r => recEqK { abs x with locus := { (abs x).locus with name := r.locus.name, length := r.locus.length } } r
                  | none => false)
                 || (match strictRead inserted with | some r => recEqK (abs xp) r | none => false)
               else (match got with | some r => recEqK (abs x) r | none => false)
    let c4K := pst == "ok" && wrst == "same" && (match y with
      | some y =>
        if nameless then
          seqEquiv (relaxTo { xd with metadata := { xd.metadata with locus :=
            { xd.metadata.locus with name := y.metadata.locus.name, sequenceLength := y.metadata.locus.sequenceLength } } } y) y
        else seqEquiv (relaxTo xd y) y && codingOk x y
      | none => false)
    let kf := if anyKf && !j && c2 && c3K && (!rtJudged || c4K) then
        (if clsBlankRun x then " kf:C03-blank-run-at-wrap" else "") ++ (if nameless then " kf:C03-nameless-locus" else "")
      else ""
    -- correspondence: the writer byte for byte, the parser model where the round trip is demanded (`rtDom`).
    -- On an input of one of the two known-finding classes the model mirrors the recorded DEFECT: its bytes are not the
    -- standard there, the property is.  So on such an input a reply that differs from the model is
    --  * tagged (still the known finding): not a correspondence failure;
    --  * passing (the defect was repaired): drift, reported as `skip` + DIFF with the class suffix `/kf-repaired`;
    --  * failing somewhere else: an ordinary FAIL.
    let corrStrict := outL == m && m2 == m && (!rtJudged || pcorr) && cacheOk
    let repaired := anyKf && j && !corrStrict
    -- (tagged name-less: every line after the LOCUS line is still compared byte for byte)
    let restOf (t : Str) : Str := t.dropWhile (· != '\n')
    let corr := if kf != "" then m2 == m && cacheOk && (!nameless || restOf outL == restOf m) else corrStrict
    -- regression classes of the three repaired defects (evidence only; they are judged like every other case)
    let reg := (if clsLocusSearch x then "/locus-token" else "")
      ++ (if clsSubKeyword m || clsTopKeyword m then "/keyword-at-line-start" else "")
      ++ (if clsRefWrapped m then "/reference-wrapped" else "") ++ (if clsOddQuote x then "/odd-quote" else "")
      ++ (if !wfRefIndex 0 x.metadata.references then "/own-reference-number" else "")
    let wraps := (headerLines m).any isCont
    let cached := x.features.any fun f => f.gbkLocationString != []
    let structural := x.features.any fun f => f.gbkLocationString == []
    let triv := x.features.isEmpty && !wraps
    let why :=
      (if c2 then "" else "[builds differ]") ++ (if c3 then "" else "[strict reader: " ++
          (match strictRead outL with | some _ => "other record" | none => "rejected") ++ "]")
        ++ (if !rtJudged || c4 then "" else "[round trip: parse=" ++ pst ++ " write/read=" ++ wrst ++ " differing: " ++ ", ".intercalate diffs ++ "]")
        ++ (if layoutDom then "" else "[outside the layout domain: " ++ whyNotLayout x ++ "]")
        ++ (if pcorr then "" else "[parser model differs from the real parser on this text]")
        ++ (if cacheOk then "" else "[a cached location text reported by the real parser does not denote the structure it reported]")
        ++ (if outL == m && m2 == m then "" else
              let k := firstDiff outL m
              "[model differs at " ++ toString k ++ ": impl …" ++ snippet outL k ++ "… model …" ++ snippet m k ++ "…]")
    { corr := corr,
      judge := if layoutDom && !repaired then some j else none,
      cls := (if triv then "triv:" else "") ++ kind ++ "/feat" ++ sizeTag x.features.length ++ "/ref" ++ sizeTag x.metadata.references.length
             ++ "/other" ++ sizeTag x.metadata.other.length ++ (if wraps then "/wrap" else "") ++ (if cached then "/cached" else "")
             ++ (if structural then "/structural" else "") ++ (if rtDom then "/rt" else if rtJudged then "/rt-part" else if layoutDom then "/layout-only" else "/out")
             ++ (if thmDom then "/thm" else "") ++ (if wfLayoutG x then "/lay" else "")
             ++ (if Spec.GbRoundTrip.covered x then "/pb" else "")
             ++ (if x.sequence.length > 10000 then "/long" else "") ++ reg ++ (if repaired then "/kf-repaired" else "") ++ kf,
      detail := why }
  | _ => { corr := false, judge := none, cls := kind ++ "/bad-reply", detail := "bad reply" }

def judge (f out : List String) : Verdict :=
  match f, out with
  | "rec" :: r, "ok" :: "-" :: tail =>
    match decodeRec r with
    | some (x, []) => judgeRec "rec" x tail
    | _ => { corr := false, judge := none, cls := "bad-case", detail := "bad case" }
  | "img" :: _, "ok" :: "x" :: rest =>
    match decodeRec rest with
    | some (x, tail) => judgeRec "img" x tail
    | none => { corr := false, judge := none, cls := "img/bad-reply", detail := "bad reply" }
  | "img01" :: _, "ok" :: "x" :: rest =>
    match decodeRec rest with
    | some (x, tail) => judgeRec "img01" x tail
    | none => { corr := false, judge := none, cls := "img/bad-reply", detail := "bad reply" }
  | kind :: args, st :: _ =>
    if kind == "img" || kind == "img01" then
      -- the real parser did not return on a text that the framework's own writers laid out.  The parser MODEL
      -- (C01) decides: if it (and C02's parseLocation on every location text) parses the text, this is a failure
      -- of the real code on a well-formed file — FAIL, not a silent skip; if the model panics too, the text is
      -- outside the parser's image (C01's subject) and the two agree.
      let text : Str := match render f with | [_, t] => t.toList | _ => []
      let modelOk := match Genbank.parse text with
        | .ok ym => !(ym.features.any fun ft => match Location.parseLocation ft.gbkLoc with | .panic => true | _ => false)
        | _ => false
      if modelOk then
        { corr := false, judge := some false, cls := kind ++ "/not-parsed:" ++ st,
          detail := "genbank.Parse did not return (" ++ st ++ ") on a well-formed file that the parser model reads" }
      else { corr := true, judge := none, cls := kind ++ "/not-parsed-model-agrees:" ++ st, detail := "" }
    else if kind == "rec" then
      -- Build itself failed: a violation when the record is in the domain
      match decodeRec args with
      | some (x, []) => { corr := false, judge := if wfLayoutJ x then some false else none, cls := "rec/build-" ++ st,
                          detail := "Build did not return: " ++ st }
      | _ => { corr := false, judge := none, cls := "bad-case", detail := "bad case" }
    else { corr := false, judge := none, cls := "bad-case", detail := "bad case" }
  | _, _ => { corr := false, judge := none, cls := "bad-case", detail := "bad case" }

def driver : PropDriver := { render, judge }
end PolyVerif.Driver.C03
