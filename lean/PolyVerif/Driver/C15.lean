import PolyVerif.Model.PolyJson
import PolyVerif.Spec.JsonLossless
import PolyVerif.Base.JsonRead
import PolyVerif.Model.PolyJsonViews
import PolyVerif.Spec.GbStrict
import PolyVerif.Spec.GffLayout
/-
Driver for C15.  Cases (abstract) → requests (concrete), and the judge.

  rt   <canon x>              the whole property on one generated annotated sequence
  dec  <canon x> <n>          decoder rules outside the property's domain: `toJ x` with the n-th
                              member dropped / nulled / renamed to an unknown name / moved (not judged)
  conv gbk|gff <file text>    conversion clause on a generated GenBank / GFF file

"canon" is the value syntax shared with harness/cmd/run-io/ops_c15.go (see there).
-/
namespace PolyVerif.Driver.C15
open PolyVerif PolyVerif.PolyJson

/-! ### canon: printing -/

def cSPlain (s : S) : String := "s" ++ ".".intercalate (s.map toString)

/-- smallest `p ≤ 64` such that `s` is its first `p` code points repeated (tried from `p` upwards, fuel `k`) -/
def periodFrom (s : S) (n : Nat) : Nat → Nat → Option Nat
  | 0, _ => none
  | k + 1, p => if n % p == 0 && s.drop p == s.take (n - p) then some p else periodFrom s n k (p + 1)

/-- a string token.  Long exactly-periodic strings (genome-sized test sequences) are written
`r<count>*s<unit>`; the harness uses the same rule (ops_c15.go `c15StrTok`) -/
def cS (s : S) : String :=
  let n := s.length
  if n < 4096 then cSPlain s
  else match periodFrom s n 64 1 with
    | some p => s!"r{n / p}*" ++ cSPlain (s.take p)
    | none => cSPlain s
def cI (i : Int) : String := "i" ++ toString i
def cB (b : Bool) : String := if b then "b1" else "b0"

def cMap : SMap → List String
  | none => ["nil"]
  | some kvs => ["<"] ++ kvs.flatMap (fun p => [cS p.1, cS p.2]) ++ [">"]

def cSlice {α : Type} (f : α → List String) : Option (List α) → List String
  | none => ["nil"]
  | some xs => ["["] ++ xs.flatMap f ++ ["]"]

mutual
def cLoc : Location → List String
  | .mk s e c j f t subs =>
    ["{", "Start", cI s, "End", cI e, "Complement", cB c, "Join", cB j, "FivePrimePartial", cB f,
     "ThreePrimePartial", cB t, "SubLocations"] ++ cLocSubs subs ++ ["}"]
def cLocSubs : Option (List Location) → List String
  | none => ["nil"]
  | some xs => ["["] ++ cLocList xs ++ ["]"]
def cLocList : List Location → List String
  | [] => []
  | x :: xs => cLoc x ++ cLocList xs
end

def cLocus (l : Locus) : List String :=
  ["{", "Name", cS l.name, "SequenceLength", cS l.sequenceLength, "MoleculeType", cS l.moleculeType,
   "GenbankDivision", cS l.genbankDivision, "ModificationDate", cS l.modificationDate,
   "SequenceCoding", cS l.sequenceCoding, "Circular", cB l.circular, "Linear", cB l.linear, "}"]

def cRef (r : Reference) : List String :=
  ["{", "Index", cS r.index, "Authors", cS r.authors, "Title", cS r.title, "Journal", cS r.journal,
   "PubMed", cS r.pubMed, "Remark", cS r.remark, "Range", cS r.range, "}"]

def cMeta (m : Meta) : List String :=
  ["{", "Name", cS m.name, "GffVersion", cS m.gffVersion, "RegionStart", cI m.regionStart,
   "RegionEnd", cI m.regionEnd, "Size", cI m.size, "Type", cS m.type, "Date", cS m.date,
   "Definition", cS m.definition, "Accession", cS m.accession, "Version", cS m.version,
   "Keywords", cS m.keywords, "Organism", cS m.organism, "Source", cS m.source, "Origin", cS m.origin,
   "Locus"] ++ cLocus m.locus ++ ["References"] ++ cSlice cRef m.references ++ ["Other"] ++ cMap m.other ++ ["}"]

def cFeature (root : S) (f : Feature) : List String :=
  ["{", "Name", cS f.name, "Source", cS f.source, "Type", cS f.type, "Score", cS f.score,
   "Strand", cS f.strand, "Phase", cS f.phase, "Attributes"] ++ cMap f.attributes ++
  ["GbkLocationString", cS f.gbkLocationString, "Sequence", cS f.sequence, "SequenceLocation"] ++
  cLoc f.sequenceLocation ++
  ["SequenceHash", cS f.sequenceHash, "Description", cS f.description,
   "SequenceHashFunction", cS f.sequenceHashFunction, "ParentSequence"] ++
  (match f.parent with
   | none => ["nil"]
   | some p => if p == root then ["^", "="] else ["^", cS p]) ++ ["}"]

def cSeq (x : Sequence) : List String :=
  ["{", "Meta"] ++ cMeta x.metadata ++
  ["Description", cS x.description, "SequenceHash", cS x.sequenceHash,
   "SequenceHashFunction", cS x.sequenceHashFunction, "Sequence", cS x.sequence, "Features"] ++
  cSlice (cFeature x.sequence) x.features ++ ["}"]

def canon (x : Sequence) : String := " ".intercalate (cSeq x)

/-! ### canon: reading (fields by name, any order; unknown field = failure) -/

abbrev P (α : Type) := List String → Option (α × List String)

def pSTokPlain (t : String) : Option S :=
  match t.toList with
  | 's' :: rest =>
    if rest.isEmpty then some [] else ((String.ofList rest).splitOn ".").mapM String.toNat?
  | _ => none

def pSTok (t : String) : Option S :=
  match t.toList with
  | 'r' :: rest =>
    match (String.ofList rest).splitOn "*" with
    | [count, unit] =>
      match count.toNat?, pSTokPlain unit with
      | some k, some u => some (List.replicate k u).flatten
      | _, _ => none
    | _ => none
  | _ => pSTokPlain t

def pStr : P S
  | t :: ts => (pSTok t).map (·, ts)
  | [] => none

def pInt : P Int
  | t :: ts =>
    match t.toList with
    | 'i' :: r => (String.ofList r).toInt?.map (·, ts)
    | _ => none
  | [] => none

def pBool : P Bool
  | "b0" :: ts => some (false, ts)
  | "b1" :: ts => some (true, ts)
  | _ => none

def pMapEntries : Nat → List String → List (S × S) → Option (List (S × S) × List String)
  | 0, _, _ => none
  | _ + 1, ">" :: ts, acc => some (acc, ts)
  | f + 1, k :: v :: ts, acc =>
    match pSTok k, pSTok v with
    | some k, some v => pMapEntries f ts (mapInsert k v acc)
    | _, _ => none
  | _, _, _ => none

def pMap : P SMap
  | "nil" :: ts => some (none, ts)
  | "<" :: ts => (pMapEntries (ts.length + 1) ts []).map fun p => (some p.1, p.2)
  | _ => none

def pElems {α : Type} (pe : P α) : Nat → List String → List α → Option (List α × List String)
  | 0, _, _ => none
  | _ + 1, "]" :: ts, acc => some (acc.reverse, ts)
  | f + 1, ts, acc =>
    match pe ts with
    | some (a, ts') => pElems pe f ts' (a :: acc)
    | none => none

def pSlice {α : Type} (pe : P α) : P (Option (List α))
  | "nil" :: ts => some (none, ts)
  | "[" :: ts => (pElems pe (ts.length + 1) ts []).map fun p => (some p.1, p.2)
  | _ => none

/-- skip one value of any shape (a scalar token, `nil`, `^ tok`, or a bracketed group) -/
def skipValue : Nat → Nat → List String → Option (List String)
  | 0, _, _ => none
  | _ + 1, 0, t :: ts =>
    if t == "{" || t == "[" || t == "<" then skipValue (ts.length + 1) 1 ts
    else if t == "^" then some (ts.drop 1)
    else some ts
  | f + 1, depth + 1, t :: ts =>
    if t == "{" || t == "[" || t == "<" then skipValue f (depth + 2) ts
    else if t == "}" || t == "]" || t == ">" then (if depth == 0 then some ts else skipValue f depth ts)
    else skipValue f (depth + 1) ts
  | _, _, [] => none

/-- the fields of a struct up to `}`.  `lax`: a field the model does not know (or cannot read) is skipped instead of
failing the whole value — used to keep judging the known fields when the Go struct has gained a field -/
def pFields {α : Type} (lax : Bool) (setField : String → α → P α) : Nat → List String → α → Option (α × List String)
  | 0, _, _ => none
  | _ + 1, "}" :: ts, acc => some (acc, ts)
  | f + 1, name :: ts, acc =>
    match setField name acc ts with
    | some (acc', ts') => pFields lax setField f ts' acc'
    | none =>
      if lax then
        match skipValue (ts.length + 1) 0 ts with
        | some ts' => pFields lax setField f ts' acc
        | none => none
      else none
  | _, [], _ => none

def pStruct {α : Type} (lax : Bool) (zero : α) (setField : String → α → P α) : P α
  | "{" :: ts => pFields lax setField (ts.length + 1) ts zero
  | _ => none

def with_ {α β : Type} (p : P β) (k : β → α) : P α := fun ts => (p ts).map fun r => (k r.1, r.2)

mutual
def pLoc (lax : Bool) : Nat → P Location
  | 0, _ => none
  | f + 1, "{" :: ts => pLocFields lax f ts Location.zero
  | _, _ => none
def pLocFields (lax : Bool) : Nat → List String → Location → Option (Location × List String)
  | 0, _, _ => none
  | _ + 1, "}" :: ts, acc => some (acc, ts)
  | n + 1, name :: ts, .mk s e c j f t subs =>
    match name with
    | "Start" => match pInt ts with | some (v, ts) => pLocFields lax n ts (.mk v e c j f t subs) | none => none
    | "End" => match pInt ts with | some (v, ts) => pLocFields lax n ts (.mk s v c j f t subs) | none => none
    | "Complement" => match pBool ts with | some (v, ts) => pLocFields lax n ts (.mk s e v j f t subs) | none => none
    | "Join" => match pBool ts with | some (v, ts) => pLocFields lax n ts (.mk s e c v f t subs) | none => none
    | "FivePrimePartial" => match pBool ts with | some (v, ts) => pLocFields lax n ts (.mk s e c j v t subs) | none => none
    | "ThreePrimePartial" => match pBool ts with | some (v, ts) => pLocFields lax n ts (.mk s e c j f v subs) | none => none
    | "SubLocations" =>
      match ts with
      | "nil" :: ts => pLocFields lax n ts (.mk s e c j f t none)
      | "[" :: ts => match pLocList lax n ts [] with
        | some (l, ts) => pLocFields lax n ts (.mk s e c j f t (some l))
        | none => none
      | _ => none
    | _ =>
      if lax then
        match skipValue (ts.length + 1) 0 ts with
        | some ts' => pLocFields lax n ts' (.mk s e c j f t subs)
        | none => none
      else none
  | _, [], _ => none
def pLocList (lax : Bool) : Nat → List String → List Location → Option (List Location × List String)
  | 0, _, _ => none
  | _ + 1, "]" :: ts, acc => some (acc.reverse, ts)
  | n + 1, ts, acc =>
    match pLoc lax n ts with
    | some (l, ts) => pLocList lax n ts (l :: acc)
    | none => none
end

def pLocation (lax : Bool) : P Location := fun ts => pLoc lax (ts.length + 1) ts

def pLocus (lax : Bool) : P Locus := pStruct lax Locus.zero fun name l =>
  match name with
  | "Name" => with_ pStr fun v => { l with name := v }
  | "SequenceLength" => with_ pStr fun v => { l with sequenceLength := v }
  | "MoleculeType" => with_ pStr fun v => { l with moleculeType := v }
  | "GenbankDivision" => with_ pStr fun v => { l with genbankDivision := v }
  | "ModificationDate" => with_ pStr fun v => { l with modificationDate := v }
  | "SequenceCoding" => with_ pStr fun v => { l with sequenceCoding := v }
  | "Circular" => with_ pBool fun v => { l with circular := v }
  | "Linear" => with_ pBool fun v => { l with linear := v }
  | _ => fun _ => none

def pRef (lax : Bool) : P Reference := pStruct lax Reference.zero fun name r =>
  match name with
  | "Index" => with_ pStr fun v => { r with index := v }
  | "Authors" => with_ pStr fun v => { r with authors := v }
  | "Title" => with_ pStr fun v => { r with title := v }
  | "Journal" => with_ pStr fun v => { r with journal := v }
  | "PubMed" => with_ pStr fun v => { r with pubMed := v }
  | "Remark" => with_ pStr fun v => { r with remark := v }
  | "Range" => with_ pStr fun v => { r with range := v }
  | _ => fun _ => none

def pMeta (lax : Bool) : P Meta := pStruct lax Meta.zero fun name m =>
  match name with
  | "Name" => with_ pStr fun v => { m with name := v }
  | "GffVersion" => with_ pStr fun v => { m with gffVersion := v }
  | "RegionStart" => with_ pInt fun v => { m with regionStart := v }
  | "RegionEnd" => with_ pInt fun v => { m with regionEnd := v }
  | "Size" => with_ pInt fun v => { m with size := v }
  | "Type" => with_ pStr fun v => { m with type := v }
  | "Date" => with_ pStr fun v => { m with date := v }
  | "Definition" => with_ pStr fun v => { m with definition := v }
  | "Accession" => with_ pStr fun v => { m with accession := v }
  | "Version" => with_ pStr fun v => { m with version := v }
  | "Keywords" => with_ pStr fun v => { m with keywords := v }
  | "Organism" => with_ pStr fun v => { m with organism := v }
  | "Source" => with_ pStr fun v => { m with source := v }
  | "Origin" => with_ pStr fun v => { m with origin := v }
  | "Locus" => with_ (pLocus lax) fun v => { m with locus := v }
  | "References" => with_ (pSlice (pRef lax)) fun v => { m with references := v }
  | "Other" => with_ pMap fun v => { m with other := v }
  | _ => fun _ => none

def pParent (root : S) : P (Option S)
  | "nil" :: ts => some (none, ts)
  | "^" :: "=" :: ts => some (some root, ts)
  | "^" :: t :: ts => (pSTok t).map fun s => (some s, ts)
  | _ => none

def pFeature (lax : Bool) (root : S) : P Feature := pStruct lax Feature.zero fun name f =>
  match name with
  | "Name" => with_ pStr fun v => { f with name := v }
  | "Source" => with_ pStr fun v => { f with source := v }
  | "Type" => with_ pStr fun v => { f with type := v }
  | "Score" => with_ pStr fun v => { f with score := v }
  | "Strand" => with_ pStr fun v => { f with strand := v }
  | "Phase" => with_ pStr fun v => { f with phase := v }
  | "Attributes" => with_ pMap fun v => { f with attributes := v }
  | "GbkLocationString" => with_ pStr fun v => { f with gbkLocationString := v }
  | "Sequence" => with_ pStr fun v => { f with sequence := v }
  | "SequenceLocation" => with_ (pLocation lax) fun v => { f with sequenceLocation := v }
  | "SequenceHash" => with_ pStr fun v => { f with sequenceHash := v }
  | "Description" => with_ pStr fun v => { f with description := v }
  | "SequenceHashFunction" => with_ pStr fun v => { f with sequenceHashFunction := v }
  | "ParentSequence" => with_ (pParent root) fun v => { f with parent := v }
  | _ => fun _ => none

def pSeq (lax : Bool) : P Sequence := pStruct lax Sequence.zero fun name x =>
  match name with
  | "Meta" => with_ (pMeta lax) fun v => { x with metadata := v }
  | "Description" => with_ pStr fun v => { x with description := v }
  | "SequenceHash" => with_ pStr fun v => { x with sequenceHash := v }
  | "SequenceHashFunction" => with_ pStr fun v => { x with sequenceHashFunction := v }
  | "Sequence" => with_ pStr fun v => { x with sequence := v }
  | "Features" => with_ (pSlice (pFeature lax x.sequence)) fun v => { x with features := v }
  | _ => fun _ => none

def uncanon (text : String) : Option Sequence :=
  match pSeq false (text.splitOn " ") with
  | some (x, []) => some x
  | _ => none

/-- the fields the model knows of a value that has fields it does not know -/
def uncanonLax (text : String) : Option Sequence :=
  match pSeq true (text.splitOn " ") with
  | some (x, []) => some x
  | _ => none

/-- the harness prints a Go string that is not valid UTF-8 as an `x<byte>.<byte>…` token -/
def hasInvalidTok (c : String) : Bool :=
  (c.splitOn " ").any fun t =>
    match t.toList with
    | 'x' :: d :: _ => d.isDigit
    | _ => false

/-! ### domain checks and classification -/

def validCp (c : Nat) : Bool := c < 0x110000 && !(0xD800 ≤ c && c ≤ 0xDFFF)
def validS (s : S) : Bool := s.all validCp
def int64 (i : Int) : Bool := -9223372036854775808 ≤ i && i ≤ 9223372036854775807
def validMap (m : SMap) : Bool := (m.getD []).all fun p => validS p.1 && validS p.2

mutual
def locOk : Location → Bool
  | .mk s e _ _ _ _ subs => int64 s && int64 e && locSubsOk subs
def locSubsOk : Option (List Location) → Bool
  | none => true
  | some xs => locListOk xs
def locListOk : List Location → Bool
  | [] => true
  | x :: xs => locOk x && locListOk xs
end

mutual
/-- no `Start + 1` overflows (the writers' models exclude integer overflow) -/
def locNoOverflow : Location → Bool
  | .mk s _ _ _ _ _ subs => s < 9223372036854775807 && locSubsNoOverflow subs
def locSubsNoOverflow : Option (List Location) → Bool
  | none => true
  | some xs => locListNoOverflow xs
def locListNoOverflow : List Location → Bool
  | [] => true
  | x :: xs => locNoOverflow x && locListNoOverflow xs
end

mutual
def locDepth : Location → Nat
  | .mk _ _ _ _ _ _ subs => locSubsDepth subs
def locSubsDepth : Option (List Location) → Nat
  | none => 0
  | some xs => locListDepth xs
def locListDepth : List Location → Nat
  | [] => 0
  | x :: xs => max (locDepth x + 1) (locListDepth xs)
end

mutual
def locHasEmpty : Location → Bool
  | .mk _ _ _ _ _ _ subs => locSubsHasEmpty subs
def locSubsHasEmpty : Option (List Location) → Bool
  | none => false
  | some [] => true
  | some (x :: xs) => locListHasEmpty (x :: xs)
def locListHasEmpty : List Location → Bool
  | [] => false
  | x :: xs => locHasEmpty x || locListHasEmpty xs
end

def featStrings (f : Feature) : List S :=
  [f.name, f.source, f.type, f.score, f.strand, f.phase, f.gbkLocationString, f.sequence,
   f.sequenceHash, f.description, f.sequenceHashFunction] ++ (f.attributes.getD []).flatMap (fun p => [p.1, p.2])
   ++ (match f.parent with | some p => [p] | none => [])

def metaStrings (m : Meta) : List S :=
  [m.name, m.gffVersion, m.type, m.date, m.definition, m.accession, m.version, m.keywords, m.organism,
   m.source, m.origin, m.locus.name, m.locus.sequenceLength, m.locus.moleculeType, m.locus.genbankDivision,
   m.locus.modificationDate, m.locus.sequenceCoding]
  ++ (m.references.getD []).flatMap (fun r => [r.index, r.authors, r.title, r.journal, r.pubMed, r.remark, r.range])
  ++ (m.other.getD []).flatMap (fun p => [p.1, p.2])

def allStrings (x : Sequence) : List S :=
  [x.description, x.sequenceHash, x.sequenceHashFunction, x.sequence] ++ metaStrings x.metadata
  ++ (x.features.getD []).flatMap featStrings

/-- inside the property's quantifier *and* representable in Go: valid scalar values (NUL included; the
line protocol's limit), integers in int64, canonical maps -/
def inDomain (x : Sequence) : Bool :=
  x.WF && (allStrings x).all validS && int64 x.metadata.regionStart && int64 x.metadata.regionEnd
  && int64 x.metadata.size && (x.features.getD []).all (fun f => locOk f.sequenceLocation)

def isAscii (s : S) : Bool := asciiS s

def linkedB (x : Sequence) : Bool := (x.features.getD []).all fun f => f.parent == some x.sequence

/-- the value lies in the domain in which property C03 judges `genbank.Build` (named record, letters only, …) -/
def viewDomGbk (x : Sequence) : Bool :=
  let g := x.toGbk
  Spec.GbStrict.wfSeqJ g && g.metadata.locus.name != []

/-- … and property C14 `gff.Build` -/
def viewDomGff (x : Sequence) : Bool := Spec.GffLayout.wfBuild x.toGff

def classOf (x : Sequence) : String :=
  let fs := x.features.getD []
  let depth := fs.foldl (fun d f => max d (locDepth f.sequenceLocation)) 0
  let nonAscii := !(allStrings x).all isAscii
  let hasNil := x.features.isNone || x.metadata.references.isNone || x.metadata.other.isNone
      || fs.any (fun f => f.attributes.isNone)
  let hasEmpty := (match x.features with | some [] => true | _ => false) || x.metadata.references == some [] || x.metadata.other == some []
      || fs.any (fun f => f.attributes == some [] || locHasEmpty f.sequenceLocation)
  let triv := fs.isEmpty && (allStrings x).all List.isEmpty
  let plain := (allStrings x).all fun t => t.all fun c => 32 ≤ c && c ≤ 126
  (if triv then "triv:" else "") ++ (if fs.isEmpty then "nofeat" else s!"d{depth}") ++ (if plain then "/plain" else "") ++ (if plain && viewDomGbk x then "/gbkdom" else "") ++ (if plain && viewDomGff x then "/gffdom" else "") ++ (if nonAscii then "/u" else "")
    ++ (if hasNil then "/nil" else "") ++ (if hasEmpty then "/empty" else "") ++ (if linkedB x then "" else "/unlinked")

/-! ### model outputs in the harness's text form -/

def outcomeStr : Outcome S → String
  | .ok s => "ok:" ++ cS s
  | .panic => "panic"

def getSeqs (x : Sequence) : String := ",".intercalate ((x.features.getD []).map fun f => outcomeStr f.getSeq)

/-- the implementation's GetSequence replies (`,`-separated, one per feature) agree with the model on
every feature whose parent pointer leads to `x`'s own sequence text -/
def getSeqLinkedSame (x : Sequence) (replies : String) : Bool :=
  let fs := x.features.getD []
  if fs.isEmpty then replies == ""
  else
    let rs := replies.splitOn ","
    rs.length == fs.length &&
      (fs.zip rs).all fun p => p.1.parent != some x.sequence ||
        -- what GetSequence does where the location does not evaluate (coordinates outside the sequence: the
        -- model's `panic`) is property C02's subject, not compared here
        (match p.1.getSeq with
         | .ok s => p.2 == outcomeStr (.ok s)
         | .panic => true)

/-- clause 2 per feature, on the implementation's replies only: as many replies as the value has features, before
and after, and every feature that was linked to `x` before reports after the round trip what it reported before -/
def linkedReportsAgree (x : Sequence) (before after : String) : Bool :=
  let fs := x.features.getD []
  if fs.isEmpty then before == "" && after == ""
  else
    let bs := before.splitOn ","
    let as := after.splitOn ","
    bs.length == fs.length && as.length == fs.length &&
      (fs.zip (bs.zip as)).all fun p => p.1.parent != some x.sequence || p.2.1 == p.2.2

def jsonOf (text : String) : Option JVal := JsonRead.parse (ofStr text)
def sameJ (a : Option JVal) (b : JVal) : Bool :=
  match a with
  | some a => a.print == b.print
  | none => false

/-! ### mutation of a document (decoder rules; outside the property's quantifier) -/

mutual
/-- apply `act` to the n-th object member in preorder; returns the remaining count -/
def mutJ (act : Nat) : Nat → JVal → Nat × JVal
  | n, .arr xs => let r := mutList act n xs; (r.1, .arr r.2)
  | n, .obj kvs => let r := mutMembers act n kvs; (r.1, .obj r.2)
  | n, j => (n, j)
def mutList (act : Nat) : Nat → List JVal → Nat × List JVal
  | n, [] => (n, [])
  | n, x :: xs =>
    let r := mutJ act n x
    let r2 := mutList act r.1 xs
    (r2.1, r.2 :: r2.2)
def mutMembers (act : Nat) : Nat → List (S × JVal) → Nat × List (S × JVal)
  | n, [] => (n, [])
  | 0, (k, v) :: rest =>
    -- the chosen member; a count beyond any document size stops further changes
    (1000000000,
      if act % 4 == 0 then rest                                  -- member absent
      else if act % 4 == 1 then (k, .null) :: rest               -- null
      else if act % 4 == 2 then (k ++ ofStr "_x", v) :: rest     -- unknown member name
      else rest ++ [(k, v)])                                     -- other member order
  | n + 1, (k, v) :: rest =>
    let r := mutJ act n v
    let r2 := mutMembers act r.1 rest
    (r2.1, (k, r.2) :: r2.2)
end

def mutate (n : Nat) (j : JVal) : JVal := (mutJ (n / 7) (n % 97) j).2

/-! ### case text -/

/-- `\u{HEX}` escapes in generated file texts (case lines are kept ASCII) -/
def unescU : Option Nat → List Char → List Char → List Char
  | none, '\\' :: 'u' :: '{' :: rest, acc => unescU (some 0) rest acc
  | none, c :: rest, acc => unescU none rest (c :: acc)
  | none, [], acc => acc.reverse
  | some n, '}' :: rest, acc => unescU none rest (Char.ofNat n :: acc)
  | some n, c :: rest, acc => unescU (some (n * 16 + (JsonRead.hexVal c.toNat).getD 0)) rest acc
  | some _, [], acc => acc.reverse

def fileText (s : String) : String := String.ofList (unescU none s.toList [])

def render (f : List String) : List String :=
  match f with
  | ["rt", c] =>
    match uncanon c with
    | some x => ["c15rt", canon x, toStr (toJ x).print]
    | none => ["c15bad"]
  | ["dec", c, n] =>
    match uncanon c with
    | some x => ["c15dec", toStr (mutate (natOfStr n) (toJ x)).print]
    | none => ["c15bad"]
  | ["conv", fmt, text] => ["c15conv", fmt, "text", fileText text]
  | ["conv", fmt, text, flags] =>
    if (flags.splitOn ",").contains "hex" then ["c15conv", fmt, "hex", text]
    else ["c15conv", fmt, "text", fileText text]
  | _ => ["c15bad"]

def bad (why : String) : Verdict := { corr := false, judge := none, cls := "bad-case", detail := why }

def judge (f out : List String) : Verdict :=
  match f with
  | ["rt", c] =>
    match uncanon c with
    | none => bad "case does not parse"
    | some x =>
      let dom := inDomain x
      let mJ := toJ x
      let mRt := polyjsonParse mJ
      let cRt := canon mRt
      -- GetSequence is modelled on ASCII parents (byte = code point, Model/Transform's domain)
      let ascii := isAscii x.sequence
      -- domain of the writers' models: printable ASCII, no integer overflow in `Start + 1`
      let plain := ((allStrings x).all fun t => t.all fun c => 32 ≤ c && c ≤ 126)
        && (x.features.getD []).all (fun f => locNoOverflow f.sequenceLocation)
      -- … and the domains in which C03 / C14 claim their writer models (outside them what Build prints is not
      -- this check's subject: only that it prints the same before and after the round trip)
      let gbkDom := plain && viewDomGbk x
      let gffDom := plain && viewDomGff x
      match out with
      | ["ok", jtext, crt, gsx, gsrt0, ftext, crd0, cfl0, gbx, gbrt0, gfx, gfrt0, crd20, crd30, crd40, refl] =>
        -- the harness's own field-by-field comparison (reflect: whatever fields the Go structs have) of x with the values
        -- read back, in the order Parse(Marshal), Read(Write), the three read histories, Parse(model JSON)
        let rf := refl.splitOn ","
        let rfAt (i : Nat) : Bool := rf.getD i "" == "same"
        let crd2 := if crd20 == "=" then crt else crd20
        let crd3 := if crd30 == "=" then crt else crd30
        let crd4 := if crd40 == "=" then crt else crd40
        -- "=" : the harness found the field byte-identical to the one it is compared with
        let gsrt := if gsrt0 == "=" then gsx else gsrt0
        let crd := if crd0 == "=" then crt else crd0
        let cfl := if cfl0 == "=" then crt else cfl0
        let gbrt := if gbrt0 == "=" then gbx else gbrt0
        let gfrt := if gfrt0 == "=" then gfx else gfrt0
        let marshalSame := jtext == toStr mJ.print
        let writeSame := ftext == toStr mJ.printIndent
        let corrParts : List (String × Bool) := [
          -- byte for byte: json.Marshal's text is the Lean printer's text (the premise of the text-level theorems)
          ("marshal-text", !dom || marshalSame),
          -- read as a value (when the bytes agree, `json_text_roundtrip` says the reader returns `mJ`: not re-run)
          ("marshal", marshalSame || sameJ (jsonOf jtext) mJ),
          ("parse", crt == cRt),
          -- before the round trip only features that are linked to `x` report a sequence the property speaks
          -- about; what GetSequence does on a nil or foreign parent pointer is not compared
          ("getseq-before", !ascii || getSeqLinkedSame x gsx),
          ("getseq-after", !ascii || getSeqLinkedSame mRt gsrt),
          -- byte for byte: the file polyjson.Write leaves (MarshalIndent) is the Lean printer's indented text
          ("write-text", !dom || writeSame),
          ("write", writeSame || sameJ (jsonOf ftext) mJ),  -- (`json_indent_roundtrip`)
          ("read", crd == cRt),
          ("read-history", crd2 == cRt && crd3 == cRt && crd4 == cRt),
          ("lean-json", cfl == cRt),
          ("build", gbx == gbrt && gfx == gfrt),
          -- the writers' views (Model/PolyJsonViews) under the C03 / C14 writer models are what the real writers print
          ("gbk-view", !gbkDom || gbx == "ok:" ++ String.ofList (GenbankBuild.build x.toGbk {})),
          ("gff-view", !gffDom || gfx == "ok:" ++ String.ofList (Gff.build x.toGff))]
        let badCorr := corrParts.filter (!·.2)
        -- the property, on the implementation's outputs only
        -- the spec relation on the fields the model knows (a value with further fields is read without them) AND the
        -- harness's reflection verdict on all fields
        let valueOk (c : String) (i : Nat) : Bool :=
          rfAt i && (match (uncanon c).orElse (fun _ => uncanonLax c) with
                     | some r => Spec.Lossless.sameSeq r x && Spec.Lossless.relinkedOK r
                     | none => false)
        let specParts : List (String × Bool) := [
          ("value after Parse(Marshal x)", valueOk crt 0),
          ("value after Read(Write x) on a path that held a longer document", valueOk crd 1),
          ("Read after the file was replaced by the caller (a longer document had been written and read)", valueOk crd2 2),
          ("Read after the value of an earlier Read was edited in place", valueOk crd3 3),
          ("Read after the file was moved into place with rename", valueOk crd4 4),
          ("value after Parse(model-printed JSON)", valueOk cfl 5),
          ("every linked feature reports the same sequence (one reply per feature)", linkedReportsAgree x gsx gsrt),
          ("genbank.Build equal", gbx == gbrt),
          ("gff.Build equal", gfx == gfrt)]
        let badSpec := specParts.filter (!·.2)
        { corr := badCorr.isEmpty, judge := if dom then some badSpec.isEmpty else none,
          cls := classOf x,
          detail := (if badCorr.isEmpty then "" else "model differs at: " ++ ", ".intercalate (badCorr.map (·.1))
                      ++ "; model json " ++ toStr mJ.print ++ "; model parse " ++ cRt ++ "; model getseq " ++ getSeqs mRt)
                    ++ (if badSpec.isEmpty then "" else " property fails at: " ++ "; ".intercalate (badSpec.map (·.1))) }
      | _ =>
        -- in the domain the real code must answer
        { corr := false, judge := if dom then some false else none, cls := classOf x,
          detail := "implementation did not return a result: " ++ (out.head?.getD "") }
  | ["dec", c, n] =>
    match uncanon c with
    | none => bad "case does not parse"
    | some x =>
      let m := canon (polyjsonParse (mutate (natOfStr n) (toJ x)))
      { corr := out == ["ok", m], judge := none, cls := s!"dec/{(natOfStr n) / 7 % 4}",
        detail := if out == ["ok", m] then "" else m }
  | "conv" :: fmt :: _ :: rest =>
    -- `strict`: the file is a plain well-formed one that the parser and the direct writer must accept
    let strict := match rest with
      | [flags] => (flags.splitOn ",").contains "strict"
      | _ => false
    let pre := "conv/" ++ fmt ++ "/"
    let skipOr (why : String) : Verdict :=
      if strict then { corr := false, judge := some false, cls := pre ++ why,
                       detail := "a plain well-formed generated file was not converted: " ++ why }
      else { corr := true, judge := none, cls := pre ++ "skip:" ++ why, detail := "" }
    match out with
    | ["ok", st] => skipOr ("parser-" ++ st.drop 1)          -- the parser panicked on the generated file
    | ["ok", "ok", cp, direct, jtext, crt, via0, gsp, gsrt0, viaFile0, viaPipe0, viaWrite0, refl] =>
      let via := if via0 == "=" then direct else via0
      let gsrt := if gsrt0 == "=" then gsp else gsrt0
      let viaFile := if viaFile0 == "=" then direct else viaFile0
      let viaPipe := if viaPipe0 == "=" then direct else viaPipe0
      let viaWrite := if viaWrite0 == "=" then direct else viaWrite0
      if cp.startsWith "!" then skipOr "parser-output-unprintable"
      else if hasInvalidTok cp then
        -- NAMED EXCLUSION: a Go string that is not valid UTF-8 (e.g. a Latin-1 byte passed through by the
        -- parsers) is outside "non-ASCII text": encoding/json replaces such bytes by U+FFFD by design
        { corr := true, judge := none, cls := pre ++ "skip:invalid-utf8", detail := "" }
      else
      -- a value with fields the model does not know: the known fields are read and judged as always, all fields by the
      -- harness's reflection verdict; the correspondence cannot hold (the model lacks the field) and says so
      let known := (uncanon cp).isSome
      match (uncanon cp).orElse (fun _ => uncanonLax cp) with
      | none =>
        { corr := false, judge := some false, cls := pre ++ "canon-unreadable",
          detail := "the parser's value cannot be read at all" }
      | some x =>
        if direct.startsWith "!" then skipOr ("direct-build-" ++ direct.drop 1)
        else
        let mJ := toJ x
        let cRt := canon (polyjsonParse mJ)
        let corrParts : List (String × Bool) := [
          ("model-knows-every-field", known),
          ("marshal-text", !inDomain x || jtext == toStr mJ.print),
          ("marshal", jtext == toStr mJ.print || sameJ (jsonOf jtext) mJ),
          ("parse", crt == cRt),
          ("build", direct == via && direct == viaFile && direct == viaPipe && direct == viaWrite)]
        let badCorr := corrParts.filter (!·.2)
        -- from here on every step ran on a value the direct writer accepted: a step that failed
        -- ("!panic" / "!err") differs from `direct` and fails the property
        let specParts : List (String × Bool) := [
          ("same text via Marshal/Parse", direct == via),
          ("same text via Write/Read", direct == viaFile),
          ("same text via MarshalIndent/Unmarshal", direct == viaPipe),
          ("the format's Write over a longer file leaves exactly Build's text", direct == viaWrite),
          ("value", refl == "same" &&
                    (match (uncanon crt).orElse (fun _ => uncanonLax crt) with
                     | some r => Spec.Lossless.sameSeq r x && Spec.Lossless.relinkedOK r
                     | none => false)),
          ("every feature reports the same sequence (one reply per feature)",
            !gsp.startsWith "!" && gsp == gsrt && linkedReportsAgree x gsp gsrt),
          -- a plain file must give a non-empty text and a non-trivial value (a parser or writer that returns
          -- nothing would make the comparison vacuous)
          ("plain file: non-empty text, non-trivial value",
            !strict || (direct != "ok:" && !(classOf x).startsWith "triv:"))]
        let badSpec := specParts.filter (!·.2)
        { corr := badCorr.isEmpty, judge := if inDomain x then some badSpec.isEmpty else none,
          cls := pre ++ classOf x,
          detail := (if badCorr.isEmpty then "" else "model differs at: " ++ ", ".intercalate (badCorr.map (·.1))
                      ++ "; model json " ++ toStr mJ.print ++ "; model parse " ++ cRt)
                    ++ (if badSpec.isEmpty then "" else " property fails at: " ++ "; ".intercalate (badSpec.map (·.1))) }
    | _ =>
      -- the harness process panicked outside the guarded steps, returned an error, crashed, timed out
      -- or was stopped by the race detector: nothing shows the conversion worked
      { corr := false, judge := some false, cls := pre ++ "op-" ++ (out.head?.getD "none"),
        detail := "no usable reply: " ++ (out.head?.getD "none") }
  | _ => bad "bad case"

def driver : PropDriver := { render, judge }
end PolyVerif.Driver.C15
