import PolyVerif.Model.Primers
import PolyVerif.Spec.NearestNeighbor
/-
Driver of C19 (melting temperature).  Floats cross the protocol as IEEE-754 bit patterns
(16 hex digits), so the Go code and the model see identical inputs.

cases
  pt   seq c na mg c2 na2 mg2   four calls: seq, UPPER(seq), lower(seq) at (c,na,mg); seq at (c2,na2,mg2)
  grid seq clist nalist mglist  the whole product of the three (ascending) lists
  mt   seq                      MeltingTemp / SantaLucia at the defaults / MarmurDoty

Domain of the judge = the property's quantifier: A/C/G/T sequences (either case) of length ≥ 2 (an
oligonucleotide has at least one pair of adjacent bases; the quantifier starts at 2) at concentrations
inside the stated ranges.  The empty sequence, a single letter, other letters and out-of-range
concentrations are run for correspondence only (`skip`; a difference there is counted as drift):
what the code does there — a value, NaN, a panic — is not constrained by the property.

Monotonicity on binary64 (what the judge demands of the real float64 results).  STRICT increase of Tm
in each concentration is a fact about the formula over the reals (Props/C19: tm_mono_oligo/na/mg).  In
binary64 two conditions a few ulp apart give the same Tm (ties), so for every pair of in-range
conditions P ≤ P' (coordinate-wise, P ≠ P') of the same oligo (length ≥ 2) — in a grid case: every two
points on a common axis line, neighbours or not; in a pt case: its two conditions — the judge demands
  * WEAK monotonicity always:            Tm(P) ≤ Tm(P')   (a decrease is a failure at any separation);
  * STRICT increase above the resolution: Tm(P) < Tm(P') whenever sep(P,P') ≥ `resolution` = 1e-9, where
      sep = max( (C'-C)/C , (S'-S)/S ),  S = Na + 140 Mg  (the two arguments of the logarithms).
Why 1e-9 is defensible: a relative change ρ of a log argument moves the denominator D = dS + R ln(C/f) by
R·ρ ≈ 2ρ (oligo) resp. 0.368 (N-1) ρ (salt) and Tm by (Tm+273.15)·ΔD/|D| ≥ ~0.1 ρ K over the whole domain
(worst case: N = 200 on the oligo axis, |D| ≈ 5600, T ≈ 350 K); at ρ = 1e-9 that is ≥ 1e-10 K, against an
accumulated rounding error of a few ulp of D (≤ 1e-12) and of Tm (≤ 6e-14) — two orders of magnitude of
margin.  Observed: ties end near ρ ≈ 1e-10 (reviewer, 266k pairs); every run generates close pairs
from 1 ulp to 5 % on all three axes and a tie at sep ≥ 1e-9 is reported as a FAIL.
-/
namespace PolyVerif.Driver.C19
open PolyVerif PolyVerif.Primers PolyVerif.Transform

/-! ### floats on the wire -/

def hexVal (c : Char) : Option Nat :=
  if '0' ≤ c ∧ c ≤ '9' then some (c.toNat - '0'.toNat)
  else if 'a' ≤ c ∧ c ≤ 'f' then some (c.toNat - 'a'.toNat + 10)
  else if 'A' ≤ c ∧ c ≤ 'F' then some (c.toNat - 'A'.toNat + 10)
  else none

def parseBits (s : String) : Option Float :=
  let cs := s.toList
  if cs.length != 16 then none else
  (cs.foldl (fun acc c => match acc, hexVal c with
    | some a, some v => some (a * 16 + v)
    | _, _ => none) (some 0)).map fun n => Float.ofBits (UInt64.ofNat n)

def hexDigit (n : Nat) : Char := if n < 10 then Char.ofNat (48 + n) else Char.ofNat (87 + n)

def bitsStr (f : Float) : String :=
  let n := f.toBits.toNat
  String.ofList ((List.range 16).map fun i => hexDigit ((n >>> (4 * (15 - i))) % 16))

def parseList (s : String) : Option (List Float) :=
  (s.splitOn ",").foldr (fun p acc => match parseBits p, acc with
    | some f, some l => some (f :: l)
    | _, _ => none) (some [])

/-! ### comparing floats -/

def closeAbs (a b tol : Float) : Bool :=
  (a.isNaN && b.isNaN) || a == b || (a - b).abs ≤ tol

/-- relative tolerance (absolute below magnitude 1) -/
def closeRel (a b tol : Float) : Bool :=
  (a.isNaN && b.isNaN) || a == b || (a - b).abs ≤ tol * max 1 (max a.abs b.abs)

def tolAbs : Float := 1e-9
def tolRel : Float := 1e-9

/-- one reply of `SantaLucia`: `none` = panic -/
abbrev Reply := Option (Float × Float × Float)

/-- split the harness reply into (status Tm dH dS) quadruples; `none` if malformed -/
def parseReplies : List String → Option (List Reply)
  | [] => some []
  | "ok" :: t :: h :: s :: rest =>
    match parseBits t, parseBits h, parseBits s, parseReplies rest with
    | some t, some h, some s, some l => some (some (t, h, s) :: l)
    | _, _, _, _ => none
  | "panic" :: _ :: _ :: _ :: rest => (parseReplies rest).map (none :: ·)
  | _ => none

def modelCall (seq : Str) (c na mg : Float) : Reply :=
  match santaLucia floatNum seq c na mg with
  | .ok r => some r
  | .panic => none

/-- correspondence of one call: same status, dH / dS within 1e-9 absolute, Tm within 1e-9 relative -/
def corrCall (m r : Reply) : Bool :=
  match m, r with
  | none, none => true
  | some (t, h, s), some (t', h', s') => closeRel t t' tolRel && closeAbs h h' tolAbs && closeAbs s s' tolAbs
  | _, _ => false

def bitExact (m r : Reply) : Bool :=
  match m, r with
  | none, none => true
  | some (t, h, s), some (t', h', s') => t.toBits == t'.toBits && h.toBits == h'.toBits && s.toBits == s'.toBits
  | _, _ => false

def sameBits (a b : Reply) : Bool := bitExact a b

/-- the spec formula evaluated against a real reply -/
def formulaOk (b : List Spec.Base) (c na mg : Float) (r : Reply) : Bool :=
  match r with
  | some (t, h, s) =>
    closeAbs h (Spec.NN.dHF b) tolAbs && closeAbs s (Spec.NN.dSF b na mg) tolAbs
      && closeRel t (Spec.NN.tmF b c na mg) tolRel
      -- the regime on the reported values (length ≥ 2): negative enthalpy, negative denominator
      && (b.length < 2 ||
          (h < 0 && s + 1.9872 * Float.log (c / Float.ofInt (Spec.NN.symmetryFactor b)) < 0))
  | none => false

/-- the ranges the property quantifies over -/
def inRange (c na mg : Float) : Bool :=
  1e-9 ≤ c && c ≤ 1e-3 && 1e-3 ≤ na && na ≤ 1 && 0 ≤ mg && mg ≤ 0.1

def lower (s : Str) : Str := s.map Char.toLower

def lenClass (n : Nat) : String :=
  if n < 2 then "len<2" else if n ≤ 8 then "len2-8" else if n ≤ 40 then "len9-40" else "len41+"

def seqClass (b : List Spec.Base) : String :=
  (if Spec.NN.selfComplementary b then "selfcomp" else "nonself") ++ "/" ++
  (if Spec.NN.endsInAT b then "endAT" else "endGC") ++ "/" ++ lenClass b.length

def showReply : Reply → String
  | none => "panic"
  | some (t, h, s) => s!"Tm={t} dH={h} dS={s}"

def render (f : List String) : List String :=
  match f with
  | ["pt", s, c, na, mg, c2, na2, mg2] =>
    let cs := s.toList
    ["c19.batch", s, c, na, mg, String.ofList (upper cs), c, na, mg, String.ofList (lower cs), c, na, mg,
      s, c2, na2, mg2]
  | ["grid", s, cl, nal, mgl] => ["c19.grid", s, cl, nal, mgl]
  | ["mt", s] =>
    ["c19.mt", s, bitsStr (floatNum.dec 500 9), bitsStr (floatNum.dec 50 3), bitsStr (floatNum.ofInt 0)]
  | _ => ["bad-case"]

def bad (why : String) : Verdict := { corr := false, judge := none, cls := "bad-case", detail := why }

def getAt {α : Type} (l : List α) (i : Nat) : Option α := l[i]?

/-- relative resolution above which a strict increase is demanded of the binary64 results -/
def resolution : Float := 1e-9

abbrev Cond := Float × Float × Float     -- (oligo, Na, Mg)

def saltOf (p : Cond) : Float := p.2.1 + 140 * p.2.2

def condLe (p q : Cond) : Bool := p.1 ≤ q.1 && p.2.1 ≤ q.2.1 && p.2.2 ≤ q.2.2

def condEq (p q : Cond) : Bool := p.1 == q.1 && p.2.1 == q.2.1 && p.2.2 == q.2.2

/-- separation of two ordered conditions: relative change of the two log arguments -/
def sepOf (p q : Cond) : Float := max ((q.1 - p.1) / p.1) ((saltOf q - saltOf p) / saltOf p)

/-- verdict on one pair with `p ≤ q`, `p ≠ q`: (pass, tie observed, separation) -/
def monoUp (p q : Cond) (r r' : Reply) : Bool × Bool × Float :=
  let sp := sepOf p q
  match r, r' with
  | some (t, _, _), some (t', _, _) =>
    (if sp ≥ resolution then t < t' else t ≤ t', t == t', sp)
  | _, _ => (false, false, sp)

/-- monotonicity verdict on an arbitrary pair of conditions: `none` when they are not ordered
(or equal), else (pass, tie, separation) -/
def monoPair (p q : Cond) (r r' : Reply) : Option (Bool × Bool × Float) :=
  if condEq p q then none
  else if condLe p q then some (monoUp p q r r')
  else if condLe q p then some (monoUp q p r' r)
  else none

def sepClass (sp : Float) : String :=
  if sp < 1e-12 then "sep<1e-12" else if sp < 1e-9 then "sep<1e-9" else if sp < 1e-6 then "sep<1e-6"
  else if sp < 5e-2 then "sep<5e-2" else "sep>=5e-2"

def judgePt (s : String) (c na mg c2 na2 mg2 : Float) (out : List String) : Verdict :=
  let cs := s.toList
  let conds := [(cs, c, na, mg), (upper cs, c, na, mg), (lower cs, c, na, mg), (cs, c2, na2, mg2)]
  let model := conds.map fun (q, c, na, mg) => modelCall q c na mg
  let replies := match out with
    | "ok" :: rest => parseReplies rest
    | _ => none
  match replies with
  | some rs =>
    let okLen := rs.length == 4
    let corr := okLen && (model.zip rs).all fun (m, r) => corrCall m r
    let exact := okLen && (model.zip rs).all fun (m, r) => bitExact m r
    match Spec.NN.basesOf? cs with
    | some b =>
      let inDom := b.length ≥ 2 && inRange c na mg && inRange c2 na2 mg2
      let j := match rs with
        | [r1, r2, r3, r4] =>
          let fa := formulaOk b c na mg r1 && formulaOk b c2 na2 mg2 r4
          let caseInd := sameBits r1 r2 && sameBits r1 r3
          let concInd := match r1, r4 with
            | some (_, h, _), some (_, h', _) => h.toBits == h'.toBits
            | _, _ => false
          (fa, caseInd, concInd)
        | _ => (false, false, false)
      -- the two conditions, when ordered, must give ordered temperatures (weak always, strict above the resolution)
      let mono := if b.length < 2 then none else match rs with
        | [r1, _, _, r4] => monoPair (c, na, mg) (c2, na2, mg2) r1 r4
        | _ => none
      let monoOk := match mono with | some (ok, _, _) => ok | none => true
      let monoTag := match mono with
        | some (_, tie, sp) => "/ordered-" ++ sepClass sp ++ (if tie then "-tie" else "")
        | none => "/unordered"
      let pass := j.1 && j.2.1 && j.2.2 && monoOk
      let why := (if j.1 then "" else "formula ") ++ (if j.2.1 then "" else "case-dependence ") ++
        (if j.2.2 then "" else "dH-depends-on-concentration ") ++ (if monoOk then "" else "Tm-not-monotone ")
      { corr, judge := if inDom then some pass else none,
        cls := "pt/" ++ seqClass b ++ monoTag ++ (if exact then "/bits" else "/tol"),
        detail := if corr && pass then "" else
          why ++ "model: " ++ "; ".intercalate (model.map showReply) ++ " spec: Tm=" ++
            toString (Spec.NN.tmF b c na mg) ++ " dH=" ++ toString (Spec.NN.dHF b) ++ " dS=" ++ toString (Spec.NN.dSF b na mg) }
    | none =>
      { corr, judge := none, cls := "pt/non-acgt",
        detail := if corr then "" else "model: " ++ "; ".intercalate (model.map showReply) }
  | none => { corr := false, judge := if (Spec.NN.basesOf? cs).isSome && cs.length ≥ 2 && inRange c na mg && inRange c2 na2 mg2
                then some false else none,
              cls := "pt/malformed-reply", detail := "model: " ++ "; ".intercalate (model.map showReply) }

def judgeGrid (s : String) (cl nal mgl : List Float) (out : List String) : Verdict :=
  let cs := s.toList
  let nN := nal.length
  let nM := mgl.length
  let points := cl.flatMap fun c => nal.flatMap fun na => mgl.map fun mg => (c, na, mg)
  let model := points.map fun (c, na, mg) => modelCall cs c na mg
  let replies := match out with
    | "ok" :: rest => parseReplies rest
    | _ => none
  let tag := (if cl.length > 1 && nN > 1 && nM > 1 then s!"grid{cl.length}x{nN}x{nM}"
    else if cl.length > 1 && nN ≤ 1 && nM ≤ 1 then "axis-oligo"
    else if nN > 1 && cl.length ≤ 1 && nM ≤ 1 then "axis-na"
    else if nM > 1 && cl.length ≤ 1 && nN ≤ 1 then "axis-mg"
    else "grid-other") ++ "/"
  match replies with
  | some rs =>
    let okLen := rs.length == points.length
    let corr := okLen && (model.zip rs).all fun (m, r) => corrCall m r
    let exact := okLen && (model.zip rs).all fun (m, r) => bitExact m r
    match Spec.NN.basesOf? cs with
    | some b =>
      let inDom := b.length ≥ 2 && !points.isEmpty && points.all fun (c, na, mg) => inRange c na mg
      let ra := rs.toArray
      let pick (i j k : Nat) : Reply := (ra[i * (nN * nM) + j * nM + k]?).getD none
      let formula := okLen && (points.zip rs).all fun ((c, na, mg), r) => formulaOk b c na mg r
      -- enthalpy identical at every condition; entropy identical along the oligo axis
      let dHconst := okLen && match rs with
        | some (_, h, _) :: rest => rest.all fun r => match r with
          | some (_, h', _) => h.toBits == h'.toBits
          | none => false
        | _ => false
      let idx (n : Nat) := List.range n
      let dSconst := okLen && (idx cl.length).all fun i => (idx nN).all fun j => (idx nM).all fun k =>
        match pick 0 j k, pick i j k with
        | some (_, _, s0), some (_, _, s1) => s0.toBits == s1.toBits
        | _, _ => false
      let ca := cl.toArray
      let naa := nal.toArray
      let mga := mgl.toArray
      let cond (i j k : Nat) : Cond := (ca[i]?.getD 0, naa[j]?.getD 0, mga[k]?.getD 0)
      -- every pair of grid points on a common axis line (all i < j, not only neighbours: strictness above the
      -- resolution is not transitive, so a chain of sub-resolution ties must be closed end to end):
      -- weak monotonicity always, strict above the resolution
      let later (i n : Nat) : List Nat := (idx n).filter (· > i)
      let pairs : List (Bool × Bool × Float) :=
        if b.length < 2 || !okLen then [] else
        (idx cl.length).flatMap fun i => (idx nN).flatMap fun j => (idx nM).flatMap fun k =>
          (((later i cl.length).map fun i' => monoPair (cond i j k) (cond i' j k) (pick i j k) (pick i' j k)) ++
           ((later j nN).map fun j' => monoPair (cond i j k) (cond i j' k) (pick i j k) (pick i j' k)) ++
           ((later k nM).map fun k' => monoPair (cond i j k) (cond i j k') (pick i j k) (pick i j k'))).filterMap id
      let mono := (b.length < 2 || okLen) && pairs.all (·.1)
      let anyTie := pairs.any (·.2.1)
      let minSep := pairs.foldl (fun m p => if p.2.2 < m then p.2.2 else m) 1e300
      let sepTag := if pairs.isEmpty then "" else "/" ++ sepClass minSep ++ (if anyTie then "-tie" else "")
      let pass := formula && dHconst && dSconst && mono
      let why := (if formula then "" else "formula ") ++ (if dHconst then "" else "dH-depends-on-concentration ") ++
        (if dSconst then "" else "dS-depends-on-oligo-concentration ") ++
        (if mono then "" else "Tm-not-monotone(decrease, or tie at separation>=1e-9) ")
      { corr, judge := if inDom then some pass else none,
        cls := (if b.length ≥ 2 && points.length < 2 then "triv:" else "") ++ tag ++ seqClass b ++ sepTag ++ (if exact then "/bits" else "/tol"),
        detail := if corr && pass then "" else why ++ "model: " ++ "; ".intercalate (model.map showReply) }
    | none =>
      { corr, judge := none, cls := tag ++ "non-acgt",
        detail := if corr then "" else "model: " ++ "; ".intercalate (model.map showReply) }
  | none =>
    -- a panic of the whole op (empty sequence) or a malformed reply
    let allPanic := !model.isEmpty && model.all (·.isNone)
    let corr := allPanic && (match out with | "panic" :: _ => true | _ => false)
    { corr, judge := if (Spec.NN.basesOf? cs).isSome && cs.length ≥ 2 && (points.all fun (c, na, mg) => inRange c na mg)
                then some false else none,
      cls := tag ++ "no-reply", detail := "model: " ++ "; ".intercalate (model.map showReply) }

def judgeMt (s : String) (out : List String) : Verdict :=
  let cs := s.toList
  let c0 := floatNum.dec 500 9
  let na0 := floatNum.dec 50 3
  let mg0 := floatNum.ofInt 0
  let mMt : Option Float := match meltingTemp floatNum cs with | .ok t => some t | .panic => none
  let mSl : Option Float := (modelCall cs c0 na0 mg0).map (·.1)
  let mMd := marmurDoty floatNum cs
  let one (st v : String) : Option (Option Float) :=
    if st == "ok" then (parseBits v).map some else if st == "panic" then some none else none
  let detail := s!"model: MeltingTemp={mMt} SantaLucia={mSl} MarmurDoty={mMd}"
  match out with
  | ["ok", st1, v1, st2, v2, st3, v3] =>
    match one st1 v1, one st2 v2, one st3 v3 with
    | some rMt, some rSl, some rMd =>
      let cmp (m r : Option Float) : Bool := match m, r with
        | none, none => true
        | some a, some b => closeRel a b tolRel
        | _, _ => false
      let corr := cmp mMt rMt && cmp mSl rSl && (match rMd with | some d => d.toBits == mMd.toBits | none => false)
      match Spec.NN.basesOf? cs with
      | some b =>
        let inDom := b.length ≥ 2
        -- (d) the helper equals the general function at the defaults, bit for bit, and those are
        --     500 nM / 50 mM / 0 (the spec formula at the spec's own constants)
        let dflt := match rMt, rSl with
          | some a, some b' => a.toBits == b'.toBits && closeRel a (Spec.NN.tmF b 500e-9 50e-3 0) tolRel
          | _, _ => false
        -- (e) Marmur–Doty exactly
        let md := match rMd with
          | some d => d.toBits == (Float.ofInt (Spec.NN.marmurDoty b)).toBits
          | none => false
        let why := (if dflt then "" else "MeltingTemp≠SantaLucia(defaults) ") ++ (if md then "" else "MarmurDoty ")
        { corr, judge := if inDom then some (dflt && md) else none,
          cls := "mt/" ++ seqClass b,
          detail := if corr && dflt && md then "" else why ++ detail ++ s!" spec: Tm={Spec.NN.tmF b 500e-9 50e-3 0} MD={Spec.NN.marmurDoty b}" }
      | none => { corr, judge := none, cls := "mt/non-acgt", detail := if corr then "" else detail }
    -- an unreadable inner field on an in-domain case is a FAILURE (mt cases are the only judge of the
    -- default-helper and Marmur–Doty clauses), not a skip
    | _, _, _ => { corr := false, judge := if (Spec.NN.basesOf? cs).isSome && cs.length ≥ 2 then some false else none,
                   cls := "mt/malformed-reply", detail := "unreadable reply field; " ++ detail }
  | _ => { corr := false, judge := if (Spec.NN.basesOf? cs).isSome && cs.length ≥ 2 then some false else none,
           cls := "mt/malformed-reply", detail }

def judge (f out : List String) : Verdict :=
  match f with
  | ["pt", s, c, na, mg, c2, na2, mg2] =>
    match parseBits c, parseBits na, parseBits mg, parseBits c2, parseBits na2, parseBits mg2 with
    | some c, some na, some mg, some c2, some na2, some mg2 => judgePt s c na mg c2 na2 mg2 out
    | _, _, _, _, _, _ => bad "bad float"
  | ["grid", s, cl, nal, mgl] =>
    match parseList cl, parseList nal, parseList mgl with
    | some cl, some nal, some mgl => judgeGrid s cl nal mgl out
    | _, _, _ => bad "bad float list"
  | ["mt", s] => judgeMt s out
  | _ => bad "bad case"

def driver : PropDriver := { render, judge }
end PolyVerif.Driver.C19
