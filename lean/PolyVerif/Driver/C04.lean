import PolyVerif.Model.Seqhash
import PolyVerif.Base.Blake3
import PolyVerif.Spec.Nucleotide
namespace PolyVerif.Driver.C04
open PolyVerif PolyVerif.Seqhash PolyVerif.Transform

def outStr : Outcome Str → List String
  | .ok h => ["ok", String.ofList h]
  | .err => ["err"]
  | .panic => ["panic"]

def normOut : List String → List String
  | "err" :: _ => ["err"]
  | "panic" :: _ => ["panic"]
  | o => o

def b (s : String) : Bool := s == "true"

/-- recase with a mask string of 'u'/'l' (cycled) -/
def recase (mask s : Str) : Str :=
  if mask.isEmpty then s else
  (s.zipIdx).map fun (c, i) => if mask[i % mask.length]! == 'l' then c.toLower else c.toUpper

/-- the DNA spelling of an RNA sequence that keeps the case of every letter (`U → T`, `u → t`) -/
def uToTCase (s : Str) : Str := s.map fun c => if c = 'U' then 'T' else if c = 'u' then 't' else c

/-- Independent reading of the other strand: reverse, and complement each letter as a SET of bases
(Spec/Nucleotide: IUPAC code sets), `U` pairing with `A` as in RNA; `Z` (no base set) to the zero rune. -/
def specCompl (c : Char) : Char := if c == 'U' then 'A' else if c == 'u' then 'a' else if c == 'Z' then Char.ofNat 0 else Spec.complCode c
def specRc (s : Str) : Str := s.reverse.map specCompl

/-- Abstract cases, each rendered into a `hash2` request (two Hash calls on related inputs):
  `rot s ty ds k`       : s vs rotl k s, circular
  `strand s ty circ`    : s vs revComp s, double stranded
  `case s mask ty circ ds` : s vs recase mask s
  `rna s circ ds`       : s as RNA vs uToT(upper s) as DNA
  `rnacp s circ ds`     : s as RNA vs the case-preserving DNA spelling (U→T, u→t) as DNA -/
def pair (f : List String) : Option ((Str × String × Bool × Bool) × (Str × String × Bool × Bool)) :=
  match f with
  | ["rot", s, ty, ds, k] => some ((s.toList, ty, true, b ds), (Spec.rotl (natOfStr k) s.toList, ty, true, b ds))
  | ["strand", s, ty, circ] => some ((s.toList, ty, b circ, true), (revComp s.toList, ty, b circ, true))
  | ["case", s, mask, ty, circ, ds] => some ((s.toList, ty, b circ, b ds), (recase mask.toList s.toList, ty, b circ, b ds))
  | ["rna", s, circ, ds] => some ((s.toList, "RNA", b circ, b ds), (uToT (upper s.toList), "DNA", b circ, b ds))
  | ["rnacp", s, circ, ds] => some ((s.toList, "RNA", b circ, b ds), (uToTCase s.toList, "DNA", b circ, b ds))
  | _ => none

def render (f : List String) : List String :=
  match pair f with
  | some ((s1, t1, c1, d1), (s2, t2, c2, d2)) =>
    ["hash2", String.ofList s1, t1, boolStr c1, boolStr d1, String.ofList s2, t2, boolStr c2, boolStr d2]
  | none => ["bad"]

/-- accepted by the hash function (spec side): type known, letters in the type's alphabet -/
def accepted (s : Str) (ty : String) (ds : Bool) : Bool :=
  let u := upper s
  let u := if ty == "RNA" then uToT u else u
  if ty == "DNA" || ty == "RNA" then u.all nucleotideLetters.contains
  else if ty == "PROTEIN" then u.all proteinLetters.contains && !ds else false

/-- strand clause domain: the normalised sequence is over the 15 IUPAC codes (so: the 15 codes in
either case, plus U/u under RNA) — literally the hypothesis `Iupac15 (norm ty s)` of `hash_strand` -/
def strandDomain (s : Str) (ty : String) : Bool :=
  (norm ty s).all fun c => Spec.upperCodes.contains c

def judge (f out : List String) : Verdict :=
  match pair f with
  | none => { corr := false, judge := none, cls := "bad-case" }
  | some ((s1, t1, c1, d1), (s2, t2, c2, d2)) =>
    let m1 := outStr (hash Blake3.sum256 s1 t1 c1 d1)
    let m2 := outStr (hash Blake3.sum256 s2 t2 c2 d2)
    -- harness reply: status1 value1 status2 value2
    let (o1, o2) := match out with
      | ["ok", a1, a2, b1, b2] => (normOut (if a2 == "" then [a1] else [a1, a2]), normOut (if b2 == "" then [b1] else [b1, b2]))
      | _ => (["bad"], ["bad"])
    let kind := f.headD ""
    let isRna := kind == "rna" || kind == "rnacp"
    let inDom := accepted s1 t1 d1 && (kind != "strand" || strandDomain s1 t1)
    -- strand clause: the partner sent to the code (the model's `revComp`, i.e. the code's own complement
    -- table) must be the biological other strand (independent code-set reading)
    let partnerOk := kind != "strand" || s2 == specRc s1
    let j := match o1, o2 with
      | ["ok", h1], ["ok", h2] =>
        if isRna then
          h1.length == h2.length && h1.length > 3 && h1.toList[3]! == 'R' && h2.toList[3]! == 'D' &&
            (h1.toList.set 3 'D') == h2.toList
        else h1 == h2 && partnerOk
      | _, _ => false
    let triv := s1 == s2 && !isRna
    -- FALSE-ALARM RULE for known finding C05-dna-u-strand (the model mirrors the defect: U accepted under DNA).  If the
    -- code is repaired, DNA inputs containing U are either rejected — then they are not "accepted by the hash function",
    -- outside this property's quantifier: not judged — or hashed differently from the model while the invariance
    -- relation still holds of the two replies: then the difference from the model is drift, not a DIFF.
    let dnaU := t1 == "DNA" && (upper s1).contains 'U'
    let same := o1 == m1 && o2 == m2
    let rejectedU := dnaU && o1 == ["err"] && o2 == ["err"]
    -- …and then the two replies must CORRESPOND to the model under the repaired reading (U read as T); which reading a
    -- run uses must be one and the same for all calls: that is judged by C05's relational `ureading` cases
    let foldU := fun (s : Str) => s.map fun c => if c == 'U' || c == 'u' then 'T' else c
    let foldedSame := o1 == outStr (hash Blake3.sum256 (foldU s1) t1 c1 d1) && o2 == outStr (hash Blake3.sum256 (foldU s2) t2 c2 d2)
    let repaired := dnaU && !same && (rejectedU || (inDom && j && foldedSame))
    { corr := same || repaired, judge := if inDom && !rejectedU then some j else none,
      cls := (if triv || s1.length < 2 then "triv:" else "") ++ kind ++ "/" ++ t1 ++ (if c1 then "C" else "L") ++ (if d1 then "D" else "S") ++
             (if repaired then "/kf-repaired" else ""),
      detail := if (same || repaired) && (j || rejectedU) then "" else lineOf (m1 ++ m2) }

def driver : PropDriver := { render, judge }
end PolyVerif.Driver.C04
