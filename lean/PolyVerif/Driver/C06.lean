import PolyVerif.Model.CodonTranslate
import PolyVerif.Spec.Ncbi
namespace PolyVerif.Driver.C06
open PolyVerif PolyVerif.Codon PolyVerif.CodonTranslate

/-
Abstract cases (first field = kind, second = table spec `id:N | rw:N:SEQ | txt:TABLE`):
  tr    SPEC s            one Translate call
  split SPEC s KS         Translate(s) and, for every codon index k in KS ("all" or "k1,k2,…"),
                          Translate(s[:3k]) and Translate(s[3k:])
  case  SPEC s MASK       s, s re-cased by MASK ('u'/'l', cycled), upper(s), lower(s)
  tail  SPEC s r          a = s cut to a multiple of 3; Translate(a) and Translate(a ++ r)
  table N                 GetCodonTable(N) itself (start / stop lists, the 64 cells)
  hist  SPEC STEP…        one private table instance through a history: `T:dna` translate, `W:seq` re-weight in
                          place, `S:i,j` swap the letters of entries i and j in place; a translation must depend
                          on the table as it is NOW
The property quantifies over A/C/G/T strings of length ≥ 1 under the 25 tables.  Strings with other letters (N, U,
gaps, letters outside ASCII; class suffix `foreign-letters`), the empty string, the empty table and absent ids are
DRIFT PROBES: the reply is compared with the model (`corr`) but never judged, so a change of behaviour there
(X for an ambiguous codon, RNA accepted, "" accepted) is reported as drift, not as a violation.  An empty PIECE of a
split / tail case counts as the empty protein whether the API rejects it or not.
A request the harness does not answer (crash, timeout, panic, error) is a FAILURE when the case is in the quantifier.
The concrete strings of a request are produced here (take / drop / map), i.e. by the functions the theorems
are about.
-/

def recase (mask s : Str) : Str :=
  if mask.isEmpty then s else
  (s.zipIdx).map fun (c, i) => if mask[i % mask.length]! == 'l' then c.toLower else c.toUpper

def natList (s : String) : List Nat := (splitNonEmpty s ",").map natOfStr

def splitPoints (s : Str) (ks : String) : List Nat :=
  if ks == "all" then List.range (s.length / 3 + 1) else (natList ks).filter (· ≤ s.length / 3)

/-- the sequences one case asks the implementation to translate -/
def seqsOf (f : List String) : Option (String × List Str) :=
  match f with
  | ["tr", spec, s] => some (spec, [s.toList])
  | ["split", spec, s, ks] =>
    let cs := s.toList
    some (spec, cs :: (splitPoints cs ks).flatMap fun k => [cs.take (3 * k), cs.drop (3 * k)])
  | ["case", spec, s, mask] =>
    let cs := s.toList
    some (spec, [cs, recase mask.toList cs, upper cs, lower cs])
  | ["tail", spec, s, r] =>
    let cs := s.toList
    let a := cs.take (3 * (cs.length / 3))
    some (spec, [a, a ++ r.toList])
  | _ => none

def render (f : List String) : List String :=
  match f with
  | ["table", n] => ["table", "id:" ++ n]
  | "hist" :: spec :: steps => "opthist" :: spec :: "0" :: steps
  | _ =>
    match seqsOf f with
    | some (spec, ss) => "translate" :: spec :: ss.map String.ofList
    | none => ["bad"]

inductive TKind | dflt (id : Nat) | rw (id : Nat) | txt
deriving BEq

/-- the table a spec denotes for the model: default tables come from the regenerated `Gen.codonTables`,
a re-weighted one is what the harness reported back (an output of `OptimizeTable` on a deep copy) -/
def tableOf (spec : String) (reported : String) : Option (Table × TKind) :=
  if spec.startsWith "id:" then
    let n := natOfStr (spec.drop 3).toString
    some (getCodonTable n, .dflt n)
  else if spec.startsWith "rw:" then
    match (spec.drop 3).toString.splitOn ":" with
    | n :: _ => some (parseTable reported, .rw (natOfStr n))
    | _ => none
  else if spec.startsWith "txt:" then some (parseTable (spec.drop 4).toString, .txt)
  else none

/-- spec reading of one codon under an arbitrary table: the letter of the entry that lists the
upper-cased codon (searched directly; no map is built) -/
def specAA (t : Table) (codon : Str) : Option Str :=
  (t.aminoAcids.find? fun a => a.codons.any fun c => c.triplet == upper codon).map (·.letter)

/-- the translation the property demands: NCBI's for a default (or re-weighted default) table, the
per-codon reading of the table otherwise -/
def specTranslation (t : Table) (k : TKind) (s : Str) : Option Str :=
  match k with
  | .dflt id | .rw id =>
    -- A/C/G/T strings: every codon must have its NCBI residue; other letters: such a codon gives nothing
    if s.all acgtLetters.contains then Spec.Ncbi.translation id s else some (Spec.Ncbi.translationAny id s)
  | .txt => some ((chunks3 s).flatMap fun c => match specAA t c with | some l => l | none => [])

def outStr : Outcome Str → List String
  | .ok v => ["ok", String.ofList v]
  | .err => ["err", ""]
  | .panic => ["panic", ""]

def pairs : List String → List (List String)
  | st :: v :: rest => (if st == "ok" then [st, v] else [st, ""]) :: pairs rest
  | _ => []

def okVal : List String → Option Str
  | ["ok", v] => some v.toList
  | _ => none

/-- value of a piece for the concatenation law.  The empty string is outside the property's quantifier (strings of
length 1..3000): whether the API rejects it (as it does today) or returns the empty protein, the piece counts as
the empty protein. -/
def pieceVal (s : Str) (o : List String) : Option Str :=
  if s.isEmpty then (if o.head? == some "err" || o == ["ok", ""] then some [] else none) else okVal o

/-- is the case inside C06's quantifier?  Decidable from the case alone: one of the 25 ids (possibly re-weighted)
or a well-formed text table, and strings over A/C/G/T in either case, at least one of them non-empty (an empty
piece or stem beside it is read as the empty protein).  (Strings with N, U, gaps,
letters outside ASCII, the empty string, the empty table, absent ids: generated as drift probes, never judged.) -/
def inQuantifier (spec : String) (ss : List Str) : Bool :=
  let tableOk :=
    if spec.startsWith "id:" then Spec.Ncbi.ids.contains (natOfStr (spec.drop 3).toString)
    else if spec.startsWith "rw:" then
      match (spec.drop 3).toString.splitOn ":" with
      | n :: _ => Spec.Ncbi.ids.contains (natOfStr n)
      | _ => false
    else if spec.startsWith "txt:" then decide (WFTable (parseTable (spec.drop 4).toString))
    else false
  tableOk && ss.any (fun s => !s.isEmpty) && ss.all fun s => decide (Acgt s)

def judgeSeqs (f : List String) (spec : String) (ss : List Str) (out : List String) : Verdict :=
  match out with
  | "ok" :: reported :: rest =>
    match tableOf spec reported with
    | none => { corr := false, judge := none, cls := "bad-spec" }
    | some (t, k) =>
      let outs := pairs rest
      let model := ss.map fun s => outStr (translate s t)
      -- for a default id the table the harness process holds must be the regenerated one (as a map)
      let tableSame := match k with
        | .dflt n => canonTable (parseTable reported) == canonTable (getCodonTable n)
        | _ => true
      -- the empty string is outside the quantifier: for an EMPTY input / piece `err` and `ok ""` are identified; all else exact
      let sameOut (s : Str) (o m : List String) : Bool :=
        o == m || (s.isEmpty && (o == ["err", ""] || o == ["ok", ""]) && (m == ["err", ""] || m == ["ok", ""]))
      let corr := outs.length == model.length && ((ss.zip (outs.zip model)).all fun (s, o, m) => sameOut s o m) && tableSame
      let wf := decide (WFTable t)
      let emptyT := emptyTable t && k == .txt
      let foreign := !(ss.all fun s => decide (Acgt s))
      let dom := inQuantifier spec ss
      -- a default table must still be well formed (re-weighting keeps the code)
      let kind := f.headD ""
      let s0 := ss.headD []
      let o0 := outs.headD []
      let expect (s : Str) : List String :=
        if s.isEmpty then ["err", ""] else
        match specTranslation t k s with
        | some v => ["ok", String.ofList v]
        | none => ["?"]
      let j : Bool :=
        if emptyT then outs.all (· == ["err", ""]) && outs.length == ss.length else
        if !wf then false else
        match kind with
        | "tr" => o0 == expect s0
        | "split" =>
          o0 == expect s0 &&
          (let rec go : List Str → List (List String) → Bool
            | a :: b :: more, oa :: ob :: omore =>
              -- each piece against the spec, and the concatenation law (empty piece: API error read as "")
              (a.isEmpty || oa == expect a) && (b.isEmpty || ob == expect b) &&
              (match pieceVal a oa, pieceVal b ob, pieceVal s0 o0 with
               | some va, some vb, some v => v == va ++ vb
               | _, _, _ => false) && go more omore
            | [], [] => true
            | _, _ => false
           go (ss.drop 1) (outs.drop 1))
        | "case" => o0 == expect s0 && outs.all (· == o0) && outs.length == 4
        | "tail" =>
          -- compare the proteins (the API rejects the empty string; its translation is the empty protein)
          let vals := (ss.zip outs).map fun (s, o) => pieceVal s o
          (s0.isEmpty || o0 == expect s0) && outs.length == 2 &&
            ((ss.zip outs).all fun (s, o) => s.isEmpty || o == expect s) && vals.all fun v => v.isSome && v == vals.headD none
        | _ => false
      let kt := match k with | .dflt _ => "default" | .rw _ => "reweighted" | .txt => "text"
      let triv := s0.length < 3
      let emptyPiece := (kind == "split" || kind == "tail") && ss.any (·.isEmpty)
      { corr := corr, judge := if dom then some j else none,
        cls := (if triv then "triv:" else "") ++ kind ++ "/" ++ (if emptyT then "empty-table" else kt) ++ "/rem" ++ toString (s0.length % 3) ++
               (if emptyPiece then "/empty-piece" else "") ++ (if foreign then "/foreign-letters" else ""),
        detail := if corr && j then "" else
          (if tableSame then "" else "TABLE HELD BY THE PROCESS ≠ REGENERATED TABLE ") ++ lineOf (model.flatten ++ ["expect"] ++ expect s0) }
  | st :: _ =>
    -- no answer for the whole request (crash, timeout, panic, error): inside the quantifier that is a failure
    { corr := false, judge := if inQuantifier spec ss then some false else none, cls := "request-" ++ st,
      detail := "the harness did not answer this request: " ++ st }
  | [] => { corr := false, judge := if inQuantifier spec ss then some false else none, cls := "no-reply" }

def sameSet (a b : List Str) : Bool := a.all b.contains && b.all a.contains && a.length == b.length

def judgeTable (n : Nat) (out : List String) : Verdict :=
  match out with
  | ["ok", txt] =>
    let t := parseTable txt
    let corr := canonTable t == canonTable (getCodonTable n)
    let known := Spec.Ncbi.ids.contains n
    let cellsOk := all64.all fun c =>
      match specAA t c, Spec.Ncbi.aa n c with
      | some l, some r => l == [r]
      | _, _ => false
    let j := if known then
        sameSet t.startCodons (Spec.Ncbi.starts n) && sameSet t.stopCodons (Spec.Ncbi.stops n) && cellsOk && decide (WFTable t)
      else t == { startCodons := [], stopCodons := [], aminoAcids := [] }
    { corr := corr, judge := if known then some j else none, cls := if known then "table/ncbi" else if emptyTable t then "triv:table/absent" else "triv:table/extra-id-offered",
      detail := if corr && j then "" else showTable (getCodonTable n) }
  | _ => { corr := false, judge := if Spec.Ncbi.ids.contains n then some false else none, cls := "table/bad-reply" }

/-- a history on one private table instance (`W:seq` re-weight in place, `S:i,j` swap the letters of two
entries in place, `T:dna` translate): every `T` step is judged against the table text reported at that moment -/
def histInQuantifier (spec : String) (steps : List String) : Bool :=
  inQuantifier spec ["A".toList] && steps.all fun st =>
    !st.startsWith "T:" || (let s := (st.drop 2).toString.toList; !s.isEmpty && decide (Acgt s))

def judgeHist (spec : String) (steps : List String) (out : List String) : Verdict :=
  match out with
  | "ok" :: rest =>
    let rec go (fuel : Nat) (steps rest : List String) (corr j wf : Bool) (detail : String) : Bool × Bool × Bool × String :=
      match fuel with
      | 0 => (false, false, wf, "fuel")
      | fuel + 1 =>
        match steps with
        | [] => (corr && rest.isEmpty, j, wf, detail)
        | step :: more =>
          if step.startsWith "W:" || step.startsWith "S:" then go fuel more rest corr j wf detail
          else if step.startsWith "T:" then
            match rest with
            | "T" :: tt :: st :: v :: rest' =>
              let t := parseTable tt
              let s := (step.drop 2).toString.toList
              let m := outStr (translate s t)
              let o := if st == "ok" then [st, v] else [st, ""]
              let expect := if s.isEmpty then ["err", ""] else
                match specTranslation t .txt s with
                | some x => ["ok", String.ofList x]
                | none => ["?"]
              go fuel more rest' (corr && (o == m || (s.isEmpty && o == ["ok", ""]))) (j && o == expect) (wf && decide (WFTable t) && decide (Acgt s) && !s.isEmpty)
                (if o == m && o == expect then detail else lineOf (m ++ ["expect"] ++ expect))
            | _ => (false, false, wf, "reply shape")
          else (false, false, wf, "bad step")
    let (corr, j, wf, detail) := go (steps.length + 1) steps rest true true true ""
    { corr := corr, judge := if wf then some j else none, cls := "hist/" ++ toString steps.length ++ "steps", detail := detail }
  | st :: _ => { corr := false, judge := if histInQuantifier spec steps then some false else none, cls := "hist/request-" ++ st,
                 detail := "the harness did not answer this request: " ++ st }
  | [] => { corr := false, judge := if histInQuantifier spec steps then some false else none, cls := "hist/no-reply" }

def judge (f out : List String) : Verdict :=
  match f with
  | ["table", n] => judgeTable (natOfStr n) out
  | "hist" :: spec :: steps => judgeHist spec steps out
  | _ =>
    match seqsOf f with
    | some (spec, ss) => judgeSeqs f spec ss out
    | none => { corr := false, judge := none, cls := "bad-case", detail := "bad case" }

def driver : PropDriver := { render, judge }
end PolyVerif.Driver.C06
