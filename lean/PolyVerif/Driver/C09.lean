import PolyVerif.Model.Ligate
import PolyVerif.Spec.Rings
namespace PolyVerif.Driver.C09
open PolyVerif PolyVerif.Ligate PolyVerif.Transform PolyVerif.Spec.Rings

/-! ### text formats

abstract cases (generator → Lean):
  `lig  tag  frags  perm1 perm2 perm3`      frags = `seq,fwd,rev,flip;…`  (flip = 0/1: supply the fragment flipped)
  `gg   tag  enzyme  parts  perm1 perm2 perm3`
       parts = `shape,rot,pflip,lc,segs;…`   shape C|L, rot = rotation of a circular carrier, pflip = supply the part on
               its other strand, lc = supply it in lower case, segs = `+`-joined layout segments:
                 `p:SEQ`                      filler without recognition site
                 `i:seq/fwd/rev/flip/sp1/sp2` an insert: site sp1 fwd seq rev sp2 rc(site)  (flip: the fragment flipped)
                 `F:`  /  `R:`                a lone forward / reverse recognition site
requests (Lean → harness):
  `ligate dom pool0 pool1 pool2 pool3`       pool = `seq,fwd,rev;…`  (pool0 in the given order, then the three shuffles);
                                             dom = true|false: the case is inside the property's quantifier
  `goldengate dom enzyme parts0 parts1 parts2 parts3`   parts = `seq:C;seq:L;…`
  `goldengate2 dom enzyme twinparts parts0 parts1 parts2 parts3`   (case `ggtwin tag enzyme parts twin perm1 perm2 perm3`): in ONE
       process first the parts with part `twin` in its other topology (same text), then the four calls; reply
       `ok race runTwin run0 run1 run2 run3 cut cutTwin`
replies:
  `ok race|norace run0 run1 run2 run3 [cut]`  run = `n:c1:C,c2:C,…` (sequence and Circular flag of every returned Part);
       cut = fragments of CutWithEnzymeByName per part of parts0, `seq,fwd,rev;…|…`
  `ok not-run h1 h2 h3`  circuit breaker: three in-quantifier calls of THIS run did not return; h = the hung request
       (`L|pool` or `G|enzyme|parts`); the case was not executed
-/

def splitList (sep : String) (s : String) : List String := if s.isEmpty then [] else s.splitOn sep

def parseNats (s : String) : List Nat := (splitList " " s).map natOfStr

def applyPerm (l : List α) (p : List Nat) : List α := p.filterMap (l[·]?)

def validPerm (n : Nat) (p : List Nat) : Bool := p.length == n && p.all (· < n) && p.eraseDups.length == n

def fragText (f : Fragment) : String :=
  String.ofList f.seq ++ "," ++ String.ofList f.fwd ++ "," ++ String.ofList f.rev

def poolText (pool : List Fragment) : String := joinWith ";" (pool.map fragText)

/-- `seq,fwd,rev[,flip]` -/
def parseFrag (s : String) : Option Fragment :=
  match s.splitOn "," with
  | [a, b, c] => some ⟨a.toList, b.toList, c.toList⟩
  | [a, b, c, fl] => let f : Fragment := ⟨a.toList, b.toList, c.toList⟩; some (if fl == "1" then flip f else f)
  | _ => none

def parsePool (s : String) : Option (List Fragment) := (splitList ";" s).mapM parseFrag

/-! ### enzymes (pinned from REBASE; tied to the code through the cut fragments in every `gg` case) -/

structure Enzyme where
  site : Str
  skip : Nat

def enzymeOf : String → Option Enzyme
  | "BsaI" => some ⟨"GGTCTC".toList, 1⟩
  | "BbsI" => some ⟨"GAAGAC".toList, 2⟩
  | "BtgZI" => some ⟨"GCGATG".toList, 10⟩
  | _ => none

/-- a part of a `gg` case: the sequence handed to GoldenGate, the fragments it is designed to release, layout well-formed -/
structure PartSpec where
  part : Part
  expect : List Fragment
  wf : Bool

def countOcc (pat : Str) : Str → Nat
  | [] => if pat.isEmpty then 1 else 0
  | c :: cs => (if pat.isPrefixOf (c :: cs) then 1 else 0) + countOcc pat cs

/-- number of recognition sites on either strand, on the linear or cyclic word -/
def siteCount (e : Enzyme) (seq : Str) (circular : Bool) : Nat × Nat :=
  let w := if circular then seq ++ seq.take (e.site.length - 1) else seq
  (countOcc e.site w, countOcc (revComp e.site) w)

/-- a cut of the independent layout: where the fragment text starts (forward site) or ends (reverse site) -/
structure Cut where
  pos : Nat
  fwd : Bool
  ok : Bool := true
  siteLo : Nat := 0     -- the recognition site occupies [siteLo, siteHi)
  siteHi : Nat := 0
  lo : Nat := 0         -- everything the cut needs contiguous on a linear text: [lo, hi)
  hi : Nat := 0

def mkF (e : Enzyme) (siteLo : Nat) (ok : Bool) : Cut :=
  let pos := siteLo + e.site.length + e.skip
  { pos, fwd := true, ok, siteLo, siteHi := siteLo + e.site.length, lo := siteLo, hi := pos + e.skip + 4 }

def mkR (e : Enzyme) (siteLo : Nat) (ok : Bool) : Cut :=
  { pos := siteLo - e.skip, fwd := false, ok := ok && decide (e.skip ≤ siteLo), siteLo, siteHi := siteLo + e.site.length,
    lo := siteLo - e.skip, hi := siteLo + e.site.length }

/-- lay the segments out left to right: the unrotated top-strand text and its cuts in order -/
def layout (e : Enzyme) : List String → Str → List Cut → Option (Str × List Cut)
  | [], body, cuts => some (body, cuts.reverse)
  | seg :: rest, body, cuts =>
    match seg.splitOn ":" with
    | ["p", w] => layout e rest (body ++ w.toList) cuts
    | ["F", _] => layout e rest (body ++ e.site) (mkF e body.length true :: cuts)
    | ["R", _] => layout e rest (body ++ revComp e.site) (mkR e body.length true :: cuts)
    | ["i", spec] =>
      match spec.splitOn "/" with
      | [a, b, c, fl, sp1, sp2] =>
        let f0 : Fragment := ⟨a.toList, b.toList, c.toList⟩
        let f := if fl == "1" then flip f0 else f0
        let start := body.length + e.site.length + sp1.length
        let stop := start + f.fwd.length + f.seq.length + f.rev.length
        let okSp := sp1.length == e.skip && sp2.length == e.skip && f.fwd.length == 4 && f.rev.length == 4
        layout e rest (body ++ e.site ++ sp1.toList ++ f.fwd ++ f.seq ++ f.rev ++ sp2.toList ++ revComp e.site)
          (mkR e (stop + sp2.length) okSp :: mkF e body.length okSp :: cuts)
      | _ => none
    | _ => none

def fragOfText (w : Str) : Fragment := ⟨(w.drop 4).take (w.length - 8), w.take 4, w.drop (w.length - 4)⟩

/-- the fragments a directional digest releases: from a forward cut to the NEXT cut when that is a reverse cut -/
def releasedPairs : List Cut → List (Nat × Nat)
  | a :: b :: rest => (if a.fwd && !b.fwd then [(a.pos, b.pos)] else []) ++ releasedPairs (b :: rest)
  | _ => []

def expectedFragments (body : Str) (cuts : List Cut) (circular : Bool) : List Fragment :=
  let cuts' := if circular then
      match cuts with
      | c :: _ => cuts ++ [{ c with pos := c.pos + body.length }]
      | [] => []
    else cuts
  let w := if circular then body ++ body else body
  (releasedPairs cuts').map fun (p, q) => fragOfText ((w.drop p).take (q - p))

/-- the cuts of the LINEAR text `rotl k body`: a cut whose extent contains the new origin is gone; the others move -/
def cutsLinearRot (n k : Nat) (cuts : List Cut) : List Cut :=
  let surv := cuts.filter fun c => k ≤ c.lo || c.hi ≤ k
  let moved := surv.map fun c => if k ≤ c.lo then { c with pos := c.pos - k } else { c with pos := c.pos + n - k }
  moved.mergeSort fun a b => a.pos ≤ b.pos

/-- on a linear rotated text a cut may only disappear because the origin falls strictly inside its recognition site -/
def linearRotOk (k : Nat) (cuts : List Cut) : Bool :=
  cuts.all fun c => k ≤ c.lo || c.hi ≤ k || (c.siteLo < k && k < c.siteHi)

def lower (s : Str) : Str := s.map Char.toLower

/-- `toggle`: the same text with the other topology (the "twin" of the part) -/
def parsePart (e : Enzyme) (toggle : Bool) (s : String) : Option PartSpec :=
  match s.splitOn "," with
  | [shape, rot, pflip, lc, segs] =>
    match layout e (splitList "+" segs) [] [] with
    | none => none
    | some (body, cuts) =>
      let circ := (shape == "C") != toggle
      let pf := pflip == "1"
      let k := if body.isEmpty then 0 else natOfStr rot % body.length
      let rotated := Spec.rotl k body
      let stranded := if pf then revComp rotated else rotated
      let text := if lc == "1" then lower stranded else stranded
      let lcuts := cutsLinearRot body.length k cuts
      let expect0 := if circ then expectedFragments body cuts true else expectedFragments rotated lcuts false
      let expect := if pf then expect0.map flip else expect0
      let live := if circ then cuts else lcuts
      let nF := live.countP (·.fwd)
      let nR := live.countP (!·.fwd)
      let wf := isDna body && siteCount e rotated circ == (nF, nR) && cuts.all (·.ok) &&
        cuts.all (fun c => c.hi ≤ body.length) &&
        (circ && body.length > 0 || !circ && linearRotOk k cuts) &&
        expect.all (fun f => f.fwd.length == 4 && f.rev.length == 4)
      some ⟨⟨text, circ⟩, expect, wf⟩
  | _ => none

def toggleAt (i : Nat) (l : List String) : List (Bool × String) := l.zipIdx.map fun (s, j) => (j == i, s)

def parseParts (e : Enzyme) (s : String) : Option (List PartSpec) := (splitList ";" s).mapM (parsePart e false)

/-- the parts with part number `twin` given the other topology (same text) -/
def parsePartsTwin (e : Enzyme) (twin : Nat) (s : String) : Option (List PartSpec) :=
  (toggleAt twin (splitList ";" s)).mapM fun (t, it) => parsePart e t it

def partsText (ps : List PartSpec) : String :=
  joinWith ";" (ps.map fun p => String.ofList p.part.seq ++ ":" ++ (if p.part.circular then "C" else "L"))

/-! ### render -/

def render (f : List String) : List String :=
  match f with
  | ["lig", _, frags, p1, p2, p3] =>
    match parsePool frags with
    | some pool =>
      -- first argument: the case is inside the property's quantifier (only such calls may open the harness's circuit breaker)
      let dom := dnaPool pool && [p1, p2, p3].all fun p => validPerm pool.length (parseNats p)
      "ligate" :: boolStr dom :: poolText pool :: [p1, p2, p3].map fun p => poolText (applyPerm pool (parseNats p))
    | none => ["bad"]
  | ["gg", _, enz, parts, p1, p2, p3] =>
    -- an unknown enzyme name is passed through (the code must answer with an error); parts are then laid out as for BsaI
    let e := (enzymeOf enz).getD ⟨"GGTCTC".toList, 1⟩
    match parseParts e parts with
    | some ps =>
      let dom := (enzymeOf enz).isSome && ps.all (·.wf) && dnaPool (ps.flatMap (·.expect)) &&
        [p1, p2, p3].all fun p => validPerm ps.length (parseNats p)
      "goldengate" :: boolStr dom :: enz :: partsText ps :: [p1, p2, p3].map fun p => partsText (applyPerm ps (parseNats p))
    | none => ["bad"]
  | ["ggtwin", _, enz, parts, twin, p1, p2, p3] =>
    -- one request, one process: first GoldenGate on the parts with part `twin` in its OTHER topology (same text), then the
    -- four calls on the parts as given
    match enzymeOf enz with
    | none => ["bad"]
    | some e =>
      match parseParts e parts, parsePartsTwin e (natOfStr twin) parts with
      | some ps, some pt =>
        let dom := ps.all (·.wf) && pt.all (·.wf) && dnaPool (ps.flatMap (·.expect)) && dnaPool (pt.flatMap (·.expect)) &&
          [p1, p2, p3].all fun p => validPerm ps.length (parseNats p)
        "goldengate2" :: boolStr dom :: enz :: partsText pt :: partsText ps :: [p1, p2, p3].map fun p => partsText (applyPerm ps (parseNats p))
      | _, _ => ["bad"]
  | _ => ["bad"]

/-! ### canonical forms and sets -/

/-- the linear-time key used on long constructs (compared with `key` on every short returned construct) -/
def keyFast : Str → Key := keyWith Spec.leastRotationFast

def keyStr : Key → Str
  | .invalid => ['!']
  | .canon d => d

def sortStrs (l : List Str) : List Str := l.mergeSort fun a b => Spec.lexLe a b

def dedupSorted [BEq α] : List α → List α
  | a :: b :: rest => if a == b then dedupSorted (b :: rest) else a :: dedupSorted (b :: rest)
  | l => l

def setOf (l : List Str) : List Str := dedupSorted (sortStrs l)

def subsetSorted (a b : List Str) : Bool := a.all fun x => b.contains x

def natLexLe : List Nat → List Nat → Bool
  | [], _ => true
  | _ :: _, [] => false
  | a :: as, b :: bs => a < b || (a == b && natLexLe as bs)

/-- a ring as a word over `2·(index of the fragment value) + orientation`, least over its rotations and both strands -/
def ringCode (vals : List Fragment) (os : List Oriented) : List Nat :=
  let w := os.map fun o => 2 * vals.idxOf o.frag + (if o.flipped then 1 else 0)
  let w' := w.reverse.map fun c => if c % 2 == 0 then c + 1 else c - 1
  let cands := (List.range w.length).flatMap fun k => [Spec.rotl k w, Spec.rotl k w']
  cands.foldl (fun m c => if natLexLe c m then c else m) w

def dedupByFst : List (List Nat × β) → List (List Nat × β)
  | a :: b :: rest => if a.1 == b.1 then dedupByFst (b :: rest) else a :: dedupByFst (b :: rest)
  | l => l

/-- one representative per ring (rotation / strand), to keep the number of canonical forms to compute small -/
def ringReps (vals : List Fragment) (rings : List (List Oriented)) : List (List Oriented) :=
  let coded := (rings.map fun os => (ringCode vals os, os)).mergeSort fun a b => natLexLe a.1 b.1
  (dedupByFst coded).map (·.2)

def ringKeys (vals : List Fragment) (rings : List (List Oriented)) : List Str :=
  setOf ((ringReps vals rings).map fun os => keyStr (keyFast (molecule os)))

def ringCodes (vals : List Fragment) (rings : List (List Oriented)) : List (List Nat) :=
  dedupSorted ((rings.map (ringCode vals)).mergeSort natLexLe)

structure SpecSets where
  all : List Str          -- canonical forms of the molecules of all rings (= `simple` when not enumerated)
  simple : List Str       -- … of the simple rings
  pal : List Str          -- … of the rings with a self-complementary junction overhang
  rep : List Str          -- … of the rings with a repeated junction overhang
  onelap : List Str       -- … of the rings of class `OneLap` (ligate_exact: an independent exact upper bound)
  haveAll : Bool          -- `all`, `pal`, `rep` were enumerated
  nrings : Nat
  enumOk : Bool           -- the two enumerators agree (small pools)

def hasPalJunction (os : List Oriented) : Bool := os.any fun o => revComp o.junction == o.junction
def hasRepJunction (os : List Oriented) : Bool := (os.map (·.junction)).eraseDups.length != os.length

/-- `needAll = false` (designed assemblies, and pools too large for it): only the simple rings are enumerated — the set
of ALL closed chains of a library contains every multi-lap concatenation of alternatives and is astronomically larger. -/
def isOneLap : List Oriented → Bool
  | ⟨f, false⟩ :: suf => decide (OneLap f suf)
  | _ => false

def specSets (needAll : Bool) (bruteBound : Nat) (pool : List Fragment) : SpecSets :=
  let vals := pool.eraseDups
  let rw := ringsWalk (!needAll) pool
  let one := ringsOneLap pool
  let enumOk := if vals.length ≤ bruteBound then
      let brute := ringsBrute pool
      ringCodes vals (ringsWalk false pool) == ringCodes vals brute &&
      ringCodes vals ((ringsWalk true pool).filter fun os => decide (Simple os)) ==
        ringCodes vals (brute.filter fun os => decide (Simple os)) &&
      ringCodes vals one == ringCodes vals (brute.filter isOneLap) &&
      rw.all (fun os => decide (Ring pool os)) else true
  let simpleRings := rw.filter fun os => decide (Simple os)
  let simple := ringKeys vals simpleRings
  let all := if needAll then ringKeys vals rw else simple
  { all, simple,
    pal := if needAll then ringKeys vals (rw.filter hasPalJunction) else [],
    rep := if needAll then ringKeys vals (rw.filter hasRepJunction) else [],
    onelap := ringKeys vals one,
    haveAll := needAll,
    nrings := (ringCodes vals (if needAll then rw else simpleRings)).length, enumOk }

/-- model: canonical forms of `CircularLigate(pool)` (the same for every arrival order: ligate_schedule) -/
def modelSet (pool : List Fragment) : List Str :=
  sortStrs ((getConstructsWith keyFast (emitted pool)).map fun c => keyStr (keyFast c))

/-! ### replies -/

/-- `n:c1:C,c2:C,…` → the returned sequences with their `Circular` flags -/
def parseRun (s : String) : Option (List (Str × Bool)) :=
  match s.splitOn ":" with
  | n :: rest =>
    let body := joinWith ":" rest
    let items := if natOfStr n == 0 then [] else body.splitOn ","
    let cs := items.mapM fun it =>
      match it.splitOn ":" with
      | [c, fl] => some (c.toList, fl == "C")
      | _ => none
    match cs with
    | some cs => if cs.length == natOfStr n then some cs else none
    | none => none
  | _ => none

def bucket (n : Nat) : String :=
  if n ≤ 2 then toString n else if n ≤ 4 then "3-4" else if n ≤ 8 then "5-8" else if n ≤ 16 then "9-16" else "17+"

structure Setup where
  kind : String
  tag : String
  poolModel : Option (List Fragment)   -- what the model is run on (`gg`: the fragments the real cut returned)
  poolSpec : List Fragment             -- what the rings are enumerated over (`gg`: the fragments of the independent layout)
  inDomain : Bool
  cutOk : Bool                         -- `gg`: the real cut released the designed fragments

/-- The verdict is decided from the POOL, never from the generator's tag:
* `designed pool` (Spec/Rings.lean — the property's quantifier): the result must EQUAL the set of simple rings
  (`ligate_designed`); multi-lap concatemers of alternatives are forbidden;
* any other DNA pool: `simple rings ⊆ result ⊆ one-lap rings` (`ligate_exact`: an upper bound enumerated independently of the
  model's recursion) and, for pools of at most 9 fragment values, also `result ⊆ all rings` (the set of ALL closed chains of a
  larger pool is not enumerated).
The two ring walks and the one-lap walk are cross-checked against the brute-force enumeration on every pool of at most 5
fragment values (6 / 7 when the tag contains `bf6` / `bf7`: the tag buys effort, never a verdict). -/
def judgeRuns (su : Setup) (race : String) (runs : List String) : Verdict :=
  let isDesigned := designed su.poolSpec
  let nvals := su.poolSpec.eraseDups.length
  -- brute force compares whole fragments: on pools with long inserts keep to 5 values
  let textLen := (su.poolSpec.map fun f => f.seq.length).sum
  let sp := specSets (!isDesigned && nvals ≤ 9)
    (if (su.tag.splitOn "bf7").length > 1 then 7 else if (su.tag.splitOn "bf6").length > 1 && textLen ≤ 400 then 6 else 5) su.poolSpec
  let parsed := runs.map parseRun
  let mode := if isDesigned then "designed" else if sp.haveAll then (if sp.all == sp.simple then "allsimple" else "sandwich") else "onelap-bound"
  let flags := (if sp.pal.isEmpty then "" else "+pal") ++ (if sp.rep.isEmpty then "" else "+rep")
  let cls0 := su.kind ++ "/" ++ su.tag ++ "/rings=" ++ bucket sp.nrings ++ "/" ++ mode ++ flags
  let triv := su.poolSpec.length < 2 || sp.nrings == 0
  match su.poolModel, parsed.mapM id with
  | some pm, some rs =>
    let m := modelSet pm
    let sets := rs.map fun cs => sortStrs (cs.map fun c => keyStr (keyFast c.1))
    let corr := sets.all (· == m) && runs.length == 4
    let distinct := sets.all fun s => dedupSorted s == s
    let s0 := sets.headD []
    let stable := sets.all (· == s0)
    let inUpper := fun (s : List Str) =>
      if isDesigned then subsetSorted s sp.simple
      else subsetSorted s sp.onelap && (!sp.haveAll || subsetSorted s sp.all)
    let sound := sets.all inUpper
    let complete := sets.all fun s => subsetSorted sp.simple s
    let circular := rs.all fun cs => cs.all (·.2)
    let keyOk := rs.all fun cs => cs.all fun c => c.1.length > 200 || keyFast c.1 == key c.1
    let raceOk := race == "norace"
    let j := sound && complete && distinct && stable && circular && raceOk && sp.enumOk && keyOk && su.cutOk && runs.length == 4
    -- where the real result lies
    let missing := sp.all.filter fun k => !s0.contains k
    let where_ := if s0 == sp.simple then "=simple" else if sp.haveAll && s0 == sp.all then "=all"
      else if subsetSorted sp.simple s0 && inUpper s0 then (if s0 == sp.onelap then "=onelap" else "between") else "outside"
    let miss := (if missing.any sp.pal.contains then "/missing-ring:pal" else "") ++
      (if missing.any (fun k => sp.rep.contains k && !sp.pal.contains k) then "/missing-ring:repeat" else "")
    let why := (if sound then "" else " spurious-construct") ++ (if complete then "" else " ring-missing") ++
      (if distinct then "" else " same-molecule-twice") ++ (if stable then "" else " depends-on-input-order") ++
      (if circular then "" else " construct-not-marked-circular") ++
      (if raceOk then "" else " data-race-reported") ++ (if sp.enumOk then "" else " spec-enumerators-disagree") ++
      (if keyOk then "" else " fast-key-differs") ++ (if su.cutOk then "" else " cut-fragments-differ-from-layout")
    { corr, judge := if su.inDomain then some j else none,
      cls := (if triv then "triv:" else "") ++ cls0 ++ "/" ++ where_ ++ miss ++ (if raceOk then "" else "/race"),
      detail := if corr && j then "" else
        "why:" ++ why ++ " model=" ++ joinWith "," (m.map String.ofList) ++ " rings=" ++ joinWith "," (sp.all.map String.ofList) ++
        " simple=" ++ joinWith "," (sp.simple.map String.ofList) }
  | _, _ => { corr := false, judge := if su.inDomain then some false else none, cls := cls0 ++ "/bad-reply", detail := "unparsable reply" }

/-- a hung request recorded by the harness's circuit breaker is one that lies in the quantifier (so that its own verdict
in this run is a judged `timeout` FAIL): `L|pool` with a DNA pool, `G|enzyme|parts` with a known enzyme and ACGT parts -/
def hungInDomain (h : String) : Bool :=
  match h.splitOn "|" with
  | ["L", pool] => match parsePool pool with
    | some p => dnaPool p
    | none => false
  | ["G", enz, parts] =>
    (enzymeOf enz).isSome && (splitList ";" parts).all fun it =>
      match it.splitOn ":" with
      | [w, _] => isDna (upper w.toList)
      | _ => false
  | _ => false

/-- `ok not-run …`: the case was not executed.  It is excused (skip, recorded as a correspondence difference) only when the
reply names three hung in-quantifier requests of this run — each of them is then a judged FAIL of the same run; anything
else is a failed obligation of the check itself. -/
def judgeNotRun (hung : List String) : Verdict :=
  let excused := hung.length ≥ 3 && hung.all hungInDomain
  { corr := false, judge := if excused then none else some false,
    cls := if excused then "triv:not-run-after-3-slow-or-hung-calls" else "not-run-without-recorded-hangs",
    detail := "not executed: the harness's circuit breaker was open (" ++ toString hung.length ++ " recorded hung calls)" }

def sortFrags (l : List Fragment) : List String := (l.map fragText).mergeSort fun a b => a ≤ b

def judge (f out : List String) : Verdict :=
  match out with
  | "ok" :: "not-run" :: hung => judgeNotRun hung
  | _ =>
  match f with
  | ["lig", tag, frags, p1, p2, p3] =>
    match parsePool frags with
    | none => { corr := false, judge := none, cls := "bad-case" }
    | some pool =>
      let permsOk := [p1, p2, p3].all fun p => validPerm pool.length (parseNats p)
      let su : Setup := { kind := "lig", tag, poolModel := some pool, poolSpec := pool,
                          inDomain := dnaPool pool && permsOk, cutOk := true }
      match out with
      | ["ok", race, r0, r1, r2, r3] => judgeRuns su race [r0, r1, r2, r3]
      | st :: _ =>
        -- err / panic / timeout / crash: the model always returns
        { corr := false, judge := if su.inDomain then some false else none, cls := "lig/" ++ tag ++ "/" ++ st,
          detail := "model returns " ++ joinWith "," ((modelSet pool).map String.ofList) }
      | [] => { corr := false, judge := some false, cls := "lig/" ++ tag ++ "/missing" }
  | ["gg", tag, enz, parts, p1, p2, p3] =>
    match enzymeOf enz with
    | none =>
      -- unknown enzyme: GoldenGate must return the error
      { corr := out.head? == some "err", judge := none, cls := "triv:gg/" ++ tag ++ "/unknown-enzyme", detail := "model: err" }
    | some e =>
      match parseParts e parts with
      | none => { corr := false, judge := none, cls := "bad-case" }
      | some ps =>
        let permsOk := [p1, p2, p3].all fun p => validPerm ps.length (parseNats p)
        let designedFrags := ps.flatMap (·.expect)
        let inDom := ps.all (·.wf) && dnaPool designedFrags && permsOk
        match out with
        | ["ok", race, r0, r1, r2, r3, cut] =>
          let real := (if ps.isEmpty then [] else cut.splitOn "|").map parsePool
          let realPool := (real.mapM id).map List.flatten
          -- per part, as multisets (the order within a part depends on where a circular carrier starts)
          let cutOk := real.length == ps.length && (real.zip ps).all fun (r, p) =>
            match r with
            | some fr => sortFrags fr == sortFrags p.expect
            | none => false
          let multi := if ps.any (fun p => p.expect.length ≥ 2) then "+multi" else ""
          let su : Setup := { kind := "gg:" ++ enz, tag := tag ++ multi, poolModel := realPool, poolSpec := designedFrags, inDomain := inDom, cutOk }
          judgeRuns su race [r0, r1, r2, r3]
        | st :: _ =>
          { corr := false, judge := if inDom then some false else none, cls := "gg/" ++ tag ++ "/" ++ st, detail := "model returns" }
        | [] => { corr := false, judge := some false, cls := "gg/" ++ tag ++ "/missing" }
  | ["ggtwin", tag, enz, parts, twin, p1, p2, p3] =>
    match enzymeOf enz with
    | none => { corr := false, judge := none, cls := "bad-case" }
    | some e =>
      match parseParts e parts, parsePartsTwin e (natOfStr twin) parts with
      | some ps, some pt =>
        let permsOk := [p1, p2, p3].all fun p => validPerm ps.length (parseNats p)
        let inDom := ps.all (·.wf) && pt.all (·.wf) && dnaPool (ps.flatMap (·.expect)) && dnaPool (pt.flatMap (·.expect)) && permsOk
        let setup := fun (kind : String) (qs : List PartSpec) (cut : String) =>
          let real := (if qs.isEmpty then [] else cut.splitOn "|").map parsePool
          let cutOk := real.length == qs.length && (real.zip qs).all fun (r, p) =>
            match r with
            | some fr => sortFrags fr == sortFrags p.expect
            | none => false
          ({ kind, tag, poolModel := (real.mapM id).map List.flatten, poolSpec := qs.flatMap (·.expect), inDomain := inDom, cutOk } : Setup)
        match out with
        | ["ok", race, rT, r0, r1, r2, r3, cut, cutT] =>
          -- each call is judged by the spec for ITS topology
          let a := judgeRuns (setup ("ggtwin:" ++ enz) ps cut) race [r0, r1, r2, r3]
          let b := judgeRuns (setup ("ggtwin:" ++ enz) pt cutT) race [rT, rT, rT, rT]
          let differs := sortFrags (ps.flatMap (·.expect)) != sortFrags (pt.flatMap (·.expect))
          { corr := a.corr && b.corr,
            judge := match a.judge, b.judge with
              | some x, some y => some (x && y)
              | _, _ => none,
            cls := a.cls ++ (if differs then "/twin-differs" else "/twin-same"),
            detail := if a.corr && b.corr && a.judge == some true && b.judge == some true then "" else
              "main: " ++ a.detail ++ " | twin (first call, other topology): " ++ b.detail }
        | st :: _ => { corr := false, judge := if inDom then some false else none, cls := "ggtwin/" ++ tag ++ "/" ++ st, detail := "model returns" }
        | [] => { corr := false, judge := some false, cls := "ggtwin/" ++ tag ++ "/missing" }
      | _, _ => { corr := false, judge := none, cls := "bad-case" }
  | _ => { corr := false, judge := none, cls := "bad-case", detail := "bad case" }

def driver : PropDriver := { render, judge }
end PolyVerif.Driver.C09
