import PolyVerif.Model.Rebase
import PolyVerif.Spec.RebaseListing
/-
Driver of C16.  Abstract cases:

  listing nsup { code name } nrec { name niso { iso } recog meth org src codes refs nmore { reference } }
          nprose { line } blank indent afterHeading tableGaps afterTable gaps finalNewline
      → request `rebase_parse <text>` with `<text> = Spec.RebaseListing.listing sups recs ℓ`
  raw <text>          → request `rebase_parse <text>` (probes outside the quantifier; judged only when the call
                        hangs, crashes or panics where the model predicts a normal return)
  rawhex <hex>        → request `rebase_parse_hex <hex>`: bytes that need not be UTF-8 (no model: recorded only)
  import { token }    → request `rebase_import <json>`: the JSON text of the value given by the tokens is read by
                        json.Unmarshal into map[string]Enzyme and compared with the model's `importJ`
  file <name>         → request `rebase_file <name>`: the sample file shipped with the package; the reply
                        carries the file's text, which is re-rendered through `unlayout`/`listing`
  readmissing <x>     → request `rebase_read_missing <x>`
-/
namespace PolyVerif.Driver.C16
open PolyVerif PolyVerif.LineText PolyVerif.Rebase PolyVerif.Spec.RebaseListing

def str (s : Str) : String := String.ofList s

def takeStrs : Nat → List String → Option (List Str × List String)
  | 0, r => some ([], r)
  | n + 1, s :: r => (takeStrs n r).map fun (ss, r') => (s.toList :: ss, r')
  | _, _ => none

def takeSups : Nat → List String → Option (List Supplier × List String)
  | 0, r => some ([], r)
  | n + 1, c :: nm :: r =>
    match c.toList with
    | [ch] => (takeSups n r).map fun (ss, r') => ({ code := ch, name := nm.toList } :: ss, r')
    | _ => none
  | _, _ => none

def takeRecs : Nat → List String → Option (List Rec × List String)
  | 0, r => some ([], r)
  | n + 1, nm :: ni :: r =>
    match takeStrs (natOfStr ni) r with
    | some (isos, recog :: meth :: org :: src :: codes :: refs :: nmore :: r') =>
      match takeStrs (natOfStr nmore) r' with
      | some (more, r'') =>
        (takeRecs n r'').map fun (rs, r3) =>
          ({ name := nm.toList, isos := isos, recog := recog.toList, meth := meth.toList, org := org.toList,
             src := src.toList, codes := codes.toList, refs := refs.toList, moreRefs := more } :: rs, r3)
      | none => none
    | _ => none
  | _, _ => none

def natList (s : String) : List Nat :=
  if s.isEmpty then [] else (s.splitOn ",").map natOfStr

def decodeListing : List String → Option (List Supplier × List Rec × Spec.RebaseListing.Layout)
  | ns :: r =>
    match takeSups (natOfStr ns) r with
    | some (sups, nr :: r1) =>
      match takeRecs (natOfStr nr) r1 with
      | some (recs, np :: r2) =>
        match takeStrs (natOfStr np) r2 with
        | some (prose, [blank, indent, ah, tg, aft, gaps, fnl]) =>
          some (sups, recs, { prose := prose, blank := blank.toList, indent := indent.toList, afterHeading := natOfStr ah,
                              tableGaps := natList tg, afterTable := natOfStr aft, gaps := natList gaps,
                              finalNewline := fnl == "true" })
        | _ => none
      | _ => none
    | _ => none
  | _ => none

/-! ### canonical rendering (the harness prints the same fields) -/

def showList (l : List Str) : List String :=
  if l.isEmpty then ["nil"] else toString l.length :: l.map str

def showEntry (kv : Str × Enzyme) : List String :=
  let e := kv.2
  [str kv.1, str e.name] ++ showList e.isoschizomers
  ++ [str e.recognitionSequence, str e.methylationSite, str e.microOrganism, str e.source]
  ++ showList e.commercialAvailability ++ [str e.references]

/-- entries in sorted key order -/
def showEntries (m : List (Str × Enzyme)) : List String :=
  toString m.length :: (sortedEntries {} m).flatMap showEntry

/-- the whole report of the harness for one text: Parse, Read, Export/Unmarshal, the bytes of Export -/
def report (m : Outcome (List (Str × Enzyme))) : List String :=
  match m with
  | .ok m => "ok" :: showEntries m ++ ["read-same", "json-same", toStr (exportText m)]
  | _ => ["panic"]

/-! ### JSON values from tokens, JSON text (for the `import` cases) -/

mutual
/-- one value from the token stream (fuel = number of tokens is enough) -/
def readJ : Nat → List String → Option (Rebase.JVal × List String)
  | 0, _ => none
  | f + 1, t :: r =>
    if t == "null" then some (.null, r)
    else if t == "[" then (readItems f r).map fun (xs, r') => (.arr xs, r')
    else if t == "{" then (readFields f r).map fun (xs, r') => (.obj xs, r')
    else if t.startsWith "s:" then some (.str (t.toList.drop 2), r)
    else none
  | _, [] => none
def readItems : Nat → List String → Option (List Rebase.JVal × List String)
  | 0, _ => none
  | f + 1, t :: r =>
    if t == "]" then some ([], r)
    else match readJ f (t :: r) with
      | some (v, r') => (readItems f r').map fun (vs, r'') => (v :: vs, r'')
      | none => none
  | _, [] => none
def readFields : Nat → List String → Option (List (Str × Rebase.JVal) × List String)
  | 0, _ => none
  | f + 1, t :: r =>
    if t == "}" then some ([], r)
    else if t.startsWith "s:" then
      match readJ f r with
      | some (v, r') => (readFields f r').map fun (vs, r'') => (((t.toList.drop 2), v) :: vs, r'')
      | none => none
    else none
  | _, [] => none
end

def decodeJ (toks : List String) : Option Rebase.JVal :=
  match readJ (toks.length + 1) toks with
  | some (v, []) => some v
  | _ => none

/-- a reply that says the library call did not come back normally: harness status `timeout`, `crash`,
`race`, `panic`, `err`, a missing reply, or a recovered panic of Parse (`ok panic`) -/
def abnormal (out : List String) : Bool :=
  match out with
  | "ok" :: rest => rest.head? == some "panic"
  | _ => true

/-- verdict on a case OUTSIDE the quantifier: nothing is demanded of the result, but a call that hangs,
crashes or panics where the model predicts a normal return is a failure all the same -/
def outsideVerdict (same : Bool) (out : List String) : Option Bool :=
  if abnormal out && !same then some false else none

def render (c : List String) : List String :=
  match c with
  | "listing" :: r =>
    match decodeListing r with
    | some (sups, recs, ℓ) => ["rebase_parse", str (listing sups recs ℓ)]
    | none => ["bad"]
  | ["raw", text] => ["rebase_parse", text]
  | ["rawhex", hex] => ["rebase_parse_hex", hex]
  | "import" :: toks =>
    match decodeJ toks with
    | some v => ["rebase_import", toStr (toBase v).print]
    | none => ["bad"]
  | ["file", name] => ["rebase_file", name]
  | ["readmissing", x] => ["rebase_read_missing", x]
  | _ => ["bad"]

def sizeClass (n : Nat) : String :=
  if n == 0 then "recs=0" else if n == 1 then "recs=1" else if n ≤ 20 then "recs<=20" else "recs>20"

/-- some enzyme has suppliers and none of them is the empty string -/
def someDecoded (m : List (Str × Enzyme)) : Bool :=
  m.any fun kv => !kv.2.commercialAvailability.isEmpty && kv.2.commercialAvailability.all (fun s => !s.isEmpty)

/-! ### the property on a reply: every field as written; suppliers of the letters the table names -/

structure GotE where
  key : Str
  e : Enzyme

def readList : List String → Option (List Str × List String)
  | "nil" :: r => some ([], r)
  | n :: r => takeStrs (natOfStr n) r
  | [] => none

def readEntriesN : Nat → List String → Option (List GotE × List String)
  | 0, r => some ([], r)
  | n + 1, key :: name :: r =>
    match readList r with
    | some (isos, recog :: meth :: org :: src :: r1) =>
      match readList r1 with
      | some (sups, refs :: r2) =>
        let enz : Enzyme :=
          { name := name.toList, isoschizomers := isos, recognitionSequence := recog.toList,
            methylationSite := meth.toList, microOrganism := org.toList, source := src.toList,
            commercialAvailability := sups, references := refs.toList }
        (readEntriesN n r2).map fun (es, r3) => (GotE.mk key.toList enz :: es, r3)
      | _ => none
    | _ => none
  | _, _ => none

/-- the report `ok count entries… read-flag json-flag export-text` -/
def readReport : List String → Option (List GotE × String × String × String)
  | "ok" :: n :: r =>
    match readEntriesN (natOfStr n) r with
    | some (es, [rd, js, text]) => some (es, rd, js, text)
    | _ => none
  | _ => none

/-- per letter of `<7>`: the supplier the table names for it, or `none` when the table names none (the
property does not constrain that slot; the code writes the empty name) -/
def slotsOf (sups : List Supplier) (r : Rec) : List (Option Str) :=
  r.codes.map fun c => if (sups.map (·.code)).contains c then some (supplierOf sups c) else none

def expectedSlots (sups : List Supplier) (recs : List Rec) : List (Str × (Enzyme × List (Option Str))) :=
  recs.foldl (fun m r => mapInsert m r.name (enzymeOf sups r, slotsOf sups r)) []

/-- the names of the known letters appear, in order; an unknown letter may have left any one string or nothing -/
def matchSlots : List (Option Str) → List Str → Bool
  | [], [] => true
  | [], _ :: _ => false
  | some n :: s, g :: gs => g == n && matchSlots s gs
  | some _ :: _, [] => false
  | none :: s, gs => matchSlots s gs || (match gs with | _ :: gs' => matchSlots s gs' | [] => false)

def entryOk (want : Str × (Enzyme × List (Option Str))) (g : GotE) : Bool :=
  let e := want.2.1
  g.key == want.1 && g.e.name == e.name && g.e.isoschizomers == e.isoschizomers
  && g.e.recognitionSequence == e.recognitionSequence && g.e.methylationSite == e.methylationSite
  && g.e.microOrganism == e.microOrganism && g.e.source == e.source && g.e.references == e.references
  && matchSlots want.2.2 g.e.commercialAvailability

def all2 {α β : Type} (p : α → β → Bool) : List α → List β → Bool
  | [], [] => true
  | a :: as, b :: bs => p a b && all2 p as bs
  | _, _ => false

/-- the property on a report: one entry per name with every field as written and the suppliers of the
letters the table names; Read agrees; Go's own Unmarshal of the export agrees; the export's text is the
JSON text of the entries reported -/
def reportOk (sups : List Supplier) (recs : List Rec) (rep : List String) : Bool :=
  match readReport rep with
  | some (es, rd, js, text) =>
    all2 entryOk (sortedEntries ({}, []) (expectedSlots sups recs)) es
    && rd == "read-same" && js == "json-same"
    && text == toStr (exportText (es.map fun g => (g.key, g.e)))
  | none => false

def hasUnknownLetter (sups : List Supplier) (recs : List Rec) : Bool :=
  recs.any fun r => r.codes.any fun c => !(sups.map (·.code)).contains c

def judge (c out : List String) : Verdict :=
  match c with
  | "listing" :: r =>
    match decodeListing r with
    | none => { corr := false, judge := none, cls := "bad-case", detail := "bad case" }
    | some (sups, recs, ℓ) =>
      let m := "ok" :: report (parse (listing sups recs ℓ))
      let inDom := wfListing sups recs ℓ
      -- spec: the entries are those the listing denotes (every field as written); Read and the JSON round trip agree
      let j := match out with | "ok" :: rep => reportOk sups recs rep | _ => false
      -- a difference from the model that is confined to the slots of letters the table does not name is drift, not a DIFF
      let same := out == m || (hasUnknownLetter sups recs && j)
      let indentCls := if ℓ.indent.isEmpty then "noindent" else if ℓ.indent.all (· == ' ') then "spaces"
                       else if ℓ.indent.all (· == '\t') then "tabs" else "mixed"
      let triv := recs.isEmpty
      { corr := same, judge := if inDom then some j else outsideVerdict (out == m) out,
        cls := (if triv then "triv:" else "") ++ "listing/" ++ sizeClass recs.length ++ "/" ++ indentCls
               ++ (if recs.length > 256 then "/over256" else "")
               ++ (if recs.any (fun r => !r.codes.isEmpty) then "/decoded" else "")
               ++ (if recs.any (·.isos.isEmpty) then "/empty2" else "")
               ++ (if hasUnknownLetter sups recs then (if out == m then "/unknown-letter" else "/unknown-letter-drift") else ""),
        detail := if out == m && (j || !inDom) then "" else lineOf ((m.take 40)) }
  | ["raw", text] =>
    let m := "ok" :: report (parse text.toList)
    { corr := out == m, judge := outsideVerdict (out == m) out, cls := "raw", detail := if out == m then "" else lineOf (m.take 40) }
  | ["rawhex", _] =>
    -- bytes, not text: there is no model; what json.Marshal/Unmarshal make of them is recorded in the class
    { corr := true, judge := if abnormal out then some false else none,
      cls := "rawhex/" ++ (if out.contains "json-same" then "json-same" else if out.contains "json-diff" then "json-diff" else "other"),
      detail := "" }
  | "import" :: toks =>
    match decodeJ toks with
    | none => { corr := false, judge := none, cls := "bad-case", detail := "bad case" }
    | some v =>
      let m := match importJ v with
        | some mp => "ok" :: "ok" :: showEntries mp
        | none => ["ok", "unmarshal-error"]
      -- the clause "the export parses back": Go's Unmarshal agrees with the value-level reader the theorem is about
      { corr := out == m, judge := some (out == m), cls := "import/" ++ (if (importJ v).isSome then "ok" else "error"),
        detail := if out == m then "" else lineOf (m.take 40) }
  | ["file", _] =>
    match out with
    | "ok" :: text :: rest =>
      let m := report (parse text.toList)
      match unlayout text.toList with
      | some (sups, recs, ℓ) =>
        let isListing := listing sups recs ℓ == text.toList && wfListing sups recs ℓ
        let j := reportOk sups recs rest && someDecoded (expectedMap sups recs) && namesNodup recs
        -- the sample must BE a listing (re-rendering gives the file back, `wfListing` holds): otherwise FAIL
        { corr := rest == m, judge := some (isListing && j),
          cls := if isListing then "file/" ++ sizeClass recs.length ++ "/spaces/decoded" else "file/not-a-listing",
          detail := if rest == m && isListing && j then "" else
                    (if isListing then "" else "the sample file is not `listing sups recs l` for the content the recogniser extracts; ")
                    ++ lineOf (m.take 40) }
      | none => { corr := rest == m, judge := some false, cls := "file/not-a-listing",
                  detail := "the sample file is not in the shape of a format-31 listing (recogniser failed)" }
    | _ => { corr := false, judge := some false, cls := "file/unreadable", detail := "the sample file could not be read" }
  | ["readmissing", _] =>
    { corr := out == ["ok", "error", "0"], judge := some (out == ["ok", "error", "0"]), cls := "triv:read-missing", detail := "" }
  | _ => { corr := false, judge := none, cls := "bad-case", detail := "bad case" }

def driver : PropDriver := { render, judge }
end PolyVerif.Driver.C16
