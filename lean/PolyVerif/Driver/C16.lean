import PolyVerif.Model.Rebase
import PolyVerif.Spec.RebaseListing
/-
Driver of C16.  Abstract cases:

  listing nsup { code name } nrec { name niso { iso } recog meth org src codes refs nmore { reference } }
          nprose { line } blank indent afterHeading tableGaps afterTable gaps finalNewline
      → request `rebase_parse <text>` with `<text> = Spec.RebaseListing.listing sups recs ℓ`
  raw <text>          → request `rebase_parse <text>` (probes outside the quantifier; never judged)
  file <name>         → request `rebase_file <name>`: the sample file shipped with the package; the reply
                        carries the file's text, which is re-rendered through `unlayout`/`listing`
  readmissing <x>     → request `rebase_read_missing <x>`
-/
namespace PolyVerif.Driver.C16
open PolyVerif PolyVerif.LineText PolyVerif.Rebase PolyVerif.Spec.RebaseListing

def str (s : Str) : String := String.ofList s

def takeStrs : Nat → List String → Option (List Str × List String)
  | 0, r => some ([], r)
  | n + 1, s :: r => (takeStrs n r).map fun (ss, r') => (s.toList :: ss, r')
  | _, _ => none

def takeSups : Nat → List String → Option (List Supplier × List String)
  | 0, r => some ([], r)
  | n + 1, c :: nm :: r =>
    match c.toList with
    | [ch] => (takeSups n r).map fun (ss, r') => ({ code := ch, name := nm.toList } :: ss, r')
    | _ => none
  | _, _ => none

def takeRecs : Nat → List String → Option (List Rec × List String)
  | 0, r => some ([], r)
  | n + 1, nm :: ni :: r =>
    match takeStrs (natOfStr ni) r with
    | some (isos, recog :: meth :: org :: src :: codes :: refs :: nmore :: r') =>
      match takeStrs (natOfStr nmore) r' with
      | some (more, r'') =>
        (takeRecs n r'').map fun (rs, r3) =>
          ({ name := nm.toList, isos := isos, recog := recog.toList, meth := meth.toList, org := org.toList,
             src := src.toList, codes := codes.toList, refs := refs.toList, moreRefs := more } :: rs, r3)
      | none => none
    | _ => none
  | _, _ => none

def natList (s : String) : List Nat :=
  if s.isEmpty then [] else (s.splitOn ",").map natOfStr

def decodeListing : List String → Option (List Supplier × List Rec × Layout)
  | ns :: r =>
    match takeSups (natOfStr ns) r with
    | some (sups, nr :: r1) =>
      match takeRecs (natOfStr nr) r1 with
      | some (recs, np :: r2) =>
        match takeStrs (natOfStr np) r2 with
        | some (prose, [blank, indent, ah, tg, aft, gaps, fnl]) =>
          some (sups, recs, { prose := prose, blank := blank.toList, indent := indent.toList, afterHeading := natOfStr ah,
                              tableGaps := natList tg, afterTable := natOfStr aft, gaps := natList gaps,
                              finalNewline := fnl == "true" })
        | _ => none
      | _ => none
    | _ => none
  | _ => none

/-! ### canonical rendering (the harness prints the same fields) -/

def showList (l : List Str) : List String :=
  if l.isEmpty then ["nil"] else toString l.length :: l.map str

def showEntry (kv : Str × Enzyme) : List String :=
  let e := kv.2
  [str kv.1, str e.name] ++ showList e.isoschizomers
  ++ [str e.recognitionSequence, str e.methylationSite, str e.microOrganism, str e.source]
  ++ showList e.commercialAvailability ++ [str e.references]

/-- entries in sorted key order -/
def showEntries (m : List (Str × Enzyme)) : List String :=
  toString m.length :: (sortedEntries {} m).flatMap showEntry

/-- the whole report of the harness for one text: Parse, Read, Export/Unmarshal, Export tokens -/
def report (m : Outcome (List (Str × Enzyme))) : List String :=
  match m with
  | .ok m =>
    let toks := tokens (exportJ m)
    "ok" :: showEntries m ++ ["read-same", "json-same", toString toks.length] ++ toks
  | _ => ["panic"]

def render (c : List String) : List String :=
  match c with
  | "listing" :: r =>
    match decodeListing r with
    | some (sups, recs, ℓ) => ["rebase_parse", str (listing sups recs ℓ)]
    | none => ["bad"]
  | ["raw", text] => ["rebase_parse", text]
  | ["file", name] => ["rebase_file", name]
  | ["readmissing", x] => ["rebase_read_missing", x]
  | _ => ["bad"]

def sizeClass (n : Nat) : String :=
  if n == 0 then "recs=0" else if n == 1 then "recs=1" else if n ≤ 20 then "recs<=20" else "recs>20"

/-- some enzyme has suppliers and none of them is the empty string -/
def someDecoded (m : List (Str × Enzyme)) : Bool :=
  m.any fun kv => !kv.2.commercialAvailability.isEmpty && kv.2.commercialAvailability.all (fun s => !s.isEmpty)

def judge (c out : List String) : Verdict :=
  match c with
  | "listing" :: r =>
    match decodeListing r with
    | none => { corr := false, judge := none, cls := "bad-case", detail := "bad case" }
    | some (sups, recs, ℓ) =>
      let m := "ok" :: report (parse (listing sups recs ℓ))
      let inDom := wfListing sups recs ℓ
      -- spec: the entries are those the listing denotes; Read and the JSON round trip agree
      let want := report (.ok (expectedMap sups recs))
      let j := out == "ok" :: want
      let indentCls := if ℓ.indent.isEmpty then "noindent" else if ℓ.indent.all (· == ' ') then "spaces"
                       else if ℓ.indent.all (· == '\t') then "tabs" else "mixed"
      let triv := recs.isEmpty
      { corr := out == m, judge := if inDom then some j else none,
        cls := (if triv then "triv:" else "") ++ "listing/" ++ sizeClass recs.length ++ "/" ++ indentCls
               ++ (if recs.any (fun r => !r.codes.isEmpty) then "/decoded" else ""),
        detail := if out == m && (j || !inDom) then "" else lineOf ((m.take 40)) }
  | ["raw", text] =>
    let m := "ok" :: report (parse text.toList)
    { corr := out == m, judge := none, cls := "raw", detail := if out == m then "" else lineOf (m.take 40) }
  | ["file", _] =>
    match out with
    | "ok" :: text :: rest =>
      let m := report (parse text.toList)
      match unlayout text.toList with
      | some (sups, recs, ℓ) =>
        let isListing := listing sups recs ℓ == text.toList && wfListing sups recs ℓ
        let want := report (.ok (expectedMap sups recs))
        let j := rest == want && someDecoded (expectedMap sups recs) && namesNodup recs
        -- the sample must BE a listing (re-rendering gives the file back, `wfListing` holds): otherwise FAIL
        { corr := rest == m, judge := some (isListing && j),
          cls := if isListing then "file/" ++ sizeClass recs.length ++ "/spaces/decoded" else "file/not-a-listing",
          detail := if rest == m && isListing && j then "" else
                    (if isListing then "" else "the sample file is not `listing sups recs l` for the content the recogniser extracts; ")
                    ++ lineOf (m.take 40) }
      | none => { corr := rest == m, judge := some false, cls := "file/not-a-listing",
                  detail := "the sample file is not in the shape of a format-31 listing (recogniser failed)" }
    | _ => { corr := false, judge := some false, cls := "file/unreadable", detail := "the sample file could not be read" }
  | ["readmissing", _] =>
    { corr := out == ["ok", "error", "0"], judge := some (out == ["ok", "error", "0"]), cls := "triv:read-missing", detail := "" }
  | _ => { corr := false, judge := none, cls := "bad-case", detail := "bad case" }

def driver : PropDriver := { render, judge }
end PolyVerif.Driver.C16
