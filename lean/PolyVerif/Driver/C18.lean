import PolyVerif.Model.CodonTables
import PolyVerif.Spec.ValueTables
/-
Driver of C18.  Abstract case:

  reuse <id:n:seqA> <seqB> <src2> <cuts> <protein>
     ONE Table value (detached copy of default table n) is re-weighted IN PLACE from seqA, combined with src2's table,
     re-weighted in place from seqB (same backing arrays) and combined again; the reply is two `pair` replies
     separated by "|", each judged as the pair (id:n:seqA, src2) resp. (id:n:seqB, src2): a result may depend on
     the arguments' current VALUES only, not on what the same Table value held in an earlier call.
  pair <src1> <src2> <cuts> <protein>
     src   = id:<n>:<coding sequence>   default table n, detached (deep copy) and re-weighted
           | raw:<table text>           a literal table
     cuts  = float64 bit patterns (decimal), comma separated

The harness reports the two operand tables (the amino-acid order of a default table is a Go map's), then
AddCodonTable both ways, and per cut-off CompromiseCodonTable both ways and Optimize(protein) on the first.
corr : implementation == Float model (bit-exact integers), operands == re-weighted regenerated tables (as maps)
judge: the spec predicates of Spec/ValueTables (exact shares, ±1 on the 10000 scale) on the implementation's output.
-/
namespace PolyVerif.Driver.C18
open PolyVerif PolyVerif.Codon PolyVerif.CodonTables
open PolyVerif.Spec.ValueTables (isSumOf isCompromiseOf isCompromiseOfP prepPair sameWeights sameCode WFCode posTotals nonNeg notRare encodable chunks3 pairs reweight)

def render (f : List String) : List String :=
  match f with
  | "pair" :: rest => "c18pair" :: rest
  | "reuse" :: rest => "c18reuse" :: rest
  | _ => f

/-- exact value of a float64 bit pattern (`none` for NaN / ±Inf) -/
def ratOfBits (n : Nat) : Option Rat :=
  let sign : Nat := n / 2 ^ 63
  let e : Nat := (n / 2 ^ 52) % 2048
  let m : Nat := n % 2 ^ 52
  let full : Nat := 2 ^ 52 + m
  if e = 2047 then none else
  let mag : Rat := if e = 0 then mkRat (m : Int) (2 ^ 1074) else mkRat ((full * 2 ^ e : Nat) : Int) (2 ^ 1075)
  some (if sign = 1 then -mag else mag)

inductive Res | table (t : Table) | err | panic | other (s : String)
deriving BEq

def parseRes (s : String) : Res :=
  if s == "err" then .err else if s == "panic" then .panic
  else if s.startsWith "T" && validTableText (s.drop 1).toString then .table (parseTable (s.drop 1).toString) else .other s

def resOfOutcome : Outcome Table → Res
  | .ok t => .table t
  | .err => .err
  | .panic => .panic

def showRes : Res → String
  | .table t => "T" ++ showTable t | .err => "err" | .panic => "panic" | .other s => s

/-- the operand the harness must have built, as a map -/
def operandOk (src : String) (t : Table) : Bool :=
  match src.splitOn ":" with
  | "id" :: n :: rest =>
    let g := (genDefaults.lookup (natOfStr n)).getD zeroTable
    canonTable t == canonTable (optimizeTable g (":".intercalate rest).toList)   -- = Spec reweight on ASCII (Props/C08 reweight_exact)
  | "raw" :: rest => t == parseTable (":".intercalate rest)
  | _ => false

structure CutVerdict where
  corr : Bool
  pass : Bool
  inRange : Bool
  tag : String
  detail : String

/-- the Optimize clause on the real codon.Optimize reply `oopt` for protein `p` and compromise table `r12` -/
def optimizeOk (q : Rat) (t1 t2 r12 : Table) (p : Str) (oopt : String) : Bool :=
  let canEncode := p.all fun aa => encodable r12 [aa]
  if oopt.startsWith "S" then
    let cs := chunks3 (oopt.drop 1).toString.toList
    canEncode && cs.length == p.length && (oopt.length - 1) == 3 * p.length &&
      (p.zip cs).all fun ac => (pairs t1).contains ([ac.1], ac.2) && decide (Spec.ValueTables.weightAt r12 [ac.1] ac.2 > 0) && notRare q t1 t2 [ac.1] ac.2
  else oopt == "err" && !canEncode     -- an error is right only when some residue has no eligible codon

def judgeCut (t1 t2 : Table) (P12 P21 : List Spec.ValueTables.PrepCodon) (inDom : Bool) (protein : Str) (bits : String) (o12 o21 oopt : String) : CutVerdict :=
  let c := Float.ofBits (UInt64.ofNat (natOfStr bits))
  let m12 := resOfOutcome (compromise floatArith t1 t2 c)
  let m21 := resOfOutcome (compromise floatArith t2 t1 c)
  let i12 := parseRes o12
  let i21 := parseRes o21
  let corr := i12 == m12 && i21 == m21
  match ratOfBits (natOfStr bits) with
  | none => { corr, pass := true, inRange := true, tag := "nonreal", detail := if corr then "" else showRes m12 ++ " | " ++ showRes m21 }
  | some q =>
    let x12 := resOfOutcome (compromise exactArith t1 t2 q)
    let fx := if i12 == x12 then "" else "fx"
    -- the Nat-level float64 instance (the one Props/C18F64 is about) must be the implementation too, bit for bit
    let corr := corr && (q < 0 || q > 1 || !inDom ||
      (i12 == resOfOutcome (compromise f64Arith t1 t2 q) && i21 == resOfOutcome (compromise f64Arith t2 t1 q)))
    let outOfRange := q < 0 || q > 1
    let pass :=
      if outOfRange then i12 == .err && i21 == .err          -- compromise_rejects: whatever the tables
      else if !inDom then true
      else
        match i12, i21 with
        | .table r12, .table r21 =>
          isCompromiseOfP q P12 t1 r12 && isCompromiseOfP q P21 t2 r21 && sameWeights r12 r21 &&
          optimizeOk q t1 t2 r12 protein oopt
        | _, _ => false
    { corr, pass, inRange := !outOfRange,
      tag := (if q < 0 then "neg" else if q > 1 then "big" else if q == 0 then "zero" else if q == 1 then "one" else "mid") ++ fx
        ++ (if !outOfRange && inDom then (if oopt.startsWith "S" then "+opt" else "+nopt") else ""),
      detail := if corr && pass then "" else "cut " ++ bits ++ " float model: " ++ showRes m12 ++ " | " ++ showRes m21 }

def triples : List String → List (String × String × String)
  | a :: b :: c :: rest => (a, b, c) :: triples rest
  | _ => []

def judgePair (s1 s2 cuts protein : String) (out : List String) : Verdict :=
    match out with
    | "ok" :: o1 :: o2 :: a12 :: a21 :: rest =>
      let t1 := parseTable o1
      let t2 := parseTable o2
      let cutl := splitNonEmpty cuts ","
      let shapeOk := rest.length == 3 * cutl.length && validTableText o1 && validTableText o2
      let opsOk := operandOk s1 t1 && operandOk s2 t2
      let inDom := !t1.aminoAcids.isEmpty && !t2.aminoAcids.isEmpty && Spec.ValueTables.Compatible t1 t2 && posTotals t1 && posTotals t2 && nonNeg t1 && nonNeg t2
      let ma12 := Res.table (addTable t1 t2)
      let ma21 := Res.table (addTable t2 t1)
      let ia12 := parseRes a12
      let ia21 := parseRes a21
      let addCorr := ia12 == ma12 && ia21 == ma21
      let addPass := !inDom || (match ia12, ia21 with
        | .table r12, .table r21 => isSumOf t1 t2 r12 && isSumOf t2 t1 r21 && sameWeights r12 r21
        | _, _ => false)
      let P12 := prepPair t1 t2
      let P21 := prepPair t2 t1
      let cvs := (cutl.zip (triples rest)).map fun p => judgeCut t1 t2 P12 P21 inDom protein.toList p.1 p.2.1 p.2.2.1 p.2.2.2
      -- correspondence is decided per cut-off: NaN / ±Inf cut-offs are outside the quantifier ([-1,2]), a difference
      -- confined to them is drift (named in class and detail), not an in-domain disagreement
      let realCvs := cvs.filter fun v => v.tag != "nonreal"
      let nonrealDrift := cvs.any fun v => v.tag == "nonreal" && !v.corr
      -- outside the property's pairs (different codes, empty or malformed tables, an amino acid that never occurs) only the
      -- rejection of out-of-range cut-offs is constrained: everything else such a pair returns is drift
      let corr := if inDom then shapeOk && opsOk && addCorr && realCvs.all (·.corr)
                  else shapeOk && opsOk && (realCvs.filter fun v => !v.inRange).all (·.corr)
      let outsideDrift := !inDom && !(addCorr && realCvs.all (·.corr))
      let pass := shapeOk && opsOk && addPass && cvs.all (·.pass)
      -- a pair outside the property's quantifier is judged only when ALL its cut-offs are out of range
      -- (the rejection clause holds for any tables); otherwise it is correspondence drift only
      let rejectOnly := cvs.all fun v => !v.inRange
      -- an operand that is not the re-weighted regenerated table (resp. the literal given) is a failure of the case
      -- whatever domain the wrong operand falls into
      let judged := inDom || rejectOnly || !opsOk
      let nanTag := if !posTotals t1 || !posTotals t2 then "/nan" else ""
      let difId := match s1.splitOn ":", s2.splitOn ":" with
        | "id" :: a :: _, "id" :: b :: _ => if a == b then "/same-id" else "/ids-" ++ a ++ "-" ++ b
        | _, _ => "/raw"
      let orderTag := if (t1.aminoAcids.map (·.letter)) == (t2.aminoAcids.map (·.letter)) then "" else "/reordered"
      let ssTag := if t1.startCodons == t2.startCodons && t1.stopCodons == t2.stopCodons then "" else "/startstop-differ"
      let tags := (cvs.map (·.tag)).eraseDups
      { corr, judge := if judged then some pass else none,
        cls := (if inDom then "pair/indomain" ++ (if difId.startsWith "/ids" then "/two-ids" else difId) ++ orderTag ++ ssTag
                else if rejectOnly then "triv:pair/outside/reject-only" ++ nanTag
                else "triv:pair/outside" ++ nanTag) ++
               "/" ++ ",".intercalate tags ++ (if nonrealDrift then "/nonreal-drift" else "") ++ (if outsideDrift then "/outside-drift" else ""),
        detail := if corr && pass then (if nonrealDrift then "drift on non-real cut-offs only: " ++
            " ".intercalate ((cvs.filter fun v => !v.corr).map (·.detail)) else "") else
          (if !opsOk then "operands differ from re-weighted regenerated tables; " else "") ++
          (if !addCorr then "add model: " ++ showRes ma12 ++ "; " else "") ++
          (if !addPass then "add spec fails; " else "") ++
          " ".intercalate ((cvs.filter fun v => !(v.corr && v.pass)).map (·.detail)) }
    | st :: _ => { corr := false, judge := some false, cls := "pair/" ++ st, detail := "implementation did not answer" }
    | [] => { corr := false, judge := some false, cls := "pair/missing", detail := "no reply" }

def judge (f out : List String) : Verdict :=
  match f with
  | ["pair", s1, s2, cuts, protein] => judgePair s1 s2 cuts protein out
  | ["reuse", s1, seqB, s2, cuts, protein] =>
    match out with
    | "ok" :: vals =>
      let a := vals.takeWhile (· != "|")
      let b := (vals.dropWhile (· != "|")).drop 1
      let idPart := match s1.splitOn ":" with
        | "id" :: n :: _ => "id:" ++ n ++ ":"
        | _ => "bad:"
      let va := judgePair s1 s2 cuts protein ("ok" :: a)
      let vb := judgePair (idPart ++ seqB) s2 cuts protein ("ok" :: b)
      let both := fun (x y : Option Bool) => match x, y with
        | some p, some q => some (p && q)
        | some p, none => some p
        | none, some q => some q
        | none, none => none
      { corr := va.corr && vb.corr, judge := both va.judge vb.judge,
        cls := (if va.cls.startsWith "triv:" && vb.cls.startsWith "triv:" then "triv:" else "") ++ "reuse/" ++
               (if vb.cls.startsWith "triv:" then (vb.cls.drop 5).toString else vb.cls),
        detail := (if va.corr && va.judge != some false then "" else "first use: " ++ va.detail ++ " ") ++
                  (if vb.corr && vb.judge != some false then "" else "after the in-place re-weighting: " ++ vb.detail) }
    | st :: _ => { corr := false, judge := some false, cls := "reuse/" ++ st, detail := "implementation did not answer" }
    | [] => { corr := false, judge := some false, cls := "reuse/missing", detail := "no reply" }
  | _ => { corr := false, judge := none, cls := "bad-case", detail := "bad case" }

def driver : PropDriver := { render, judge }
end PolyVerif.Driver.C18
