import PolyVerif.Driver.C04
import Std.Data.HashMap
namespace PolyVerif.Driver.C05
open PolyVerif PolyVerif.Seqhash PolyVerif.Transform

/-- Independent reading of the canonical representative: least rotation (arg-min spec) and/or
lesser strand, with the complement taken from the IUPAC code-set spec (U complemented to A, as RNA pairs). -/
def specCompl (c : Char) : Char := if c == 'U' then 'A' else if c == 'Z' then Char.ofNat 0 else Spec.complCode c
def specRc (s : Str) : Str := s.reverse.map specCompl

def specCanon (s : Str) (circ ds : Bool) : Str :=
  match circ, ds with
  | true, true => Spec.lexMin (Spec.leastRotation s) (Spec.leastRotation (specRc s))
  | true, false => Spec.leastRotation s
  | false, true => Spec.lexMin s (specRc s)
  | false, false => s

def specNorm (s : Str) (ty : String) : Str :=
  let u := upper s
  if ty == "RNA" then u.map (fun c => if c == 'U' then 'T' else c) else u

def specTag (ty : String) (circ ds : Bool) : String :=
  (if ty == "DNA" then "D" else if ty == "RNA" then "R" else "P") ++ (if circ then "C" else "L") ++ (if ds then "D" else "S")

def specHash (s : Str) (ty : String) (circ ds : Bool) : String :=
  "v1_" ++ specTag ty circ ds ++ "_" ++
    String.ofList (hex (Blake3.sum256 ((specCanon (specNorm s ty) circ ds).map fun c => c.toNat.toUInt8)))

def isHex64 (s : String) : Bool := s.length == 64 && s.toList.all fun c => c.isDigit || ('a' ≤ c && c ≤ 'f')

/-- all words of length n over an alphabet, in odometer order (last letter fastest) -/
def allWords (alpha : Str) : Nat → List Str
  | 0 => [[]]
  | n + 1 => alpha.flatMap fun c => (allWords alpha n).map (c :: ·)

/-- cases:
  `form s ty circ ds`        : one Hash call; value must be the published v1 form of the canonical representative,
                               or an error exactly when the input is not acceptable
  `partition alpha n ty circ ds` : Hash of every word of length n over alpha (harness op `hashall`); the partition by
                               hash must coincide with the partition by canonical representative -/
def render (f : List String) : List String :=
  match f with
  | ["form", s, ty, circ, ds] => ["hash", s, ty, circ, ds]
  | ["partition", alpha, n, ty, circ, ds] => ["hashall", alpha, n, ty, circ, ds]
  | _ => ["bad"]

def judge (f out : List String) : Verdict :=
  match f with
  | ["form", s, ty, circ, ds] =>
    let cs := s.toList
    let m := C04.outStr (hash Blake3.sum256 cs ty (C04.b circ) (C04.b ds))
    let o := C04.normOut out
    let acc := C04.accepted cs ty (C04.b ds)
    let j := if acc then
        (match o with
         | ["ok", h] => h == specHash cs ty (C04.b circ) (C04.b ds) && isHex64 (h.drop 7).toString && h.length == 71
         | _ => false)
      else o == ["err"]
    { corr := o == m, judge := some j,
      cls := (if acc then (if cs.length < 2 then "triv:" else "") ++ "form/" ++ specTag ty (C04.b circ) (C04.b ds) else "reject"),
      detail := if o == m && j then "" else lineOf (m ++ ["spec", if acc then specHash cs ty (C04.b circ) (C04.b ds) else "err"]) }
  | ["partition", alpha, n, ty, circ, ds] =>
    let ws := allWords alpha.toList (natOfStr n)
    match out with
    | "ok" :: fields =>
      -- one reply field per word (a single comma-joined field is still accepted)
      let hs := match fields with | [joined] => joined.splitOn "," | fs => fs
      if hs.length != ws.length then { corr := false, judge := some false, cls := "partition", detail := "count mismatch" } else
      let c := C04.b circ; let d := C04.b ds
      -- hash -> canon and canon -> hash must both be functional
      let step := fun (acc : Bool × Std.HashMap String String × Std.HashMap String String × Bool) (p : Str × String) =>
        let (ok, h2c, c2h, corr) := acc
        let (w, h) := p
        let can := String.ofList (specCanon (specNorm w ty) c d)
        let ok1 := match h2c[h]? with | some can' => can' == can | none => true
        let ok2 := match c2h[can]? with | some h' => h' == h | none => true
        let mh := C04.outStr (hash Blake3.sum256 w ty c d)
        (ok && ok1 && ok2, h2c.insert h can, c2h.insert can h, corr && mh == ["ok", h])
      let (ok, _, c2h, corr) := (ws.zip hs).foldl step (true, {}, {}, true)
      { corr := corr, judge := some ok, cls := "partition/" ++ specTag ty c d ++ "/" ++ n,
        detail := if ok && corr then s!"classes={c2h.size}" else "partition by hash differs from orbit partition (or model differs)" }
    | _ => { corr := false, judge := some false, cls := "partition", detail := "bad reply" }
  | _ => { corr := false, judge := none, cls := "bad-case" }

def driver : PropDriver := { render, judge }
end PolyVerif.Driver.C05
