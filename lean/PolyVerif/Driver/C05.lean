import PolyVerif.Driver.C04
import Std.Data.HashMap
namespace PolyVerif.Driver.C05
open PolyVerif PolyVerif.Seqhash PolyVerif.Transform

/-- Independent reading of the other strand (`C04.specRc`: reverse + code-set complement, U complemented
to A as RNA pairs, Z to the zero rune). -/
def specRc (s : Str) : Str := C04.specRc s

/-- Independent reading of the canonical representative: least rotation (arg-min spec) and/or lesser strand. -/
def specCanon (s : Str) (circ ds : Bool) : Str :=
  match circ, ds with
  | true, true => Spec.lexMin (Spec.leastRotation s) (Spec.leastRotation (specRc s))
  | true, false => Spec.leastRotation s
  | false, true => Spec.lexMin s (specRc s)
  | false, false => s

def specNorm (s : Str) (ty : String) : Str :=
  let u := upper s
  if ty == "RNA" then u.map (fun c => if c == 'U' then 'T' else c) else u

def specTag (ty : String) (circ ds : Bool) : String :=
  (if ty == "DNA" then "D" else if ty == "RNA" then "R" else "P") ++ (if circ then "C" else "L") ++ (if ds then "D" else "S")

def specHash (s : Str) (ty : String) (circ ds : Bool) : String :=
  "v1_" ++ specTag ty circ ds ++ "_" ++
    String.ofList (hex (Blake3.sum256 ((specCanon (specNorm s ty) circ ds).map fun c => c.toNat.toUInt8)))

/-- a (normalised) sequence with a letter whose OTHER STRAND the property does not define: anything but
the 15 IUPAC codes and `U` (which pairs with `A`).  Of the accepted nucleotide letters this is `Z`.
For a double-stranded input with such a letter the strand clauses (value of the digest, separation and
completeness up to strand) are not judged: whatever the code's complement table answers for `Z` is
outside the property (the correspondence with the model, which reads the REGENERATED table, still is). -/
def strandUndefined (w : Str) : Bool := w.any fun c => !(Spec.upperCodes.contains c || c == 'U')

def isHex64 (s : String) : Bool := s.length == 64 && s.toList.all fun c => c.isDigit || ('a' ≤ c && c ≤ 'f')

/-- all words of length n over an alphabet, in odometer order (last letter fastest) -/
def allWords (alpha : Str) : Nat → List Str
  | 0 => [[]]
  | n + 1 => alpha.flatMap fun c => (allWords alpha n).map (c :: ·)

/-- every rotation of `t` when circular (written with `drop`/`take` over every offset), else `t` alone -/
def rots (circ : Bool) (t : Str) : List Str :=
  if circ then t :: (List.range t.length).map (fun k => t.drop k ++ t.take k) else [t]

/-- BRUTE-FORCE orbit of a (normalised) sequence: every rotation when circular, of the sequence and —
when double-stranded — of its other strand.  No canonical form, no least rotation.
"Other strand" is `specRc`: reverse + the independent code-set complement, with `U` pairing with `A`
(as in RNA) also when the declared type is DNA.  That reading of a `U` inside a DNA word is a choice of
this judge; it is the choice under which `U`-under-DNA is a defect (with it, `U` and `T` are different
letters with the same partner). -/
def orbit (s : Str) (circ ds : Bool) : List Str :=
  rots circ s ++ (if ds then rots circ (specRc s) else [])

/-- "the same molecule", decided by enumeration: one lies in the orbit of the other -/
def sameMolecule (a b : Str) (circ ds : Bool) : Bool := (orbit a circ ds).contains b || (orbit b circ ds).contains a

/-- Known finding C05-dna-u-strand, SEPARATION half: a NECESSARY condition for a collision produced by the
defect (Props/C05 `hash_collision_class`: every collision between different molecules lies in it):
double-stranded, type DNA, a `U` in one of the two words, and the two words have the SAME OTHER STRAND up to
rotation (so they differ only in the `U`/`T` spelling of letters: `U` and `T` both complement to `A`).  Not
sufficient (`AAU`/`AAT` satisfy it and do not collide; the missing conjunct is "the other strand is the
hashed one for both", `hash_collision_of_residue`): it is applied to OBSERVED failing pairs only, and the
tag additionally requires implementation = model on every word, so it cannot excuse anything the recorded
defect does not itself produce. -/
def knownSep (ty : String) (circ ds : Bool) (w w' : Str) : Bool :=
  ds && ty == "DNA" && (w.contains 'U' || w'.contains 'U') && (rots circ (specRc w)).contains (specRc w')

/-- COMPLETENESS half, likewise a necessary condition on an observed failing pair: double-stranded, type DNA,
the word contains `U` and the orbit member with a different hash is (a rotation of) its OTHER STRAND — never a
plain rotation of the word itself (rotation invariance is untouched by the defect). -/
def knownComp (ty : String) (circ ds : Bool) (w o : Str) : Bool :=
  ds && ty == "DNA" && w.contains 'U' && (rots circ (specRc w)).contains o && !(rots circ w).contains o

/-- result of judging a family of (normalised word, hash) pairs against brute-force orbits -/
structure PartRes where
  consistent : Bool                -- two words with one normal form have one hash
  sep : List (Str × Str)           -- same hash, not the same molecule
  comp : List (Str × Str)          -- same molecule (orbit member in the family), different hash
  classes : Nat

def PartRes.ok (r : PartRes) : Bool := r.consistent && r.sep.isEmpty && r.comp.isEmpty

def partitionCheck (judged : List (Str × String)) (c d : Bool) : PartRes :=
  let key := fun (w : Str) => String.ofList w
  -- word -> hash (two words with the same normal form must have the same hash) and hash -> words
  let (w2h, h2w, consistent) := judged.foldl
    (fun (acc : Std.HashMap String String × Std.HashMap String (List Str) × Bool) (p : Str × String) =>
      let (w2h, h2w, ok) := acc
      let (w, h) := p
      match w2h[key w]? with
      | some h' => (w2h, h2w, ok && h' == h)
      | none => (w2h.insert (key w) h, h2w.insert h (w :: (h2w.getD h [])), ok))
    ({}, {}, true)
  -- (1) separation: two words with the same hash must be the same molecule (brute-force orbits)
  let sepFails : List (Str × Str) := h2w.fold (fun acc _ cl =>
    let orbs := cl.map fun w => (w, orbit w c d)
    let rec pairs : List (Str × List Str) → List (Str × Str) → List (Str × Str)
      | [], acc => acc
      | (w, ow) :: rest, acc =>
        pairs rest (rest.foldl (fun acc (w', ow') => if ow.contains w' || ow'.contains w then acc else (w, w') :: acc) acc)
    pairs orbs acc) []
  -- (2) completeness: every member of a word's orbit that is itself a word of the family has the word's hash
  let compFails : List (Str × Str) := judged.foldl (fun acc (w, h) =>
    (orbit w c d).foldl (fun acc o =>
      match w2h[key o]? with
      | some h' => if h' == h then acc else (w, o) :: acc
      | none => acc) acc) []
  { consistent := consistent, sep := sepFails, comp := compFails, classes := h2w.size }

/-- `U → T`: the reading of a DNA word under which known finding C05-dna-u-strand disappears -/
def foldU (s : Str) : Str := s.map fun c => if c == 'U' then 'T' else c

/-- the inputs a REPAIR of known finding C05-dna-u-strand changes: type DNA and a `U`/`u` in the sequence
(a repair cannot be confined to double-stranded inputs: rejecting `U` under DNA, or rewriting it to `T` as
under RNA, acts on every DNA input that contains it) -/
def dnaU (s : Str) (ty : String) : Bool := ty == "DNA" && (upper s).contains 'U'

/-- cases:
  `form s ty circ ds`        : one Hash call; value must be the published v1 form of the canonical representative,
                               or an error exactly when the input is not acceptable
  `partition alpha n ty circ ds` : Hash of every word of length n over alpha (harness op `hashall`); the partition by
                               hash must coincide with the partition into molecules computed by BRUTE FORCE (enumerated orbits under
                               rotation if circular and strand exchange if double-stranded): same hash => same molecule, and every
                               member of a word's orbit has the word's hash
  `ureading w1 w2 ...`       : DNA words containing U, each hashed under all four flag pairs in ONE request; all replies must fit one
                               and the same reading of U under DNA (model / rejected / U read as T) -/
def render (f : List String) : List String :=
  match f with
  | ["form", s, ty, circ, ds] => ["hash", s, ty, circ, ds]
  | ["partition", alpha, n, ty, circ, ds] => ["hashall", alpha, n, ty, circ, ds]
  | "ureading" :: ws => "hashflags" :: "DNA" :: ws
  | _ => ["bad"]

def judge (f out : List String) : Verdict :=
  match f with
  | ["form", s, ty, circ, ds] =>
    let cs := s.toList
    let m := C04.outStr (hash Blake3.sum256 cs ty (C04.b circ) (C04.b ds))
    let o := C04.normOut out
    let acc := C04.accepted cs ty (C04.b ds)
    let noStrand := acc && C04.b ds && strandUndefined (specNorm cs ty)
    let j := if acc then
        (match o with
         | ["ok", h] =>
           (if noStrand then h.startsWith ("v1_" ++ specTag ty (C04.b circ) (C04.b ds) ++ "_")
            else h == specHash cs ty (C04.b circ) (C04.b ds)) && isHex64 (h.drop 7).toString && h.length == 71
         | _ => false)
      else o == ["err"]
    -- FALSE-ALARM RULE for known finding C05-dna-u-strand.  The model mirrors the defect (U accepted under DNA and
    -- complemented like T).  If the code is REPAIRED, replies on DNA inputs containing U change although the property
    -- holds of them (better than before): either the input is rejected (the statement lets a type's alphabet exclude U:
    -- its quantifier names U only under RNA), or it is hashed in the v1 form of the sequence with U read as T (as under
    -- RNA).  Both satisfy the form / rejection clauses, so the judge passes and the difference from the model is DRIFT.
    let repaired := acc && dnaU cs ty && o != m &&
      (o == ["err"] ||
       (if noStrand then
          -- a `Z` in a double-stranded word: the property defines no other strand, so the value is tied to the MODEL
          -- (regenerated complement table) under the repaired reading — not "any digest"
          o == C04.outStr (hash Blake3.sum256 (foldU (upper cs)) ty (C04.b circ) (C04.b ds))
        else o == ["ok", specHash (foldU (upper cs)) ty (C04.b circ) (C04.b ds)]))
    let j := j || repaired
    { corr := o == m || repaired, judge := some j,
      cls := (if acc then (if cs.length < 2 then "triv:" else "") ++ "form/" ++ specTag ty (C04.b circ) (C04.b ds) ++
                (if noStrand then "/strand-undefined" else "") ++ (if repaired then "/kf-repaired" else "") else "reject"),
      detail := if (o == m || repaired) && j then "" else lineOf (m ++ ["spec", if acc then specHash cs ty (C04.b circ) (C04.b ds) else "err"]) }
  | ["partition", alpha, n, ty, circ, ds] =>
    let ws := allWords alpha.toList (natOfStr n)
    match out with
    | "ok" :: fields =>
      -- one reply field per word (a single comma-joined field is still accepted)
      let hs := match fields with | [joined] => joined.splitOn "," | fs => fs
      if hs.length != ws.length then { corr := false, judge := some false, cls := "partition", detail := "count mismatch" } else
      let c := C04.b circ; let d := C04.b ds
      -- correspondence: the model's hash of every word (`err` = the word was rejected)
      let corrWord := fun (w : Str) (h : String) =>
        C04.outStr (hash Blake3.sum256 w ty c d) == (if h == "err" then ["err"] else ["ok", h])
      let corr := (ws.zip hs).all fun (w, h) => corrWord w h
      let anyErr := hs.any (· == "err")
      -- the sequences the hashes are about: normalised words (upper case; U read as T under RNA)
      let nws := ws.map fun w => specNorm w ty
      -- double-stranded: words with a letter whose other strand the property does not define (`Z`) are
      -- outside the strand clauses (they stay in the correspondence above)
      let inStrand := fun (w : Str) => !(d && strandUndefined w)
      let judged := (nws.zip hs).filter (fun (w, _) => inStrand w)
      let res := partitionCheck judged c d
      let sepFails := res.sep; let compFails := res.comp; let consistent := res.consistent
      let (sepKnown, sepNew) := sepFails.partition fun (w, w') => knownSep ty c d w w'
      let (compKnown, compNew) := compFails.partition fun (w, o) => knownComp ty c d w o
      let nfails := sepFails.length + compFails.length
      -- every word of a partition family is acceptable: a rejected word is a failure of the reading "as the model has it"
      let ok := consistent && nfails == 0 && !anyErr
      -- FALSE-ALARM RULE for known finding C05-dna-u-strand (see the `form` case): on a DNA family with U, if the
      -- replies do not fit the model's reading but the property HOLDS of them under a repaired reading — (B) U read as
      -- T, as under RNA: partition by hash = brute-force orbit partition of the U→T-folded words; or (C) U rejected:
      -- exactly the words containing U are rejected and the partition of the others is right — the judge passes and
      -- the difference from the model on the words containing U is drift.
      let hasU := ty == "DNA" && (upper alpha.toList).contains 'U'
      let okB := hasU && !ok && !anyErr &&
        (ws.zip hs).all (fun (w, h) => !(upper w).contains 'U' ||
          C04.outStr (hash Blake3.sum256 (foldU (upper w)) ty c d) == ["ok", h]) &&
        (partitionCheck ((nws.zip hs).filterMap fun (w, h) => let w' := foldU w; if inStrand w' then some (w', h) else none) c d).ok
      let okC := hasU && !ok && anyErr &&
        (nws.zip hs).all (fun (w, h) => (h == "err") == w.contains 'U') &&
        (partitionCheck (judged.filter fun (w, _) => !w.contains 'U') c d).ok
      let repaired := okB || okC
      let corrUfree := (ws.zip hs).all fun (w, h) => (upper w).contains 'U' || corrWord w h
      -- the known-finding tag needs: every failing pair is in the class AND the implementation agrees with the
      -- model (which IS the recorded defect) on every word of the family
      let kf := !repaired && !anyErr && nfails != 0 && consistent && sepNew.isEmpty && compNew.isEmpty && corr
      { corr := if repaired then corrUfree else corr, judge := some (ok || repaired),
        cls := (if kf then "kf:C05-dna-u-strand/" else "") ++ "partition/" ++ specTag ty c d ++ "/" ++ alpha ++ "/" ++ n ++
               (if repaired then "/kf-repaired" else ""),
        detail := if (ok && corr) || repaired then s!"classes={res.classes}"
          else if ok then "model differs from the implementation on some word"
          else if anyErr then "a word of the family was rejected"
          else if !consistent then "two words with the same normalised sequence have different hashes"
          else
            let show2 := fun (p : Str × Str) => String.ofList p.1 ++ "~" ++ String.ofList p.2
            -- pairs OUTSIDE the known class are shown first
            s!"separation failures (same hash, not the same molecule): {sepFails.length}, outside C05-dna-u-strand: {sepNew.length} e.g. {((sepNew ++ sepKnown).take 3).map show2}; " ++
            s!"completeness failures (same molecule, different hash): {compFails.length}, outside C05-dna-u-strand: {compNew.length} e.g. {((compNew ++ compKnown).take 3).map show2}" }
    | _ => { corr := false, judge := some false, cls := "partition", detail := "bad reply" }
  | "ureading" :: wsS =>
    -- ONE READING PER RUN.  DNA words containing U, each hashed under all four (topology, strandedness) pairs in one
    -- request.  Every reply must fit the SAME reading of U under DNA: (M) the model's — U a letter of its own (the
    -- recorded defect included); (R) rejected; (F) U read as T.  A reply may fit several readings (they can coincide);
    -- the case passes iff one reading fits ALL replies.  A change that folds / rejects U only for some topology,
    -- strandedness or length is a mixed reading: FAIL.
    let ws := wsS.map String.toList
    let flags := [(true, true), (true, false), (false, true), (false, false)]
    let calls := ws.flatMap fun w => flags.map fun (c, d) => (w, c, d)
    match out with
    | "ok" :: hs =>
      if hs.length != calls.length then { corr := false, judge := some false, cls := "ureading", detail := "count mismatch" } else
      let inDom := ws.all fun w => C04.accepted w "DNA" true && (upper w).contains 'U'
      let fits := (calls.zip hs).map fun ((w, c, d), h) =>
        let o := if h == "err" then ["err"] else ["ok", h]
        let u := upper w
        let noStrand := d && strandUndefined u
        let mdl := fun (s : Str) => C04.outStr (hash Blake3.sum256 s "DNA" c d)
        let fitM := if noStrand then o == mdl w else o == ["ok", specHash w "DNA" c d]
        let fitF := if noStrand then o == mdl (foldU u) else o == ["ok", specHash (foldU u) "DNA" c d]
        (fitM, o == ["err"], fitF, o == mdl w)
      let allM := fits.all (·.1); let allR := fits.all (·.2.1); let allF := fits.all (·.2.2.1)
      let same := fits.all (·.2.2.2)
      let j := allM || allR || allF
      let repaired := j && !same
      { corr := same || repaired, judge := if inDom then some j else none,
        cls := "ureading/" ++ (if allM then "model" else if allR then "rejected" else if allF then "folded" else "MIXED") ++
               (if repaired then "/kf-repaired" else ""),
        detail := if j then "" else
          "no single reading of U under DNA fits all replies; per call (word,circular,ds: fits model/rejected/folded): " ++
          String.intercalate " " ((calls.zip fits).map fun ((w, c, d), (m, r, f, _)) =>
            String.ofList w ++ "," ++ boolStr c ++ "," ++ boolStr d ++ ":" ++ (if m then "M" else "") ++ (if r then "R" else "") ++ (if f then "F" else "") ++ (if !(m || r || f) then "none" else "")) }
    | _ => { corr := false, judge := some false, cls := "ureading", detail := "bad reply" }
  | _ => { corr := false, judge := none, cls := "bad-case" }

def driver : PropDriver := { render, judge }
end PolyVerif.Driver.C05
