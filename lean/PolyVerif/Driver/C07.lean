import PolyVerif.Model.CodonOptimize
import PolyVerif.Driver.C06
namespace PolyVerif.Driver.C07
open PolyVerif PolyVerif.Codon PolyVerif.CodonTranslate PolyVerif.CodonOptimize
open PolyVerif.Driver.C06 (tableOf TKind specAA)

/-
Abstract cases (table spec as in C06: `id:N | rw:N:SEQ | txt:TABLE`):
  opt   SPEC protein n          n calls of Optimize(protein) + Translate of each result
  union SPEC protein n          the same; in addition the codons seen per letter over the n calls must be
                                exactly the eligible set (STATISTICAL: the generator sizes n so that a miss
                                has probability < 1e-12)
  freq  SPEC letter per calls   `calls` calls of Optimize on `per` copies of one letter; codon counts
                                (STATISTICAL: 8 sigma + 1 band around N·w/max)
  rp    length seed SPEC        random.ProteinSequence(length, seed), then Optimize + Translate under SPEC
  hist  SPEC n STEP…            one private table instance through a history of steps `O:protein` (n calls of
                                Optimize), `W:seq` (OptimizeTable in place), `T:dna` (Translate), `S:i,j` (swap two entries' letters in place): a result must
                                depend on the table as it is NOW, not on what the instance held earlier

  pick  CHOICES SEEDS           weightedrand.NewChooser + Pick run directly, pointwise against `newChooser` / `pick`
  freqmix SPEC protein calls    per-letter codon counts over one mixed protein (STATISTICAL, every letter judged)
  pos   SPEC protein calls      codon counts PER POSITION of a short protein (STATISTICAL: every position on its own)
  pairs SPEC XY reps calls      counts of adjacent codon pairs (STATISTICAL: consecutive picks are independent)
  replay SPEC protein           one Optimize call replayed EXACTLY on the model: the harness finds the clock seed

`Optimize` reseeds math/rand from the clock, so an output cannot be predicted; correspondence = the real
output is a MEMBER of the model's set of possible outputs (status as the model says; position by position the
codon is an item of the chooser the model builds for that residue).
-/

def dedupChars (l : Str) : Str := l.foldl (fun acc x => if acc.contains x then acc else acc ++ [x]) []

/-- "L:ITEM=w,ITEM=w;K:…": for every distinct residue that has a chooser, the chooser's data in the order the
model (stable sort by weight) leaves them -/
def choosersText (t : Table) (p : Str) : String :=
  let m := chooserMap stableSort t
  ";".intercalate ((dedupChars p).filterMap fun aa =>
    match mapGet m [aa] with
    | some ch => some (String.ofList [aa] ++ ":" ++ ",".intercalate (ch.data.map fun c => String.ofList c.item ++ "=" ++ toString c.weight))
    | none => none)

def render (f : List String) : List String :=
  match f with
  | ["opt", spec, p, n] => ["optimize", spec, p, n]
  | ["union", spec, p, n] => ["optimize", spec, p, n]
  | ["freq", spec, l, per, calls] => ["optfreq", spec, l, per, calls]
  | ["rp", len, seed, spec] => ["randprot", len, seed, spec]
  | "hist" :: spec :: n :: steps => "opthist" :: spec :: n :: steps
  | ["pick", choices, seeds] => ["pick", choices, seeds]
  | ["freqmix", spec, p, calls] => ["optfreqmix", spec, p, calls]
  | ["pos", spec, p, calls] => ["optpos", spec, p, calls]
  | ["pairs", spec, unit, reps, calls] =>
    ["optpairs", spec, String.ofList ((List.replicate (natOfStr reps) unit.toList).flatten), calls]
  | ["replay", spec, p] =>
    -- the choosers the MODEL builds (stable sort), per distinct residue, sent to the harness for the seed search
    match tableOf spec "" with
    | some (t, _) => ["optreplay", spec, p, choosersText t p.toList]
    | none => ["bad"]
  | _ => ["bad"]

/-! ### model side -/

/-- status the model predicts for `Optimize(p, t)` (draw-independent) -/
def modelStatus (t : Table) (p : Str) : String :=
  if emptyTable t then "err"
  else if byteLen p = 0 then "err"
  else
    let m := chooserMap id t
    let rec go : Str → String
      | [] => "ok"
      | aa :: rest =>
        match mapGet m [aa] with
        | none => "err"
        | some ch => if ch.max ≤ 0 then "panic" else go rest
    go p

/-- is `dna` a possible output of the model for protein `p` (some in-range draws produce it)?
`member` of the model file; Props/C07 `optimize_possible_iff` proves it is exactly that set. -/
def modelMember (t : Table) (p : Str) (dna : Str) : Bool := member t p dna

/-- the exact share test and the binary64 one agree on every codon of the table (cross-check of the float assumption) -/
def floatAgrees (t : Table) : Bool :=
  t.aminoAcids.all fun a => a.codons.all fun c => shareTest c.weight (sumWeights a) == shareTestFloat c.weight (sumWeights a)

/-! ### spec side (read directly off the table; no chooser is built) -/

/-- codons of the entries named `letter` whose usage share among the entry's codons is above 10 % (and positive) -/
def specEligible (t : Table) (letter : Str) : List Str :=
  (t.aminoAcids.filter (·.letter == letter)).flatMap fun a =>
    let total := (a.codons.map (·.weight)).foldl (· + ·) 0
    (a.codons.filter fun c => c.weight > 0 && 10 * c.weight > total).map (·.triplet)

def specEncodable (t : Table) (p : Str) : Bool := p.all fun aa => !(specEligible t [aa]).isEmpty

/-- reason tag of the first unencodable residue -/
def unencReason (t : Table) (p : Str) : String :=
  match p.find? fun aa => (specEligible t [aa]).isEmpty with
  | none => "enc"
  | some aa =>
    if t.aminoAcids.any (fun a => a.letter == [aa] && (a.codons.map (·.weight)).foldl (· + ·) 0 > 0) then "unenc-all-below-share"
    else if t.aminoAcids.any (·.letter == [aa]) then "unenc-zero-usage"
    else if t.aminoAcids.any (·.letter == [aa.toUpper]) then "unenc-lowercase"
    else "unenc-absent"

structure Run where
  st : String
  dna : Str
  tst : String
  tv : Str

def runsOf : List String → List Run
  | st :: dna :: tst :: tv :: rest => { st := st, dna := dna.toList, tst := tst, tv := tv.toList } :: runsOf rest
  | _ => []

def kindTag : TKind → String
  | .dflt _ => "default" | .rw _ => "reweighted" | .txt => "text"

/-- for a default id the table the harness process holds must be the regenerated one (as a map): the process
has not re-weighted a shared default table (C08's known aliasing) -/
def tableSame (k : TKind) (reported : String) : Bool :=
  match k with
  | .dflt n => canonTable (parseTable reported) == canonTable (getCodonTable n)
  | _ => true

/-- the property's demand on one run of an encodable protein -/
def runOk (t : Table) (k : TKind) (p : Str) (r : Run) : Bool :=
  r.st == "ok" && r.dna.length == 3 * p.length &&
  r.tst == "ok" && r.tv == p &&                                     -- the library's own Translate gives p back
  (match k with                                                      -- and so does NCBI's code, for a default table
   | .dflt n | .rw n => Spec.Ncbi.translation n r.dna == some p
   | .txt => true) &&
  (p.zip (chunks3 r.dna)).all fun (aa, c) => (specEligible t [aa]).contains c   -- share > 10 %, weight > 0

def dedup (l : List Str) : List Str := l.foldl (fun acc x => if acc.contains x then acc else acc ++ [x]) []

def sameSet (a b : List Str) : Bool := a.all b.contains && b.all a.contains

/-- the genetic code of a table as a value: (letter, sorted triplets), sorted by letter; weights dropped -/
def codeOf (t : Table) : List (Str × List Str) :=
  (canonTable t).aminoAcids.map fun a => (a.letter, a.codons.map (·.triplet))

/-- the codes of the 25 regenerated default tables -/
def defaultCodes : List (List (Str × List Str)) := Spec.Ncbi.ids.map fun n => codeOf (getCodonTable n)

/-- C07 quantifies over "the 25 default tables and tables re-weighted from coding sequences".  A table is such a
table iff (a) it satisfies `WF`, (b) its genetic code is that of one of the 25 default tables (only the weights
differ), and (c) every usage total fits a 32-bit `int` (≤ 2^31 − 1: the weights are codon counts of a sequence; `int`
is 32 bits wide on some platforms).  Text tables that are hand-written variations (merged entries, swapped letters,
totals of 10^12 …) are DRIFT PROBES: compared with the model, never judged — an implementation may validate and
reject them.  (The theorems cover more: every `WF` table, totals below 2^50.) -/
def inQuant (t : Table) : Bool :=
  decide (WF t) && defaultCodes.contains (codeOf t) &&
  t.aminoAcids.all fun a => decide (sumWeights a ≤ 2147483647)

/-- is the table of the case inside C07's quantifier?  Decidable from the case alone: one of the 25 default tables,
a re-weighting of one, or a text table satisfying `WF`.  For such a case a request the harness does not answer
(crash, timeout, panic, error for the whole request) is a FAILURE: "rejected with an error rather than a crash". -/
def specInDomain (spec : String) : Bool :=
  if spec.startsWith "id:" then Spec.Ncbi.ids.contains (natOfStr (spec.drop 3).toString)
  else if spec.startsWith "rw:" then
    match (spec.drop 3).toString.splitOn ":" with
    | n :: _ => Spec.Ncbi.ids.contains (natOfStr n)
    | _ => false
  else if spec.startsWith "txt:" then inQuant (parseTable (spec.drop 4).toString)
  else false

def noAnswer (kind spec st : String) : Verdict :=
  { corr := false, judge := if specInDomain spec then some false else none, cls := kind ++ "/NO-ANSWER-" ++ st,
    detail := "the harness did not answer this request (" ++ st ++ "): a crash, a hang or an error where the property demands a result" }

/-- correspondence and property verdict for `n` runs of Optimize(p) under table `t` -/
def judgeRuns (kind : String) (t : Table) (k : TKind) (p : Str) (n : Nat) (runs : List Run) : Bool × Bool × String × String :=
  let ms := modelStatus t p
  let fl := floatAgrees t
  let corr := fl && runs.length == n && runs.all fun r => r.st == ms && (r.st != "ok" || modelMember t p r.dna)
  let enc := specEncodable t p
  let jRuns := if p.isEmpty then runs.all (·.st == "err")
    else if enc then runs.all (runOk t k p) else runs.all (·.st == "err")
  -- union of the codons seen per letter = the eligible set (statistical)
  let letters := dedup (p.map fun c => [c])
  let jUnion := kind != "union" || !enc || letters.all fun l =>
    let seen := dedup (runs.flatMap fun r => ((p.zip (chunks3 r.dna)).filter fun (aa, _) => [aa] == l).map (·.2))
    sameSet seen (specEligible t l)
  let j := jRuns && jUnion && runs.length == n
  let tag := kindTag k ++ "/" ++ (if p.isEmpty then "empty-protein" else unencReason t p)
  let detail := if corr && j then "" else
    "model status " ++ ms ++ (if fl then "" else " FLOAT/EXACT share tests differ") ++
    (if jUnion then "" else " union≠eligible") ++ " eligible: " ++
    ";".intercalate (letters.map fun l => String.ofList l ++ ":" ++ ",".intercalate ((specEligible t l).map String.ofList))
  (corr, j, tag, detail)

def judgeOpt (kind spec : String) (p : Str) (n : Nat) (out : List String) : Verdict :=
  match out with
  | "ok" :: reported :: rest =>
    match tableOf spec reported with
    | none => { corr := false, judge := none, cls := "bad-spec" }
    | some (t, k) =>
      let (corr, j, tag, detail) := judgeRuns kind t k p n (runsOf rest)
      let corr := corr && tableSame k reported
      { corr := corr, judge := if inQuant t then some j else none,
        cls := (if p.length ≤ 1 then "triv:" else "") ++ (if kind == "union" then "stat:union/" else "opt/") ++ tag,
        detail := detail }
  | st :: _ => noAnswer "opt" spec st
  | [] => noAnswer "opt" spec "no-reply"

/-- a history on one private table instance: `W:seq` re-weights it in place, `O:protein` optimizes `n` times,
`T:dna` translates.  Every `O` / `T` step is judged against the table text the harness reports at that moment
(so the re-weighting itself is taken as given; that it is right is C08's business). -/
def judgeHist (spec : String) (n : Nat) (steps : List String) (out : List String) : Verdict :=
  match out with
  | "ok" :: rest =>
    -- `live`: no `S:` step so far.  After an `S:` step the instance is a hand-modified table (outside the quantifier): the
    -- later steps are still compared with the model (`corr`) but only the steps BEFORE it are judged.
    let rec go (fuel : Nat) (steps : List String) (rest : List String) (corr j wf live : Bool) (detail : String) (nO nJ : Nat) :
        Bool × Bool × Bool × String × Nat × Nat :=
      match fuel with
      | 0 => (false, false, wf, "fuel", nO, nJ)
      | fuel + 1 =>
        match steps with
        | [] => (corr && rest.isEmpty, j, wf, detail, nO, nJ)
        | step :: more =>
          if step.startsWith "W:" then go fuel more rest corr j wf live detail nO nJ
          else if step.startsWith "S:" then go fuel more rest corr j wf false detail nO nJ
          else if step.startsWith "O:" then
            match rest with
            | "O" :: tt :: rest' =>
              let t := parseTable tt
              let p := (step.drop 2).toString.toList
              let (c1, j1, _, d1) := judgeRuns "opt" t .txt p n (runsOf (rest'.take (4 * n)))
              go fuel more (rest'.drop (4 * n)) (corr && c1) (if live then j && j1 else j) (if live then wf && inQuant t else wf) live
                (if d1.isEmpty || !(live || !c1) then detail else d1) (nO + 1) (if live then nJ + 1 else nJ)
            | _ => (false, false, wf, "reply shape", nO, nJ)
          else if step.startsWith "T:" then
            match rest with
            | "T" :: tt :: st :: v :: rest' =>
              let t := parseTable tt
              let s := (step.drop 2).toString.toList
              let m := PolyVerif.Driver.C06.outStr (translate s t)
              let o := if st == "ok" then [st, v] else [st, ""]
              let expect := if s.isEmpty then ["err", ""] else
                match PolyVerif.Driver.C06.specTranslation t .txt s with
                | some x => ["ok", String.ofList x]
                | none => ["?"]
              let c1 := o == m || (s.isEmpty && o == ["ok", ""])
              go fuel more rest' (corr && c1) (if live then j && o == expect else j) (if live then wf && decide (WFTable t) else wf) live
                (if c1 && (o == expect || !live) then detail else lineOf (m ++ ["expect"] ++ expect)) nO (if live then nJ + 1 else nJ)
            | _ => (false, false, wf, "reply shape", nO, nJ)
          else (false, false, wf, "bad step", nO, nJ)
    let (corr, j, wf, detail, nO, nJ) := go (steps.length + 1) steps rest true true true true "" 0 0
    { corr := corr, judge := if wf && nJ > 0 then some j else none,
      cls := "hist/" ++ toString nO ++ "opt-of-" ++ toString steps.length ++ "steps" ++ (if nJ < nO then "/judged-before-S" else ""), detail := detail }
  | st :: _ => noAnswer "hist" spec st
  | [] => noAnswer "hist" spec "no-reply"

def parseCounts (s : String) : List (Str × Nat) :=
  (splitNonEmpty s ",").map fun e =>
    match e.splitOn "=" with
    | [c, n] => (c.toList, natOfStr n)
    | _ => (e.toList, 0)

def judgeFreq (spec : String) (letter : Str) (per calls : Nat) (out : List String) : Verdict :=
  match out with
  | ["ok", reported, counts, bad] =>
    match tableOf spec reported with
    | none => { corr := false, judge := none, cls := "bad-spec" }
    | some (t, k) =>
      let cs := parseCounts counts
      let total := per * calls
      let items := match eligible t letter with | some l => l | none => []
      let mx := (items.map (·.2)).foldl (· + ·) 0
      let corr := bad == "0" && (cs.map (·.2)).foldl (· + ·) 0 == total && (cs.all fun (c, _) => items.any (·.1 == c)) && tableSame k reported
      let elig := specEligible t letter
      let weightOf (c : Str) : Int := match items.find? (·.1 == c) with | some it => it.2 | none => 0
      let band (c : Str) : Bool :=
        let cnt := match cs.find? (·.1 == c) with | some e => e.2 | none => 0
        let pr := Float.ofInt (weightOf c) / Float.ofInt mx
        let mean := Float.ofNat total * pr
        let sd := Float.sqrt (Float.ofNat total * pr * (1 - pr))
        Float.abs (Float.ofNat cnt - mean) ≤ 8 * sd + 1
      let j := bad == "0" && cs.all (fun (c, _) => elig.contains c) && elig.all band && sameSet elig (items.map (·.1))
      { corr := corr, judge := if inQuant t && letter.length == 1 && !elig.isEmpty then some j else none,
        cls := "stat:freq/" ++ kindTag k ++ "/" ++ toString elig.length ++ "codons",
        detail := if corr && j then "" else
          "expected " ++ ",".intercalate (items.map fun it => String.ofList it.1 ++ "=" ++ toString (Float.ofNat total * Float.ofInt it.2 / Float.ofInt mx)) }
  | st :: _ => noAnswer "freq" spec st
  | [] => noAnswer "freq" spec "no-reply"

/-- shape of an output of `ProteinSequence(length, _)`: `M`, `length - 2` standard letters, `*` -/
def proteinShape (length : Int) (p : Str) : Bool :=
  (p.length : Int) == length && p.head? == some 'M' && p.getLast? == some '*' &&
  ((p.drop 1).dropLast).all proteinAlphabet.contains

def judgeRp (length : Int) (spec : String) (out : List String) : Verdict :=
  match out with
  | ["ok", pst, p, reported, ost, dna, tst, tv] =>
    match tableOf spec reported with
    | none => { corr := false, judge := none, cls := "bad-spec" }
    | some (t, k) =>
      let p := p.toList
      -- model: the status is draw independent, the letters are some draws' letters
      let mst := match proteinSequence length (fun _ => 0) with | .ok _ => "ok" | .err => "err" | .panic => "panic"
      let ms := modelStatus t p
      let corr := tableSame k reported && pst == mst && (pst != "ok" || (proteinShape length p && ost == ms && (ost != "ok" || modelMember t p dna.toList)))
      let run : Run := { st := ost, dna := dna.toList, tst := tst, tv := tv.toList }
      let j := if length ≤ 2 then pst == "err"
        else pst == "ok" && proteinShape length p &&
          (if specEncodable t p then runOk t k p run else ost == "err")
      { corr := corr, judge := if inQuant t then some j else none,
        cls := (if length ≤ 2 then "triv:" else "") ++ "rp/" ++ kindTag k ++ "/" ++ (if length ≤ 2 then "short" else unencReason t p),
        detail := if corr && j then "" else "model: protein " ++ mst ++ ", optimize " ++ ms }
  | st :: _ => noAnswer "rp" spec st
  | [] => noAnswer "rp" spec "no-reply"

/-! ### the weighted pick itself, run against weightedrand (op `pick`) -/

def parseItems (s : String) : List (Str × Int) :=
  (splitNonEmpty s ",").map fun e =>
    match e.splitOn "=" with
    | [c, n] => (c.toList, n.toInt?.getD 0)
    | _ => (e.toList, 0)

def isPermOf (a b : List (Str × Int)) : Bool := a.length == b.length && a.all (fun x => a.count x == b.count x)

def sortedByWeight : List (Str × Int) → Bool
  | a :: b :: rest => decide (a.2 ≤ b.2) && sortedByWeight (b :: rest)
  | _ => true

/-- `pick CHOICES SEEDS` — these cases run the weightedrand LIBRARY the harness links (the version /repo requires, or the
harness's own pin v0.2.1 when /repo no longer requires it), not /repo's call of it: they tie `newChooser` / `pick` to the
library; what ties /repo's picking to the model is `replay`.  The chooser `weightedrand.NewChooser` builds (data order, totals, max — read with
reflect) must be the model's `newChooser` for the sorter "whatever order the library left" (which must be a
permutation of the input sorted by weight), and for every seed the pair (r, item) must satisfy
`pick ch r = ok item`.  The judge uses the spec reading: `item` is the choice whose interval of running totals
contains `r`. -/
def judgePick (choices : String) (out : List String) : Verdict :=
  match out with
  | ["ok", version, data, totals, mx, draws] =>
    let cs := parseItems choices
    let d := parseItems data
    let asChoices (l : List (Str × Int)) : List Choice := l.map fun x => { item := x.1, weight := x.2 }
    let ch := newChooser (fun _ => asChoices d) (asChoices cs)
    let structOk := isPermOf d cs && sortedByWeight d &&
      (splitNonEmpty totals ",").map (fun x => x.toInt?.getD 0) == ch.totals && mx.toInt?.getD 0 == ch.max
    let stable := asChoices d == stableSort (asChoices cs)
    let pairs := (splitNonEmpty draws ",").map fun e =>
      match e.splitOn "=" with
      | [r, it] => (natOfStr r, it.toList)
      | _ => (0, e.toList)
    let corrDraws := pairs.all fun (r, it) =>
      if it == "panic".toList && r == 0 then ch.max ≤ 0 else pick ch r == .ok it
    -- spec: cumulative weight before the item < r ≤ cumulative weight including it (items distinct)
    let specOk := pairs.all fun (r, it) =>
      let before := ((d.takeWhile (·.1 != it)).map (·.2)).foldl (· + ·) 0
      match d.find? (·.1 == it) with
      | some e => decide (before < (r : Int)) && decide ((r : Int) ≤ before + e.2) && decide (1 ≤ r) && decide ((r : Int) ≤ ch.max)
      | none => false
    let distinct := (cs.map (·.1)).all fun x => (cs.map (·.1)).count x == 1
    let dom := distinct && cs.all (fun x => decide (0 ≤ x.2)) && decide (0 < ch.max)
    -- another version of the library is linked: `newChooser` / `pick` / `pick_proportional` were transcribed from v0.2.1
    -- and must be re-read against the new source; until then the obligation counts as broken (a judged failure)
    let vOk := version == "v0.2.1"
    { corr := structOk && corrDraws && vOk, judge := if dom then some (structOk && specOk && vOk) else none,
      cls := (if vOk then "pick-lib/" else "pick-lib/WEIGHTEDRAND-VERSION-" ++ version ++ "/") ++
             (if stable then "stable-order" else "other-order") ++ "/" ++ toString cs.length ++ "choices",
      detail := if structOk && corrDraws && specOk && vOk then "" else
        (if vOk then "" else "weightedrand " ++ version ++ " is linked, the model was transcribed from v0.2.1: re-read newChooser / pick against it. ") ++
        "model chooser: totals " ++ toString ch.totals ++ " max " ++ toString ch.max ++ (if structOk then "" else " STRUCTURE DIFFERS") }
  | st :: _ => { corr := false, judge := some false, cls := "pick/request-" ++ st, detail := "the pick op failed: weightedrand no longer has the shape of v0.2.1?" }
  | [] => { corr := false, judge := some false, cls := "pick/no-reply" }

/-! ### frequencies over a mixed protein, and pairs of adjacent picks (statistical) -/

def band (total : Nat) (pr : Float) (cnt : Nat) : Bool :=
  let mean := Float.ofNat total * pr
  let sd := Float.sqrt (Float.ofNat total * pr * (1 - pr))
  Float.abs (Float.ofNat cnt - mean) ≤ 8 * sd + 1

def itemsOf (t : Table) (l : Str) : List (Str × Int) := match eligible t l with | some x => x | none => []

def shareOf (items : List (Str × Int)) (c : Str) : Float :=
  let mx := (items.map (·.2)).foldl (· + ·) 0
  match items.find? (·.1 == c) with
  | some it => Float.ofInt it.2 / Float.ofInt mx
  | none => 0

/-- `freqmix SPEC protein calls`: every letter of one mixed protein is judged: counts of each eligible codon within
8 sigma + 1 of N_letter · w/max, nothing else ever emitted -/
def judgeFreqMix (spec : String) (p : Str) (calls : Nat) (out : List String) : Verdict :=
  match out with
  | ["ok", reported, counts, bad] =>
    match tableOf spec reported with
    | none => { corr := false, judge := none, cls := "bad-spec" }
    | some (t, k) =>
      let per := (splitNonEmpty counts ";").map fun e =>
        match e.splitOn ":" with
        | [l, cs] => (l.toList, parseCounts cs)
        | _ => (e.toList, [])
      let letters := dedupChars p
      let okLetter (aa : Char) : Bool × Bool :=
        let items := itemsOf t [aa]
        let total := calls * p.count aa
        let cs := match per.find? (·.1 == [aa]) with | some e => e.2 | none => []
        let support := (cs.all fun (c, _) => items.any (·.1 == c)) && (cs.map (·.2)).foldl (· + ·) 0 == total
        let elig := specEligible t [aa]
        let j := (cs.all fun (c, _) => elig.contains c) && sameSet elig (items.map (·.1)) &&
          elig.all fun c => band total (shareOf items c) (match cs.find? (·.1 == c) with | some e => e.2 | none => 0)
        (support, j)
      let res := letters.map okLetter
      let corr := bad == "0" && tableSame k reported && res.all (·.1) && per.length == letters.length
      let j := bad == "0" && res.all (·.2)
      { corr := corr, judge := if inQuant t && specEncodable t p && !p.isEmpty then some j else none,
        cls := "stat:freqmix/" ++ kindTag k ++ "/" ++ toString letters.length ++ "letters",
        detail := if corr && j then "" else "letters out of band or support: " ++
          String.ofList ((letters.zip res).filterMap fun (l, r) => if r.1 && r.2 then none else some l) }
  | st :: _ => noAnswer "freqmix" spec st
  | [] => noAnswer "freqmix" spec "no-reply"

/-- `pos SPEC protein calls`: counts are kept PER POSITION of a short protein over `calls` calls; at every position the
counts of the residue's eligible codons lie within 8 sigma + 1 of calls · w/max (a choice that depends on the position —
"the first residue always gets the most used codon" — is invisible to counts pooled per letter) -/
def judgePos (spec : String) (p : Str) (calls : Nat) (out : List String) : Verdict :=
  match out with
  | ["ok", reported, counts, bad] =>
    match tableOf spec reported with
    | none => { corr := false, judge := none, cls := "bad-spec" }
    | some (t, k) =>
      let per := (splitNonEmpty counts ";").map fun e =>
        match e.splitOn ":" with
        | [i, cs] => (natOfStr i, parseCounts cs)
        | _ => (0, [])
      let okPos (ia : Nat × Char) : Bool × Bool :=
        let items := itemsOf t [ia.2]
        let cs := match per.find? (·.1 == ia.1) with | some e => e.2 | none => []
        let support := (cs.all fun (c, _) => items.any (·.1 == c)) && (cs.map (·.2)).foldl (· + ·) 0 == calls
        let elig := specEligible t [ia.2]
        let j := (cs.all fun (c, _) => elig.contains c) && sameSet elig (items.map (·.1)) &&
          elig.all fun c => band calls (shareOf items c) (match cs.find? (·.1 == c) with | some e => e.2 | none => 0)
        (support, j)
      let res := ((List.range p.length).zip p).map okPos
      let corr := bad == "0" && tableSame k reported && res.all (·.1) && per.length == p.length
      let j := bad == "0" && res.all (·.2)
      { corr := corr, judge := if inQuant t && specEncodable t p && !p.isEmpty then some j else none,
        cls := "stat:pos/" ++ kindTag k ++ "/" ++ toString p.length ++ "positions",
        detail := if corr && j then "" else "positions out of band or support: " ++
          toString (((List.range p.length).zip res).filterMap fun (i, r) => if r.1 && r.2 then none else some i) }
  | st :: _ => noAnswer "pos" spec st
  | [] => noAnswer "pos" spec "no-reply"

/-- `pairs SPEC XY reps calls`: the protein is XY repeated; the codon pairs at positions (2i, 2i+1) are independent
draws, so the count of (c1, c2) lies within 8 sigma + 1 of N · share(c1) · share(c2) -/
def judgePairs (spec : String) (unit : Str) (reps calls : Nat) (out : List String) : Verdict :=
  match out, unit with
  | ["ok", reported, counts, bad], [x, y] =>
    match tableOf spec reported with
    | none => { corr := false, judge := none, cls := "bad-spec" }
    | some (t, k) =>
      let cs := parseCounts counts
      let total := reps * calls
      let ix := itemsOf t [x]
      let iy := itemsOf t [y]
      let split (c : Str) : Str × Str := (c.take 3, c.drop 3)
      let support := (cs.all fun (c, _) => ix.any (·.1 == (split c).1) && iy.any (·.1 == (split c).2)) &&
        (cs.map (·.2)).foldl (· + ·) 0 == total
      let j := ix.all fun a => iy.all fun b =>
        band total (shareOf ix a.1 * shareOf iy b.1) (match cs.find? (·.1 == a.1 ++ b.1) with | some e => e.2 | none => 0)
      let corr := bad == "0" && tableSame k reported && support
      { corr := corr, judge := if inQuant t && !ix.isEmpty && !iy.isEmpty then some (bad == "0" && support && j) else none,
        cls := "stat:pairs/" ++ kindTag k ++ "/" ++ (if x == y then "same-letter" else "two-letters"),
        detail := if corr && j then "" else "pair counts outside the independence band" }
  | st :: _, _ => noAnswer "pairs" spec st
  | [], _ => noAnswer "pairs" spec "no-reply"

/-! ### exact replay of one Optimize call (the harness finds the clock seed) -/

/-- `replay SPEC protein`: the harness reports the draws `rs` of the seed (found in the clock window of the call)
under which the model's choosers reproduce the real output; here the Lean model is run on those draws:
`optimize stableSort t p rs` must return exactly the real DNA. -/
def judgeReplay (spec : String) (p : Str) (out : List String) : Verdict :=
  match out with
  | ["ok", reported, st, dna, found, how, rs, touched, tst, tv] =>
    match tableOf spec reported with
    | none => { corr := false, judge := none, cls := "bad-spec" }
    | some (t, k) =>
      let ms := modelStatus t p
      let draws := (splitNonEmpty rs ",").map natOfStr
      let run : Run := { st := st, dna := dna.toList, tst := tst, tv := tv.toList }
      let replayed := found == "1" && draws.length == p.length &&
        decide (DrawsOK (chooserMap stableSort t) p draws) &&
        optimize stableSort t p draws == some (.ok dna.toList)
      -- Optimize did not touch the global generator: it draws from a generator of its own, no seed can be recovered;
      -- fall back to the membership test (the frequency / union / pair cases then carry the proportionality clause)
      let ownGenerator := st == "ok" && found != "1" && touched == "0"
      let corr := tableSame k reported && st == ms &&
        (st != "ok" || replayed || (ownGenerator && modelMember t p dna.toList))
      let enc := specEncodable t p
      let j := if enc && !p.isEmpty then runOk t k p run else st == "err"
      { corr := corr, judge := if inQuant t then some j else none,
        cls := "replay/" ++ kindTag k ++ "/" ++ (if st != "ok" then "no-run" else if found == "1" then (if how == "probe-seed" then "seed-found-NOT-RESEEDED" else "seed-found")
                else if ownGenerator then "OWN-GENERATOR-NO-POINTWISE-TIE-statistics-only" else "SEED-NOT-FOUND"),
        detail := if corr && j then "" else "model status " ++ ms ++ "; replay of the model on the reported draws " ++
          (if replayed then "reproduces" else "DOES NOT reproduce") ++ " the output" }
  | st :: _ => noAnswer "replay" spec st
  | [] => noAnswer "replay" spec "no-reply"

def judge (f out : List String) : Verdict :=
  match f with
  | ["opt", spec, p, n] => judgeOpt "opt" spec p.toList (natOfStr n) out
  | ["union", spec, p, n] => judgeOpt "union" spec p.toList (natOfStr n) out
  | ["freq", spec, l, per, calls] => judgeFreq spec l.toList (natOfStr per) (natOfStr calls) out
  | ["rp", len, _, spec] => judgeRp (len.toInt?.getD 0) spec out
  | "hist" :: spec :: n :: steps => judgeHist spec (natOfStr n) steps out
  | ["pick", choices, _] => judgePick choices out
  | ["freqmix", spec, p, calls] => judgeFreqMix spec p.toList (natOfStr calls) out
  | ["pos", spec, p, calls] => judgePos spec p.toList (natOfStr calls) out
  | ["pairs", spec, unit, reps, calls] => judgePairs spec unit.toList (natOfStr reps) (natOfStr calls) out
  | ["replay", spec, p] => judgeReplay spec p.toList out
  | _ => { corr := false, judge := none, cls := "bad-case", detail := "bad case" }

def driver : PropDriver := { render, judge }
end PolyVerif.Driver.C07
