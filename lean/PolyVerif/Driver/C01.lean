import PolyVerif.Model.Genbank
import PolyVerif.Spec.GbLayout
import PolyVerif.Model.Location
/-
Driver for C01.  An abstract case is one protocol line

  c01 mode finalNewline header nrec { record }*

  mode   = parse | multi | flat | read | readmulti | readflat | readflatgz
  (also  c01 raw mode text : raw text given to the parser as it is, outside the domain, correspondence only)
  record = name len(digits or empty) mol(text or empty) topo(0 circular/1 linear/2 none) division(text or empty) date(or empty)
           pads locusTrail originTrail blockLen perLine extraCuts omit(5 or 6 x 0/1: DEF ACC VER KEY SRC, and ORGANISM alone under a written SOURCE)
           definition bs accession bs version bs keywords bs source bs organism bs
           nrefs { number(own number, empty = the position) range bs trailGap(0/1) authors bs title bs journal bs pubmed bs remark bs }*
           nextras { key text bs }*
           nfeat { key loc bs nq { key value bs style(0 quoted,1 unquoted,2 no value) }* }*
           seq
  bs / pads = comma-separated naturals (break positions, see Spec/GbLayout.lean)

`render` lays the file out with `GbLayout.layoutFile` (the function the theorems quantify over) and
asks the harness for `c01 mode text`.  The harness replies  `ok k {canonical record}*`, the canonical
record being the fields the property lists (see `ser`).  `judge`: `corr` compares with the model
(`Genbank.parse / parseMulti / parseFlat` on the same text), `judge` compares with what the abstract
records state (`GbLayout.toSequence`).
-/
namespace PolyVerif.Driver.C01
open PolyVerif PolyVerif.Str PolyVerif.GbLayout

abbrev P := StateT (List String) Option

def tok : P String := fun s => match s with | [] => none | x :: xs => some (x, xs)
def tokStr : P Str := do return (← tok).toList
def tokNat : P Nat := do return natOfStr (← tok)
def tokBool : P Bool := do return (← tok) == "1"
def tokNats : P (List Nat) := do
  let t ← tok
  return if t.isEmpty then [] else (t.splitOn ",").map natOfStr

def rep {α : Type} (p : P α) : Nat → P (List α)
  | 0 => pure []
  | n + 1 => do let a ← p; let as ← rep p n; return a :: as

def pRef : P (RRef × RefLayout) := do
  let number ← tokStr
  let range ← tokStr; let gb ← tokNats; let trailGap ← tokBool
  let authors ← tokStr; let ab ← tokNats
  let title ← tokStr; let tb ← tokNats
  let journal ← tokStr; let jb ← tokNats
  let pubmed ← tokStr; let pb ← tokNats
  let remark ← tokStr; let rb ← tokNats
  return ({ number, range, authors, title, journal, pubmed, remark },
          { range := gb, trailGap, authors := ab, title := tb, journal := jb, pubmed := pb, remark := rb })

def pQual : P ((Str × Str) × List Nat × Nat) := do
  let k ← tokStr; let v ← tokStr; let b ← tokNats; let st ← tokNat
  return ((k, v), b, st)

def pFeat : P (RFeature × FeatLayout) := do
  let key ← tokStr; let loc ← tokStr; let lb ← tokNats
  let nq ← tokNat
  let qs ← rep pQual nq
  return ({ key, loc, quals := qs.map (·.1) }, { loc := lb, quals := qs.map (·.2.1), styles := qs.map (·.2.2) })

def pRec : P (GbRec × RecLayout) := do
  let name ← tokStr; let len ← tokStr
  let mol ← tokStr; let topo ← tokNat; let division ← tokStr; let date ← tokStr
  let pads ← tokNats; let locusTrail ← tokNat; let originTrail ← tokBool; let blockLen ← tokNat; let perLine ← tokNat
  let extraCuts ← tokNats; let omitS ← tokStr
  let om (i : Nat) : Bool := omitS.getD i '0' == '1'
  let definition ← tokStr; let db ← tokNats
  let accession ← tokStr; let ab ← tokNats
  let version ← tokStr; let vb ← tokNats
  let keywords ← tokStr; let kb ← tokNats
  let source ← tokStr; let sb ← tokNats
  let organism ← tokStr; let ob ← tokNats
  let nrefs ← tokNat
  let refs ← rep pRef nrefs
  let nex ← tokNat
  let exs ← rep (do let k ← tokStr; let t ← tokStr; let b ← tokNats; return ((k, t), b)) nex
  let nf ← tokNat
  let fs ← rep pFeat nf
  let seq ← tokStr
  return ({ locus := { name, len, mol, topo := if topo == 0 then some .circular else if topo == 1 then some .linear else none, division, date }
            definition, accession, version, keywords, source, organism
            refs := refs.map (·.1), extras := exs.map (·.1), features := fs.map (·.1), seq },
          { pads, locusTrail, definition := db, accession := ab, version := vb, keywords := kb, source := sb, organism := ob
            refs := refs.map (·.2), extras := exs.map (·.2), feats := fs.map (·.2)
            originTrail, blockLen, perLine, extraCuts
            omitDefinition := om 0, omitAccession := om 1, omitVersion := om 2, omitKeywords := om 3, omitSource := om 4, omitOrganism := om 5 })

structure Case where
  mode : String
  recs : List GbRec
  lay : FileLayout

/-- the fixed 10-line header of an NCBI flat-file dump -/
def flatHeader : List Str :=
  ["GBBCT1.SEQ          Genetic Sequence Data Bank", "                         October 15 2020", "",
   "                NCBI-GenBank Flat File Release 240.0", "", "                     Bacterial Sequences (Part 1)", "",
   "  101593 loci,   185853961 bases, from   101593 reported sequences", "", ""].map String.toList

def pCase : P Case := do
  let _ ← tok
  let mode ← tok
  let finalNewline ← tokBool
  let header ← tokBool
  let n ← tokNat
  let rs ← rep pRec n
  return { mode, recs := rs.map (·.1)
           lay := { recs := rs.map (·.2), finalNewline, header := if header then some flatHeader else none } }

def parseCase (f : List String) : Option Case := (pCase.run f).map (·.1)

def caseText (c : Case) : Str := layoutFile c.recs c.lay

def render (f : List String) : List String :=
  match f with
  | ["c01", "raw", mode, text] => ["c01", mode, text]     -- raw text (out of the domain; correspondence only)
  | _ =>
  match parseCase f with
  | some c => ["c01", c.mode, String.ofList (caseText c)]
  | none => ["c01", "bad", ""]

/-! canonical serialisation of exactly the fields the property lists -/

def s (x : Str) : String := String.ofList x

def sortPairs (m : List (Str × Str)) : List (Str × Str) :=
  (m.toArray.qsort (fun a b => s a.1 < s b.1)).toList

def serPairs (m : List (Str × Str)) : List String :=
  toString m.length :: (sortPairs m).flatMap (fun kv => [s kv.1, s kv.2])

def ser (q : Genbank.Sequence) : List String :=
  let l := q.md.locus
  [s q.seq, s l.name, s l.seqLength, s l.coding, s l.molType, boolStr l.circular, boolStr l.linear, s l.division, s l.date,
   s q.md.definition, s q.md.accession, s q.md.version, s q.md.keywords, s q.md.source, s q.md.organism,
   toString q.md.references.length]
  ++ q.md.references.flatMap (fun r => [s r.index, s r.range, s r.authors, s r.title, s r.journal, s r.pubmed, s r.remark])
  ++ serPairs q.md.other
  ++ [toString q.features.length]
  ++ q.features.flatMap (fun f => [s f.type, s f.gbkLoc] ++ serPairs f.attrs)

def serOutcome : Outcome (List Genbank.Sequence) → List String
  | .ok qs => ["ok", toString qs.length] ++ qs.flatMap ser
  | .err => ["err"]
  | .panic => ["panic"]

/-! the reply read back into records (inverse of `serOutcome` on `ok` replies), for the known-finding class -/

def pPairs : P (List (Str × Str)) := do
  let n ← tokNat
  rep (do let k ← tokStr; let v ← tokStr; return (k, v)) n

def pSeq : P Genbank.Sequence := do
  let seq ← tokStr; let name ← tokStr; let seqLength ← tokStr; let coding ← tokStr; let molType ← tokStr
  let circular ← tok; let linear ← tok; let division ← tokStr; let date ← tokStr
  let definition ← tokStr; let accession ← tokStr; let version ← tokStr; let keywords ← tokStr
  let source ← tokStr; let organism ← tokStr
  let nrefs ← tokNat
  let refs ← rep (do
    let index ← tokStr; let range ← tokStr; let authors ← tokStr; let title ← tokStr; let journal ← tokStr
    let pubmed ← tokStr; let remark ← tokStr
    return ({ index, range, authors, title, journal, pubmed, remark } : Genbank.Reference)) nrefs
  let other ← pPairs
  let nfeat ← tokNat
  let feats ← rep (do
    let type ← tokStr; let gbkLoc ← tokStr; let attrs ← pPairs
    return ({ type, gbkLoc, attrs } : Genbank.Feature)) nfeat
  return { md := { locus := { name, seqLength, coding, molType, circular := circular == "true", linear := linear == "true",
                              division, date }
                   definition, accession, version, keywords, source, organism, references := refs, other }
           seq, features := feats }

def unser (out : List String) : Option (List Genbank.Sequence) :=
  match out with
  | "ok" :: k :: rest =>
    match (rep pSeq (natOfStr k)).run rest with
    | some (qs, []) => if serOutcome (.ok qs) == out then some qs else none
    | _ => none
  | _ => none

/-- the keys a feature states more than once -/
def repeatedKeys (f : RFeature) : List Str :=
  (f.quals.map (·.1)).filter fun k => (f.quals.filter (·.1 == k)).length > 1

/-- the keys of the qualifiers of a feature whose stated value holds a quotation mark: outside the quantifier
("values over printable ASCII other than the double quote"), not judged -/
def quotedKeys (f : RFeature) : List Str := (f.quals.filter fun q => List.elem '"' q.2).map (·.1)

/-- a reply with the qualifiers of the keys `ks` names taken out, feature by feature (`none`: another number of features) -/
def maskKeys (ks : RFeature → List Str) (r : GbRec) (q : Genbank.Sequence) : Option Genbank.Sequence :=
  if q.features.length != r.features.length then none else
  some { q with features := (List.zip r.features q.features).map fun p =>
    { p.2 with attrs := p.2.attrs.filter fun kv => !(ks p.1).contains kv.1 } }

/-- two lists of records agree, record by record, outside the qualifiers `ks` names -/
def eqMasked (ks : RFeature → List Str) (rs : List GbRec) (as bs : List Genbank.Sequence) : Bool :=
  as.length == rs.length && bs.length == rs.length &&
  (List.zip rs (List.zip as bs)).all fun p =>
    match maskKeys ks p.1 p.2.1, maskKeys ks p.1 p.2.2 with
    | some a, some b => ser a == ser b
    | _, _ => false

/-- the separators a joined value may use -/
def joinSeparators : List Str :=
  [" ", ";", "; ", ",", ", ", "|", " | ", "/", " / ", "\n", "\t"].map String.toList

/-- per repeated key of every feature, a test of what the reply gives for that key against the stated values -/
def repeatedAll (r : GbRec) (q : Genbank.Sequence) (test : List Str → List Str → Bool) : Bool :=
  q.features.length == r.features.length &&
  (List.zip r.features q.features).all fun p =>
    (repeatedKeys p.1).all fun k =>
      test ((p.1.quals.filter (·.1 == k)).map (·.2)) ((p.2.attrs.filter (·.1 == k)).map (·.2))

/-- nothing stated under a repeated key is lost: the reply repeats the key with exactly the stated values, or keeps one
value that is the stated values joined in file order by one of `joinSeparators` -/
def repeatedKept (r : GbRec) (q : Genbank.Sequence) : Bool :=
  repeatedAll r q fun stated got =>
    got == stated || (match got with
      | [t] => joinSeparators.any fun sep => t == join sep stated
      | _ => false)

/-- the loss the known finding names: of the stated values of a repeated key the reply keeps exactly ONE (the key is
there, once, with one of the stated values); a missing key or a text the record does not state is not the finding -/
def repeatedOneKept (r : GbRec) (q : Genbank.Sequence) : Bool :=
  repeatedAll r q fun stated got =>
    match got with
    | [t] => stated.contains t
    | _ => false

/-- `parseLocation` (property C02's model) panics on this location text -/
def locPanics (loc : Str) : Bool := match Location.parseLocation loc with | .panic => true | _ => false

/-- some `FEATURES` line of the text is followed by a feature whose location text makes `parseLocation`
panic: `Genbank.parse` leaves that call to C02's model, in Go it is a panic of `Parse` -/
def locPanicInLines : List Str → Bool
  | [] => false
  | line :: sub =>
    (trimSpace (Genbank.headOf (split line c!" ")) == c!"FEATURES"
        && (match Genbank.getFeatures sub with | .ok fs => fs.any (fun f => locPanics f.gbkLoc) | _ => false))
      || locPanicInLines sub

def locPanicIn (text : Str) : Bool := locPanicInLines (split text c!"\n")

/-- the pieces `ParseMulti` hands to `Parse` -/
def multiPieces (file : Str) : List Str :=
  let fs := splitAfter file c!"//\n"
  if !hasSuffix (trimSpace (fs.getLastD [])) c!"//" then fs.dropLast else fs

def flatBody (file : Str) : Str := join c!"\n" ((split file c!"\n").drop 10)

/-- the model's reply with the panic parity of `parseLocation` -/
def withLocPanic (texts : List Str) (m : List String) : List String :=
  if m.headD "" == "ok" && texts.any locPanicIn then ["panic"] else m

def modelOutRaw (mode : String) (text : Str) : List String :=
  match mode with
  | "parse" | "read" => serOutcome ((Genbank.parse text).map ([·]))
  | "multi" | "readmulti" => serOutcome (Genbank.parseMulti text)
  | "flat" | "readflat" | "readflatgz" => serOutcome (Genbank.parseFlat text)
  | _ => ["bad"]

def modelOut (mode : String) (text : Str) : List String :=
  let m := modelOutRaw mode text
  match mode with
  | "parse" | "read" => withLocPanic [text] m
  | "multi" | "readmulti" => withLocPanic (multiPieces text) m
  | "flat" | "readflat" | "readflatgz" => withLocPanic (multiPieces (flatBody text)) m
  | _ => m

def zipLay (rs : List GbRec) (ls : List RecLayout) : List (GbRec × RecLayout) :=
  match rs with
  | [] => []
  | r :: rs' => (r, ls.headD {}) :: zipLay rs' ls.tail

def judge (f out : List String) : Verdict :=
  match f with
  | ["c01", "raw", mode, text] =>
    let m := modelOut mode text.toList
    let outN := match out with | "panic" :: _ => ["panic"] | "err" :: _ => ["err"] | o => o
    { corr := outN == m, judge := none, cls := "raw/" ++ mode ++ "/" ++ (m.headD ""),
      detail := if outN == m then "" else "model: " ++ lineOf (m.map fun x => if x.length > 300 then (x.take 300).toString ++ "…" else x) }
  | _ =>
  match parseCase f with
  | none => { corr := false, judge := none, cls := "bad-case", detail := "bad case" }
  | some c =>
    let text := caseText c
    let m := modelOut c.mode text
    let outN := match out with | "panic" :: _ => ["panic"] | "err" :: _ => ["err"] | o => o
    let expected := serOutcome (.ok (c.recs.map toSequence))
    let pairs := zipLay c.recs c.lay.recs
    let single := c.mode == "parse" || c.mode == "read"
    let flat := c.mode == "flat" || c.mode == "readflat" || c.mode == "readflatgz"
    let inDom := c.recs.all (fun r => wfLoose r && r.seq.length ≥ 1) && c.recs.length ≥ 1
      && (if single then c.recs.length == 1 && c.lay.header.isNone else true)
      && (flat == c.lay.header.isSome)
      && pairs.all (fun p => noSlashEnd p.1 p.2)
    let nfeat := (c.recs.map (·.features.length)).sum
    let multiloc := pairs.any (fun p => (zipF p.1.features p.2.feats).any (fun q => (cutLoc q.2.loc q.1.loc).length > 1))
    -- the known-finding class C01-repeated-qualifier-key: some feature states a qualifier key more than once.
    --  * `confined`: apart from the qualifiers of the repeated keys the reply is what the records state (a difference
    --    anywhere else is a plain FAIL)
    --  * `oneKept`: each repeated key is there once, with ONE OF its stated values — the loss the finding names (first, last,
    --    any of them); a missing key or a text the record does not state is a plain FAIL
    --  * `kept`: nothing stated under a repeated key is lost (the key repeated with the stated values, or one value that is
    --    the stated values joined in order by a separator): then the property holds there — a repaired implementation passes, and its
    --    difference from the model, which mirrors the defect (last value wins), is drift, not a correspondence failure
    --  * on a passing or tagged reply the comparison with the model is not a correspondence failure: the model mirrors
    --    ONE way of losing values (the last wins); keeping another of the stated values is the same known finding
    let inClass := c.recs.any repeatedQualKey
    let replyRecs := unser outN
    -- qualifier values with a quotation mark inside are outside the quantifier: those QUALIFIERS are not judged (masked on
    -- both sides), everything else of the record and the other records of the file are (`hasQ`: the case holds such a value)
    let hasQ := !c.recs.all quoteFreeValues
    let stated := c.recs.map toSequence
    let confined := match replyRecs with
      | some qs => eqMasked (fun f => repeatedKeys f ++ quotedKeys f) c.recs qs stated
      | none => false
    let plain := if hasQ then (match replyRecs with | some qs => eqMasked quotedKeys c.recs qs stated | none => false)
                 else outN == expected
    let kept := match replyRecs with
      | some qs => qs.length == c.recs.length && (List.zip c.recs qs).all fun p => repeatedKept p.1 p.2
      | none => false
    let oneKept := match replyRecs with
      | some qs => qs.length == c.recs.length && (List.zip c.recs qs).all fun p => repeatedOneKept p.1 p.2
      | none => false
    let pass := plain || (inClass && confined && kept)
    let repaired := inClass && pass
    let tagged := inClass && !pass && confined && oneKept
    let kf := if tagged then " kf:C01-repeated-qualifier-key" else ""
    let triv := if nfeat == 0 && c.recs.all (fun r => r.refs.isEmpty) then "triv:" else ""
    let cls := triv ++ c.mode ++ "/r" ++ toString c.recs.length
      ++ (if c.lay.finalNewline then "/nl" else "/nonl")
      ++ (if nfeat == 0 then "/f0" else if nfeat ≤ 5 then "/f1-5" else "/f6+")
      ++ (if multiloc then "/multiloc" else "") ++ (if pairs.any (fun p => orgOmitted p.1 p.2) then "/noorg" else "")
      ++ (if c.recs.all quoteFreeValues then "" else "/quote-in-value") ++ (if repaired then "/kf-repaired" else "") ++ kf
    -- a difference from the model that lies in the unjudged quoted values only, on a reply that is otherwise accepted
    -- (passing or tagged), is out-of-domain drift: reported as an unjudged DIFF, which `check` counts and prints
    let quoteDrift := hasQ && outN != m && (pass || tagged) &&
      (match replyRecs, unser m with | some qs, some ms => eqMasked quotedKeys c.recs qs ms | _, _ => false)
    { corr := outN == m || (inDom && (repaired || tagged) && !quoteDrift)
      judge := if inDom && !quoteDrift then some pass else none, cls := cls
      detail := if outN == m && outN == expected then "" else
        "model: " ++ lineOf (m.map fun x => if x.length > 300 then (x.take 300).toString ++ "…" else x) ++ "  expected: "
          ++ lineOf (expected.map fun x => if x.length > 300 then (x.take 300).toString ++ "…" else x) }
where
  zipF (fs : List RFeature) (ls : List FeatLayout) : List (RFeature × FeatLayout) :=
    match fs with
    | [] => []
    | f :: fs' => (f, ls.headD {}) :: zipF fs' ls.tail

def driver : PropDriver := { render, judge }
end PolyVerif.Driver.C01
