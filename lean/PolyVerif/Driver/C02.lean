import PolyVerif.Spec.Insdc
namespace PolyVerif.Driver.C02
open PolyVerif PolyVerif.Location PolyVerif.Insdc

/-! ### s-expressions (case trees, and poly.Location structures on the wire) -/

inductive Sx
  | atom (s : String)
  | list (xs : List Sx)
  deriving Inhabited

/-- tokens: "(" ")" and maximal runs of other non-blank characters -/
def tokens (s : Str) : List String :=
  let step := fun (acc : List String × Str) (c : Char) =>
    let (out, cur) := acc
    let flush := if cur.isEmpty then out else String.ofList cur.reverse :: out
    if c == '(' then ("(" :: flush, []) else if c == ')' then (")" :: flush, [])
    else if c == ' ' then (flush, []) else (out, c :: cur)
  let (out, cur) := s.foldl step ([], [])
  (if cur.isEmpty then out else String.ofList cur.reverse :: out).reverse

/-- read one s-expression; `stack` holds the open lists (reversed) -/
def readSx (toks : List String) : Option Sx :=
  let rec go : List String → List (List Sx) → Option Sx
    | [], _ => none
    | "(" :: ts, stack => go ts ([] :: stack)
    | ")" :: ts, cur :: stack =>
      let v := Sx.list cur.reverse
      match stack with
      | [] => if ts.isEmpty then some v else none
      | up :: rest => go ts ((v :: up) :: rest)
    | ")" :: _, [] => none
    | a :: ts, cur :: stack => go ts ((Sx.atom a :: cur) :: stack)
    | a :: ts, [] => if ts.isEmpty then some (Sx.atom a) else none
  go toks []

partial def locOfSx : Sx → Option Loc
  | .list [.atom "s", .atom a, .atom b] => some (.span (natOfStr a) (natOfStr b) false false)
  | .list [.atom "s", .atom a, .atom b, .atom m] =>
    some (.span (natOfStr a) (natOfStr b) (m.contains '<') (m.contains '>'))
  | .list [.atom "b", .atom n] => some (.base (natOfStr n))
  | .list [.atom "c", x] => (locOfSx x).map .compl
  | .list (.atom "j" :: xs) => (xs.mapM locOfSx).map .join
  | _ => none

def intOfStr (s : String) : Option Int := s.toInt?

partial def plocOfSx : Sx → Option PLoc
  | .list (.atom a :: .atom b :: .atom fl :: subs) => do
    let start ← intOfStr a
    let stop ← intOfStr b
    let subs ← subs.mapM plocOfSx
    some { start, stop, complement := fl.contains 'c', join := fl.contains 'j', five := fl.contains '5',
           three := fl.contains '3', subs }
  | _ => none

def readLocCase (s : String) : Option Loc := (readSx (tokens s.toList)).bind locOfSx
def readPLoc (s : String) : Option PLoc := (readSx (tokens s.toList)).bind plocOfSx

/-! ### the model's replies, in the harness's format -/

def S (s : Str) : String := String.ofList s

def modelParse (text parent : Str) : String :=
  match parseLocation text with
  | .ok p =>
    match getSeq p parent with
    | .ok s => "ok|" ++ S s ++ "|" ++ S (showPLoc p) ++ "|" ++ S (buildLoc p)
    | _ => "panic"
  | _ => "panic"

def modelBuild (p : PLoc) (parent : Str) : String :=
  match getSeq p parent with
  | .ok s => "ok|" ++ S s ++ "|" ++ S (buildLoc p)
  | _ => "panic"

/-! ### the property, clause by clause, on the implementation's reply -/

mutual
def opCount : Loc → Nat
  | .span _ _ _ _ => 0
  | .base _ => 0
  | .join xs => 1 + opCountList xs
  | .compl x => 1 + opCount x
def opCountList : List Loc → Nat
  | [] => 0
  | x :: xs => opCount x + opCountList xs
end

mutual
def depth : Loc → Nat
  | .span _ _ _ _ => 0
  | .base _ => 0
  | .join xs => 1 + depthList xs
  | .compl x => 1 + depth x
def depthList : List Loc → Nat
  | [] => 0
  | x :: xs => max (depth x) (depthList xs)
end

/-- the written text is valid INSDC and denotes the same bases and the same partial ends -/
def writtenOk (text : String) (l : Loc) (parent : Str) : Bool :=
  match insdcParse text.toList with
  | some l' => denote l' parent == denote l parent && ends l' == ends l
  | none => false

/-- clauses that fail on one tree: "P" parsed text evaluates to the INSDC reading, "F" partial flags
kept by the parser, "W" text written from the parsed structure, "E" assembled structure evaluates to the
INSDC reading, "V" text written from the assembled structure -/
def failing (l : Loc) (parent : Str) (rp re : String) : List String :=
  let want := S (denote l parent)
  let p := match rp.splitOn "|" with
    | ["ok", seq, struct, built] =>
      (if seq == want then [] else ["P"]) ++
      (if (readPLoc struct).map pends == some (ends l) then [] else ["F"]) ++
      (if writtenOk built l parent then [] else ["W"])
    | _ => ["P", "F", "W"]
  let e := match re.splitOn "|" with
    | ["ok", seq, built] =>
      (if seq == want then [] else ["E"]) ++ (if writtenOk built l parent then [] else ["V"])
    | _ => ["E", "V"]
  p ++ e

/-- known-finding classes, decided on the case: which clauses each may break -/
def allowed (l : Loc) : List (String × List String) :=
  if hasGt l then [("C02-writer-3prime", ["W", "V"])] else []

structure TreeVerdict where
  inDom : Bool
  corr : Bool
  fails : List String
  kf : Option String     -- all failures explained by known classes: the first class that explains one
  tag : String
  detail : String

def judgeTree (parent : Str) (tree rp re : String) : TreeVerdict :=
  match readLocCase tree with
  | none => { inDom := false, corr := false, fails := [], kf := none, tag := "bad-tree", detail := "bad tree " ++ tree }
  | some l =>
    let text := print l
    let mp := modelParse text parent
    let me := modelBuild (embed l) parent
    let inDom := inRange l parent.length && arity l
    let fails := if inDom then failing l parent rp re else []
    let al := allowed l
    let explained := fails.all fun c => al.any fun (_, cs) => cs.contains c
    let kf := if fails.isEmpty || !explained then none else
      (al.find? fun (_, cs) => fails.any cs.contains).map (·.1)
    let tag := s!"ops{opCount l}/depth{depth l}" ++ (if hasGt l then "/gt" else "") ++
      (if hasDoubleCompl l then "/cc" else "")
    let corr := rp == mp && re == me
    { inDom, corr, fails, kf, tag,
      detail := if fails.isEmpty && corr then "" else
        s!"tree={tree} text={S text} fails={fails} model: {mp} {me} impl: {rp} {re} denote={S (denote l parent)}" }

def pairUp : List String → List (String × String)
  | a :: b :: rest => (a, b) :: pairUp rest
  | _ => []

def isHomopolymer (s : Str) : Bool :=
  match s with
  | [] => true
  | c :: cs => cs.all (· == c)

/-- cases:
  `loc parent tree…`  : every tree printed with `Insdc.print` and embedded with `Insdc.embed`; harness op `c02.batch`
  `text parent raw`   : raw location text through `c02.parse` (outside the quantifier: correspondence only)
  `ploc parent struct`: raw structure through `c02.build` (outside the quantifier: correspondence only) -/
def render (f : List String) : List String :=
  match f with
  | "loc" :: parent :: trees =>
    "c02.batch" :: parent :: trees.flatMap fun t =>
      match readLocCase t with
      | some l => [S (print l), S (showPLoc (embed l))]
      | none => ["bad", "bad"]
  | ["text", parent, raw] => ["c02.parse", raw, parent]
  | ["ploc", parent, p] => ["c02.build", p, parent]
  | _ => ["bad"]

def judge (f out : List String) : Verdict :=
  match f with
  | "loc" :: parent :: trees =>
    match out with
    | "ok" :: rs =>
      if rs.length != 2 * trees.length then { corr := false, judge := some false, cls := "bad-reply", detail := "reply length" } else
      let ps := parent.toList
      let vs := (trees.zip (pairUp rs)).map fun (t, (rp, re)) => judgeTree ps t rp re
      let dom := vs.filter (·.inDom)
      let newFail := dom.find? fun v => !v.fails.isEmpty && v.kf.isNone
      let knownFail := dom.find? fun v => v.kf.isSome
      let diff := vs.find? fun v => !v.corr
      let corr := diff.isNone
      let triv := isHomopolymer ps || vs.all fun v => v.tag.startsWith "ops0"
      let pre := if triv then "triv:" else ""
      let size := if trees.length == 1 then "" else s!"batch{trees.length}/"
      match newFail, knownFail with
      | some v, _ => { corr, judge := some false, cls := pre ++ "FAIL" ++ "".intercalate v.fails ++ "/" ++ size ++ v.tag, detail := v.detail }
      | none, some v => { corr, judge := some false, cls := pre ++ "kf:" ++ v.kf.getD "" ++ "/" ++ "".intercalate v.fails ++ "/" ++ size ++ v.tag,
                          detail := (diff.map (·.detail)).getD v.detail }
      | none, none =>
        { corr, judge := if dom.isEmpty then none else some true,
          cls := pre ++ size ++ (vs.head?.map (·.tag)).getD "empty", detail := (diff.map (·.detail)).getD "" }
    | _ => { corr := false, judge := some false, cls := "bad-reply", detail := lineOf out }
  | ["text", parent, raw] =>
    let m := match (modelParse raw.toList parent.toList).splitOn "|" with
      | "ok" :: vs => "ok" :: vs
      | _ => ["panic"]
    let o := match out with | "panic" :: _ => ["panic"] | o => o
    { corr := o == m, judge := none, cls := "text", detail := if o == m then "" else lineOf m }
  | ["ploc", parent, p] =>
    let m := match readPLoc p with
      | some pl => (match (modelBuild pl parent.toList).splitOn "|" with | "ok" :: vs => "ok" :: vs | _ => ["panic"])
      | none => ["err"]
    let o := match out with | "panic" :: _ => ["panic"] | "err" :: _ => ["err"] | o => o
    { corr := o == m, judge := none, cls := "ploc", detail := if o == m then "" else lineOf m }
  | _ => { corr := false, judge := none, cls := "bad-case", detail := "bad case" }

def driver : PropDriver := { render, judge }
end PolyVerif.Driver.C02
