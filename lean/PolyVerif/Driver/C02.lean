import PolyVerif.Spec.Insdc
namespace PolyVerif.Driver.C02
open PolyVerif PolyVerif.Location PolyVerif.Insdc

/-! ### s-expressions (case trees, and poly.Location structures on the wire) -/

inductive Sx
  | atom (s : String)
  | list (xs : List Sx)
  deriving Inhabited

/-- tokens: "(" ")" and maximal runs of other non-blank characters -/
def tokens (s : Str) : List String :=
  let step := fun (acc : List String × Str) (c : Char) =>
    let (out, cur) := acc
    let flush := if cur.isEmpty then out else String.ofList cur.reverse :: out
    if c == '(' then ("(" :: flush, []) else if c == ')' then (")" :: flush, [])
    else if c == ' ' then (flush, []) else (out, c :: cur)
  let (out, cur) := s.foldl step ([], [])
  (if cur.isEmpty then out else String.ofList cur.reverse :: out).reverse

/-- read one s-expression; `stack` holds the open lists (reversed) -/
def readSx (toks : List String) : Option Sx :=
  let rec go : List String → List (List Sx) → Option Sx
    | [], _ => none
    | "(" :: ts, stack => go ts ([] :: stack)
    | ")" :: ts, cur :: stack =>
      let v := Sx.list cur.reverse
      match stack with
      | [] => if ts.isEmpty then some v else none
      | up :: rest => go ts ((v :: up) :: rest)
    | ")" :: _, [] => none
    | a :: ts, cur :: stack => go ts ((Sx.atom a :: cur) :: stack)
    | a :: ts, [] => if ts.isEmpty then some (Sx.atom a) else none
  go toks []

partial def locOfSx : Sx → Option Loc
  | .list [.atom "s", .atom a, .atom b] => some (.span (natOfStr a) (natOfStr b) false false)
  | .list [.atom "s", .atom a, .atom b, .atom m] =>
    some (.span (natOfStr a) (natOfStr b) (m.contains '<') (m.contains '>'))
  | .list [.atom "b", .atom n] => some (.base (natOfStr n))
  | .list [.atom "c", x] => (locOfSx x).map .compl
  | .list (.atom "j" :: xs) => (xs.mapM locOfSx).map .join
  | _ => none

def intOfStr (s : String) : Option Int := s.toInt?

partial def plocOfSx : Sx → Option PLoc
  | .list (.atom a :: .atom b :: .atom fl :: subs) => do
    let start ← intOfStr a
    let stop ← intOfStr b
    let subs ← subs.mapM plocOfSx
    some { start, stop, complement := fl.contains 'c', join := fl.contains 'j', five := fl.contains '5',
           three := fl.contains '3', subs }
  | _ => none

def readLocCase (s : String) : Option Loc := (readSx (tokens s.toList)).bind locOfSx
def readPLoc (s : String) : Option PLoc := (readSx (tokens s.toList)).bind plocOfSx

/-! ### the model's replies, in the harness's format -/

def S (s : Str) : String := String.ofList s

def modelParse (text parent : Str) : String :=
  match parseLocation text with
  | .ok p =>
    match getSeq p parent with
    | .ok s => "ok|" ++ S s ++ "|" ++ S (showPLoc p) ++ "|" ++ S (buildLoc p)
    | _ => "panic"
  | _ => "panic"

def modelBuild (p : PLoc) (parent : Str) : String :=
  match getSeq p parent with
  | .ok s => "ok|" ++ S s ++ "|" ++ S (buildLoc p)
  | _ => "panic"

/-! ### the property, clause by clause, on the implementation's reply -/

mutual
def opCount : Loc → Nat
  | .span _ _ _ _ => 0
  | .base _ => 0
  | .join xs => 1 + opCountList xs
  | .compl x => 1 + opCount x
def opCountList : List Loc → Nat
  | [] => 0
  | x :: xs => opCount x + opCountList xs
end

mutual
def depth : Loc → Nat
  | .span _ _ _ _ => 0
  | .base _ => 0
  | .join xs => 1 + depthList xs
  | .compl x => 1 + depth x
def depthList : List Loc → Nat
  | [] => 0
  | x :: xs => max (depth x) (depthList xs)
end

/-- probe parents that separate strands and positions.  `AAAA…`: a letter read on the reverse strand
shows as `T`, so the strand of every letter of a reading is read off first.  One word per base-4 digit
of the positions 1..n (letter = that digit as A/C/G/T): given the strand, complement is a bijection on the
letters, so the digits — hence the position — of every letter follow.  Two locations with the same readings
on all of these select the same positions, in the same order, on the same strands.  (Without the constant
word the digit words alone are blind to "other strand, positions mirrored": complement maps digit d to 3−d.)
A third, aperiodic and not self-complementary word (C at the squares, A elsewhere) is added as an
independent check.  So "denotes the same bases" is judged on every parent that matters, not on one. -/
def digitParents (n : Nat) : List Str :=
  let letters := #['A', 'C', 'G', 'T']
  let rec go (k fuel : Nat) (pow : Nat) : List Str :=
    match fuel with
    | 0 => []
    | fuel + 1 =>
      let w := (List.range n).map fun i => letters[((i + 1) / pow) % 4]!
      if pow * 4 > n then [w] else w :: go (k + 1) fuel (pow * 4)
  List.replicate n 'A' ::
    ((List.range n).map fun i => if Nat.sqrt (i + 1) * Nat.sqrt (i + 1) == i + 1 then 'C' else 'A') ::
    go 0 12 1

/-- same reading on every probe parent (`want` = the readings of the case's tree) and same partial ends -/
def sameLoc (l' : Loc) (parents : List Str) (want : List Str) (wantEnds : List (Bool × Bool)) : Bool :=
  parents.map (denote l') == want && ends l' == wantEnds

/-- verdict on a written text: `"ok"` valid INSDC with the same bases and ends; `"syntax"` the same, except
that it is only read by the lenient recogniser (a 3′ marker stands after the end position); `"bad"` otherwise -/
def writtenVerdict (text : String) (parents want : List Str) (wantEnds : List (Bool × Bool)) : String :=
  let cs := text.toList
  match insdcParse cs with
  | some l' => if sameLoc l' parents want wantEnds then "ok" else "bad"
  | none =>
    match insdcLenient cs with
    | some l' => if sameLoc l' parents want wantEnds then "syntax" else "bad"
    | none => "bad"

/-- structures sent to AddFeature for one tree: the canonical one; joins without the `Join` flag
(poly_test.go's idiom) with merged complements; joins without the flag, every complement a wrapper
node, under a pass-through node with arbitrary coordinates and flags.  All satisfy `Insdc.Rep · l`. -/
def variants (l : Loc) : List PLoc :=
  [embed l, embedV false false l,
   { start := 7, stop := 3, five := true, three := true, subs := [embedV false true l] }]

def nVariants : Nat := 3

/-- clauses that fail on one tree: "P" parsed text evaluates to the INSDC reading, "F" partial flags
kept by the parser, "W" text written from the parsed structure (lower case "w": only its strict syntax),
"E<k>" assembled structure variant k evaluates to the INSDC reading, "V<k>"/"v<k>" text written from it,
"B<k>"/"T<k>"/"t<k>" the same location written by genbank.Build into a record and read back (k = 0 parsed, 1.. variants) -/
def failing (l : Loc) (parent : Str) (probes : List Str) (rp : String) (res recs : List String) : List String :=
  let parents := parent :: probes
  let wantAll := parents.map (denote l)
  let want := S (wantAll.headD [])
  let wantEnds := ends l
  let wv := fun (tag : String) (built : String) =>
    match writtenVerdict built parents wantAll wantEnds with
    | "ok" => []
    | "syntax" => [tag.toLower]
    | _ => [tag]
  let p := match rp.splitOn "|" with
    | ["ok", seq, struct, built] =>
      (if seq == want then [] else ["P"]) ++
      (if (readPLoc struct).map pends == some wantEnds then [] else ["F"]) ++ wv "W" built
    | _ => ["P", "F", "W"]
  let e := (res.zipIdx).flatMap fun (re, k) =>
    match re.splitOn "|" with
    | ["ok", seq, built] => (if seq == want then [] else [s!"E{k}"]) ++ wv s!"V{k}" built
    | _ => [s!"E{k}", s!"V{k}"]
  -- record leg: the location as genbank.Build writes it in a record, read back by genbank.Parse
  -- ("B<k>" the feature read back evaluates to the INSDC reading, "T<k>"/"t<k>" the text read back)
  let b := (recs.zipIdx).flatMap fun (rr, k) =>
    match rr.splitOn "|" with
    | ["ok", seq, text] => (if seq == want then [] else [s!"B{k}"]) ++ wv s!"T{k}" text
    | _ => [s!"B{k}", s!"T{k}"]
  p ++ e ++ b

/-- known-finding class, decided on the case: a tree with a 3′-partial span may fail the STRICT syntax
of its written texts (lower-case clauses), nothing else -/
def explained (l : Loc) (clause : String) : Option String :=
  if hasGt l && (clause.startsWith "w" || clause.startsWith "v" || clause.startsWith "t") then some "C02-writer-3prime" else none

structure TreeVerdict where
  inDom : Bool
  corr : Bool
  fails : List String
  kf : Option String     -- all failures explained by known classes: the class
  tag : String
  detail : String

/-- the model's reply for one feature of the record leg: the text BuildLocationString writes for `p`, glued back
unchanged, parsed, evaluated -/
def modelRecord (p : PLoc) (parent : Str) : String :=
  let text := buildLoc p
  match parseLocation text with
  | .ok q =>
    match getSeq q parent with
    | .ok s => "ok|" ++ S s ++ "|" ++ S text
    | _ => "panic"
  | _ => "panic"

def judgeTree (parent : Str) (probes : List Str) (tree rp : String) (res recs : List String) : TreeVerdict :=
  match readLocCase tree with
  | none => { inDom := false, corr := false, fails := [], kf := none, tag := "bad-tree", detail := "bad tree " ++ tree }
  | some l =>
    let text := print l
    let mp := modelParse text parent
    let me := (variants l).map fun v => modelBuild v parent
    let inDom := inRange l parent.length && arity l
    let mr := if recs.isEmpty then [] else
      (match parseLocation text with | .ok p0 => modelRecord p0 parent | _ => "panic") ::
        (variants l).map fun v => modelRecord v parent
    let fails := if inDom then failing l parent probes rp res recs else []
    let allExplained := fails.all fun c => (explained l c).isSome
    let kf := if fails.isEmpty || !allExplained then none else fails.head?.bind (explained l)
    let tag := s!"ops{opCount l}/depth{depth l}" ++ (if hasGt l then "/gt" else "") ++
      (if hasDoubleCompl l then "/cc" else "") ++ (if text.length > 58 then "/wrapped" else "")
    let exact := rp == mp && res == me && recs == mr
    -- A repaired writer: the tree is in the known-finding class (it has a 3′-partial span), the property HOLDS on the
    -- implementation's reply (no failing clause at all), and the reply differs from the model — which mirrors the
    -- recorded defect — only in the written / re-read location TEXTS (every sequence and the parsed structure agree).
    -- That is the defect gone, not a disagreement: counted as drift (class suffix /kf-repaired), corr stays `same`.
    let mask := fun (r : String) => (r.splitOn "|").dropLast
    let repaired := inDom && hasGt l && fails.isEmpty && !exact &&
      mask rp == mask mp && res.map mask == me.map mask && recs.map mask == mr.map mask
    let corr := exact || repaired
    let tag := if repaired then tag ++ "/kf-repaired" else tag
    { inDom, corr, fails, kf, tag,
      detail := if repaired then s!"written texts differ from the model although the property holds (defect C02-writer-3prime repaired?): tree={tree} model: {mp} {me} {mr} impl: {rp} {res} {recs}" else
        if fails.isEmpty && corr then "" else
        s!"tree={tree} text={S text} fails={fails} model: {mp} {me} {mr} impl: {rp} {res} {recs} denote={S (denote l parent)}" }

def groupsOf (k : Nat) : List String → List (List String)
  | [] => []
  | xs => if k == 0 then [] else
    let rec go (fuel : Nat) (xs : List String) : List (List String) :=
      match fuel, xs with
      | 0, _ => []
      | _, [] => []
      | fuel + 1, xs => xs.take k :: go fuel (xs.drop k)
    go xs.length xs

def isHomopolymer (s : Str) : Bool :=
  match s with
  | [] => true
  | c :: cs => cs.all (· == c)

/-- the record leg (genbank.Build → genbank.Parse) is run for one-tree cases: the random trees, the long-text
cases and the corpus -/
def recLeg (trees : List String) : Bool := trees.length == 1

def renderLoc (width : String) (parent : String) (trees : List String) : List String :=
  "c02.batch" :: width :: toString nVariants :: (if recLeg trees then "1" else "0") :: parent :: trees.flatMap fun t =>
    match readLocCase t with
    | some l => S (print l) :: (variants l).map fun v => S (showPLoc v)
    | none => "bad" :: List.replicate nVariants "bad"

/-- cases:
  `loc parent tree…`        : every tree printed with `Insdc.print` (wrapped at 58 columns in the record, as GenBank
                              does) and assembled in `nVariants` ways; harness op `c02.batch`; a one-tree case also runs the
                              record leg: all its locations written by genbank.Build and read back by genbank.Parse
  `locw width parent tree…` : the same with another wrapping width (1 = a new line after every comma)
  `text parent raw`         : raw location text through `c02.parse` (outside the quantifier: correspondence only)
  `ploc parent struct`      : raw structure through `c02.build` (outside the quantifier: correspondence only) -/
def render (f : List String) : List String :=
  match f with
  | "loc" :: parent :: trees => renderLoc "58" parent trees
  | "locw" :: width :: parent :: trees => renderLoc width parent trees
  | ["text", parent, raw] => ["c02.parse", raw, parent]
  | ["ploc", parent, p] => ["c02.build", p, parent]
  | _ => ["bad"]

def judgeLoc (parent : String) (trees out : List String) : Verdict :=
  match out with
  | "ok" :: "single" :: _ =>
    -- the harness could not parse the batch's texts as the features of ONE record (genbank.Parse panicked,
    -- lost a feature, or glued a location text differently) and fell back to one record per text
    { corr := false, judge := some false, cls := "FAILR/record-path",
      detail := "the texts of this batch, as features of one GenBank record, were not parsed to the texts sent" }
  | "ok" :: "together" :: rs =>
    let g1 := (1 + nVariants) * trees.length
    if rs.length != (if recLeg trees then 2 * g1 else g1) then { corr := false, judge := some false, cls := "bad-reply", detail := "reply length" } else
    let ps := parent.toList
    let probes := digitParents ps.length
    let obs := groupsOf (1 + nVariants) (rs.take g1)
    let recs := if recLeg trees then groupsOf (1 + nVariants) (rs.drop g1) else trees.map fun _ => []
    let vs := (trees.zip (obs.zip recs)).map fun (t, (g, r)) => judgeTree ps probes t (g.headD "") (g.drop 1) r
    let dom := vs.filter (·.inDom)
    let newFail := dom.find? fun v => !v.fails.isEmpty && v.kf.isNone
    let knownFail := dom.find? fun v => v.kf.isSome
    let diff := vs.find? fun v => !v.corr
    let corr := diff.isNone
    let triv := isHomopolymer ps || vs.all fun v => v.tag.startsWith "ops0"
    let pre := if triv then "triv:" else ""
    let size := if trees.length == 1 then "" else s!"batch{trees.length}/"
    match newFail, knownFail with
    | some v, _ => { corr, judge := some false, cls := pre ++ "FAIL" ++ "".intercalate v.fails ++ "/" ++ size ++ v.tag, detail := v.detail }
    | none, some v => { corr, judge := some false, cls := pre ++ "kf:" ++ v.kf.getD "" ++ "/" ++ "".intercalate v.fails ++ "/" ++ size ++ v.tag,
                        detail := (diff.map (·.detail)).getD v.detail }
    | none, none =>
      let rep := vs.find? fun v => v.tag.endsWith "/kf-repaired"
      { corr, judge := if dom.isEmpty then none else some true,
        cls := pre ++ size ++ ((rep.map (·.tag)).getD ((vs.head?.map (·.tag)).getD "empty")),
        detail := (diff.map (·.detail)).getD ((rep.map (·.detail)).getD "") }
  | _ => { corr := false, judge := some false, cls := "bad-reply", detail := lineOf out }

def judge (f out : List String) : Verdict :=
  match f with
  | "loc" :: parent :: trees => judgeLoc parent trees out
  | "locw" :: _ :: parent :: trees => judgeLoc parent trees out
  | ["text", parent, raw] =>
    let m := match (modelParse raw.toList parent.toList).splitOn "|" with
      | "ok" :: vs => "ok" :: vs
      | _ => ["panic"]
    let o := match out with | "panic" :: _ => ["panic"] | o => o
    { corr := o == m, judge := none, cls := "text", detail := if o == m then "" else lineOf m }
  | ["ploc", parent, p] =>
    let m := match readPLoc p with
      | some pl => (match (modelBuild pl parent.toList).splitOn "|" with | "ok" :: vs => "ok" :: vs | _ => ["panic"])
      | none => ["err"]
    let o := match out with | "panic" :: _ => ["panic"] | "err" :: _ => ["err"] | o => o
    { corr := o == m, judge := none, cls := "ploc", detail := if o == m then "" else lineOf m }
  | _ => { corr := false, judge := none, cls := "bad-case", detail := "bad case" }

def driver : PropDriver := { render, judge }
end PolyVerif.Driver.C02
