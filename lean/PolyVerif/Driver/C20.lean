import PolyVerif.Model.Uniprot
import PolyVerif.Spec.UniprotDoc
/-
Driver for C20.  Abstract case (fields):

  doc consumer entCap errCap deadlineMs src damage seed stall pyLen prolog trailingNl n
      (accessions names seq attrs extra filler)×n

  consumer  seq | conc          src  plain | gz | read (uniprot.Read on a gzip temp file, capacities 100/100)
                                     | read2 (as read, but a second dump is opened before the first is consumed)
  damage    none | trunc:<n> | set:<p>:<code> | hset:<p>:<byte> (byte-level, applied by the harness)
            | gztrunc:<permille> | gzflip:<permille> | gztruncabs:<bytes kept> (on the gzip stream)
  lists (accessions, names) are written `<count>:<comma separated>`

The request carries the damaged text `applyDamage dm (renderDoc doc).text`; gzip-level damage is applied by
the harness to the compressed stream.  The reply carries what the consumer observed (both channels closed
within the deadline, number of errors, delivered entries) and the harness's own tokenisation of the same
stream with encoding/xml (the abstract trace), on which the model is run.
-/
namespace PolyVerif.Driver.C20
open PolyVerif PolyVerif.Uniprot PolyVerif.Spec.UniprotSpec PolyVerif.Spec.XmlScan

def parseList (x : String) : List Str :=
  match x.splitOn ":" with
  | cnt :: rest =>
    let n := natOfStr cnt
    let items := if n = 0 then [] else ((":".intercalate rest).splitOn ",").map String.toList
    -- a list whose announced length is not the number of items is not a list of the protocol
    if items.length == n && (n != 0 || (":".intercalate rest).isEmpty) then items else ["<malformed list>".toList, x.toList]
  | [] => ["<malformed list>".toList]

def showList (l : List Str) : String := toString l.length ++ ":" ++ ",".intercalate (l.map String.ofList)

def docEntries : Nat → List String → Option (List DocEntry)
  | 0, [] => some []
  | 0, _ => none
  | n + 1, acc :: names :: seq :: attrs :: extra :: filler :: rest =>
    (docEntries n rest).map fun ds =>
      { accessions := parseList acc, names := parseList names, seq := seq.toList, attrs := natOfStr attrs,
        extra := extra == "1", filler := natOfStr filler } :: ds
  | _ + 1, _ => none

def parseDamage (x : String) : Damage :=
  match x.splitOn ":" with
  | ["trunc", n] => .trunc (natOfStr n)
  | ["set", p, c] => .set (natOfStr p) (Char.ofNat (natOfStr c))
  | ["hset", p, b] => .hset (natOfStr p) (natOfStr b)
  | ["gztruncabs", n] => .gz "truncabs" (natOfStr n)
  | ["gztrunc", pm] => .gz "trunc" (natOfStr pm)
  | ["gzflip", pm] => .gz "flip" (natOfStr pm)
  | _ => .none

structure Case where
  seq : Bool
  entCap : Nat
  errCap : Nat
  src : String
  dm : Damage
  seed : Nat
  pyLen : String
  doc : Doc

def parseCase (f : List String) : Option Case :=
  match f with
  | "doc" :: cons :: entCap :: errCap :: _deadline :: src :: damage :: seed :: _stall :: pyLen :: prolog :: tnl :: n :: rest =>
    (docEntries (natOfStr n) rest).map fun es =>
      let rd := src == "read" || src == "read2"
      { seq := cons == "seq", entCap := if rd then 100 else natOfStr entCap, errCap := if rd then 100 else natOfStr errCap,
        src := src, dm := parseDamage damage, seed := natOfStr seed, pyLen := pyLen,
        doc := { prolog := natOfStr prolog, entries := es, trailingNl := tnl == "1" } }
  | _ => none

def render (f : List String) : List String :=
  match f, parseCase f with
  | "doc" :: cons :: entCap :: errCap :: deadline :: src :: _ :: seed :: stall :: _, some c =>
    let text := applyDamage c.dm (renderDoc c.doc).text
    let gzd := match c.dm with
      | .gz k pm => k ++ ":" ++ toString pm
      | .hset p b => "pset:" ++ toString p ++ ":" ++ toString b
      | _ => "none"
    ["c20.parse", cons, entCap, errCap, deadline, src, gzd, seed, stall, String.ofList text]
  | _, _ => ["bad-case"]

def entryFields (e : Entry) : List String := [showList e.accessions, showList e.names, String.ofList e.seq]

def takeEntries : Nat → List String → Option (List Entry × List String)
  | 0, rest => some ([], rest)
  | n + 1, a :: b :: c :: rest =>
    (takeEntries n rest).map fun (es, r) => (⟨parseList a, parseList b, c.toList⟩ :: es, r)
  | _ + 1, _ => none

/-- the abstract trace from the harness's symbols (`o` other token, `s` start element other than entry,
`E` entry, `X` entry with decode error; last symbol `.` EOF or `!` error) and the entries it decoded;
`none` when the symbols and the entry list do not fit together -/
def traceOf : List Char → List Entry → List Ev → Option Trace
  | 'o' :: r, es, acc => traceOf r es (.other :: acc)
  | 's' :: r, es, acc => traceOf r es (.start :: acc)
  | 'E' :: r, e :: es, acc => traceOf r es (.entry e :: acc)
  | 'X' :: r, e :: es, acc => traceOf r es (.entryErr e :: acc)
  | ['!'], [], acc => some ⟨acc.reverse, .err⟩
  | ['.'], [], acc => some ⟨acc.reverse, .eof⟩
  | _, _, _ => none

def capClass (c : Case) : String :=
  (if c.entCap = 0 then "e0" else if c.entCap < c.doc.entries.length then "e<k" else "e>=k") ++
  (if c.errCap = 0 then "r0" else if c.errCap < 2 then "r1" else "r>=2")

def short (x : String) : String := String.ofList (x.toList.take 600)

def badCase : Verdict := { corr := false, judge := none, cls := "bad-case", detail := "bad case" }

def isGzDamage (dm : Damage) : Bool := match dm with | .gz _ _ => true | _ => false

def judge (f out : List String) : Verdict :=
  match parseCase f with
  | none => badCase
  | some c =>
    let r := renderDoc c.doc
    let all := c.doc.entries.map DocEntry.toEntry
    let base := (if c.doc.entries.isEmpty then "triv:" else "") ++ "doc/" ++ c.src ++ "/" ++
                (if c.seq then "seq" else "conc") ++ "/" ++ capClass c
    let lenOk := c.pyLen.isEmpty || natOfStr c.pyLen == r.text.length
    match out with
    | ["ok", "openerr", gzOpen, leaked] =>
      -- uniprot.Read returned an error instead of starting the parser.  RULING: that is acceptable ONLY when the
      -- archive cannot be opened at all — the gzip header itself is damaged (`gzOpen = "1"`: the harness's own
      -- gzip.NewReader fails on the same bytes); then the error is the report, the returned channels are not to be
      -- consumed, and no parser goroutine may have been started.  When the member opens (header intact) the
      -- stream must be parsed as far as it goes: the entries that precede the damage are to be delivered, so an
      -- error from Read is a FAILURE of clause 2 there.  src gz: the harness had no reader to hand to Parse —
      -- nothing ran.
      if c.src == "read" || c.src == "read2" then
        let j := isGzDamage c.dm && gzOpen == "1" && leaked == "0"
        { corr := gzOpen == "1" && lenOk, judge := some j, cls := base ++ "/openerr",
          detail := if j then "" else
            "Read returned an error although the gzip member can be opened (the entries before the damage are lost), " ++
            "or on an undamaged file, or left a goroutine behind" }
      else { corr := gzOpen == "1" && lenOk, judge := none, cls := base ++ "/openerr-nothing-run", detail := "" }
    | "ok" :: "violation" :: reason :: more =>
      -- the parser finished but the harness saw what the property forbids for every stream: a value after
      -- "closed", a panic of the parser goroutine, a second dump (opened before the first was consumed) that
      -- did not come through intact
      { corr := false, judge := some false, cls := base ++ "/violation",
        detail := "harness: " ++ short (reason ++ " " ++ lineOf more) }
    | "ok" :: closed :: nErr :: nDel :: rest =>
      match takeEntries (natOfStr nDel) rest with
      | some (del, syms :: nTr :: rest2) =>
        match takeEntries (natOfStr nTr) rest2 with
        | some (trEntries, [gzErr, plainLen, isPrefix, sticky]) =>
          match traceOf syms.toList trEntries [] with
          | none => { badCase with cls := base ++ "/bad-reply", judge := some false, detail := "unreadable trace " ++ syms }
          | some t =>
          let fin := run c.seq (c.seed % 2 == 0) c.entCap c.errCap t
          let mClosed := bothClosed fin
          let mErr := (Chan.recvd 1 fin.hist).length
          let mDel := deliveredOf fin
          -- the class of the case: from the construction, or (gzip damage) from the harness's gzip reader
          let cl : DClass := match c.dm with
            | .gz _ _ =>
              -- `plainLen` counts BYTES of the decompressed prefix; offsets of the spec are characters
              if gzErr == "1" then (if isPrefix == "1" then .damagedAt (charsWithin (natOfStr plainLen) r.text) else .damagedAt 0)
              else if charsWithin (natOfStr plainLen) r.text == r.text.length && isPrefix == "1" then classify c.doc r .none else .unknown
            | dm => classify c.doc r dm
          -- decoder assumption, checked: an undamaged valid document is tokenised as the spec says
          let traceOk := match cl, c.dm with
            | .wellformed, .none => t == docTrace c.doc
            | _, _ => true
          -- the document-level reader of Spec/XmlScan against the real decoder, on the text the decoder saw:
          -- equal in everything the loop depends on (entries with contents, sawElement, how the stream ends).
          -- Compared where the reader claims to know: valid documents; damage in the prolog / root start tag
          -- (XML declaration and namespace semantics are not modelled), inside attribute values (typed by the
          -- unmarshaller, ignored by the reader) and lone high bytes are left out.  A difference is a FAILURE of
          -- the check whatever the class of the case (`reader-differs`).
          let headLen := (renderToks (prologToks c.doc.prolog ++ rootOpenToks)).length
          let seen : Option (Str × Bool) := match c.dm with
            | .none => some (r.text, false)
            | .trunc n => some (r.text.take n, false)
            | .set p ch =>
              if p ≥ headLen && !inAttrValue r.text p then some (applyDamage (.set p ch) r.text, false) else none
            | .gz _ _ => if isPrefix == "1" then some (r.text.take (charsWithin (natOfStr plainLen) r.text), gzErr == "1") else none
            | .hset _ _ => none
          let scanOk := match seen with
            | some (txt, readerErr) =>
              if c.doc.valid then
                let sc := if readerErr then scanToks (lexAll txt).1 true else scanDoc txt
                essence sc == essence t
              else true
            | none => true
          let corr := (closed == "1") == mClosed && natOfStr nErr == mErr && del == mDel && lenOk && traceOk && scanOk
          let isClosed := closed == "1"
          let n := natOfStr nErr
          let tag := (if sticky == "1" then "" else "/nonsticky") ++ (if mErr ≥ 2 then "/2err" else "")
          let detailOf (why : String) : String :=
            why ++ "; model: closed=" ++ boolStr mClosed ++ " errors=" ++ toString mErr ++ " delivered=" ++
              toString mDel.length ++ " trace=" ++ syms ++ (if lenOk then "" else "; generator length mismatch") ++
              (if traceOk then "" else "; the decoder's trace is not docTrace of the document") ++
              (if scanOk then "" else "; Spec.XmlScan.scanDoc of the text differs from the decoder's trace")
          match cl with
          | .wellformed =>
            -- content clause: the delivered entries are the DOCUMENT's entries (Spec/UniprotDoc), in order
            let j := isClosed && n == 0 && del == all
            { corr, judge := some (j && scanOk), cls := base ++ "/wellformed" ++ (if scanOk then "" else "/reader-differs"),
              detail := if corr && j then "" else detailOf "well-formed: want all entries of the document, no error, both closed" }
          | .damagedAt p =>
            let before := entriesBefore c.doc r p
            let j := isClosed && n ≥ 1 && del.take before.length == before
            { corr, judge := some (j && scanOk),
              cls := base ++ (if scanOk then "" else "/reader-differs") ++ "/damaged" ++ (if c.doc.valid then "" else "-schema") ++
                     (if del.length > before.length then "+partial" else "") ++ tag,
              detail := if corr && j then "" else
                detailOf ("damaged at " ++ toString p ++ ": want the " ++ toString before.length ++
                          " entries before it, >= 1 error, both closed") }
          | .beforeRoot p =>
            let j := isClosed && n ≥ 1
            { corr, judge := some (j && scanOk), cls := base ++ "/damaged-beforeroot" ++ tag ++ (if scanOk then "" else "/reader-differs"),
              detail := if corr && j then "" else
                detailOf ("truncated at " ++ toString p ++ " before the root element: want >= 1 error, both closed") }
          | .unknown =>
            -- whether this damage must be reported is not certain by construction; but the bytes before a known
            -- damage offset are intact, so the entries before it and the closing of both channels are demanded
            -- (Props.C20.damaged_document_delivers), and an error too when the reader's trace is not clean
            let off : Option Nat := match c.dm with
              | .set p _ => if p < r.text.length then some p else none
              | .hset p _ => if p < r.text.length && isAscii r.text then some p else none
              | _ => none
            match off with
            | some p =>
              let before := entriesBefore c.doc r p
              let needErr := match seen with
                | some (txt, _) => c.doc.valid && !decide (Clean (scanDoc txt))
                | none => false
              let j := isClosed && del.take before.length == before && (!needErr || n ≥ 1)
              { corr, judge := some (j && scanOk), cls := base ++ "/damage-uncertain" ++ tag ++ (if scanOk then "" else "/reader-differs"),
                detail := if corr && j then "" else
                  detailOf ("damage at " ++ toString p ++ " (not certainly malformed): want the " ++ toString before.length ++
                            " entries before it, both closed" ++ (if needErr then ", >= 1 error" else "")) }
            | none =>
              { corr, judge := if scanOk then none else some false,
                cls := base ++ "/unclassified" ++ tag ++ (if scanOk then "" else "/reader-differs"),
                detail := if corr then "" else detailOf "not judged" }
        | _ => { badCase with cls := base ++ "/bad-reply", judge := some false, detail := "unreadable reply" }
      | _ => { badCase with cls := base ++ "/bad-reply", judge := some false, detail := "unreadable reply" }
    | status :: _ =>
      -- race (the race detector stopped the process) / crash / timeout (both channels were not closed within
      -- the deadline: the harness ends such a request through runner.TimeoutNow) / panic / err of the harness
      -- op: the property demands termination for EVERY stream, and a data race is a failure whatever the input
      let inDom := status == "race" || status == "crash" || status == "timeout" || isGzDamage c.dm ||
        (match classify c.doc r c.dm with | .unknown => false | _ => true)
      let kind := match out with | _ :: k :: _ => if status == "timeout" then "-" ++ k else "" | _ => ""
      { corr := false, judge := if inDom then some false else none, cls := base ++ "/no-reply-" ++ status ++ kind,
        detail := "harness: " ++ short (lineOf out) }
    | [] => badCase

def driver : PropDriver := { render, judge }
end PolyVerif.Driver.C20
