import Mathlib.Data.List.Nodup
import Mathlib.Data.List.Forall2
import Mathlib.Data.List.Perm.Basic
import PolyVerif.Model.Transform
import PolyVerif.Spec.Nucleotide
import PolyVerif.Lemmas.Expansion
import PolyVerif.Gen.IupacGuard
/-
C11 — Reverse complement and IUPAC expansion obey nucleotide-code semantics.

Table facts are decided on the REGENERATED tables (Gen.complementRows / Gen.iupacRows);
everything else is proved for every string over the 15 IUPAC codes in either case,
of any length; the expansion clause (`variants_exact`) for every such string with at most MaxInt32
readings — the guard of the code — and `variants_too_many` above it.  The last section proves that the
predicates the JUDGE evaluates on the implementation's reply (`Spec.isExpansion`, `allDistinct`,
`reads`, `isIupac15`) are exactly the statements of these theorems (helpers: Lemmas/Expansion.lean).
-/
namespace PolyVerif.Props.C11
open PolyVerif PolyVerif.Transform PolyVerif.Spec

/-- the 30 letters the property quantifies over -/
def letters : List Char := upperCodes ++ upperCodes.map Char.toLower

/-- a string over the 15 IUPAC DNA codes, either case -/
def Iupac (s : Str) : Prop := ∀ c ∈ s, c ∈ letters

instance (s : Str) : Decidable (Iupac s) := by unfold Iupac; infer_instance

theorem isIupac15_iff_mem_letters : ∀ c ∈ letters, isIupac15 c = true := by decide

theorem isIupac15_ascii : ∀ n, n < 128 → isIupac15 (Char.ofNat n) = true → Char.ofNat n ∈ letters := by decide

theorem letter_lt_128 (c : Char) (h : c.isUpper = true ∨ c.isLower = true) : c.toNat < 128 := by
  simp only [Char.isUpper, Char.isLower, Bool.and_eq_true, decide_eq_true_eq, UInt32.le_iff_toNat_le] at h
  have : c.toNat = c.val.toNat := rfl
  rcases h with h | h <;> (have := h.2; simp at this; omega)

/-- the judge's domain test `isIupac15` (which cases are judged at all) is EXACTLY membership in the
30 letters the theorems quantify over — for every character, not only for the letters -/
theorem isIupac15_iff (c : Char) : isIupac15 c = true ↔ c ∈ letters := by
  constructor
  · intro h
    have h2 : c.isUpper = true ∨ c.isLower = true := by
      simp only [isIupac15, Bool.and_eq_true, Bool.or_eq_true] at h; exact h.2
    have := isIupac15_ascii c.toNat (letter_lt_128 c h2)
    rw [Char.ofNat_toNat] at this
    exact this h
  · exact isIupac15_iff_mem_letters c

/-- … hence the judge's in-domain test on a string is the theorems' hypothesis `Iupac` -/
theorem inDomain_iff (s : Str) : s.all isIupac15 = true ↔ Iupac s := by
  simp only [List.all_eq_true, isIupac15_iff, Iupac]

/-! ### table obligations (re-checked against the regenerated tables on every run) -/

/-- the code's complement table agrees with "code for the complementary base set", case kept -/
theorem table_compl_is_codeset_complement : ∀ c ∈ letters, complementBase c = complCode c := by decide

/-- complementing twice is the identity on the 30 letters (U is not one of them) -/
theorem table_compl_involutive : ∀ c ∈ letters, complementBase (complementBase c) = c := by decide

theorem table_compl_closed : ∀ c ∈ letters, complementBase c ∈ letters := by decide

theorem table_compl_case : ∀ c ∈ letters, (complementBase c).isLower = c.isLower ∧ (complementBase c).isUpper = c.isUpper := by decide

/-- row check for the expansion table, as a Boolean so that it can be decided on the whole table -/
def iupacRowOk (c : Char) : Bool :=
  match iupacLookup c with
  | some l => decide l.Nodup && l.all (fun x => (basesOf c).contains x) && (basesOf c).all (fun x => l.contains x)
  | none => false

theorem table_iupac_rows : ∀ c ∈ letters, iupacRowOk c = true := by decide

/-- the expansion table lists exactly the bases of the code, each once -/
theorem table_iupac_is_codeset : ∀ c ∈ letters, ∃ l, iupacLookup c = some l ∧ l.Nodup ∧ ∀ x, x ∈ l ↔ x ∈ basesOf c := by
  intro c hc
  have h := table_iupac_rows c hc
  unfold iupacRowOk at h
  split at h
  · rename_i l hl
    simp only [Bool.and_eq_true, decide_eq_true_eq, List.all_eq_true, List.contains_iff_mem] at h
    exact ⟨l, hl, h.1.1, fun x => ⟨h.1.2 x, h.2 x⟩⟩
  · exact absurd h (by simp)

/-- every ambiguity code is complemented to the code for the complementary base set -/
theorem table_codeset_compl : ∀ c ∈ letters, ∀ b ∈ allBases,
    (b.toChar ∈ basesOf (complementBase c) ↔ b.compl.toChar ∈ basesOf c) := by decide

/-! ### reverse complement, all lengths -/

theorem rc_length (s : Str) : (revComp s).length = s.length := by
  simp [revComp, complement]

theorem rc_eq_reverse_of_complement (s : Str) : revComp s = reverse (complement s) := rfl

theorem rc_eq_complement_of_reverse (s : Str) : revComp s = complement (reverse s) := by
  simp [revComp, complement, reverse, List.map_reverse]

theorem rc_append (a b : Str) : revComp (a ++ b) = revComp b ++ revComp a := by
  simp [revComp, complement, List.map_append, List.reverse_append]

theorem complement_iupac {s : Str} (h : Iupac s) : Iupac (complement s) := by
  intro c hc
  simp only [complement, List.mem_map] at hc
  obtain ⟨a, ha, rfl⟩ := hc
  exact table_compl_closed a (h a ha)

theorem rc_iupac {s : Str} (h : Iupac s) : Iupac (revComp s) := by
  intro c hc
  simp only [revComp, List.mem_reverse] at hc
  exact complement_iupac h c hc

theorem complement_complement {s : Str} (h : Iupac s) : complement (complement s) = s := by
  induction s with
  | nil => rfl
  | cons c cs ih =>
    have hc := table_compl_involutive c (h c (by simp))
    have ih' := ih (fun x hx => h x (by simp [hx]))
    simp only [complement, List.map_cons, List.map_map] at *
    rw [hc]; congr 1

/-- reverse complement undoes itself (on the 15 codes; U is excluded by `Iupac`) -/
theorem rc_rc {s : Str} (h : Iupac s) : revComp (revComp s) = s := by
  have := complement_complement h
  simp only [revComp, complement, List.map_reverse, List.reverse_reverse, List.map_map] at *
  exact this

/-- case is preserved position by position -/
theorem rc_case {s : Str} (h : Iupac s) :
    (revComp s).map Char.isLower = (reverse s).map Char.isLower ∧
    (revComp s).map Char.isUpper = (reverse s).map Char.isUpper := by
  simp only [revComp, reverse, complement, ← List.map_reverse, List.map_map]
  constructor <;> apply List.map_congr_left <;> intro c hc
  · exact (table_compl_case c (h c (by simpa using hc))).1
  · exact (table_compl_case c (h c (by simpa using hc))).2

/-- the model's reverse complement is the independent reading: reverse, then replace each code
by the code of the complementary base set -/
theorem rc_spec {s : Str} (h : Iupac s) : revComp s = s.reverse.map complCode := by
  simp only [revComp, complement, ← List.map_reverse]
  apply List.map_congr_left
  intro c hc
  exact table_compl_is_codeset_complement c (h c (by simpa using hc))

theorem palindromic_iff (s : Str) : isPalindromic s = true ↔ s = revComp s := by
  simp [isPalindromic]

/-! ### IUPAC expansion, all lengths -/

/-- `w` is a concrete reading of `s`: same length and, position by position, one of the bases
the code stands for (INSDC/IUPAC reading; independent of the code's table). -/
def Reads (s w : Str) : Prop := List.Forall₂ (fun x c => x ∈ basesOf c) w s

theorem variantLists_spec : ∀ {s : Str}, Iupac s →
    ∃ ls, variantLists s = some ls ∧ (∀ l ∈ ls, l.Nodup) ∧
      ∀ w, List.Forall₂ (fun x l => x ∈ l) w ls ↔ Reads s w
  | [], _ => ⟨[], rfl, by simp, fun w => by simp [Reads]⟩
  | c :: cs, h => by
    obtain ⟨l, hl, hnd, hmem⟩ := table_iupac_is_codeset c (h c (by simp))
    obtain ⟨ls, hls, hnds, hw⟩ := variantLists_spec (s := cs) (fun x hx => h x (by simp [hx]))
    refine ⟨l :: ls, by simp [variantLists, hl, hls], ?_, ?_⟩
    · intro l' hl'
      rcases List.mem_cons.1 hl' with rfl | h'
      · exact hnd
      · exact hnds _ h'
    · intro w
      cases w with
      | nil => simp [Reads]
      | cons x w =>
        simp only [Reads, List.forall₂_cons] at *
        rw [hmem x, hw w]

/-- the expansion table lists as many bases as the code stands for -/
theorem table_iupac_len : ∀ c ∈ letters, (iupacLookup c).map List.length = some (basesOf c).length := by decide

theorem prodR_pos {ns : List Nat} (h : ∀ n ∈ ns, 0 < n) : 0 < prodR ns := by
  induction ns with
  | nil => simp [prodR]
  | cons n ns ih =>
    simp only [prodR]
    exact Nat.mul_pos (h n (by simp)) (ih (fun m hm => h m (by simp [hm])))

/-- the overflow guard passes exactly when the number of variants fits: `n · Π|lᵢ| ≤ MaxInt32` -/
theorem countGuard_iff : ∀ (ls : List (List Char)) (n : Nat), (∀ l ∈ ls, 0 < l.length) → n ≤ maxInt32 →
    (countGuard ls n = true ↔ n * prodR (ls.map List.length) ≤ maxInt32)
  | [], n, _, hn => by simp [countGuard, prodR, hn]
  | l :: ls, n, h, hn => by
    have hl : 0 < l.length := h l (by simp)
    have hrest : 0 < prodR (ls.map List.length) :=
      prodR_pos (fun m hm => by
        simp only [List.mem_map] at hm
        obtain ⟨x, hx, rfl⟩ := hm
        exact h x (by simp [hx]))
    simp only [countGuard, List.map_cons, prodR]
    by_cases hgt : n > maxInt32 / l.length
    · simp only [hgt, if_true]
      constructor
      · intro hf; exact absurd hf (by simp)
      · intro hle
        exfalso
        have h1 : maxInt32 < n * l.length := by
          have := (Nat.div_lt_iff_lt_mul hl).1 hgt
          exact this
        have h2 : n * l.length ≤ n * (l.length * prodR (ls.map List.length)) := by
          apply Nat.mul_le_mul_left
          exact Nat.le_mul_of_pos_right _ hrest
        omega
    · simp only [hgt, if_false]
      have hle : n * l.length ≤ maxInt32 := by
        have : n ≤ maxInt32 / l.length := Nat.le_of_not_gt hgt
        exact (Nat.le_div_iff_mul_le hl).1 this
      rw [countGuard_iff ls (n * l.length) (fun x hx => h x (by simp [hx])) hle, Nat.mul_assoc]

/-- the per-letter lists have the sizes of the code sets -/
theorem variantLists_len : ∀ {s : Str} {ls : List (List Char)}, Iupac s → variantLists s = some ls →
    ls.map List.length = s.map (fun c => (basesOf c).length)
  | [], ls, _, h => by simp [variantLists] at h; subst h; rfl
  | c :: cs, ls, hI, h => by
    have hc := table_iupac_len c (hI c (by simp))
    simp only [variantLists] at h
    split at h
    · rename_i l ls' hl hls'
      cases h
      have ih := variantLists_len (s := cs) (fun x hx => hI x (by simp [hx])) hls'
      simp only [hl, Option.map_some, Option.some.injEq] at hc
      simp [hc, ih]
    · exact absurd h (by simp)

theorem basesOf_pos : ∀ c ∈ letters, 0 < (basesOf c).length := by decide

theorem variantLists_pos {s : Str} {ls : List (List Char)} (hI : Iupac s) (h : variantLists s = some ls) :
    ∀ l ∈ ls, 0 < l.length := by
  have hlen := variantLists_len hI h
  intro l hl
  have : l.length ∈ ls.map List.length := List.mem_map_of_mem hl
  rw [hlen, List.mem_map] at this
  obtain ⟨c, hc, hcl⟩ := this
  rw [← hcl]
  exact basesOf_pos c (hI c hc)

/-- Expansion returns every reading, nothing else, each once — whenever the number of readings can be
enumerated (at most MaxInt32, the bound the code enforces since fce67c5). -/
theorem variants_exact {s : Str} (h : Iupac s) (hc : readingCount s ≤ maxInt32) :
    ∃ vs, allVariants s = some vs ∧ vs.Nodup ∧ ∀ w, w ∈ vs ↔ Reads s w := by
  obtain ⟨ls, hls, hnd, hw⟩ := variantLists_spec h
  have hg : countGuard ls 1 = true := by
    rw [countGuard_iff ls 1 (variantLists_pos h hls) (by decide), Nat.one_mul, variantLists_len h hls,
      ← readingCount_eq]
    exact hc
  refine ⟨cart ls, by simp [allVariants, hls, hg], cart_nodup ls hnd, fun w => ?_⟩
  rw [mem_cart, hw]

/-- More readings than can be enumerated: an error, not an empty or partial answer. -/
theorem variants_too_many {s : Str} (h : Iupac s) (hc : maxInt32 < readingCount s) :
    allVariants s = none := by
  obtain ⟨ls, hls, _, _⟩ := variantLists_spec h
  have hg : countGuard ls 1 = false := by
    cases hcg : countGuard ls 1 with
    | false => rfl
    | true =>
      rw [countGuard_iff ls 1 (variantLists_pos h hls) (by decide), Nat.one_mul, variantLists_len h hls,
        ← readingCount_eq] at hcg
      omega
  simp [allVariants, hls, hg]

/-! ### the judge's predicates are the statement of `variants_exact` -/

/-- the n log n distinctness test of the judge (merge sort, neighbours) is `List.Nodup` -/
theorem judge_allDistinct_iff (l : List Str) : allDistinct l = true ↔ l.Nodup := allDistinct_iff_nodup l

/-- the judge's `reads` is `Reads` -/
theorem judge_reads_iff (s w : Str) : reads s w = true ↔ Reads s w := reads_iff s w

/-- `Spec.isExpansion s got` — what the judge evaluates on the implementation's reply — holds exactly
when `got` is duplicate-free and is exactly the set of readings of `s` (for every `s`, `got`). -/
theorem isExpansion_iff (s : Str) (got : List Str) :
    isExpansion s got = true ↔ got.Nodup ∧ ∀ w, w ∈ got ↔ Reads s w :=
  isExpansion_iff_forall₂ s got

/-- the model's answer passes the judge (so `corr = same` on an enumerated case implies `judge = pass`) -/
theorem variants_pass_judge {s : Str} (h : Iupac s) {vs : List Str} (hv : allVariants s = some vs) :
    isExpansion s vs = true := by
  have hc : readingCount s ≤ maxInt32 := by
    apply Classical.byContradiction
    intro hn
    rw [variants_too_many h (by omega)] at hv
    cases hv
  obtain ⟨vs', hv', hnd, hw⟩ := variants_exact h hc
  rw [hv] at hv'
  cases hv'
  exact (isExpansion_iff s vs).2 ⟨hnd, hw⟩

/-! ### the position of the overflow guard, observed on the running code -/

/-- The extractor calls the real `AllVariantsIUPAC` on inputs over N, B, R whose numbers of readings
(`Spec.readingCount`, the independent count) lie just above MaxInt32 and far above, and on the cheap
`N^10`; `Gen.guardProbes` records refused (0) / accepted (1) / no answer (2).  Decided here on the
regenerated table: the observations agree with the model's guard `maxInt32` — every refused input
has more than `maxInt32` readings, every accepted one at most `maxInt32`, every probe got an answer —
and the input with exactly `maxInt32 + 1 = 2^31` readings (N^15 R) is among the refused ones, so the
guard is not above `maxInt32`.  (That it is not BELOW is observed by the sampled cases of the
correspondence: N^11, 2·4^11, N^12 must not be refused.) -/
theorem guard_probes_consistent :
    (∀ p ∈ Gen.guardProbes,
      (p.2 = 0 → maxInt32 < readingCount (p.1.map Char.ofNat)) ∧
      (p.2 = 1 → readingCount (p.1.map Char.ofNat) ≤ maxInt32) ∧ p.2 ≠ 2) ∧
    (∃ p ∈ Gen.guardProbes, p.2 = 0 ∧ readingCount (p.1.map Char.ofNat) = maxInt32 + 1) ∧
    (∃ p ∈ Gen.guardProbes, p.2 = 1 ∧ 1000000 ≤ readingCount (p.1.map Char.ofNat)) := by
  decide

def acgt : List Char := ['A', 'C', 'G', 'T']

theorem basesOf_acgt (c x : Char) (h : x ∈ basesOf c) : x ∈ acgt := by
  revert h
  unfold basesOf
  split
  · intro hm
    simp only [List.mem_map, List.mem_filter] at hm
    obtain ⟨b, _, rfl⟩ := hm
    cases b <;> simp [Base.toChar, acgt]
  · simp

theorem reads_concrete {s w : Str} (hr : Reads s w) : ∀ x ∈ w, x ∈ acgt := by
  unfold Reads at hr
  induction hr with
  | nil => simp
  | cons hxc _ ih =>
    intro x hx
    rcases List.mem_cons.1 hx with rfl | hx'
    · exact basesOf_acgt _ _ hxc
    · exact ih x hx'

/-- every output is a concrete A/C/G/T string of the input's length -/
theorem allVariants_some_count {s : Str} (h : Iupac s) {vs : List Str} (hv : allVariants s = some vs) :
    readingCount s ≤ maxInt32 := by
  rcases Nat.lt_or_ge maxInt32 (readingCount s) with hgt | hle
  · rw [variants_too_many h hgt] at hv; exact absurd hv (by simp)
  · exact hle

theorem variants_concrete {s : Str} (h : Iupac s) {vs : List Str} (hv : allVariants s = some vs) :
    ∀ w ∈ vs, w.length = s.length ∧ ∀ x ∈ w, x ∈ acgt := by
  obtain ⟨vs', hvs', _, hmem⟩ := variants_exact h (allVariants_some_count h hv)
  rw [hv] at hvs'; cases hvs'
  intro w hw
  have hr := (hmem w).1 hw
  exact ⟨hr.length_eq, reads_concrete hr⟩

theorem acgt_sub_letters : ∀ x ∈ acgt, x ∈ letters := by decide

/-- pointwise: on a concrete base, "member of the complemented code" = "complement is a member" -/
theorem table_reads_compl : ∀ c ∈ letters, ∀ x ∈ acgt,
    (complementBase x ∈ basesOf (complementBase c) ↔ x ∈ basesOf c) := by decide

theorem reads_complement : ∀ {s : Str}, Iupac s → ∀ (w : Str), (∀ x ∈ w, x ∈ acgt) →
    (Reads (complement s) (complement w) ↔ Reads s w)
  | [], _, w, _ => by cases w <;> simp [Reads, complement]
  | c :: cs, h, [], _ => by simp [Reads, complement]
  | c :: cs, h, x :: w, hw => by
    have ih := reads_complement (s := cs) (fun y hy => h y (by simp [hy])) w (fun y hy => hw y (by simp [hy]))
    have hp := table_reads_compl c (h c (by simp)) x (hw x (by simp))
    simp only [Reads, complement, List.map_cons, List.forall₂_cons] at *
    rw [hp, ih]

/-- the readings of the reverse complement are the reverse complements of the readings -/
theorem reads_rc {s : Str} (h : Iupac s) (w : Str) (hw : ∀ x ∈ w, x ∈ acgt) :
    Reads (revComp s) (revComp w) ↔ Reads s w := by
  rw [← reads_complement h w hw]
  simp only [Reads, revComp, List.forall₂_reverse_iff]

theorem acgt_iupac {w : Str} (hw : ∀ x ∈ w, x ∈ acgt) : Iupac w :=
  fun x hx => acgt_sub_letters x (hw x hx)

theorem rc_acgt {w : Str} (hw : ∀ x ∈ w, x ∈ acgt) : ∀ x ∈ revComp w, x ∈ acgt := by
  have : ∀ x ∈ acgt, complementBase x ∈ acgt := by decide
  intro x hx
  simp only [revComp, complement, List.mem_reverse, List.mem_map] at hx
  obtain ⟨a, ha, rfl⟩ := hx
  exact this a (hw a ha)

/-- Expansion commutes with reverse complement: the variants of `revComp s` are exactly the
reverse complements of the variants of `s` (as lists without repetition, up to order). -/
theorem variants_rc {s : Str} (h : Iupac s) {vs vs' : List Str}
    (hv : allVariants s = some vs) (hv' : allVariants (revComp s) = some vs') :
    vs'.Perm (vs.map revComp) := by
  obtain ⟨v1, h1, nd1, m1⟩ := variants_exact h (allVariants_some_count h hv)
  obtain ⟨v2, h2, nd2, m2⟩ := variants_exact (rc_iupac h) (allVariants_some_count (rc_iupac h) hv')
  rw [hv] at h1; cases h1
  rw [hv'] at h2; cases h2
  have conc := fun w hw => (variants_concrete h hv w hw).2
  have nd3 : (vs.map revComp).Nodup := by
    refine nd1.map_on ?_
    intro a ha b hb hab
    rw [← rc_rc (acgt_iupac (conc a ha)), hab, rc_rc (acgt_iupac (conc b hb))]
  rw [List.perm_ext_iff_of_nodup nd2 nd3]
  intro w'
  rw [m2, List.mem_map]
  constructor
  · intro hr
    have hc := reads_concrete hr
    refine ⟨revComp w', (m1 _).2 ?_, rc_rc (acgt_iupac hc)⟩
    rw [← reads_rc h _ (rc_acgt hc), rc_rc (acgt_iupac hc)]
    exact hr
  · rintro ⟨w, hw, rfl⟩
    exact (reads_rc h w (conc w hw)).2 ((m1 w).1 hw)

/-! ### non-vacuity: concrete non-trivial inputs meeting the hypotheses -/

example : Iupac "GAATTCnRyk".toList := by decide
example : revComp "AGRn".toList = "nYCT".toList := by decide
example : allVariants "RY".toList = some ["GT".toList, "GC".toList, "AT".toList, "AC".toList] := by decide
example : Reads "RY".toList "AC".toList := by
  unfold Reads; decide

example : maxInt32 < readingCount (List.replicate 16 'N') := by decide
example : readingCount "NNKRY".toList ≤ maxInt32 := by decide

/-! ### Palindromic words (checks.IsPalindromic; the self-complementarity test of primers.SantaLucia and
the strand choice of seqhash.Hash use the same comparison `s == ReverseComplement(s)`): pointwise
characterisation for every length, and why the middle base of an odd-length word matters -/

def acgtBoth : List Char := ['A', 'C', 'G', 'T', 'a', 'c', 'g', 't']

theorem table_compl_no_fixed_acgt : ∀ x ∈ acgtBoth, complementBase x ≠ x := by decide

theorem revComp_getElem (s : Str) (i : Nat) (hi : i < s.length) :
    (revComp s)[i]'(by rw [rc_length]; exact hi) = complementBase (s[s.length - 1 - i]'(by omega)) := by
  simp [revComp, complement, List.getElem_reverse]

/-- position by position: a palindromic word holds at `i` the complement of its letter at `n-1-i` -/
theorem palindromic_pointwise {s : Str} (h : isPalindromic s = true) (i : Nat) (hi : i < s.length) :
    s[i] = complementBase (s[s.length - 1 - i]'(by omega)) := by
  have e : s = revComp s := (palindromic_iff s).1 h
  rw [← revComp_getElem s i hi]
  congr 1

/-- … and conversely: the pointwise condition at EVERY position (the middle one included) is palindromicity -/
theorem palindromic_of_pointwise {s : Str}
    (h : ∀ i (hi : i < s.length), s[i] = complementBase (s[s.length - 1 - i]'(by omega))) :
    isPalindromic s = true := by
  rw [palindromic_iff]
  apply List.ext_getElem (by rw [rc_length])
  intro i h1 h2
  rw [revComp_getElem s i h1]
  exact h i h1

/-- a word over A/C/G/T (either case) that equals its reverse complement has even length: in an
odd-length word the middle base would be its own complement -/
theorem palindromic_even {s : Str} (hs : ∀ x ∈ s, x ∈ acgtBoth) (h : isPalindromic s = true) :
    s.length % 2 = 0 := by
  by_contra hodd
  have hk : s.length / 2 < s.length := by omega
  have hp := palindromic_pointwise h (s.length / 2) hk
  have hidx : s.length - 1 - s.length / 2 = s.length / 2 := by omega
  have hm : s[s.length / 2] ∈ acgtBoth := hs _ (List.getElem_mem hk)
  have e2 : s[s.length - 1 - s.length / 2]'(by omega) = s[s.length / 2] := by simp only [hidx]
  rw [e2] at hp
  exact table_compl_no_fixed_acgt _ hm hp.symm

/-- hence an odd-length word over A/C/G/T is never palindromic, whatever its flanks: the enzyme site
GCAGC is directional (clone.CutWithEnzyme), ACT carries no symmetry correction (primers.SantaLucia),
and AGT / ACT are two different strands for seqhash.Hash to choose between -/
theorem odd_not_palindromic {s : Str} (hs : ∀ x ∈ s, x ∈ acgtBoth) (hodd : s.length % 2 = 1) :
    isPalindromic s = false := by
  cases h : isPalindromic s with
  | false => rfl
  | true => have := palindromic_even hs h; omega

/-- the two-pointer shortcut of the seeded changes C04-k / C10-k / C19-k (compare only positions
`i < n-1-i`) accepts odd-length words that are not palindromic: concrete witnesses -/
example : isPalindromic "GCAGC".toList = false ∧ isPalindromic "AAT".toList = false ∧
    isPalindromic "A".toList = false ∧ isPalindromic "GGTCTC".toList = false ∧
    isPalindromic "GAATTC".toList = true := by decide

end PolyVerif.Props.C11
