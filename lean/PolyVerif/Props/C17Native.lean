import PolyVerif.Props.C17
/-
C17, orders 9, 10, 11 of the generated sequence.  Kernel evaluation is out of reach here (order 9
did not finish in 18 minutes and 36 GB), so the checker is run as COMPILED code: `native_decide`.
This is the ONLY file of the framework that uses it.  In this Lean version every use of
`native_decide` adds an axiom of its own, `<theorem>._native.native_decide.ax_*` (it no longer goes
through `Lean.ofReduceBool`), so `#print axioms db_ok_9` shows `db_ok_9._native.native_decide.ax_1_1`:
the Lean compiler is trusted for these three evaluations (declared in the trusted base; the audit
accepts such an axiom for this module only, and only when it is named after one of its theorems).  What is evaluated is the same pair as for orders 1..8 — the model
`deBruijn n` and the verified checker (`checkWith k`, sound for every pass count `k`:
`checkWith_sound`); `k` only trades passes for mask size.  Built and audited by setup and by both tiers.
The same checker is also run on the REAL output of the Go function for n = 1..11 on every run
(correspondence judge), and the real output is compared with the model's.
-/
namespace PolyVerif.Props.C17
open PolyVerif PolyVerif.DeBruijn PolyVerif.Spec

theorem db_ok_9 : checkOptWith 1 9 (deBruijn 9).toOption = true := by native_decide
theorem db_ok_10 : checkOptWith 2 10 (deBruijn 10).toOption = true := by native_decide
theorem db_ok_11 : checkOptWith 2 11 (deBruijn 11).toOption = true := by native_decide

/-- orders 9..11: the generated sequence has length 4ⁿ+n−1 and contains every n-letter word exactly once -/
theorem deBruijn_isDeBruijn_9_11 (n : Nat) (h9 : 9 ≤ n) (h11 : n ≤ 11) :
    ∃ s k, deBruijn n = .ok s ∧ checkWith k n s = true ∧ IsDeBruijn n s := by
  have : n = 9 ∨ n = 10 ∨ n = 11 := by omega
  rcases this with rfl | rfl | rfl
  · obtain ⟨s, hs, hc⟩ := of_checkOpt db_ok_9; exact ⟨s, _, hs, hc, checkWith_sound _ _ s hc⟩
  · obtain ⟨s, hs, hc⟩ := of_checkOpt db_ok_10; exact ⟨s, _, hs, hc, checkWith_sound _ _ s hc⟩
  · obtain ⟨s, hs, hc⟩ := of_checkOpt db_ok_11; exact ⟨s, _, hs, hc, checkWith_sound _ _ s hc⟩

/-- the property's whole range of orders -/
theorem deBruijn_isDeBruijn_1_11 (n : Nat) (h1 : 1 ≤ n) (h11 : n ≤ 11) :
    ∃ s, deBruijn n = .ok s ∧ IsDeBruijn n s := by
  by_cases h : n ≤ 8
  · exact deBruijn_isDeBruijn_le8 n h1 h
  · obtain ⟨s, _, hs, _, hd⟩ := deBruijn_isDeBruijn_9_11 n (by omega) h11
    exact ⟨s, hs, hd⟩

/-- orders 9..11: the barcode laws for the function itself (orders 1..8: `createBarcodes_laws_le8`) -/
theorem createBarcodes_laws_9_11 (n len : Nat) (h9 : 9 ≤ n) (h11 : n ≤ 11) (hl : n ≤ len)
    (bans : List Str) (filters : List (Str → Bool)) :
    ∃ db bs, deBruijn n = .ok db ∧ IsDeBruijn n db ∧ createBarcodesWith len n bans filters = .ok bs ∧
      (∀ b ∈ bs, b <:+: db ∧ b.length = len) ∧
      bs.Pairwise (fun b1 b2 => ∀ w : Str, w.length = n → ¬ (w <:+: b1 ∧ w <:+: b2)) ∧
      bs.Nodup ∧
      (∀ b ∈ bs, ∀ ban ∈ bans, ¬ ban <:+: b ∧ ¬ Transform.revComp ban <:+: b) ∧
      (∀ b ∈ bs, ∀ f ∈ filters, f b = true) := by
  obtain ⟨db, k, hdb, hc, hd⟩ := deBruijn_isDeBruijn_9_11 n h9 h11
  obtain ⟨bs, hbs⟩ := createBarcodes_laws bans filters hdb hc hl
  exact ⟨db, bs, hdb, hd, hbs⟩

end PolyVerif.Props.C17
