import PolyVerif.Model.Genbank
import PolyVerif.Spec.GbLayout
/-
Property C01 — theorems about the model `Genbank.parse` against the independent writer
`GbLayout.layout`.  (Under construction: sections are added in rising difficulty.)
-/
namespace PolyVerif.Props.C01
open PolyVerif PolyVerif.Str PolyVerif.Genbank PolyVerif.GbLayout

/-- `getSequence` keeps exactly the letters: whatever is laid out between them, if it contains no
letter, disappears -/
theorem getSequence_letters (ls : List Str) : getSequence ls = (ls.flatten).filter isLetter := rfl

end PolyVerif.Props.C01
