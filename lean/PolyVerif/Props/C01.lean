import PolyVerif.Lemmas.GenbankOrigin
import PolyVerif.Lemmas.GenbankLocus
import PolyVerif.Lemmas.GenbankSub
import PolyVerif.Lemmas.GenbankParse
import PolyVerif.Lemmas.GenbankMulti
import PolyVerif.Props.C02
/-
Property C01 — GenBank parsing returns exactly what a well-formed record states.

Theorems about the model `Genbank.parse` (Model/Genbank.lean) against the independent writer
`GbLayout.layout` (Spec/GbLayout.lean), section by section.  Helper lemmas: Lemmas/Genbank*.lean.
Sections not closed at full strength keep their full statement in a comment and a `…_partial`.
-/
namespace PolyVerif.Props.C01
open PolyVerif PolyVerif.Str PolyVerif.Genbank PolyVerif.GbLayout PolyVerif.Lemmas.Genbank

/-! ## ORIGIN -/

/-- The ORIGIN letters in order: for every letter string, every block length and number of blocks per
line, whatever follows the sequence lines (the terminator, an empty last line) as long as it holds no letter. -/
theorem origin_recovered (seq : Str) (bl pl : Nat) (tail : List Str) (h : seq.all isLetter = true)
    (ht : (tail.flatten).filter isLetter = []) :
    getSequence (originLines seq bl pl ++ tail) = seq := by
  simp only [getSequence, List.flatten_append, List.filter_append, filter_originLines seq bl pl h, ht, List.append_nil]

example : getSequence (originLines c!"acgtACGTnnacgtacgtacgtaa" 3 2 ++ [c!"//", []]) = c!"acgtACGTnnacgtacgtacgtaa" :=
  origin_recovered _ 3 2 _ (by decide) (by decide)

/-! ## LOCUS -/

/-- LOCUS name (any blank-free token), stated length (any number of digits, or none — then no length and no
unit are reported), molecule type (each of the twelve, the longest match wins, or none), topology (or none),
division (all 18, or none) and date (or none) are recovered for every choice of the gaps and of the trailing
blanks. -/
theorem locus_recovered (l : RLocus) (ℓ : RecLayout) (h : wfLocus l = true) :
    parseLocus (locusLine l ℓ) = .ok (toLocus l) :=
  parseLocus_locusLine l ℓ h

example : wfLocus { name := c!"puc19", len := c!"2686", mol := c!"DNA", topo := some .circular, division := c!"SYN", date := c!"22-OCT-2019" } = true
    ∧ wfLocus { name := c!"linear", len := c!"20", mol := c!"genomic DNA", topo := some .circular } = true
    ∧ wfLocus { name := c!"x" } = true := by decide

/-- a two-digit length, a locus called `linear` with circular topology, a two-word molecule type, no division -/
example : parseLocus (locusLine { name := c!"linear", len := c!"20", mol := c!"genomic DNA", topo := some .circular, date := c!"01-JAN-2020" } {})
    = .ok (toLocus { name := c!"linear", len := c!"20", mol := c!"genomic DNA", topo := some .circular, date := c!"01-JAN-2020" }) :=
  locus_recovered _ _ (by decide)

/-! ## keyword blocks -/

/-- DEFINITION, ACCESSION, VERSION, KEYWORDS, ORGANISM, AUTHORS … and every other keyword block: the
wrapped lines are re-joined to the text, for every text (printable, no blank at either end), every set of
break positions, every keyword of at most 11 characters (sub-keywords with their indentation stripped by
the caller are the case `kw` = the bare word), whatever line stops the block (`Stop`: the next keyword or
sub-keyword line) and whatever follows. -/
theorem sublines_rejoined (kw : Str) (k : Nat) (t : Str) (bs : List Nat) (stop : Str) (rest : List Str)
    (hk : ' ' ∉ kw) (ht : isText t = true) (hs : Stop stop) :
    joinSubLines (split (kw ++ (spaces (k + 1) ++ (wrapText bs t).headD [])) c!" ")
      (((wrapText bs t).drop 1).map (spaces 12 ++ ·) ++ stop :: rest) = .ok t :=
  joinSubLines_chunks kw k t bs stop rest hk ht hs

/-- the same, read on the lines of `block` -/
theorem block_rejoined (kw t : Str) (bs : List Nat) (stop : Str) (rest : List Str)
    (hk : ' ' ∉ kw) (hl : kw.length ≤ 11) (ht : isText t = true) (hs : Stop stop) :
    joinSubLines (split ((block kw t bs).headD []) c!" ") ((block kw t bs).drop 1 ++ stop :: rest) = .ok t := by
  rw [block_eq]
  simp only [List.headD_cons, List.drop_succ_cons, List.drop_zero, padRight]
  obtain ⟨k, hk12⟩ : ∃ k, 12 - kw.length = k + 1 := ⟨11 - kw.length, by omega⟩
  rw [hk12, List.append_assoc]
  exact joinSubLines_chunks kw k t bs stop rest hk ht hs

example : isText c!"Construction of improved M13 vectors using oligodeoxynucleotide-directed mutagenesis." = true
    ∧ Stop c!"ACCESSION   ." ∧ Stop c!"  JOURNAL   Gene" := by
  refine ⟨by decide, Or.inl (by decide), Or.inr ⟨by decide, by decide⟩⟩

/-! ## SOURCE / ORGANISM and REFERENCE -/

/-- SOURCE and ORGANISM texts are both recovered, for every wrapping of either, whatever keyword line
follows (`StartsStop`) -/
theorem source_organism_recovered (src org : Str) (bs bo : List Nat) (more : List Str)
    (hs : isText src = true) (ho : isText org = true) (hm : StartsStop more) :
    getSourceOrganism (split ((block c!"SOURCE" src bs).headD []) c!" ")
      ((block c!"SOURCE" src bs).drop 1 ++ (block c!"  ORGANISM" org bo ++ more)) = .ok (src, org) :=
  getSourceOrganism_blocks src org bs bo more hs ho hm

/-- REFERENCE: the number — the reference's own (`RRef.number`: any blank-free printable token, so gaps,
repeats, `0`, letters), or its position when it states none (`refNumber`) —, the range (also when the
REFERENCE line is wrapped) and the optional AUTHORS, TITLE, JOURNAL, PUBMED, REMARK blocks are recovered for
every wrapping, whatever keyword line `m` follows -/
theorem reference_recovered (i : Nat) (r : RRef) (ℓ : RefLayout) (m : Str) (rest : List Str)
    (h : wfRef r = true) (hm : quickMetaCheck m = .ok true) :
    getReference (split ((refLines i r ℓ).headD []) c!" ") ((refLines i r ℓ).drop 1 ++ m :: rest) = .ok (toRef i r) :=
  getReference_lines i r ℓ m rest h hm

example : wfRef { range := c!"(bases 1 to 2686)", authors := c!"Norrander J, Kempe T, Messing J",
                  title := c!"see the TITLE page SOURCE", journal := c!"Gene. 1983 Dec;26(1):101-6." } = true := by decide
example : (toRef 0 { number := c!"7", range := c!"(sites)" }).index = c!"7" ∧ (toRef 4 { range := c!"(sites)" }).index = c!"5"
    ∧ wfRef { number := c!"0" } = true ∧ wfRef { number := c!"1 2" } = false := by decide

/-! ## FEATURES -/

/-- Every feature in file order with its key, its location text (also written on several lines, with or
without qualifiers) and every qualifier value verbatim — values over printable ASCII (a quotation mark may
stand inside a value, not at either end), including '/', '=', leading and trailing blanks, values wrapped at
any set of blanks (also before a '/', but never between a quotation mark and a '/'), `/translation` values cut
anywhere, values written without quotes or not at all, keys over all visible characters except `=`, `/`, `"`,
features without qualifiers — for every table followed by a line `stop` that is a keyword line and not a
feature-table line (`ORIGIN`, or an extra keyword such as `CONTIG`). -/
theorem features_recovered (fs : List RFeature) (ls : List FeatLayout) (stop : Str) (B : List Str)
    (hw : ∀ f ∈ fs, wfFeature f = true) (hm : quickMetaCheck stop = .ok true) (hs : FStop stop) :
    getFeatures (featsLines fs ls ++ stop :: B) = .ok (fs.map toFeature) :=
  getFeatures_table fs ls stop B hw hm hs

example : wfFeature { key := c!"CDS", loc := c!"join(1..20,complement(30..40))",
                      quals := [(c!"note", c!"a /b = \"c\"".filter (· != '"')), (c!"translation", c!"MKV")] } = true
    ∧ quickMetaCheck c!"ORIGIN" = .ok true ∧ FStop c!"ORIGIN" := by
  refine ⟨by decide, by decide, ⟨by decide, by decide, by decide⟩⟩

/- Full statement (false for repeated keys, see the witness):
   `∀ fs ls stop B, (∀ f ∈ fs, wfFeatureLoose f) → … → getFeatures (featsLines fs ls ++ stop :: B) = .ok (fs.map toFeature)` -/

/-- What the parser does keep when qualifier keys repeat: `Feature.Attributes` is a map, so of several
qualifiers with one key the LAST value survives (`toFeatureM`); everything else — keys, location text, all
other values, for every layout incl. unquoted (`/codon_start=1`) and value-less (`/pseudo`) qualifiers and
keys with capitals — is as in `features_recovered`. -/
theorem features_recovered_last_wins (fs : List RFeature) (ls : List FeatLayout) (stop : Str) (B : List Str)
    (hw : ∀ f ∈ fs, wfFeatureLoose f = true) (hm : quickMetaCheck stop = .ok true) (hs : FStop stop) :
    getFeatures (featsLines fs ls ++ stop :: B) = .ok (fs.map toFeatureM) :=
  getFeatures_table_loose fs ls stop B hw hm hs

/-- known finding C01-repeated-qualifier-key: two `/db_xref` on one CDS, the first value is lost -/
theorem repeated_qualifier_key_witness :
    ¬ (∀ (fs : List RFeature) (ls : List FeatLayout) (stop : Str) (B : List Str), (∀ f ∈ fs, wfFeatureLoose f = true) →
        quickMetaCheck stop = .ok true → FStop stop →
        getFeatures (featsLines fs ls ++ stop :: B) = .ok (fs.map toFeature)) := by
  intro h
  have := h [{ key := c!"CDS", loc := c!"1..12", quals := [(c!"db_xref", c!"GI:1"), (c!"db_xref", c!"GI:2")] }] [] c!"ORIGIN" []
    (by decide) (by decide) ⟨by decide, by decide, by decide⟩
  revert this
  decide

/-! ## the whole record -/

/-- Composition on lines: the main loop over the lines of a laid-out record (followed by any number of
empty lines) returns what the record states. -/
theorem parseLoop_layout_lines (r : GbRec) (ℓ : RecLayout) (tail : List Str) (h : WF r) (ht : ∀ l ∈ tail, l = []) :
    parseLoop (layout r ℓ ++ tail) {} = .ok (toSequence r) :=
  parseLoop_layout r ℓ tail h ht

/-- **Parsing a well-formed GenBank record returns exactly what the record states.**  For every abstract
record in the domain `WF` (the property's quantifier) and every choice of the independent writer — the six
LOCUS gaps, where each keyword block, reference block and qualifier value is wrapped, where locations and
`/translation` values are cut, block length and blocks per line of the sequence, `ORIGIN` with or without
trailing blanks, final newline or not — `Parse` applied to the text returns the record: sequence, LOCUS
fields, DEFINITION … ORGANISM, references, extra keyword blocks, and every feature with key, location text
and qualifier values.  The layout choices also cover: empty standard blocks written or left out, extra keyword
blocks (DBLINK, COMMENT, …) in any of the seven places between LOCUS and FEATURES and (CONTIG) between the
feature table and ORIGIN, qualifier values quoted,
unquoted or absent, location texts of every INSDC shape (order, bond, gap, n.m, n^m, remote).
Among the layouts: a SOURCE block written while its empty ORGANISM line is left out (`omitOrganism`).  (`parse` is the model of `genbank.Parse`, Model/Genbank.lean, tied to the Go
function by the per-case correspondence of the check.) -/
theorem parse_layout (r : GbRec) (ℓ : RecLayout) (finalNewline : Bool) (h : WF r) :
    parse (layoutText r ℓ finalNewline) = .ok (toSequence r) :=
  parse_layoutText r ℓ finalNewline h

/-- the same for every record of the quantifier, repeated qualifier keys included: what the parser's map
keeps (`toSequenceM`: per feature the last value of a repeated key) -/
theorem parse_layout_last_wins (r : GbRec) (ℓ : RecLayout) (finalNewline : Bool) (h : wfLoose r = true) :
    parse (layoutText r ℓ finalNewline) = .ok (toSequenceM r) :=
  parse_layoutText_loose r ℓ finalNewline h

/-- a SOURCE block written without its ORGANISM line (the organism is empty and the writer leaves the empty line
out, layout choice `omitOrganism`): the organism comes back empty — the keyword block that follows SOURCE is not
taken for it (defect C01-source-without-organism, repaired by 6ccbb58) -/
def swoRec : GbRec :=
  { locus := { name := c!"x", len := c!"4", mol := c!"DNA", topo := some .linear }
    source := c!"some source", refs := [{ range := c!"(bases 1 to 4)", authors := c!"A" }], seq := c!"acgt" }

example : orgOmitted swoRec { omitOrganism := true } = true
    ∧ parse (layoutText swoRec { omitOrganism := true } true) = .ok (toSequence swoRec)
    ∧ (toSequence swoRec).md.organism = [] ∧ (toSequence swoRec).md.source = c!"some source" :=
  ⟨by decide, parse_layoutText _ _ _ (by decide), by decide, by decide⟩

/-- **No location text of the domain makes `parseLocation` panic.**  `Genbank.parse` leaves the call
`parseLocation(feature.GbkLocationString)` to property C02's model; in Go a panic there is a panic of `Parse`, and
the driver mirrors it (`Driver.C01.withLocPanic` turns an `ok` of the `Parse` model into `panic` when a feature
it read has a location text on which `Location.parseLocation` panics).  For every record of the judge's domain
(`wfLoose`: repeated qualifier keys included) and every layout, the parser returns the stated record and
`parseLocation` panics on none of the location texts in it, by `Props.C02.parseLocation_total`
(`isLocText s → parseLocation s ≠ .panic`): on an in-domain case that branch of the driver is never the one
that decides. -/
theorem locations_total (r : GbRec) (h : wfLoose r = true) :
    ∀ f ∈ (toSequenceM r).features, Location.parseLocation f.gbkLoc ≠ .panic := by
  intro f hf
  simp only [toSequenceM, List.mem_map] at hf
  obtain ⟨g, hg, rfl⟩ := hf
  simp only [wfLoose, Bool.and_eq_true, List.all_eq_true] at h
  have hw := h.1.1.2 g hg
  simp only [wfFeatureLoose, isLocTextB, Bool.and_eq_true] at hw
  exact Props.C02.parseLocation_total _ hw.2.1

theorem parse_layout_locations_total (r : GbRec) (ℓ : RecLayout) (finalNewline : Bool) (h : wfLoose r = true) :
    ∃ s, parse (layoutText r ℓ finalNewline) = .ok s
      ∧ ∀ f ∈ s.features, Location.parseLocation f.gbkLoc ≠ .panic :=
  ⟨toSequenceM r, parse_layoutText_loose r ℓ finalNewline h, locations_total r h⟩

/-- a small record exercising every section: two-digit length, a locus called `linear` that is circular,
wrapped definition, KEYWORDS left out, DBLINK before KEYWORDS, CONTIG after the feature table, a reference whose journal continues with the word SOURCE, a COMMENT continuing with the
word TITLE, a multi-line location without qualifier, an `order(…)` location with a value-less qualifier, a feature whose value
continues with `/b`, a key with capitals and an unquoted value -/
def exampleRec : GbRec :=
  { locus := { name := c!"linear", len := c!"12", mol := c!"DNA", topo := some .circular, division := c!"BCT", date := c!"01-JAN-2020" }
    definition := c!"a small test record", accession := c!"X1", version := c!"X1.1", keywords := []
    source := c!"synthetic construct", organism := c!"synthetic construct"
    refs := [{ range := c!"(bases 1 to 12)", authors := c!"A B", journal := c!"open SOURCE code", pubmed := c!"123" },
             { number := c!"7", title := c!"own number, no range" }, { number := c!"7", range := c!"(sites)" }, { number := c!"0" }]
    extras := [(c!"DBLINK", c!"BioProject: PRJNA1"), (c!"COMMENT", c!"see TITLE page"), (c!"CONTIG", c!"join(X1.1:1..12)")]
    features := [{ key := c!"gene", loc := c!"join(1..2,3..4)" },
                 { key := c!"misc_feature", loc := c!"order(1..5,7..9)", quals := [(c!"pseudo", [])] },
                 { key := c!"CDS", loc := c!"1..12", quals := [(c!"note", c!"a /b=c"), (c!"translation", c!"MKV"),
                                                               (c!"EC_number", c!"1.1.1.1"), (c!"codon_start", c!"1")] }]
    seq := c!"acgtacgtacgt" }

def exampleLay : RecLayout :=
  { definition := [7], refs := [{ journal := [4] }, { trailGap := true }, {}, {}], extras := [[], [3], []], extraCuts := [0, 0, 0, 1, 0, 0, 1], omitKeywords := true
    feats := [{ loc := [9] }, { styles := [2] }, { quals := [[1], [2]], styles := [0, 0, 0, 1] }] }

example : WF exampleRec ∧ noSlashEnd exampleRec exampleLay = true := by
  constructor
  · show wf exampleRec = true
    decide
  · decide

example : parse (layoutText exampleRec exampleLay false) = .ok (toSequence exampleRec) :=
  parse_layout _ _ _ (by show wf exampleRec = true; decide)

/-! ## files of several records -/

/-- **A file holding k records, each terminated by `//`, yields k results in file order** (with or without
the final newline): every record in the domain and, as the property demands, no line other than a
terminator ending in `//` (`RecOK`). -/
theorem parseMulti_layout (rs : List GbRec) (ℓ : FileLayout) (hh : ℓ.header = none) (hne : rs ≠ [])
    (hok : ∀ p ∈ zipLay rs ℓ.recs, RecOK p) :
    parseMulti (layoutFile rs ℓ) = .ok (rs.map toSequence) :=
  parseMulti_layoutFile rs ℓ hh hne hok

/-- … **each equal to the result of parsing that record alone.** -/
theorem parseMulti_eq_parse_each (rs : List GbRec) (ℓ : FileLayout) (hh : ℓ.header = none) (hne : rs ≠ [])
    (hok : ∀ p ∈ zipLay rs ℓ.recs, RecOK p) :
    parseMulti (layoutFile rs ℓ) = mapOutcome (fun p => parse (layoutText p.1 p.2 true)) (zipLay rs ℓ.recs) := by
  rw [parseMulti_layoutFile rs ℓ hh hne hok,
    mapOutcome_ok (fun p : GbRec × RecLayout => parse (layoutText p.1 p.2 true)) (fun p => toSequence p.1) _
      (fun p hp => parse_layoutText p.1 p.2 true (hok p hp).1)]
  congr 1
  have := zipLay_map_fst rs ℓ.recs
  conv => lhs; rw [← this]
  rw [List.map_map]; rfl

/-- the same through `ParseFlat`, for a file that starts with a 10-line header (any ten lines) -/
theorem parseFlat_layout (rs : List GbRec) (ℓ : FileLayout) (H : List Str) (hh : ℓ.header = some H)
    (hH : H.length = 10) (hHnl : ∀ l ∈ H, '\n' ∉ l) (hne : rs ≠ []) (hok : ∀ p ∈ zipLay rs ℓ.recs, RecOK p) :
    parseFlat (layoutFile rs ℓ) = .ok (rs.map toSequence) :=
  parseFlat_layoutFile rs ℓ H hh hH hHnl hne hok

example : ∀ p ∈ zipLay [exampleRec, exampleRec] [exampleLay, {}], RecOK p := by
  intro p hp
  simp only [zipLay, List.headD_cons, List.tail_cons, List.mem_cons, List.not_mem_nil, or_false] at hp
  rcases hp with rfl | rfl <;> exact ⟨by decide, by decide⟩

/-- the two file theorems over the whole quantifier (`RecOKL`: `wfLoose`, so repeated qualifier keys included):
what the judge expects of a `multi` / `flat` case with a repeated key, `rs.map toSequenceM` -/
theorem parseMulti_layout_last_wins (rs : List GbRec) (ℓ : FileLayout) (hh : ℓ.header = none) (hne : rs ≠ [])
    (hok : ∀ p ∈ zipLay rs ℓ.recs, RecOKL p) :
    parseMulti (layoutFile rs ℓ) = .ok (rs.map toSequenceM) :=
  parseMulti_layoutFile_loose rs ℓ hh hne hok

theorem parseFlat_layout_last_wins (rs : List GbRec) (ℓ : FileLayout) (H : List Str) (hh : ℓ.header = some H)
    (hH : H.length = 10) (hHnl : ∀ l ∈ H, '\n' ∉ l) (hne : rs ≠ []) (hok : ∀ p ∈ zipLay rs ℓ.recs, RecOKL p) :
    parseFlat (layoutFile rs ℓ) = .ok (rs.map toSequenceM) :=
  parseFlat_layoutFile_loose rs ℓ H hh hH hHnl hne hok

theorem records_locations_total (rs : List GbRec) (ls : List RecLayout) (hok : ∀ p ∈ zipLay rs ls, RecOKL p) :
    ∀ s ∈ rs.map toSequenceM, ∀ f ∈ s.features, Location.parseLocation f.gbkLoc ≠ .panic := by
  intro s hs
  obtain ⟨r, hr, rfl⟩ := List.mem_map.mp hs
  obtain ⟨l, hl⟩ := mem_zipLay rs ls r hr
  exact locations_total r (hok _ hl).1

/-- `parse_layout_locations_total` for `ParseMulti` and `ParseFlat`: on no feature location of any record of an
in-domain file does `parseLocation` panic, so the driver's panic mirror (applied to every piece of the file)
never decides an in-domain `multi` / `flat` / `read*` case either -/
theorem parseMulti_layout_locations_total (rs : List GbRec) (ℓ : FileLayout) (hh : ℓ.header = none) (hne : rs ≠ [])
    (hok : ∀ p ∈ zipLay rs ℓ.recs, RecOKL p) :
    ∃ ss, parseMulti (layoutFile rs ℓ) = .ok ss
      ∧ ∀ s ∈ ss, ∀ f ∈ s.features, Location.parseLocation f.gbkLoc ≠ .panic :=
  ⟨_, parseMulti_layoutFile_loose rs ℓ hh hne hok, records_locations_total rs ℓ.recs hok⟩

theorem parseFlat_layout_locations_total (rs : List GbRec) (ℓ : FileLayout) (H : List Str) (hh : ℓ.header = some H)
    (hH : H.length = 10) (hHnl : ∀ l ∈ H, '\n' ∉ l) (hne : rs ≠ []) (hok : ∀ p ∈ zipLay rs ℓ.recs, RecOKL p) :
    ∃ ss, parseFlat (layoutFile rs ℓ) = .ok ss
      ∧ ∀ s ∈ ss, ∀ f ∈ s.features, Location.parseLocation f.gbkLoc ≠ .panic :=
  ⟨_, parseFlat_layoutFile_loose rs ℓ H hh hH hHnl hne hok, records_locations_total rs ℓ.recs hok⟩

end PolyVerif.Props.C01
