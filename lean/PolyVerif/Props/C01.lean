import PolyVerif.Lemmas.GenbankOrigin
import PolyVerif.Lemmas.GenbankLocus
import PolyVerif.Lemmas.GenbankSub
import PolyVerif.Lemmas.GenbankParse
/-
Property C01 — GenBank parsing returns exactly what a well-formed record states.

Theorems about the model `Genbank.parse` (Model/Genbank.lean) against the independent writer
`GbLayout.layout` (Spec/GbLayout.lean), section by section.  Helper lemmas: Lemmas/Genbank*.lean.
Sections not closed at full strength keep their full statement in a comment and a `…_partial`.
-/
namespace PolyVerif.Props.C01
open PolyVerif PolyVerif.Str PolyVerif.Genbank PolyVerif.GbLayout PolyVerif.Lemmas.Genbank

/-! ## ORIGIN -/

/-- The ORIGIN letters in order: for every letter string, every block length and number of blocks per
line, whatever follows the sequence lines (the terminator, an empty last line) as long as it holds no letter. -/
theorem origin_recovered (seq : Str) (bl pl : Nat) (tail : List Str) (h : seq.all isLetter = true)
    (ht : (tail.flatten).filter isLetter = []) :
    getSequence (originLines seq bl pl ++ tail) = seq := by
  simp only [getSequence, List.flatten_append, List.filter_append, filter_originLines seq bl pl h, ht, List.append_nil]

example : getSequence (originLines c!"acgtACGTnnacgtacgtacgtaa" 3 2 ++ [c!"//", []]) = c!"acgtACGTnnacgtacgtacgtaa" :=
  origin_recovered _ 3 2 _ (by decide) (by decide)

/-! ## LOCUS -/

/-- LOCUS name (any blank-free token), length (every number of digits), molecule type (DNA, mRNA,
tRNA, rRNA), topology, division (all 18) and date are recovered for every choice of the six gaps. -/
theorem locus_recovered (l : RLocus) (n : Nat) (ℓ : RecLayout) (h : wfLocus l = true) :
    parseLocus (locusLine l n ℓ) = .ok (toLocus l n) :=
  parseLocus_locusLine l n ℓ h

example : wfLocus ⟨c!"puc19", .dna, .circular, 9, c!"22-OCT-2019"⟩ = true
    ∧ wfLocus ⟨c!"linear", .mrna, .circular, 0, c!"01-JAN-1999"⟩ = true := by decide

/-- a two-digit length, a locus called `linear` with circular topology, single blanks -/
example : parseLocus (locusLine ⟨c!"linear", .trna, .circular, 6, c!"01-JAN-2020"⟩ 20 {})
    = .ok (toLocus ⟨c!"linear", .trna, .circular, 6, c!"01-JAN-2020"⟩ 20) := locus_recovered _ _ _ (by decide)

/-! ## keyword blocks -/

/-- DEFINITION, ACCESSION, VERSION, KEYWORDS, ORGANISM, AUTHORS … and every other keyword block: the
wrapped lines are re-joined to the text, for every text (printable, no blank at either end), every set of
break positions, every keyword of at most 11 characters (sub-keywords with their indentation stripped by
the caller are the case `kw` = the bare word), whatever line stops the block (`Stop`: the next keyword or
sub-keyword line) and whatever follows. -/
theorem sublines_rejoined (kw : Str) (k : Nat) (t : Str) (bs : List Nat) (stop : Str) (rest : List Str)
    (hk : ' ' ∉ kw) (ht : isText t = true) (hs : Stop stop) :
    joinSubLines (split (kw ++ (spaces (k + 1) ++ (wrapText bs t).headD [])) c!" ")
      (((wrapText bs t).drop 1).map (spaces 12 ++ ·) ++ stop :: rest) = .ok t :=
  joinSubLines_chunks kw k t bs stop rest hk ht hs

/-- the same, read on the lines of `block` -/
theorem block_rejoined (kw t : Str) (bs : List Nat) (stop : Str) (rest : List Str)
    (hk : ' ' ∉ kw) (hl : kw.length ≤ 11) (ht : isText t = true) (hs : Stop stop) :
    joinSubLines (split ((block kw t bs).headD []) c!" ") ((block kw t bs).drop 1 ++ stop :: rest) = .ok t := by
  rw [block_eq]
  simp only [List.headD_cons, List.drop_succ_cons, List.drop_zero, padRight]
  obtain ⟨k, hk12⟩ : ∃ k, 12 - kw.length = k + 1 := ⟨11 - kw.length, by omega⟩
  rw [hk12, List.append_assoc]
  exact joinSubLines_chunks kw k t bs stop rest hk ht hs

example : isText c!"Construction of improved M13 vectors using oligodeoxynucleotide-directed mutagenesis." = true
    ∧ Stop c!"ACCESSION   ." ∧ Stop c!"  JOURNAL   Gene" := by
  refine ⟨by decide, Or.inl (by decide), Or.inr ⟨by decide, by decide⟩⟩

/-! ## SOURCE / ORGANISM and REFERENCE -/

/-- SOURCE and ORGANISM texts are both recovered, for every wrapping of either, whatever keyword line
follows (`StartsStop`) -/
theorem source_organism_recovered (src org : Str) (bs bo : List Nat) (more : List Str)
    (hs : isText src = true) (ho : isText org = true) (hm : StartsStop more) :
    getSourceOrganism (split ((block c!"SOURCE" src bs).headD []) c!" ")
      ((block c!"SOURCE" src bs).drop 1 ++ (block c!"  ORGANISM" org bo ++ more)) = .ok (src, org) :=
  getSourceOrganism_blocks src org bs bo more hs ho hm

/-- REFERENCE: the number, the range (also when the REFERENCE line is wrapped) and the optional AUTHORS,
TITLE, JOURNAL, PUBMED, REMARK blocks are recovered for every wrapping, whatever keyword line `m` follows -/
theorem reference_recovered (i : Nat) (r : RRef) (ℓ : RefLayout) (m : Str) (rest : List Str)
    (h : wfRef r = true) (hm : quickMetaCheck m = .ok true) :
    getReference (split ((refLines i r ℓ).headD []) c!" ") ((refLines i r ℓ).drop 1 ++ m :: rest) = .ok (toRef i r) :=
  getReference_lines i r ℓ m rest h hm

example : wfRef { range := c!"(bases 1 to 2686)", authors := c!"Norrander J, Kempe T, Messing J",
                  title := c!"see the TITLE page SOURCE", journal := c!"Gene. 1983 Dec;26(1):101-6." } = true := by decide

/-! ## FEATURES -/

/-- Every feature in file order with its key, its location text (also written on several lines, with or
without qualifiers) and every qualifier value verbatim — values over printable ASCII other than the double
quote, including '/', '=', leading and trailing blanks, values wrapped at any set of blanks (also before a
'/'), `/translation` values cut anywhere, features without qualifiers — for every table followed by a line
`stop` that is a keyword line and not a feature-table line (`ORIGIN`). -/
theorem features_recovered (fs : List RFeature) (ls : List FeatLayout) (stop : Str) (B : List Str)
    (hw : ∀ f ∈ fs, wfFeature f = true) (hm : quickMetaCheck stop = .ok true) (hs : FStop stop) :
    getFeatures (featsLines fs ls ++ stop :: B) = .ok (fs.map toFeature) :=
  getFeatures_table fs ls stop B hw hm hs

example : wfFeature { key := c!"CDS", loc := c!"join(1..20,complement(30..40))",
                      quals := [(c!"note", c!"a /b = \"c\"".filter (· != '"')), (c!"translation", c!"MKV")] } = true
    ∧ quickMetaCheck c!"ORIGIN" = .ok true ∧ FStop c!"ORIGIN" := by
  refine ⟨by decide, by decide, ⟨by decide, by decide, by decide⟩⟩

/-! ## the whole record -/

/-- Composition on lines: the main loop over the lines of a laid-out record (followed by any number of
empty lines) returns what the record states. -/
theorem parseLoop_layout_lines (r : GbRec) (ℓ : RecLayout) (tail : List Str) (h : WF r) (ht : ∀ l ∈ tail, l = []) :
    parseLoop (layout r ℓ ++ tail) {} = .ok (toSequence r) :=
  parseLoop_layout r ℓ tail h ht

end PolyVerif.Props.C01
