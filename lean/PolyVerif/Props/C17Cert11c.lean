import PolyVerif.Lemmas.DeBruijnCert
import PolyVerif.Gen.DeBruijnCert11
/-
C17, order 11, segments 44..64 of 65 (see Props/C17Cert.lean for the method).  Three modules so that lake
checks them in parallel; each kernel evaluation covers 65536 symbols.
-/
namespace PolyVerif.Props.C17
open PolyVerif PolyVerif.Spec PolyVerif.Gen

set_option maxRecDepth 1000000 in
theorem cert11_seg44 : segCheck DB11.lk 4194304 10 128 DB11.segs DB11.states 44 = true := by decide +kernel
set_option maxRecDepth 1000000 in
theorem cert11_seg45 : segCheck DB11.lk 4194304 10 128 DB11.segs DB11.states 45 = true := by decide +kernel
set_option maxRecDepth 1000000 in
theorem cert11_seg46 : segCheck DB11.lk 4194304 10 128 DB11.segs DB11.states 46 = true := by decide +kernel
set_option maxRecDepth 1000000 in
theorem cert11_seg47 : segCheck DB11.lk 4194304 10 128 DB11.segs DB11.states 47 = true := by decide +kernel
set_option maxRecDepth 1000000 in
theorem cert11_seg48 : segCheck DB11.lk 4194304 10 128 DB11.segs DB11.states 48 = true := by decide +kernel
set_option maxRecDepth 1000000 in
theorem cert11_seg49 : segCheck DB11.lk 4194304 10 128 DB11.segs DB11.states 49 = true := by decide +kernel
set_option maxRecDepth 1000000 in
theorem cert11_seg50 : segCheck DB11.lk 4194304 10 128 DB11.segs DB11.states 50 = true := by decide +kernel
set_option maxRecDepth 1000000 in
theorem cert11_seg51 : segCheck DB11.lk 4194304 10 128 DB11.segs DB11.states 51 = true := by decide +kernel
set_option maxRecDepth 1000000 in
theorem cert11_seg52 : segCheck DB11.lk 4194304 10 128 DB11.segs DB11.states 52 = true := by decide +kernel
set_option maxRecDepth 1000000 in
theorem cert11_seg53 : segCheck DB11.lk 4194304 10 128 DB11.segs DB11.states 53 = true := by decide +kernel
set_option maxRecDepth 1000000 in
theorem cert11_seg54 : segCheck DB11.lk 4194304 10 128 DB11.segs DB11.states 54 = true := by decide +kernel
set_option maxRecDepth 1000000 in
theorem cert11_seg55 : segCheck DB11.lk 4194304 10 128 DB11.segs DB11.states 55 = true := by decide +kernel
set_option maxRecDepth 1000000 in
theorem cert11_seg56 : segCheck DB11.lk 4194304 10 128 DB11.segs DB11.states 56 = true := by decide +kernel
set_option maxRecDepth 1000000 in
theorem cert11_seg57 : segCheck DB11.lk 4194304 10 128 DB11.segs DB11.states 57 = true := by decide +kernel
set_option maxRecDepth 1000000 in
theorem cert11_seg58 : segCheck DB11.lk 4194304 10 128 DB11.segs DB11.states 58 = true := by decide +kernel
set_option maxRecDepth 1000000 in
theorem cert11_seg59 : segCheck DB11.lk 4194304 10 128 DB11.segs DB11.states 59 = true := by decide +kernel
set_option maxRecDepth 1000000 in
theorem cert11_seg60 : segCheck DB11.lk 4194304 10 128 DB11.segs DB11.states 60 = true := by decide +kernel
set_option maxRecDepth 1000000 in
theorem cert11_seg61 : segCheck DB11.lk 4194304 10 128 DB11.segs DB11.states 61 = true := by decide +kernel
set_option maxRecDepth 1000000 in
theorem cert11_seg62 : segCheck DB11.lk 4194304 10 128 DB11.segs DB11.states 62 = true := by decide +kernel
set_option maxRecDepth 1000000 in
theorem cert11_seg63 : segCheck DB11.lk 4194304 10 128 DB11.segs DB11.states 63 = true := by decide +kernel
set_option maxRecDepth 1000000 in
theorem cert11_seg64 : segCheck DB11.lk 4194304 10 128 DB11.segs DB11.states 64 = true := by decide +kernel

end PolyVerif.Props.C17
