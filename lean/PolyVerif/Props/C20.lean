import PolyVerif.Lemmas.Uniprot
/-
C20 — Uniprot streaming delivers every entry once, in order, and terminates.

Model: Model/Uniprot.lean (the token loop of uniprot.Parse over an abstract decoder, as a producer on the
entries channel 0 and the errors channel 1).  Channels: Base/Chan.lean, Lemmas/Chan.lean.
All statements are for every trace (any number of entries), every pair of capacities and every schedule
(`Reach` = any finite interleaving; `Stuck` = the run cannot be extended).  `seq = true` is the documented
consumer (drain entries, then errors), `seq = false` drains both concurrently.
-/
namespace PolyVerif.Props.C20
open PolyVerif PolyVerif.Chan PolyVerif.Uniprot

/-- no run is infinite, whatever the stream, the capacities and the consumer; a run has at most
`3·(entries + errors + 2) + 2` steps -/
theorem terminates (t : Trace) (seq : Bool) (entCap errCap : Nat) :
    (¬ ∃ f : Nat → Sys Msg, f 0 = system entCap errCap t ∧ ∀ n, Step (consumer seq) (f n) (f (n + 1))) ∧
    (∀ n s, ReachN (consumer seq) n (system entCap errCap t) s → n ≤ 3 * (program t).length + 2) := by
  have ho := wfProg_only2 (program_wf t) (fun ch => if ch = 0 then entCap else errCap)
  refine ⟨no_infinite_path (consumer_stops seq) (consumer_two seq) _ ho, fun n s hn => ?_⟩
  have := (reachN_measure (consumer_stops seq) (consumer_two seq) ho hn).2
  have hm : Chan.measure (init (fun ch => if ch = 0 then entCap else errCap) (program t)) =
      3 * (program t).length + 2 := by
    simp [Chan.measure, init, unseen]
  unfold system at hn
  omega

/-- SAFETY for every consumer whatsoever: the entries received so far are a prefix of the entries of the
stream in document order, the producer never panics (no send on / close of a closed channel), and each
channel has been closed at most once -/
theorem delivers_prefix (t : Trace) (C : Consumer Msg) (entCap errCap : Nat) (s : Sys Msg)
    (hr : Reach C (system entCap errCap t) s) :
    recvd 0 s.hist <+: (entriesOf t.evs).map Msg.entry ∧ s.panicked = false ∧
      (s.chans 0).closes ≤ 1 ∧ (s.chans 1).closes ≤ 1 := by
  have hi := inv_reach (program_wf t) hr
  refine ⟨sends0_program t ▸ recvd_prefix hi 0, hi.noPanic, ?_, ?_⟩
  · have := hi.closesOk 0; split at this <;> omega
  · have := hi.closesOk 1; split at this <;> omega

/-- what a finished run has delivered -/
theorem finished_outcome (t : Trace) (s : Sys Msg) (h : Finished [0, 1] (program t) s) :
    deliveredOf s = entriesOf t.evs ∧ recvd 1 s.hist = List.replicate (numErrors t) Msg.error ∧
      bothClosed s = true := by
  obtain ⟨hp, hnp, hch⟩ := h
  obtain ⟨_, hc0, _, hs0, hr0⟩ := hch 0 (by simp)
  obtain ⟨_, hc1, _, hs1, hr1⟩ := hch 1 (by simp)
  refine ⟨?_, by rw [hr1, sends1_program], by simp [bothClosed, hp, hnp, hs0, hs1, hc0, hc1]⟩
  rw [deliveredOf, hr0, sends0_program, List.filterMap_map]
  induction entriesOf t.evs with
  | nil => rfl
  | cons e es ih => simp [ih]

/-- every maximal run ends finished, if the consumer is concurrent or the error channel can hold all
forwarded errors -/
theorem maximal_finished (t : Trace) (seq : Bool) (entCap errCap : Nat) (hcap : seq = false ∨ numErrors t ≤ errCap)
    (s : Sys Msg) (hr : Reach (consumer seq) (system entCap errCap t) s) (hs : Stuck (consumer seq) s) :
    Finished [0, 1] (program t) s := by
  cases seq with
  | false => exact stuck_concurrent (program_wf t) hr hs
  | true =>
    have hc : numErrors t ≤ errCap := by
      rcases hcap with h | h
      · cases h
      · exact h
    exact stuck_sequential (program_wf t) (by simpa [sends1_program] using hc) hr hs

/-- WELL-FORMED STREAM with k entries: for every capacity of either channel (0 included), both consumers
and every schedule, a maximal run has delivered exactly those k entries in document order, no error, and
both channels are closed (exactly once each) and observed closed. -/
theorem wellformed_delivers (t : Trace) (hclean : Clean t) (seq : Bool) (entCap errCap : Nat) (s : Sys Msg)
    (hr : Reach (consumer seq) (system entCap errCap t) s) (hs : Stuck (consumer seq) s) :
    deliveredOf s = entriesOf t.evs ∧ recvd 1 s.hist = [] ∧ bothClosed s = true := by
  have h0 : numErrors t = 0 := by
    have : ¬ 1 ≤ numErrors t := fun h => (numErrors_pos_iff t).mp h hclean
    omega
  have hf := maximal_finished t seq entCap errCap (.inr (by omega)) s hr hs
  have := finished_outcome t s hf
  rw [h0] at this
  exact ⟨this.1, by simpa using this.2.1, this.2.2⟩

/-- DAMAGED STREAM: a stream that is not `Clean` — the decoder reports an error somewhere (malformed, or cut
after its first element began), or the stream ends before any element (cut before the root element: the
empty stream, only the XML declaration / comments / white space).  Then — with a concurrent consumer, or
with the documented sequential consumer and an error channel that can hold the forwarded errors — every
maximal run has delivered all entries the loop met, in order (in particular those of any part `pre` of
the stream before the damage, as a prefix), has reported every error (at least one), and both channels
are closed and observed closed. -/
theorem damaged_terminates (t : Trace) (hdam : ¬ Clean t) (seq : Bool) (entCap errCap : Nat)
    (hcap : seq = false ∨ numErrors t ≤ errCap) (s : Sys Msg)
    (hr : Reach (consumer seq) (system entCap errCap t) s) (hs : Stuck (consumer seq) s) :
    (∀ pre post, t.evs = pre ++ post → entriesOf pre <+: deliveredOf s) ∧
      deliveredOf s = entriesOf t.evs ∧
      (recvd 1 s.hist).length = numErrors t ∧ 1 ≤ (recvd 1 s.hist).length ∧ bothClosed s = true := by
  have herr : 1 ≤ numErrors t := (numErrors_pos_iff t).mpr hdam
  have := finished_outcome t s (maximal_finished t seq entCap errCap hcap s hr hs)
  refine ⟨fun pre post h => ?_, this.1, by simp [this.2.1], by simp [this.2.1, herr], this.2.2⟩
  rw [this.1, h, entriesOf_append]
  exact List.prefix_append _ _

/-- with sticky decoder errors (encoding/xml on malformed or truncated input) at most two errors are
forwarded: one by a failed DecodeElement and one by the next Token -/
theorem sticky_errors_le_two (t : Trace) (h : Sticky t) : numErrors t ≤ 2 := by
  unfold numErrors numErrorsFrom
  have key : ∀ (evs : List Ev), (∀ pre e post, evs = pre ++ Ev.entryErr e :: post → post = []) →
      (evs.filter isErrEv).length ≤ 1 := by
    intro evs
    induction evs with
    | nil => intro _; simp
    | cons ev r ih =>
      intro hs
      have hr : ∀ pre e post, r = pre ++ Ev.entryErr e :: post → post = [] :=
        fun pre e post he => hs (ev :: pre) e post (by simp [he])
      cases ev with
      | entryErr e =>
        have : r = [] := hs [] e r rfl
        subst this
        simp [List.filter, isErrEv]
      | other => simpa [isErrEv] using ih hr
      | start => simpa [isErrEv] using ih hr
      | entry e => simpa [isErrEv] using ih hr
  have hk := key t.evs (fun pre e post he => (h pre e post he).1)
  by_cases he : t.evs.filter isErrEv = []
  · have : finErrors (false || t.evs.any isStartEv) t.fin ≤ 1 := by
      unfold finErrors; split <;> (try split) <;> omega
    simp only [he, List.length_nil]; omega
  · -- some DecodeElement failed: by stickiness the stream then ends with an error, not with EOF
    obtain ⟨ev, hev⟩ := List.exists_mem_of_ne_nil _ he
    rw [List.mem_filter] at hev
    obtain ⟨pre, post, hsplit⟩ := List.append_of_mem hev.1
    cases ev with
    | entryErr e =>
      have hfin := (h pre e post hsplit).2
      rw [hfin]; simp only [finErrors]; omega
    | other => simp [isErrEv] at hev
    | start => simp [isErrEv] at hev
    | entry e => simp [isErrEv] at hev

/-- the property's second clause under the recorded decoder assumption: capacity 2 on the error channel
suffices for the documented usage (uniprot.Read uses 100) -/
theorem damaged_terminates_sticky (t : Trace) (hst : Sticky t) (hdam : ¬ Clean t) (seq : Bool)
    (entCap errCap : Nat) (hcap : seq = false ∨ 2 ≤ errCap) (s : Sys Msg)
    (hr : Reach (consumer seq) (system entCap errCap t) s) (hs : Stuck (consumer seq) s) :
    deliveredOf s = entriesOf t.evs ∧ 1 ≤ (recvd 1 s.hist).length ∧ (recvd 1 s.hist).length ≤ 2 ∧
      bothClosed s = true := by
  have h2 := sticky_errors_le_two t hst
  have := damaged_terminates t hdam seq entCap errCap (hcap.imp id (fun h => by omega)) s hr hs
  exact ⟨this.2.1, this.2.2.2.1, by omega, this.2.2.2.2⟩

/-- THE EXCLUDED CORNER, for ANY parser: a producer that performs `n` sends on the error channel before it
closes the entries channel, against the documented sequential consumer and an error channel with room for
fewer than `n` errors (e.g. unbuffered, one error), can never finish: in every reachable state it has
panicked or still has work to do while the entries channel is open and the consumer waits on it. -/
theorem any_parser_blocks (P : List (Op Msg)) (n : Nat) (hP : sendsBeforeClose0 P = some n)
    (caps : Nat → Nat) (hcap : caps 1 < n) (s : Sys Msg) (hr : Reach sequential (init caps P) s) :
    s.panicked = true ∨ (s.prog ≠ [] ∧ (s.chans 0).closed = false ∧ seen s.hist 0 = false) :=
  sequential_blocks hP hcap hr

/-- the corner for uniprot.Parse itself: more forwarded errors than the error channel holds, sequential
consumer: the entries channel is never closed -/
theorem errcap_too_small_blocks (t : Trace) (entCap errCap : Nat) (h : errCap < numErrors t) (s : Sys Msg)
    (hr : Reach (consumer true) (system entCap errCap t) s) :
    s.prog ≠ [] ∧ (s.chans 0).closed = false ∧ bothClosed s = false := by
  have hb := sequential_blocks (caps := fun ch => if ch = 0 then entCap else errCap)
    (sendsBeforeClose0_program t) (by simpa using h) hr
  have hnp := (inv_reach (program_wf t) hr).noPanic
  rcases hb with hb | hb
  · rw [hnp] at hb; cases hb
  · refine ⟨hb.1, hb.2.1, ?_⟩
    simp [bothClosed, hb.2.2]

/-- the scheduler run used by the driver is a maximal `Step`-path, so the theorems above apply to it -/
theorem run_is_maximal (seq eager : Bool) (entCap errCap : Nat) (t : Trace) :
    Reach (consumer seq) (system entCap errCap t) (run seq eager entCap errCap t) ∧
      Stuck (consumer seq) (run seq eager entCap errCap t) :=
  ⟨runFuel_reach _ _ _ _, runFuel_stuck (consumer_stops seq) (consumer_two seq) eager _ _
    (wfProg_only2 (program_wf t) _) (fuelFor_ge_measure _)⟩

/-! ### non-vacuity: concrete traces (tests on literals, not theorems) -/

def e1 : Entry := ⟨["P1".toList, "Q2".toList], ["AB_X".toList], "MKV".toList⟩
def e2 : Entry := ⟨["P9".toList], [], []⟩
def tGood : Trace := ⟨[.other, .start, .other, .entry e1, .other, .entry e2, .other], .eof⟩
def tCut : Trace := ⟨[.start, .entry e1, .other, .entryErr e2], .err⟩
/-- a document cut right after its XML declaration: one token, then io.EOF -/
def tProlog : Trace := ⟨[.other], .eof⟩

example : Clean tGood := by decide
example : Sticky tCut := by
  intro pre e post h
  rcases pre with _ | ⟨a, _ | ⟨b, _ | ⟨c, _ | ⟨d, pre⟩⟩⟩⟩ <;> simp_all [tCut]
example : numErrors tCut = 2 := by decide
example : ¬ Clean tCut := by decide
example : ¬ Clean tProlog ∧ numErrors tProlog = 1 := by decide
-- fixed finding C20-truncated-before-root: the truncated prolog is reported
example : (recvd 1 (run true true 100 100 tProlog).hist).length = 1 ∧ bothClosed (run true true 100 100 tProlog) = true := by decide
example : deliveredOf (run true true 0 0 tGood) = [e1, e2] ∧ bothClosed (run true true 0 0 tGood) = true := by decide
example : deliveredOf (run true false 1 2 tCut) = [e1, e2] ∧ bothClosed (run true false 1 2 tCut) = true := by decide
example : deliveredOf (run false true 0 0 tCut) = [e1, e2] ∧ bothClosed (run false true 0 0 tCut) = true := by decide
-- the corner: documented consumer, unbuffered error channel — the run deadlocks with the entries channel open
example : deliveredOf (run true true 5 0 tCut) = [e1] ∧ bothClosed (run true true 5 0 tCut) = false := by decide

end PolyVerif.Props.C20
