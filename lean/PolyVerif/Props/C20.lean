import PolyVerif.Lemmas.Uniprot
import PolyVerif.Lemmas.UniprotDoc
import PolyVerif.Lemmas.UniprotCut
/-
C20 — Uniprot streaming delivers every entry once, in order, and terminates.

Model: Model/Uniprot.lean (the token loop of uniprot.Parse over an abstract decoder, as a producer on the
entries channel 0 and the errors channel 1: entry sends, close(entries), the kept errors, close(errors)).
Spec: Spec/UniprotDoc.lean (documents with k entries as XML token sequences, their text, and the trace a
document has by construction) and Spec/XmlScan.lean (an independent reader of the TEXT: lexer, nesting,
Parse loop and DecodeElement(&Entry) as a state machine).  Channels: Base/Chan.lean, Lemmas/Chan.lean.
All statements are for every trace (any number of entries), every pair of capacities and every schedule
(`Reach` = any finite interleaving; `Stuck` = the run cannot be extended).  `seq = true` is the documented
consumer (drain entries, then errors), `seq = false` drains both concurrently.
-/
namespace PolyVerif.Props.C20
open PolyVerif PolyVerif.Chan PolyVerif.Uniprot PolyVerif.Spec.UniprotSpec PolyVerif.Spec.XmlScan

/-- no run is infinite, whatever the stream, the capacities and the consumer; a run has at most
`3·(entries + errors + 2) + 2` steps -/
theorem terminates (t : Trace) (seq : Bool) (entCap errCap : Nat) :
    (¬ ∃ f : Nat → Sys Msg, f 0 = system entCap errCap t ∧ ∀ n, Step (consumer seq) (f n) (f (n + 1))) ∧
    (∀ n s, ReachN (consumer seq) n (system entCap errCap t) s → n ≤ 3 * (program t).length + 2) := by
  have ho := wfProg_only2 (program_wf t) (fun ch => if ch = 0 then entCap else errCap)
  refine ⟨no_infinite_path (consumer_stops seq) (consumer_two seq) _ ho, fun n s hn => ?_⟩
  have := (reachN_measure (consumer_stops seq) (consumer_two seq) ho hn).2
  have hm : Chan.measure (init (fun ch => if ch = 0 then entCap else errCap) (program t)) =
      3 * (program t).length + 2 := by
    simp [Chan.measure, init, unseen]
  unfold system at hn
  omega

/-- SAFETY for every consumer whatsoever: the entries received so far are a prefix of the entries of the
stream in document order, the producer never panics (no send on / close of a closed channel), and each
channel has been closed at most once -/
theorem delivers_prefix (t : Trace) (C : Consumer Msg) (entCap errCap : Nat) (s : Sys Msg)
    (hr : Reach C (system entCap errCap t) s) :
    recvd 0 s.hist <+: (entriesOf t.evs).map Msg.entry ∧ s.panicked = false ∧
      (s.chans 0).closes ≤ 1 ∧ (s.chans 1).closes ≤ 1 := by
  have hi := inv_reach (program_wf t) hr
  refine ⟨sends0_program t ▸ recvd_prefix hi 0, hi.noPanic, ?_, ?_⟩
  · have := hi.closesOk 0; split at this <;> omega
  · have := hi.closesOk 1; split at this <;> omega

/-- what a finished run has delivered -/
theorem finished_outcome (t : Trace) (s : Sys Msg) (h : Finished [0, 1] (program t) s) :
    deliveredOf s = entriesOf t.evs ∧ recvd 1 s.hist = List.replicate (numErrors t) Msg.error ∧
      bothClosed s = true := by
  obtain ⟨hp, hnp, hch⟩ := h
  obtain ⟨_, hc0, _, hs0, hr0⟩ := hch 0 (by simp)
  obtain ⟨_, hc1, _, hs1, hr1⟩ := hch 1 (by simp)
  refine ⟨?_, by rw [hr1, sends1_program], by simp [bothClosed, hp, hnp, hs0, hs1, hc0, hc1]⟩
  rw [deliveredOf, hr0, sends0_program, List.filterMap_map]
  induction entriesOf t.evs with
  | nil => rfl
  | cons e es ih => simp [ih]

/-- every maximal run ends finished: both consumers, EVERY capacity of either channel (0 included).  For the
documented sequential consumer this holds because the entries channel is closed before the first error is
sent (`sendsBeforeClose0_program`), so the consumer has moved on to the error channel by then. -/
theorem maximal_finished (t : Trace) (seq : Bool) (entCap errCap : Nat)
    (s : Sys Msg) (hr : Reach (consumer seq) (system entCap errCap t) s) (hs : Stuck (consumer seq) s) :
    Finished [0, 1] (program t) s := by
  cases seq with
  | false => exact stuck_concurrent (program_wf t) hr hs
  | true => exact stuck_sequential (program_wf t) (sendsBeforeClose0_program t) (Nat.zero_le _) hr hs

/-- WELL-FORMED STREAM with k entries: for every capacity of either channel (0 included), both consumers
and every schedule, a maximal run has delivered exactly those k entries in document order, no error, and
both channels are closed (exactly once each) and observed closed. -/
theorem wellformed_delivers (t : Trace) (hclean : Clean t) (seq : Bool) (entCap errCap : Nat) (s : Sys Msg)
    (hr : Reach (consumer seq) (system entCap errCap t) s) (hs : Stuck (consumer seq) s) :
    deliveredOf s = entriesOf t.evs ∧ recvd 1 s.hist = [] ∧ bothClosed s = true := by
  have h0 : numErrors t = 0 := by
    have : ¬ 1 ≤ numErrors t := fun h => (numErrors_pos_iff t).mp h hclean
    omega
  have hf := maximal_finished t seq entCap errCap s hr hs
  have := finished_outcome t s hf
  rw [h0] at this
  exact ⟨this.1, by simpa using this.2.1, this.2.2⟩

/-- DAMAGED STREAM: a stream that is not `Clean` — the decoder reports an error somewhere (malformed, or cut
after its first element began), or the stream ends before any element (cut before the root element: the
empty stream, only the XML declaration / comments / white space).  Then, for BOTH consumers and EVERY
capacity of either channel (0..: in particular the documented sequential consumer with an unbuffered error
channel), every maximal run has delivered all entries the loop met, in order (in particular those of any part `pre` of
the stream before the damage, as a prefix), has reported every error (at least one), and both channels
are closed and observed closed. -/
theorem damaged_terminates (t : Trace) (hdam : ¬ Clean t) (seq : Bool) (entCap errCap : Nat) (s : Sys Msg)
    (hr : Reach (consumer seq) (system entCap errCap t) s) (hs : Stuck (consumer seq) s) :
    (∀ pre post, t.evs = pre ++ post → entriesOf pre <+: deliveredOf s) ∧
      deliveredOf s = entriesOf t.evs ∧
      (recvd 1 s.hist).length = numErrors t ∧ 1 ≤ (recvd 1 s.hist).length ∧ bothClosed s = true := by
  have herr : 1 ≤ numErrors t := (numErrors_pos_iff t).mpr hdam
  have := finished_outcome t s (maximal_finished t seq entCap errCap s hr hs)
  refine ⟨fun pre post h => ?_, this.1, by simp [this.2.1], by simp [this.2.1, herr], this.2.2⟩
  rw [this.1, h, entriesOf_append]
  exact List.prefix_append _ _

/-- with sticky decoder errors (encoding/xml on malformed or truncated input) at most two errors are
forwarded: one by a failed DecodeElement and one by the next Token -/
theorem sticky_errors_le_two (t : Trace) (h : Sticky t) : numErrors t ≤ 2 := by
  unfold numErrors numErrorsFrom
  have key : ∀ (evs : List Ev), (∀ pre e post, evs = pre ++ Ev.entryErr e :: post → post = []) →
      (evs.filter isErrEv).length ≤ 1 := by
    intro evs
    induction evs with
    | nil => intro _; simp
    | cons ev r ih =>
      intro hs
      have hr : ∀ pre e post, r = pre ++ Ev.entryErr e :: post → post = [] :=
        fun pre e post he => hs (ev :: pre) e post (by simp [he])
      cases ev with
      | entryErr e =>
        have : r = [] := hs [] e r rfl
        subst this
        simp [List.filter, isErrEv]
      | other => simpa [isErrEv] using ih hr
      | start => simpa [isErrEv] using ih hr
      | entry e => simpa [isErrEv] using ih hr
  have hk := key t.evs (fun pre e post he => (h pre e post he).1)
  by_cases he : t.evs.filter isErrEv = []
  · have : finErrors (false || t.evs.any isStartEv) t.fin ≤ 1 := by
      unfold finErrors; split <;> (try split) <;> omega
    simp only [he, List.length_nil]; omega
  · -- some DecodeElement failed: by stickiness the stream then ends with an error, not with EOF
    obtain ⟨ev, hev⟩ := List.exists_mem_of_ne_nil _ he
    rw [List.mem_filter] at hev
    obtain ⟨pre, post, hsplit⟩ := List.append_of_mem hev.1
    cases ev with
    | entryErr e =>
      have hfin := (h pre e post hsplit).2
      rw [hfin]; simp only [finErrors]; omega
    | other => simp [isErrEv] at hev
    | start => simp [isErrEv] at hev
    | entry e => simp [isErrEv] at hev

/-- under the recorded decoder assumption a damaged stream yields one or two errors -/
theorem damaged_terminates_sticky (t : Trace) (hst : Sticky t) (hdam : ¬ Clean t) (seq : Bool)
    (entCap errCap : Nat) (s : Sys Msg)
    (hr : Reach (consumer seq) (system entCap errCap t) s) (hs : Stuck (consumer seq) s) :
    deliveredOf s = entriesOf t.evs ∧ 1 ≤ (recvd 1 s.hist).length ∧ (recvd 1 s.hist).length ≤ 2 ∧
      bothClosed s = true := by
  have h2 := sticky_errors_le_two t hst
  have := damaged_terminates t hdam seq entCap errCap s hr hs
  exact ⟨this.2.1, this.2.2.2.1, by omega, this.2.2.2.2⟩

/-- WHY the errors are kept (defect C20-errcap-block, fixed by 1559ed9).  A parser that performs `n` sends
on the error channel BEFORE it closes the entries channel — uniprot.Parse before the fix: one or two — can
never finish against the documented sequential consumer when the error channel has room for fewer than `n`
errors: in every reachable state it has panicked or still has work to do while the entries channel is open
and the consumer waits on it.  This is a statement about that send order only; `maximal_finished` shows
that the present order (close the entries channel first) serves every capacity. -/
theorem report_before_close_blocks (P : List (Op Msg)) (n : Nat) (hP : sendsBeforeClose0 P = some n)
    (caps : Nat → Nat) (hcap : caps 1 < n) (s : Sys Msg) (hr : Reach sequential (init caps P) s) :
    s.panicked = true ∨ (s.prog ≠ [] ∧ (s.chans 0).closed = false ∧ seen s.hist 0 = false) :=
  sequential_blocks hP hcap hr

/-! ### the content clause: documents, not traces -/

theorem entriesOf_filler (n : Nat) : entriesOf (fillerEvs n) = [] := by
  match n with
  | 0 => rfl
  | 1 => rfl
  | 2 => rfl
  | 3 => rfl
  | 4 => rfl
  | _ + 5 => rfl

theorem entriesOf_docBody (es : List DocEntry) :
    entriesOf (es.flatMap (fun e => Ev.entry e.toEntry :: fillerEvs e.filler)) = es.map DocEntry.toEntry := by
  induction es with
  | nil => rfl
  | cons e es ih => simp [List.flatMap_cons, entriesOf, entriesOf_append, entriesOf_filler, ih]

/-- the trace of a document carries exactly the document's entries: k of them, in document order, each
with the accessions, names and sequence text written into it -/
theorem docTrace_entries (d : Doc) : entriesOf (docTrace d).evs = d.entries.map DocEntry.toEntry := by
  have hp : entriesOf (prologEvs d.prolog) = [] := by
    match d.prolog with
    | 0 => rfl
    | 1 => rfl
    | _ + 2 => rfl
  simp only [docTrace, entriesOf_append, hp, entriesOf_docBody]
  cases d.trailingNl <;> simp [entriesOf]

theorem docTrace_clean (d : Doc) : Clean (docTrace d) := by
  refine ⟨rfl, fun ev hev => ?_, ?_⟩
  · simp only [docTrace, List.mem_append, List.mem_flatMap, List.mem_cons, List.not_mem_nil, or_false] at hev
    have hfill : ∀ n, ∀ ev ∈ fillerEvs n, isErrEv ev = false := by
      intro n; match n with
      | 0 => decide
      | 1 => decide
      | 2 => decide
      | 3 => intro ev h; cases h
      | 4 => decide
      | _ + 5 => intro ev h; cases h
    have hpro : ∀ n, ∀ ev ∈ prologEvs n, isErrEv ev = false := by
      intro n; match n with
      | 0 => intro ev h; cases h
      | 1 => decide
      | _ + 2 => intro ev h; simp only [prologEvs, List.mem_cons, List.not_mem_nil, or_false, or_self] at h; subst h; rfl
    rcases hev with (((h | h | h) | ⟨e, _, h | h⟩) | h) | h
    · exact hpro _ _ h
    · subst h; rfl
    · subst h; rfl
    · subst h; rfl
    · exact hfill _ _ h
    · subst h; rfl
    · cases hd : d.trailingNl <;> simp [hd] at h
      subst h; rfl
  · simp [docTrace, isStartEv]

/-! ### the content clauses at the level of the document TEXT

`Spec.XmlScan.scanDoc : text → Trace` is an independent reader (lexer for the XML subset, nesting check,
Parse loop, DecodeElement(&Entry) as a state machine over tokens).  The theorems below are about it and
the text `renderDoc d`; that encoding/xml + the Entry unmarshalling behave like `scanDoc` is the recorded
assumption, compared by the driver on EVERY generated text, damaged ones included (`scanOk`).
`WFDoc d`: every entry is valid against the schema (`attrs ≤ 1`) and its texts lie in the subset's character
data.  The agreement reader = decoder is CLAIMED (and compared by the driver, a difference being a failure
of the check whatever the class of the case) for the texts of such documents, cut at any offset or with one
character overwritten OUTSIDE attribute values and outside the prolog / root start tag — not for arbitrary
texts: what lies outside the reader is listed in Spec/XmlScan. -/

/-- the independent reader, on the text of a document, sees exactly the trace the document has by
construction: its k entries in order, each with the accessions, names and sequence text written into it
(children of other elements, e.g. the organism's `name`s, do not leak), no error, end of input -/
theorem scan_document (d : Doc) (h : WFDoc d) : scanDoc (renderDoc d).text = docTrace d := by
  obtain ⟨tl, e, hl, hx⟩ := lexAll_render (docToks d) [] (wfToks_docToks d h) (fun _ _ _ => .inl rfl)
  obtain ⟨rfl, rfl⟩ := hx rfl
  simp only [List.append_nil] at hl
  show scanToks (lexAll (renderToks (docToks d))).1 (lexAll (renderToks (docToks d))).2 = docTrace d
  rw [hl]
  exact scanToks_docToks d

/-- CLAUSE 1 ON DOCUMENTS.  For every document `d` (any number k of entries; any accessions, names and
sequence texts of the subset; with or without attributes, other children and material between entries),
every capacity of either channel, both consumers and every schedule: a maximal run of uniprot.Parse on what
the reader makes of the TEXT of `d` has delivered exactly the k entries of `d` in document order, each with
its accessions, names and sequence text, no error, and both channels are closed. -/
theorem document_delivers (d : Doc) (h : WFDoc d) (seq : Bool) (entCap errCap : Nat) (s : Sys Msg)
    (hr : Reach (consumer seq) (system entCap errCap (scanDoc (renderDoc d).text)) s)
    (hs : Stuck (consumer seq) s) :
    deliveredOf s = d.entries.map DocEntry.toEntry ∧ (deliveredOf s).length = d.entries.length ∧
      recvd 1 s.hist = [] ∧ bothClosed s = true := by
  rw [scan_document d h] at hr
  have hw := wellformed_delivers (docTrace d) (docTrace_clean d) seq entCap errCap s hr hs
  rw [docTrace_entries] at hw
  exact ⟨hw.1, by rw [hw.1, List.length_map], hw.2.1, hw.2.2⟩

/-- the text of the document through the `</entry>` of the entry `e` that follows the entries `pre` -/
def textThrough (prolog : Nat) (pre : List DocEntry) (e : DocEntry) : Str := renderToks (toksThrough prolog pre e)

theorem entriesOf_bodyEvs (ds : List DocEntry) : entriesOf (bodyEvs ds) = ds.map DocEntry.toEntry :=
  entriesOf_docBody ds

theorem entriesOf_evsThrough (prolog : Nat) (pre : List DocEntry) (e : DocEntry) :
    entriesOf (evsThrough prolog pre e) = (pre ++ [e]).map DocEntry.toEntry := by
  have hp : entriesOf (prologEvs prolog) = [] := by
    match prolog with
    | 0 => rfl
    | 1 => rfl
    | _ + 2 => rfl
  simp [evsThrough, entriesOf_append, hp, entriesOf_bodyEvs, entriesOf]

/-- whatever follows the `</entry>` of an entry — nothing, the rest of the document, a cut or corrupted
rest, anything — the reader has by then seen exactly the entries up to it.  (The suffix `X` is only ever
SKIPPED OVER by this statement: nothing is said about what the reader makes of it, and for texts outside the
reader's subset — see Spec/XmlScan — nothing is claimed about the real decoder either.) -/
theorem scan_prefix (prolog : Nat) (pre : List DocEntry) (e : DocEntry) (h : ∀ x ∈ pre ++ [e], WFDocEntry x)
    (X : Str) : ∃ more, (scanDoc (textThrough prolog pre e ++ X)).evs = evsThrough prolog pre e ++ more := by
  obtain ⟨hw, he⟩ := toksThrough_ok prolog pre e h X
  obtain ⟨tl, er, hl, _⟩ := lexAll_render (toksThrough prolog pre e) X hw he
  unfold scanDoc textThrough
  rw [hl]
  unfold scanToks
  rw [run_toksThrough]
  obtain ⟨m1, h1⟩ := run_evs tl (atTop true [s "uniprot"] (evsThrough prolog pre e).reverse)
  obtain ⟨m2, h2⟩ := finish_evs (run (atTop true [s "uniprot"] (evsThrough prolog pre e).reverse) tl) er
  refine ⟨m1.reverse ++ m2, ?_⟩
  rw [h2, h1]
  simp [atTop]

/-- the document itself agrees with `textThrough` on its first bytes: so do all its truncations and
overwrites at or after that offset -/
theorem document_agrees (d : Doc) (pre : List DocEntry) (e : DocEntry) (post : List DocEntry)
    (hd : d.entries = pre ++ e :: post) :
    (renderDoc d).text.take (textThrough d.prolog pre e).length = textThrough d.prolog pre e := by
  have : docToks d = toksThrough d.prolog pre e ++ (fillerToks e.filler ++ entriesToks post ++
      [.close (s "uniprot")] ++ (if d.trailingNl then [nl] else [])) := by
    simp [docToks, toksThrough, hd, entriesToks, List.flatMap_append]
  show (renderToks (docToks d)).take _ = _
  rw [this, renderToks_append]
  exact List.take_left' rfl

theorem entryEndsFrom_index : ∀ (pre : List DocEntry) (e : DocEntry) (post : List DocEntry) (start : Nat),
    (entryEndsFrom start (pre ++ e :: post))[pre.length]? =
      some (start + (renderToks (entriesToks pre)).length + (renderToks (entryToks e)).length)
  | [], e, post, start => by simp [entryEndsFrom, entriesToks, renderToks]
  | d :: pre, e, post, start => by
    have ih := entryEndsFrom_index pre e post (start + (renderToks (entryToks d)).length + (renderToks (fillerToks d.filler)).length)
    simp only [List.cons_append, entryEndsFrom, List.length_cons, List.getElem?_cons_succ, ih, entriesToks,
      List.flatMap_cons, renderToks_append, List.length_append, Option.some.injEq]
    omega

/-- the offset the judge uses for "entries before the damage" (`Rendered.entryEnds`) is the length of
`textThrough`: a cut or overwrite at an offset `≥ entryEnds[k]` leaves the text through entry k intact -/
theorem entryEnds_textThrough (d : Doc) (pre : List DocEntry) (e : DocEntry) (post : List DocEntry)
    (hd : d.entries = pre ++ e :: post) :
    (renderDoc d).entryEnds[pre.length]? = some (textThrough d.prolog pre e).length := by
  simp only [renderDoc, hd, entryEndsFrom_index, textThrough, toksThrough, renderToks_append, List.length_append,
    Option.some.injEq]
  omega

/-- CLAUSE 2 ON DOCUMENTS ("delivers the entries that precede the damage … and terminates with both channels
closed").  Let the document's entries be `pre ++ e :: post` and let `T` be ANY stream that agrees with the
document's text through the `</entry>` of `e` (the document cut anywhere after it, a byte overwritten after
it, anything appended).  Then, for every capacity of either channel (0 included), both consumers and every
schedule, a maximal run of uniprot.Parse on what the reader makes of `T` has delivered the entries
`pre ++ [e]`, with their accessions, names and sequence texts, as the first entries, both channels are
closed, the errors received are those the loop kept, and there is at least one if the reader's trace of `T`
is not that of a well-formed document.  (NOT proved here: that every cut or corrupted `T` gives such a
trace — the reader's / decoder's error detection; see PARTIAL.) -/
theorem damaged_document_delivers (prolog : Nat) (pre : List DocEntry) (e : DocEntry)
    (hwf : ∀ x ∈ pre ++ [e], WFDocEntry x) (T : Str)
    (hT : T.take (textThrough prolog pre e).length = textThrough prolog pre e)
    (seq : Bool) (entCap errCap : Nat) (st : Sys Msg)
    (hr : Reach (consumer seq) (system entCap errCap (scanDoc T)) st) (hs : Stuck (consumer seq) st) :
    (pre ++ [e]).map DocEntry.toEntry <+: deliveredOf st ∧ bothClosed st = true ∧
      (recvd 1 st.hist).length = numErrors (scanDoc T) ∧ (¬ Clean (scanDoc T) → 1 ≤ (recvd 1 st.hist).length) := by
  have hTX : T = textThrough prolog pre e ++ T.drop (textThrough prolog pre e).length := by
    conv => lhs; rw [← List.take_append_drop (textThrough prolog pre e).length T, hT]
  obtain ⟨more, hm⟩ := scan_prefix prolog pre e hwf (T.drop (textThrough prolog pre e).length)
  rw [← hTX] at hm
  have hf := finished_outcome (scanDoc T) st (maximal_finished (scanDoc T) seq entCap errCap st hr hs)
  refine ⟨?_, hf.2.2, by simp [hf.2.1], fun hc => ?_⟩
  · rw [hf.1, hm, entriesOf_append, entriesOf_evsThrough]
    exact List.prefix_append _ _
  · rw [hf.2.1, List.length_replicate]
    exact (numErrors_pos_iff _).mpr hc

/-! ### truncation is always detected -/

theorem rootEnd_eq (d : Doc) : (renderDoc d).rootEnd = (renderToks (closedToks d.prolog d.entries)).length := by
  have h1 : renderToks [Tok.close (s "uniprot")] = renderTok (.close (s "uniprot")) := by simp [renderToks]
  simp only [renderDoc, closedToks, bodyToks, renderToks_append, List.length_append, h1]
  omega

theorem text_take_closed (d : Doc) (n : Nat) (hn : n ≤ (renderDoc d).rootEnd) :
    (renderDoc d).text.take n = (renderToks (closedToks d.prolog d.entries)).take n := by
  have : docToks d = closedToks d.prolog d.entries ++ (if d.trailingNl then [nl] else []) := by
    simp [docToks, closedToks, bodyToks]
  show (renderToks (docToks d)).take n = _
  rw [this, renderToks_append, List.take_append_of_le_length (by rw [← rootEnd_eq]; exact hn)]

/-- TRUNCATION IS ALWAYS DETECTED (by the independent reader).  For every document `d` and every cut before the
end of its root element — every byte offset `n < rootEnd`, i.e. every proper prefix of the text except those
that only lack the trailing newline — the trace of the cut text is not that of a well-formed document: it ends
with an error, or (cut before the root element begins) contains no element at all; and the entries the
reader has decoded completely by then are the first entries of `d`, in order, with their accessions, names
and sequence texts. -/
theorem truncation_detected (d : Doc) (h : WFDoc d) (n : Nat) (hn : n < (renderDoc d).rootEnd) :
    ¬ Clean (scanDoc ((renderDoc d).text.take n)) ∧
      completeOf (scanDoc ((renderDoc d).text.take n)).evs <+: d.entries.map DocEntry.toEntry := by
  rw [text_take_closed d n (Nat.le_of_lt hn)]
  rw [rootEnd_eq] at hn
  exact ⟨scan_cut_not_clean d.prolog d.entries h n hn, scan_cut_entries d.prolog d.entries h n hn⟩

/-- CLAUSE 2 FOR TRUNCATED DOCUMENTS, end to end on the reader's trace: a document cut at any offset before
the end of its root element makes uniprot.Parse — for every capacity of either channel, both consumers and
every schedule — report at least one error and close both channels -/
theorem truncated_document_reports (d : Doc) (h : WFDoc d) (n : Nat) (hn : n < (renderDoc d).rootEnd)
    (seq : Bool) (entCap errCap : Nat) (st : Sys Msg)
    (hr : Reach (consumer seq) (system entCap errCap (scanDoc ((renderDoc d).text.take n))) st)
    (hs : Stuck (consumer seq) st) :
    1 ≤ (recvd 1 st.hist).length ∧ bothClosed st = true ∧
      deliveredOf st = entriesOf (scanDoc ((renderDoc d).text.take n)).evs := by
  have hd := damaged_terminates _ (truncation_detected d h n hn).1 seq entCap errCap st hr hs
  exact ⟨hd.2.2.2.1, hd.2.2.2.2, hd.2.1⟩

/-- the scheduler run used by the driver is a maximal `Step`-path, so the theorems above apply to it -/
theorem run_is_maximal (seq eager : Bool) (entCap errCap : Nat) (t : Trace) :
    Reach (consumer seq) (system entCap errCap t) (run seq eager entCap errCap t) ∧
      Stuck (consumer seq) (run seq eager entCap errCap t) :=
  ⟨runFuel_reach _ _ _ _, runFuel_stuck (consumer_stops seq) (consumer_two seq) eager _ _
    (wfProg_only2 (program_wf t) _) (fuelFor_ge_measure _)⟩

/-! ### non-vacuity: concrete traces (tests on literals, not theorems) -/

def e1 : Entry := ⟨["P1".toList, "Q2".toList], ["AB_X".toList], "MKV".toList⟩
def e2 : Entry := ⟨["P9".toList], [], []⟩
def tGood : Trace := ⟨[.other, .start, .other, .entry e1, .other, .entry e2, .other], .eof⟩
def tCut : Trace := ⟨[.start, .entry e1, .other, .entryErr e2], .err⟩
/-- a document cut right after its XML declaration: one token, then io.EOF -/
def tProlog : Trace := ⟨[.other], .eof⟩

example : Clean tGood := by decide
example : Sticky tCut := by
  intro pre e post h
  rcases pre with _ | ⟨a, _ | ⟨b, _ | ⟨c, _ | ⟨d, pre⟩⟩⟩⟩ <;> simp_all [tCut]
example : numErrors tCut = 2 := by decide
example : ¬ Clean tCut := by decide
example : ¬ Clean tProlog ∧ numErrors tProlog = 1 := by decide
-- fixed finding C20-truncated-before-root: the truncated prolog is reported
example : (recvd 1 (run true true 100 100 tProlog).hist).length = 1 ∧ bothClosed (run true true 100 100 tProlog) = true := by decide
example : deliveredOf (run true true 0 0 tGood) = [e1, e2] ∧ bothClosed (run true true 0 0 tGood) = true := by decide
example : deliveredOf (run true false 1 2 tCut) = [e1, e2] ∧ bothClosed (run true false 1 2 tCut) = true := by decide
example : deliveredOf (run false true 0 0 tCut) = [e1, e2] ∧ bothClosed (run false true 0 0 tCut) = true := by decide
-- regression for C20-errcap-block: documented consumer, unbuffered error channel, damaged stream — terminates
example : deliveredOf (run true true 5 0 tCut) = [e1, e2] ∧ bothClosed (run true true 5 0 tCut) = true ∧
    (recvd 1 (run true true 5 0 tCut).hist).length = 2 := by decide
example : sendsBeforeClose0 (program tCut) = some 0 := by decide
-- a document of the spec and its trace
def exDoc : Doc := { prolog := 2, trailingNl := true, entries :=
  [{ accessions := ["P1".toList], names := ["AB_X".toList], seq := "MKV".toList, attrs := 1, extra := true, filler := 1 },
   { accessions := [], names := [], seq := [], attrs := 0, extra := false, filler := 3 }] }
example : WFDoc exDoc := by decide
example : (renderDoc exDoc).entryEnds.length = 2 := by decide
example : (docTrace exDoc).evs.length = 15 ∧ entriesOf (docTrace exDoc).evs = exDoc.entries.map DocEntry.toEntry := by decide

end PolyVerif.Props.C20
