import PolyVerif.Lemmas.LocationStrict
import PolyVerif.Lemmas.LocationGrammar
import PolyVerif.Lemmas.LocationWritten
/-
C02 — Feature sequences follow INSDC location semantics.

Model: `Model/Location.lean` (`parseLocation`, `getSeq` = getFeatureSequence, `buildLoc` =
BuildLocationString).  Spec: `Spec/Insdc.lean` (`Loc`, `denote`, `ends`, `print`, `insdcParse`,
`insdcLenient`, `Rep`, `embed`, `embedV`).  Every theorem quantifies over ALL location trees —
any nesting depth, any number of operands — whose positions lie on the parent (`InRange`) and
whose joins have ≥ 2 operands (`Arity`), over all parents, and ("assembled as a structure") over
EVERY structure `p` with `Rep p l`: join nodes with or without the `Join` flag, complements merged
into the operand's node or as wrapper nodes, pass-through nodes; inner-node coordinates and flags
arbitrary.

One clause of the property is false of the code as it is: the written text of a 3′-partial
span is `a..b>`, not INSDC's `a..>b` (known finding C02-writer-3prime, pinned by the suite).
Everything else about the written text is proved at full strength through the lenient
recogniser (`build_is_insdc_lenient`: valid syntax but for that placement, same bases, same
partial ends); strict validity is proved under `NoGt`, which excludes exactly that class, with
a kernel-checked counterexample inside the class.
-/
namespace PolyVerif.Props.C02
open PolyVerif PolyVerif.Location PolyVerif.Insdc PolyVerif.Lemmas.Location

/-- no span carries a 3′ partial marker -/
def NoGt (l : Loc) : Prop := hasGt l = false

instance (l : Loc) (n : Nat) : Decidable (InRange l n) := by unfold InRange; infer_instance
instance (l : Loc) : Decidable (Arity l) := by unfold Arity; infer_instance
instance (l : Loc) : Decidable (NoGt l) := by unfold NoGt; infer_instance

/-! ### the family of assembled structures -/

/-- the canonical structure, the `Join == false` / wrapper-complement variants the driver sends to
AddFeature, and the structure the parser builds are all members of the family `Rep · l` -/
theorem embed_represents (l : Loc) (ha : Arity l) : Rep (embed l) l := rep_embed l ha

theorem embedV_represents (joinFlag wrap : Bool) (l : Loc) (ha : Arity l) : Rep (embedV joinFlag wrap l) l :=
  rep_embedV joinFlag wrap l ha

theorem parsed_represents (l : Loc) (ha : Arity l) : Rep (pembed l) l := rep_pembed l ha

/-! ### evaluation -/

/-- Any structure that represents a location evaluates to its INSDC reading: spans are 1-based
inclusive, a single base is one letter, join concatenates in order, complement is the reverse
complement of the operand, markers do not change the bases. -/
theorem eval_assembled (p : PLoc) (l : Loc) (parent : Str) (hp : Rep p l) (h : InRange l parent.length)
    (ha : Arity l) : getSeq p parent = .ok (denote l parent) :=
  getSeq_rep parent hp h ha

/-- the canonical structure (no arity condition needed) -/
theorem eval_embed (l : Loc) (parent : Str) (h : InRange l parent.length) :
    getSeq (embed l) parent = .ok (denote l parent) := by
  rw [embed_eq_embedW]
  exact getSeq_embedW wNone l parent h

/-- The parser on canonical INSDC text, exactly: every operand is found (the depth-0 comma
splitter inverts operand printing), numbers round-trip, and the result is the structure
`pembed l` = the assembled structure with the parser's flags on inner nodes.  Never a panic. -/
theorem parsed_structure (l : Loc) (n : Nat) (h : InRange l n) (ha : Arity l) :
    parseLocation (print l) = .ok (pembed l) :=
  parseLocation_print l n h ha

/-- A location parsed from its canonical text evaluates to its INSDC reading. -/
theorem eval_parse (l : Loc) (parent : Str) (h : InRange l parent.length) (ha : Arity l) :
    (parseLocation (print l)).bind (fun p => getSeq p parent) = .ok (denote l parent) := by
  rw [parsed_structure l _ h ha, pembed_eq_embedW l]
  exact getSeq_embedW wParse l parent h

/-! ### partial flags -/

/-- The parser records the partial markers of every span, in the order written. -/
theorem partial_flags (l : Loc) (n : Nat) (h : InRange l n) (ha : Arity l) :
    (parseLocation (print l)).map pends = .ok (ends l) := by
  rw [parsed_structure l n h ha]
  exact congrArg Outcome.ok (pends_rep (rep_pembed l ha) ha)

theorem partial_flags_assembled (p : PLoc) (l : Loc) (hp : Rep p l) (ha : Arity l) : pends p = ends l :=
  pends_rep hp ha

/-! ### written text -/

/-- the canonical text is accepted by the strict recogniser (so `insdcParse` recognises exactly
the syntax the theorems print, and returns the tree) -/
theorem print_is_insdc (l : Loc) (n : Nat) (h : InRange l n) (ha : Arity l) :
    insdcParse (print l) = some l :=
  insdcParse_print l n h ha

/-- A location written back to text — from ANY structure representing it — is INSDC syntax up to
the placement of 3′ markers (read by the lenient recogniser), and denotes the same bases and the
same partial ends.  Full strength. -/
theorem build_is_insdc_lenient (p : PLoc) (l : Loc) (n : Nat) (hp : Rep p l) (h : InRange l n) (ha : Arity l) :
    ∃ l', insdcLenient (buildLoc p) = some l' ∧ (∀ q, denote l' q = denote l q) ∧ ends l' = ends l := by
  refine ⟨norm l, ?_, denote_norm l, ends_norm l⟩
  rw [buildLoc_rep hp ha]
  exact insdcLenient_tprint true (norm l) n (inRange_norm l n h) (arity_norm l ha)

/- Full statement (FALSE of the code, see `build_3prime_witness`):
     ∀ p l, Rep p l → InRange l n → Arity l →
       ∃ l', insdcParse (buildLoc p) = some l' ∧ denote l' = denote l ∧ ends l' = ends l
   Proved for every l without a 3′-partial span. -/
theorem build_is_insdc_partial (p : PLoc) (l : Loc) (n : Nat) (hp : Rep p l) (h : InRange l n) (ha : Arity l)
    (hg : NoGt l) :
    ∃ l', insdcParse (buildLoc p) = some l' ∧ (∀ q, denote l' q = denote l q) ∧ ends l' = ends l := by
  refine ⟨norm l, ?_, denote_norm l, ends_norm l⟩
  have hn : hasGt (norm l) = false := by rw [hasGt_norm]; exact hg
  rw [buildLoc_rep hp ha, tprint_noGt _ hn, tprint_false]
  exact insdcParse_print (norm l) n (inRange_norm l n h) (arity_norm l ha)

/-- the same for a location parsed from text and written back -/
theorem build_parsed_is_insdc_lenient (l : Loc) (n : Nat) (h : InRange l n) (ha : Arity l) :
    ∃ p l', parseLocation (print l) = .ok p ∧ insdcLenient (buildLoc p) = some l' ∧
      (∀ q, denote l' q = denote l q) ∧ ends l' = ends l := by
  obtain ⟨l', h1, h2, h3⟩ := build_is_insdc_lenient (pembed l) l n (rep_pembed l ha) h ha
  exact ⟨pembed l, l', parsed_structure l n h ha, h1, h2, h3⟩

theorem build_parsed_is_insdc_partial (l : Loc) (n : Nat) (h : InRange l n) (ha : Arity l) (hg : NoGt l) :
    ∃ p l', parseLocation (print l) = .ok p ∧ insdcParse (buildLoc p) = some l' ∧
      (∀ q, denote l' q = denote l q) ∧ ends l' = ends l := by
  obtain ⟨l', h1, h2, h3⟩ := build_is_insdc_partial (pembed l) l n (rep_pembed l ha) h ha hg
  exact ⟨pembed l, l', parsed_structure l n h ha, h1, h2, h3⟩

/-- The known-finding class is exact: for EVERY location with a 3′-partial span — any structure
representing it — the written text is rejected by the strict recogniser (it stops in front of the
misplaced `>`, and no enclosing production accepts a `>`).  So `NoGt` is the weakest hypothesis
under which `build_is_insdc_partial` can hold. -/
theorem build_3prime_exact (p : PLoc) (l : Loc) (n : Nat) (hp : Rep p l) (h : InRange l n) (ha : Arity l)
    (hg : ¬ NoGt l) : insdcParse (buildLoc p) = none := by
  have hg' : hasGt l = true := by
    unfold NoGt at hg
    cases hh : hasGt l
    · exact absurd hh hg
    · rfl
  exact insdcParse_buildLoc_gt hp n h ha hg'

/-- the written text is strictly valid INSDC exactly when there is no 3′-partial span -/
theorem build_strict_iff (p : PLoc) (l : Loc) (n : Nat) (hp : Rep p l) (h : InRange l n) (ha : Arity l) :
    (∃ l', insdcParse (buildLoc p) = some l') ↔ NoGt l := by
  constructor
  · rintro ⟨l', h1⟩
    apply Classical.byContradiction
    intro hg
    rw [build_3prime_exact p l n hp h ha hg] at h1
    cases h1
  · intro hg
    obtain ⟨l', h1, _⟩ := build_is_insdc_partial p l n hp h ha hg
    exact ⟨l', h1⟩

/-- known finding C02-writer-3prime: the 3′-partial span `3..>7` is written `3..7>`, which is
not INSDC syntax -/
theorem build_3prime_witness :
    ¬ (∀ (p : PLoc) (l : Loc) (n : Nat), Rep p l → InRange l n → Arity l →
        ∃ l', insdcParse (buildLoc p) = some l' ∧ (∀ q, denote l' q = denote l q) ∧ ends l' = ends l) := by
  intro h
  obtain ⟨l', h1, _⟩ := h _ (.span 3 7 false true) 7 (Rep.span 3 7 false true) (by decide) (by decide)
  have hn : insdcParse (buildLoc ⟨(3 : Nat) - 1, (7 : Nat), false, false, false, true, []⟩) = none := by decide
  rw [hn] at h1
  cases h1

/-! ### read after write: the parser on the text BuildLocationString writes (used by C03) -/

/-- (A) the writer's text of `l` — `tprint true (norm l)`: 3′ markers after the end position, single bases as
`n..n` (`written_text` below) — parses to the assembled structure of `norm l` with that text's flags on inner nodes -/
theorem parsed_written_structure (l : Loc) (n : Nat) (h : InRange l n) (ha : Arity l) :
    parseLocation (tprint true (norm l)) = .ok (pembedT true (norm l)) :=
  parseLocation_tprint true (norm l) n (inRange_norm l n h) (arity_norm l ha)

/-- what BuildLocationString writes for any structure representing `l` -/
theorem written_text (p : PLoc) (l : Loc) (hp : Rep p l) (ha : Arity l) : buildLoc p = tprint true (norm l) :=
  buildLoc_rep hp ha

/-- (B) Writing ANY structure that represents `l` and parsing the written text gives a structure that represents
`l` again (same location tree: same shape, positions, strands) with the same partial ends. -/
theorem read_write_assembled (p : PLoc) (l : Loc) (n : Nat) (hp : Rep p l) (h : InRange l n) (ha : Arity l) :
    ∃ q, parseLocation (buildLoc p) = .ok q ∧ Rep q l ∧ pends q = pends p :=
  parse_buildLoc_rep hp n h ha

/-- … hence read(write p) denotes the same bases and the same partial ends as `p` — a statement about the
real writer's text (also where it is not strict INSDC) -/
theorem read_write_denotes (p : PLoc) (l : Loc) (parent : Str) (hp : Rep p l) (h : InRange l parent.length)
    (ha : Arity l) :
    ∃ q, parseLocation (buildLoc p) = .ok q ∧ getSeq q parent = getSeq p parent ∧
      getSeq q parent = .ok (denote l parent) ∧ pends q = ends l := by
  obtain ⟨q, h1, h2, h3⟩ := read_write_assembled p l _ hp h ha
  refine ⟨q, h1, ?_, getSeq_rep parent h2 h ha, ?_⟩
  · rw [getSeq_rep parent h2 h ha, getSeq_rep parent hp h ha]
  · rw [h3, pends_rep hp ha]

/-- a single span with ARBITRARY int coordinates (negative start, `{0,0}`, stop < start: Build writes `-4..3`,
`1..0`) and any markers is read back exactly -/
theorem read_write_leaf (start stop : Int) (five three : Bool) :
    parseLocation (buildLoc ⟨start, stop, false, false, five, three, []⟩) =
      .ok ⟨start, stop, false, false, five, three, []⟩ := by
  rw [buildLoc_leaf]
  exact parse_written_leaf _ start stop five three

/-! ### parseLocation does not panic on location texts (used by C01: genbank.Parse of a well-formed record) -/

/-- on the canonical text of every location of the property's grammar -/
theorem parseLocation_print_total (l : Loc) (n : Nat) (h : InRange l n) (ha : Arity l) :
    parseLocation (print l) ≠ .panic := by
  rw [parsed_structure l n h ha]
  intro e; cases e

/-- on every text of the general INSDC location SHAPE: an atom without parentheses and commas (`12`, `1..5`,
`<1..>9`, the writer's `3..7>`, `102.110`, `1^2`, `J00194.1:100..202`) or `operator(loc,…)` for any operator
word (`join`, `order`, `bond`, `gap`, …) with ≥ 1 operands, `complement` with exactly one — any nesting -/
theorem parseLocation_total_shape (t : GLoc) (h : gwf t = true) : ∃ p, parseLocation (gprint t) = .ok p :=
  parseLocation_gprint t h

/-- on every location text of C01's domain predicate `GbLayout.isLocText` -/
theorem parseLocation_total (s : Str) (h : GbLayout.isLocText s = true) : parseLocation s ≠ .panic := by
  obtain ⟨t, ht, rfl⟩ := isLocText_shape s h
  obtain ⟨p, hp⟩ := parseLocation_gprint t ht
  rw [hp]
  intro e; cases e

/-- What still panics (in the model as in Go: `locationString[first+1 : LastIndex(")")]`): a text whose first
`(` is not followed by any `)`.  (Operands are parsed recursively, so the same inside a `join(…)` /
`complement(…)` operand panics too; a text with parentheses that is not of the shape above may reach that
case although its parentheses are balanced, e.g. `join(1)x(2)` whose operand is `1)x(2`.) -/
theorem parseLocation_panics_unclosed (s : Str) (i : Nat) (hi : indexOf '(' s = some i)
    (hj : lastIndexOf ')' s = none ∨ ∃ j, lastIndexOf ')' s = some j ∧ j ≤ i) :
    parseLocation s = .panic :=
  parseLocation_unclosed s i hi hj

example : parseLocation "join(1..2".toList = .panic :=
  parseLocation_panics_unclosed _ 4 (by decide) (Or.inl (by decide))
example : parseLocation ")(".toList = .panic :=
  parseLocation_panics_unclosed _ 1 (by decide) (Or.inr ⟨0, by decide, by decide⟩)
example : gprint (.op "order".toList [.atom "1..2".toList, .op "bond".toList [.atom "3".toList, .atom "9^10".toList],
    .op "complement".toList [.atom "102.110".toList], .atom "5..7>".toList]) =
      "order(1..2,bond(3,9^10),complement(102.110),5..7>)".toList
    ∧ gwf (.op "order".toList [.atom "1..2".toList, .op "bond".toList [.atom "3".toList, .atom "9^10".toList],
        .op "complement".toList [.atom "102.110".toList], .atom "5..7>".toList]) = true := by decide

/-! ### non-vacuity: a concrete nested location meets every hypothesis, and the functions compute -/

def sample : Loc :=
  .join [.span 1 3 true false, .compl (.join [.base 5, .span 6 8 false false]), .base 10, .compl (.span 2 4 false false)]

example : InRange sample 10 ∧ Arity sample ∧ NoGt sample := by decide
example : print sample = "join(<1..3,complement(join(5,6..8)),10,complement(2..4))".toList := by decide
example : denote sample "ACGTTGCAAC".toList = "ACGTGCACACG".toList := by decide
example : (parseLocation (print sample)).bind (fun p => getSeq p "ACGTTGCAAC".toList) = .ok "ACGTGCACACG".toList := by
  rw [eval_parse sample _ (by decide) (by decide)]; decide
example : getSeq (embed (.compl (.compl sample))) "ACGTTGCAAC".toList = .ok "ACGTGCACACG".toList := by
  rw [eval_embed _ _ (by decide)]; decide

example : buildLoc (embed sample) = "join(<1..3,complement(join(5..5,6..8)),10..10,complement(2..4))".toList := by decide
example : buildLoc (embed (.span 3 7 false true)) = "3..7>".toList := by decide
example : (insdcParse "3..>7".toList).isSome = true ∧ insdcParse "3..7>".toList = none ∧ insdcParse "join(1..2)".toList = none
    ∧ insdcParse "03..7".toList = none ∧ (insdcLenient "3..7>".toList).isSome = true ∧ insdcLenient "3..>7>".toList = none := by decide
/-- the two-part feature of poly_test.go (`Join == false`, second part complemented) is in the family -/
example : Rep ⟨0, 0, false, false, false, false, [⟨0, 3, false, false, false, false, []⟩, ⟨3, 6, true, false, false, false, []⟩]⟩
    (.join [.span 1 3 false false, .compl (.span 4 6 false false)]) :=
  Rep.join 0 0 false false false _ _ (Or.inr (by decide))
    (RepList.cons _ _ _ _ (Rep.span 1 3 false false)
      (RepList.cons _ _ _ _ (Rep.merged 3 6 false false false [] _ (Rep.span 4 6 false false)) RepList.nil))

end PolyVerif.Props.C02
