import PolyVerif.Lemmas.LocationBuild
/-
C02 — Feature sequences follow INSDC location semantics.

Model: `Model/Location.lean` (`parseLocation`, `getSeq` = getFeatureSequence, `buildLoc` =
BuildLocationString).  Spec: `Spec/Insdc.lean` (`Loc`, `denote`, `ends`, `print`, `insdcParse`,
`embed`).  Every theorem quantifies over ALL location trees — any nesting depth, any number of
operands — whose positions lie on the parent (`InRange`) and whose joins have ≥ 2 operands
(`Arity`), and over all parents.

One clause of the property is false of the code as it is: the written text of a 3′-partial
span is `a..b>`, not INSDC's `a..>b` (known finding C02-writer-3prime, pinned by the suite).
That clause is proved under the hypothesis `NoGt` excluding exactly that class, with a
kernel-checked counterexample inside the class.
-/
namespace PolyVerif.Props.C02
open PolyVerif PolyVerif.Location PolyVerif.Insdc PolyVerif.Lemmas.Location

/-- no span carries a 3′ partial marker -/
def NoGt (l : Loc) : Prop := hasGt l = false

instance (l : Loc) (n : Nat) : Decidable (InRange l n) := by unfold InRange; infer_instance
instance (l : Loc) : Decidable (Arity l) := by unfold Arity; infer_instance
instance (l : Loc) : Decidable (NoGt l) := by unfold NoGt; infer_instance

/-! ### evaluation -/

/-- A location assembled as a structure evaluates to its INSDC reading: spans are 1-based
inclusive, a single base is one letter, join concatenates in order, complement is the reverse
complement of the operand (a complement of a complement through a wrapper node), markers do not
change the bases. -/
theorem eval_embed (l : Loc) (parent : Str) (h : InRange l parent.length) :
    getSeq (embed l) parent = .ok (denote l parent) := by
  rw [embed_eq_embedW]
  exact getSeq_embedW wNone l parent h

/-- The parser on canonical INSDC text, exactly: every operand is found (the depth-0 comma
splitter inverts operand printing), numbers round-trip, and the result is the structure
`pembed l` = the assembled structure with the parser's flags on inner nodes.  Never a panic. -/
theorem parsed_structure (l : Loc) (n : Nat) (h : InRange l n) (ha : Arity l) :
    parseLocation (print l) = .ok (pembed l) :=
  parseLocation_print l n h ha

/-- A location parsed from its canonical text evaluates to its INSDC reading. -/
theorem eval_parse (l : Loc) (parent : Str) (h : InRange l parent.length) (ha : Arity l) :
    (parseLocation (print l)).bind (fun p => getSeq p parent) = .ok (denote l parent) := by
  rw [parsed_structure l _ h ha, pembed_eq_embedW l]
  exact getSeq_embedW wParse l parent h

/-! ### partial flags -/

/-- The parser records the partial markers of every span, in the order written. -/
theorem partial_flags (l : Loc) (n : Nat) (h : InRange l n) (ha : Arity l) :
    (parseLocation (print l)).map pends = .ok (ends l) := by
  rw [parsed_structure l n h ha, pembed_eq_embedW l]
  exact congrArg Outcome.ok (pends_embedW wParse l ha)

theorem partial_flags_embed (l : Loc) (ha : Arity l) : pends (embed l) = ends l := by
  rw [embed_eq_embedW]
  exact pends_embedW wNone l ha

/-! ### written text -/

/-- the canonical text is accepted by the strict recogniser (so `insdcParse` recognises exactly
the syntax the theorems print, and returns the tree) -/
theorem print_is_insdc (l : Loc) (n : Nat) (h : InRange l n) (ha : Arity l) :
    insdcParse (print l) = some l :=
  insdcParse_print l n h ha

theorem written_ok (w : Loc → Bool × Bool) (l : Loc) (n : Nat) (h : InRange l n) (ha : Arity l) (hg : NoGt l) :
    ∃ l', insdcParse (buildLoc (embedW w l)) = some l' ∧ (∀ p, denote l' p = denote l p) ∧ ends l' = ends l := by
  refine ⟨norm l, ?_, denote_norm l, ends_norm l⟩
  rw [buildLoc_embedW w l ha hg]
  exact insdcParse_print (norm l) n (inRange_norm l n h) (arity_norm l ha)

/- Full statement (FALSE of the code, see `build_3prime_witness`):
     ∀ l, InRange l n → Arity l →
       ∃ l', insdcParse (buildLoc (embed l)) = some l' ∧ denote l' = denote l ∧ ends l' = ends l
   Proved for every l without a 3′-partial span. -/
theorem build_is_insdc_partial (l : Loc) (n : Nat) (h : InRange l n) (ha : Arity l) (hg : NoGt l) :
    ∃ l', insdcParse (buildLoc (embed l)) = some l' ∧ (∀ p, denote l' p = denote l p) ∧ ends l' = ends l := by
  rw [embed_eq_embedW]
  exact written_ok wNone l n h ha hg

/-- the same for a location parsed from text and written back -/
theorem build_parsed_is_insdc_partial (l : Loc) (n : Nat) (h : InRange l n) (ha : Arity l) (hg : NoGt l) :
    ∃ p l', parseLocation (print l) = .ok p ∧ insdcParse (buildLoc p) = some l' ∧
      (∀ q, denote l' q = denote l q) ∧ ends l' = ends l := by
  obtain ⟨l', h1, h2, h3⟩ := written_ok wParse l n h ha hg
  exact ⟨pembed l, l', parsed_structure l n h ha, by rw [pembed_eq_embedW l]; exact h1, h2, h3⟩

/-- known finding C02-writer-3prime: the 3′-partial span `3..>7` is written `3..7>`, which is
not INSDC syntax -/
theorem build_3prime_witness :
    ¬ (∀ (l : Loc) (n : Nat), InRange l n → Arity l →
        ∃ l', insdcParse (buildLoc (embed l)) = some l' ∧ (∀ p, denote l' p = denote l p) ∧ ends l' = ends l) := by
  intro h
  obtain ⟨l', h1, _⟩ := h (.span 3 7 false true) 7 (by decide) (by decide)
  have hn : insdcParse (buildLoc (embed (.span 3 7 false true))) = none := by decide
  rw [hn] at h1
  cases h1

/-! ### non-vacuity: a concrete nested location meets every hypothesis, and the functions compute -/

def sample : Loc :=
  .join [.span 1 3 true false, .compl (.join [.base 5, .span 6 8 false false]), .base 10, .compl (.span 2 4 false false)]

example : InRange sample 10 ∧ Arity sample ∧ NoGt sample := by decide
example : print sample = "join(<1..3,complement(join(5,6..8)),10,complement(2..4))".toList := by decide
example : denote sample "ACGTTGCAAC".toList = "ACGTGCACACG".toList := by decide
example : (parseLocation (print sample)).bind (fun p => getSeq p "ACGTTGCAAC".toList) = .ok "ACGTGCACACG".toList := by
  rw [eval_parse sample _ (by decide) (by decide)]; decide
example : getSeq (embed (.compl (.compl sample))) "ACGTTGCAAC".toList = .ok "ACGTGCACACG".toList := by
  rw [eval_embed _ _ (by decide)]; decide

example : buildLoc (embed sample) = "join(<1..3,complement(join(5..5,6..8)),10..10,complement(2..4))".toList := by decide
example : buildLoc (embed (.span 3 7 false true)) = "3..7>".toList := by decide
example : (insdcParse "3..>7".toList).isSome = true ∧ insdcParse "3..7>".toList = none ∧ insdcParse "join(1..2)".toList = none := by decide

end PolyVerif.Props.C02
