import PolyVerif.Lemmas.Ligate
import PolyVerif.Lemmas.LigateSys
import PolyVerif.Lemmas.RingsWalk
import PolyVerif.Gen.CloneFacts
/-
C09 — GoldenGate returns exactly the plasmids the overhangs allow.

Model: Model/Ligate.lean (spawn tree of `recurseLigate`, collector fold, goroutine system).
Spec:  Spec/Rings.lean (rings of oriented fragments, molecules up to rotation and strand).

`emitted pool` is everything ever sent on the construct channel (depth-first order); the order
in which the collector receives it is decided by the scheduler, so every clause about the RESULT
is stated for an arbitrary arrival order `arr` with `arr.Perm (emitted pool)`, and
`ligate_schedule` shows that every list a maximal run of the goroutine system can deliver is such a
permutation (only this inclusion is proved — and needed: the other clauses quantify over the superset
of all permutations).

"Exactly": `ligate_exact` characterises what is sent — the molecules of the rings of class `OneLap`
(first fragment as supplied, no return to its forward overhang before closing, flips only at
non-palindromic overhangs) and nothing else; `ligate_designed` is the equality for the property's
quantifier: on a `designed` pool the returned molecules are exactly those of the simple rings (the
designed plasmids), each exactly once.  Designed assemblies do have further rings (multi-lap
concatemers of alternatives); the code does not return them and on designed pools the judge forbids them.

The goroutine system `Sys`/`Step` (Model/Ligate.lean) is transcribed BY HAND from clone.go lines 264-343
(`recurseLigate`, `getConstructs`, `CircularLigate`); `ligate_schedule` / `ligate_terminates` are theorems
about all runs of THAT system.  Its tie to the source is a SOFT obligation kept in its own module,
Props/C09Pin.lean (`clone_structure_pinned`): harness/cmd/extract-clone re-reads clone.go on every run and the theorem
compares the synchronisation vocabulary of the functions under `CircularLigate` and four order facts with what the Step
rules assume; when it no longer holds (also after a harmless restructuring of the goroutines, e.g. a bounded worker pool
with a waiter goroutine) the evidence records it and no alarm is raised.  One structural fact is a HARD obligation of this
module, `clone_sends_unconditional`: constructs are handed over by plain blocking sends (a lossy `select` send passes
every dynamic run).  What IS judged on every run are the results under GOMAXPROCS 1/2/16 and the race detector.

`GoldenGate(parts, enzyme)` is `CircularLigate` on the concatenated cuts (`goldenGate_eq`), so every theorem applies to
it with `pool := goldenGatePool cut parts`.

The key of the collector is modelled as the canonical form that `seqhash.Hash` digests
(`key_hashSpec`); equal canonical forms ⇔ same molecule is PROVED here (`key_eq_iff`, over the
arg-min least rotation, i.e. modulo C12); that BLAKE3 maps different canonical forms to different
digests is an assumption (cf. C05).
-/
namespace PolyVerif.Props.C09
open PolyVerif PolyVerif.Ligate PolyVerif.Transform PolyVerif.Spec PolyVerif.Spec.Rings

/-! ### well-formedness: the property's inputs are upper-case ACGT -/

theorem rcInv_of_dnaPool {pool : List Fragment} (h : dnaPool pool = true) : ∀ f ∈ pool, RcInv f := by
  intro f hf
  have := (List.all_eq_true.1 h) f hf
  simp only [dnaFragment, Bool.and_eq_true] at this
  exact ⟨rc_rc_of_isDna this.1.1, rc_rc_of_isDna this.1.2, rc_rc_of_isDna this.2⟩

theorem isDna_molecule {pool : List Fragment} (h : dnaPool pool = true) {os : List Oriented} (hm : ∀ o ∈ os, o.frag ∈ pool) :
    isDna (molecule os) = true := by
  induction os with
  | nil => rfl
  | cons o os ih =>
    rw [molecule_cons, isDna_append, isDna_append]
    have hf := (List.all_eq_true.1 h) o.frag (hm o (List.mem_cons_self ..))
    simp only [dnaFragment, Bool.and_eq_true] at hf
    refine ⟨?_, ih fun x hx => hm x (List.mem_cons_of_mem _ hx)⟩
    cases o with
    | mk f b =>
      cases b
      · exact ⟨hf.1.2, hf.1.1⟩
      · exact ⟨isDna_revComp hf.2, isDna_revComp hf.1.1⟩

/-! ### sound: nothing spurious -/

/-- Every construct ever sent is the molecule of a ring of the pool — a closed chain of distinct pool
fragments, each in one of its two orientations, joined through equal overhangs — that starts with the
seed in the orientation it was supplied in; the construct IS the fragments joined through their shared
overhangs (`molecule`), letter for letter. -/
theorem ligate_sound (pool : List Fragment) {c : Str} (hc : c ∈ emitted pool) :
    ∃ f suf, f ∈ pool ∧ Ring pool (⟨f, false⟩ :: suf) ∧ c = molecule (⟨f, false⟩ :: suf) := by
  obtain ⟨f, hf, hc⟩ := mem_emitted.1 hc
  obtain ⟨ext, hr, he, _, _⟩ := sound_aux pool _ f [f] ⟨f, false⟩ [] (Chain.start hf) c hc
  exact ⟨f, ext, hf, by simpa using hr, by simpa using he⟩

/-- the same for what `CircularLigate` returns, whatever the arrival order -/
theorem ligate_sound_result (pool : List Fragment) {arr : List Str} (harr : arr.Perm (emitted pool)) :
    ∀ c ∈ circularLigate pool arr, ∃ os, Ring pool os ∧ c = molecule os := by
  intro c hc
  obtain ⟨f, suf, _, hr, he⟩ := ligate_sound pool (harr.mem_iff.1 (getConstructsWith_subset key arr c hc))
  exact ⟨_, hr, he⟩

example : Ring [⟨"AC".toList, "AATG".toList, "GCTT".toList⟩, ⟨"GG".toList, "GCTT".toList, "AATG".toList⟩]
    [⟨⟨"AC".toList, "AATG".toList, "GCTT".toList⟩, false⟩, ⟨⟨"GG".toList, "GCTT".toList, "AATG".toList⟩, false⟩] := by decide

/-! ### complete: nothing missing -/

/-- every simple ring is sent (up to rotation / strand) — before deduplication -/
theorem complete_emitted {pool : List Fragment} (hdna : dnaPool pool = true) {os : List Oriented}
    (hr : Ring pool os) (hs : Simple os) : ∃ c ∈ emitted pool, SameMolecule (molecule os) c := by
  by_cases hex : ∃ o ∈ os, o.flipped = false
  · -- some fragment of the ring is supplied in the orientation it is used in: start there
    obtain ⟨o, ho, hfl⟩ := hex
    obtain ⟨pre, post, rfl⟩ := List.append_of_mem ho
    have hr' := Ring.rotate hr
    have hs' := Simple.rotate hs
    obtain ⟨f, b⟩ := o
    simp only at hfl; subst hfl
    have hnd : ((⟨f, false⟩ :: (post ++ pre) : List Oriented).map (·.junction)).Nodup := by simpa using hs'.1
    rw [List.map_cons, List.nodup_cons] at hnd
    have hmem := complete_from_head (f := f) (suf := post ++ pre) (by simpa using hr')
      (fun x hx e => hnd.1 (List.mem_map.2 ⟨x, hx, e⟩))
      (fun x hx _ => hs'.2 x (List.mem_cons_of_mem _ (by simpa using hx)))
    refine ⟨_, hmem, Or.inl ?_⟩
    have := isRotation_append_comm (molecule pre) (molecule (⟨f, false⟩ :: post))
    rw [← molecule_append, ← molecule_append] at this
    simpa using this.symm
  · -- every fragment is flipped: read the ring from the other strand
    have hall : ∀ o ∈ os, o.flipped = true := by
      intro o ho
      cases hb : o.flipped with
      | true => rfl
      | false => exact absurd ⟨o, ho, hb⟩ hex
    obtain ⟨hr', hrot, hnd⟩ := mirror_ring hr hall (rcInv_of_dnaPool hdna)
    have hnd := hnd hs.1
    cases hos : os.reverse with
    | nil => simp at hos; exact absurd hos hr.nonempty
    | cons o rest =>
      rw [hos] at hr' hrot hnd
      simp only [List.map_cons] at hr' hrot hnd
      rw [List.nodup_cons] at hnd
      have hmem := complete_from_head (suf := rest.map fun o => (⟨o.frag, false⟩ : Oriented)) hr'
        (fun x hx e => hnd.1 (List.mem_map.2 ⟨x, hx, e⟩))
        (fun x hx hfl => by
          obtain ⟨y, _, rfl⟩ := List.mem_map.1 hx
          cases hfl)
      exact ⟨_, hmem, Or.inr hrot⟩

/-- Every simple ring of the pool (junction overhangs pairwise distinct and non-palindromic; every
fragment in either orientation) has its molecule, up to rotation and strand, among the constructs
`CircularLigate` returns — whatever the arrival order.  A ring traversed only by flipped fragments is
found from the other strand, where all of them are in the supplied orientation. -/
theorem ligate_complete (pool : List Fragment) (hdna : dnaPool pool = true) {os : List Oriented}
    (hr : Ring pool os) (hs : Simple os) {arr : List Str} (harr : arr.Perm (emitted pool)) :
    ∃ c ∈ circularLigate pool arr, SameMolecule (molecule os) c := by
  obtain ⟨c₀, hc₀, hsm⟩ := complete_emitted hdna hr hs
  have hd₀ : isDna c₀ = true := by
    obtain ⟨f, suf, _, hr₀, rfl⟩ := ligate_sound pool hc₀
    exact isDna_molecule hdna hr₀.mem
  have hdm : isDna (molecule os) = true := isDna_molecule hdna hr.mem
  have hk : key c₀ ∈ (circularLigate pool arr).map key :=
    (mem_keys_getConstructsWith key arr _).2 (List.mem_map.2 ⟨c₀, harr.mem_iff.2 hc₀, rfl⟩)
  obtain ⟨c, hc, hkc⟩ := List.mem_map.1 hk
  have hdc : isDna c = true := by
    obtain ⟨os', hr', rfl⟩ := ligate_sound_result pool harr c hc
    exact isDna_molecule hdna hr'.mem
  refine ⟨c, hc, (key_eq_iff hdm hdc).1 ?_⟩
  rw [(key_eq_iff hdm hd₀).2 hsm, hkc]

-- a ring that needs a flip, and one traversed only by flipped fragments
example : let f₁ : Fragment := ⟨"AC".toList, "AATG".toList, "GCTT".toList⟩
    let f₂ : Fragment := flip ⟨"GG".toList, "GCTT".toList, "AATG".toList⟩
    dnaPool [f₁, f₂] = true ∧ Ring [f₁, f₂] [⟨f₁, false⟩, ⟨f₂, true⟩] ∧ Simple [⟨f₁, false⟩, ⟨f₂, true⟩] := by decide
example : let f₁ : Fragment := flip ⟨"AC".toList, "AATG".toList, "GCTT".toList⟩
    let f₂ : Fragment := flip ⟨"GG".toList, "GCTT".toList, "AATG".toList⟩
    dnaPool [f₁, f₂] = true ∧ Ring [f₁, f₂] [⟨f₁, true⟩, ⟨f₂, true⟩] ∧ Simple [⟨f₁, true⟩, ⟨f₂, true⟩] := by decide

/-! ### exactly: the characterisation, and the equality on designed assemblies -/

/-- EXACTLY what is sent: the molecules of the rings that start with a pool fragment in its supplied
orientation, do not return to that fragment's forward overhang before they close, and attach flipped
fragments only at non-self-complementary overhangs. -/
theorem ligate_exact (pool : List Fragment) (c : Str) :
    c ∈ emitted pool ↔
      ∃ f suf, Ring pool (⟨f, false⟩ :: suf) ∧ OneLap f suf ∧ c = molecule (⟨f, false⟩ :: suf) := by
  constructor
  · intro hc
    obtain ⟨f, hf, hc⟩ := mem_emitted.1 hc
    obtain ⟨ext, hr, he, hj, hp⟩ := sound_aux pool _ f [f] ⟨f, false⟩ [] (Chain.start hf) c hc
    exact ⟨f, ext, by simpa using hr, ⟨hj, hp⟩, by simpa using he⟩
  · rintro ⟨f, suf, hr, ⟨hj, hp⟩, rfl⟩
    exact complete_from_head hr hj hp

/-- the same for the set of molecules (keys) `CircularLigate` returns, whatever the arrival order -/
theorem ligate_exact_result (pool : List Fragment) {arr : List Str} (harr : arr.Perm (emitted pool)) (k : Key) :
    k ∈ (circularLigate pool arr).map key ↔
      ∃ f suf, Ring pool (⟨f, false⟩ :: suf) ∧ OneLap f suf ∧ k = key (molecule (⟨f, false⟩ :: suf)) := by
  unfold circularLigate getConstructs
  rw [mem_keys_getConstructsWith, List.mem_map]
  constructor
  · rintro ⟨c, hc, rfl⟩
    obtain ⟨f, suf, hr, ho, rfl⟩ := (ligate_exact pool c).1 (harr.mem_iff.1 hc)
    exact ⟨f, suf, hr, ho, rfl⟩
  · rintro ⟨f, suf, hr, ho, rfl⟩
    exact ⟨_, harr.mem_iff.2 ((ligate_exact pool _).2 ⟨f, suf, hr, ho, rfl⟩), rfl⟩

theorem dnaPool_of_designed {pool : List Fragment} (hd : designed pool = true) : dnaPool pool = true := by
  simp only [designed, Bool.and_eq_true] at hd
  exact hd.1.1

/-- The property on its quantifier.  For a designed assembly (`designed pool`: ACGT; among the oriented fragments
that survive the pruning of dead ends to the fixpoint no junction overhang is self-complementary and the forward
overhang determines the reverse overhang — decoys of any shape are pruned), in
every arrival order, the molecules `CircularLigate` returns are EXACTLY the molecules of the simple rings —
none missing, none spurious (in particular no multi-lap concatemer of alternatives) — and
(`ligate_unique_keys`) no molecule twice. -/
theorem ligate_designed (pool : List Fragment) (hd : designed pool = true) {arr : List Str}
    (harr : arr.Perm (emitted pool)) (k : Key) :
    k ∈ (circularLigate pool arr).map key ↔ ∃ os, Ring pool os ∧ Simple os ∧ k = key (molecule os) := by
  have hdna := dnaPool_of_designed hd
  constructor
  · intro hk
    obtain ⟨f, suf, hr, ho, rfl⟩ := (ligate_exact_result pool harr k).1 hk
    exact ⟨_, hr, designed_oneLap_simple hd hr ho, rfl⟩
  · rintro ⟨os, hr, hs, rfl⟩
    obtain ⟨c, hc, hsm⟩ := ligate_complete pool hdna hr hs harr
    have hdc : isDna c = true := by
      obtain ⟨os', hr', rfl⟩ := ligate_sound_result pool harr c hc
      exact isDna_molecule hdna hr'.mem
    rw [(key_eq_iff (isDna_molecule hdna hr.mem) hdc).2 hsm]
    exact List.mem_map.2 ⟨c, hc, rfl⟩

/-- … each distinct ring exactly once: for every simple ring of a designed pool there is exactly one returned
construct that is its molecule up to rotation and strand -/
theorem ligate_designed_once (pool : List Fragment) (hd : designed pool = true) {arr : List Str}
    (harr : arr.Perm (emitted pool)) {os : List Oriented} (hr : Ring pool os) (hs : Simple os) :
    ∃ c ∈ circularLigate pool arr, SameMolecule (molecule os) c ∧
      ∀ c' ∈ circularLigate pool arr, SameMolecule (molecule os) c' → c' = c := by
  have hdna := dnaPool_of_designed hd
  obtain ⟨c, hc, hsm⟩ := ligate_complete pool hdna hr hs harr
  refine ⟨c, hc, hsm, fun c' hc' hsm' => ?_⟩
  have hdm := isDna_molecule hdna hr.mem
  have hd1 : isDna c = true := by
    obtain ⟨os', hr', rfl⟩ := ligate_sound_result pool harr c hc
    exact isDna_molecule hdna hr'.mem
  have hd2 : isDna c' = true := by
    obtain ⟨os', hr', rfl⟩ := ligate_sound_result pool harr c' hc'
    exact isDna_molecule hdna hr'.mem
  have hk : key c' = key c := by rw [← (key_eq_iff hdm hd2).2 hsm', (key_eq_iff hdm hd1).2 hsm]
  exact List.inj_on_of_nodup_map (getConstructsWith_nodup key arr) hc' hc hk

-- non-vacuity: the strict 2 × 2 design of the review (6 rings, 4 of them simple) is `designed`
example : designed [⟨"AC".toList, "AATG".toList, "GCTT".toList⟩, ⟨"GG".toList, "GCTT".toList, "AATG".toList⟩,
    ⟨"TT".toList, "AATG".toList, "GCTT".toList⟩, ⟨"CA".toList, "GCTT".toList, "AATG".toList⟩] = true := by decide
-- … with a dead-end decoy and a fragment supplied on the other strand it still is
example : designed [⟨"AC".toList, "AATG".toList, "GCTT".toList⟩, flip ⟨"GG".toList, "GCTT".toList, "AATG".toList⟩,
    ⟨"TT".toList, "AATG".toList, "CCGA".toList⟩] = true := by decide
-- … so it is with two decoys that share their dead-end overhang, two that share their lead-in overhang, a chain of two
-- decoys, and a decoy whose dead end is palindromic (ring AATG→GCTT→AATG)
example : designed [⟨"AC".toList, "AATG".toList, "GCTT".toList⟩, ⟨"GG".toList, "GCTT".toList, "AATG".toList⟩,
    ⟨"TT".toList, "AATG".toList, "CCGA".toList⟩, ⟨"CA".toList, "GCTT".toList, "CCGA".toList⟩] = true := by decide
example : designed [⟨"AC".toList, "AATG".toList, "GCTT".toList⟩, ⟨"GG".toList, "GCTT".toList, "AATG".toList⟩,
    ⟨"TT".toList, "CCGA".toList, "AATG".toList⟩, ⟨"CA".toList, "CCGA".toList, "GCTT".toList⟩] = true := by decide
example : designed [⟨"AC".toList, "AATG".toList, "GCTT".toList⟩, ⟨"GG".toList, "GCTT".toList, "AATG".toList⟩,
    ⟨"TT".toList, "AATG".toList, "CCGA".toList⟩, ⟨"CA".toList, "CCGA".toList, "TGAC".toList⟩] = true := by decide
example : designed [⟨"AC".toList, "AATG".toList, "GCTT".toList⟩, ⟨"GG".toList, "GCTT".toList, "AATG".toList⟩,
    ⟨"TT".toList, "AATG".toList, "AATT".toList⟩] = true := by decide
-- … a pool with a backward fragment (s, f, g, h of the findings note) is not
example : designed [⟨"AC".toList, "AATG".toList, "GCTT".toList⟩, ⟨"GG".toList, "GCTT".toList, "CCGA".toList⟩,
    ⟨"TT".toList, "CCGA".toList, "GCTT".toList⟩, ⟨"CA".toList, "GCTT".toList, "AATG".toList⟩] = false := by decide

/-! ### unique: no molecule twice -/

/-- the key of the model is the canonical form `seqhash.Hash` digests: the hash model of C04/C05 returns
an error exactly on `Key.invalid` and otherwise the v1 form of the digest of the key -/
theorem key_hashSpec (blake : List UInt8 → List UInt8) (s : Str) :
    Seqhash.hashSpec blake s "DNA" true true =
      match key s with
      | .invalid => .err
      | .canon d => .ok ("v1_".toList ++ Seqhash.tag "DNA" true true ++ ['_'] ++ Seqhash.hex (blake (d.map fun c => c.toNat.toUInt8))) := by
  unfold Seqhash.hashSpec Seqhash.hashWith key keyWith
  have h1 : ("DNA" = "RNA") = False := by decide
  have h2 : ("DNA" = "PROTEIN") = False := by decide
  by_cases hasc : (s.any fun c => decide (c.toNat > 127)) = true
  · simp only [hasc, if_true]
  · simp only [hasc, Bool.false_eq_true, if_false]
    by_cases hv : ∀ x ∈ upper s, x ∈ Seqhash.nucleotideLetters
    · have hv' : ¬ ∃ x, x ∈ upper s ∧ ¬ x ∈ Seqhash.nucleotideLetters := fun ⟨x, hx, hn⟩ => hn (hv x hx)
      simp [h1, h2, hv', Seqhash.canon]
      rw [if_pos hv]
    · have hv' : ∃ x, x ∈ upper s ∧ ¬ x ∈ Seqhash.nucleotideLetters := by
        by_contra hne
        exact hv fun x hx => by_contra fun hn => hne ⟨x, hx, hn⟩
      simp [h1, h2, hv]

/-- the collector compares HASHES; they agree exactly when the keys agree, provided the digest does not
collide on the two canonical forms (explicit hypothesis: BLAKE3 collision-freeness, cf. C05) -/
theorem hash_eq_iff_key_eq (blake : List UInt8 → List UInt8) (a b : Str)
    (hcoll : ∀ d d', key a = .canon d → key b = .canon d' →
      Seqhash.hex (blake (d.map fun c => c.toNat.toUInt8)) = Seqhash.hex (blake (d'.map fun c => c.toNat.toUInt8)) → d = d') :
    Seqhash.hashSpec blake a "DNA" true true = Seqhash.hashSpec blake b "DNA" true true ↔ key a = key b := by
  rw [key_hashSpec, key_hashSpec]
  cases ha : key a with
  | invalid => cases hb : key b <;> simp
  | canon d =>
    cases hb : key b with
    | invalid => simp
    | canon d' =>
      simp only [Seqhash.Outcome.ok.injEq, Key.canon.injEq]
      constructor
      · intro h
        have h' := List.append_cancel_left h
        exact hcoll d d' ha hb h'
      · rintro rfl; rfl

/-- equal key ⇔ same circular double-stranded molecule (DNA strings) -/
theorem key_eq_iff_sameMolecule {a b : Str} (ha : isDna a = true) (hb : isDna b = true) :
    key a = key b ↔ SameMolecule a b := key_eq_iff ha hb

/-- the collector never keeps two constructs with the same key — for any arrival list -/
theorem ligate_unique_keys (pool : List Fragment) (arr : List Str) : ((circularLigate pool arr).map key).Nodup :=
  getConstructsWith_nodup key arr

/-- No two returned constructs are the same molecule up to rotation and strand. -/
theorem ligate_unique (pool : List Fragment) (hdna : dnaPool pool = true) {arr : List Str} (harr : arr.Perm (emitted pool)) :
    (circularLigate pool arr).Pairwise fun a b => ¬ SameMolecule a b := by
  have h := ligate_unique_keys pool arr
  rw [List.Nodup, List.pairwise_map] at h
  refine h.imp_of_mem fun {a b} ha hb hne hsm => hne ?_
  have hda : isDna a = true := by
    obtain ⟨os, hr, rfl⟩ := ligate_sound_result pool harr a ha
    exact isDna_molecule hdna hr.mem
  have hdb : isDna b = true := by
    obtain ⟨os, hr, rfl⟩ := ligate_sound_result pool harr b hb
    exact isDna_molecule hdna hr.mem
  exact (key_eq_iff hda hdb).2 hsm

/-! ### independent of the order of the inputs -/

/-- permuting the pool permutes what is sent (same constructs, same multiplicities) -/
theorem ligate_order_emitted {pool' pool : List Fragment} (hp : pool'.Perm pool) : (emitted pool').Perm (emitted pool) :=
  emitted_perm hp

/-- The set of returned molecules (keys) does not depend on the order of the pool — nor on the two
arrival orders. -/
theorem ligate_order {pool' pool : List Fragment} (hp : pool'.Perm pool) {arr' arr : List Str}
    (harr' : arr'.Perm (emitted pool')) (harr : arr.Perm (emitted pool)) (k : Key) :
    k ∈ (circularLigate pool' arr').map key ↔ k ∈ (circularLigate pool arr).map key := by
  unfold circularLigate getConstructs
  rw [mem_keys_getConstructsWith, mem_keys_getConstructsWith]
  exact ((harr'.trans (emitted_perm hp)).trans harr.symm).map key |>.mem_iff

/-! ### independent of goroutine scheduling -/

/-- the set of returned keys is the same for every arrival order -/
theorem ligate_schedule_perm (pool : List Fragment) {arr : List Str} (harr : arr.Perm (emitted pool)) (k : Key) :
    k ∈ (circularLigate pool arr).map key ↔ k ∈ (circularLigateDFS pool).map key :=
  ligate_order (List.Perm.refl pool) harr (List.Perm.refl _) k

/-- HARD structural obligation (the rest of the structural pin is soft, Props/C09Pin.lean).  In the functions under
`clone.CircularLigate` no send on the construct channel is the communication of a `select` case: every construct is handed
over by a plain blocking send — no `default`, no timer, no alternative through which a construct could be dropped
(`Gen.cloneSendsUnconditional`, re-extracted from clone.go by harness/cmd/extract-clone on every run).  `Step.send`, the
conservation invariant `Inv.conserve` and hence "a maximal run delivers a permutation of ALL sends" assume exactly this,
and no dynamic run can be relied on to expose a lossy send (it needs a stalled collector or > 4096 pending constructs). -/
theorem clone_sends_unconditional : Gen.cloneSendsUnconditional = true := by decide

/-- no fuel-exhausted call in any spawn tree: the model recursion is the Go recursion -/
theorem fuel_never_exhausted (pool : List Fragment) : ∀ w ∈ seedWorks pool, noStuck w = true := by
  intro w hw
  obtain ⟨f, hf, rfl⟩ := List.mem_map.1 hw
  exact noStuck_aux pool _ f [f] (unused_seed_lt hf)

/-- About the Step system of Model/Ligate.lean (hand-transcribed from clone.go 264-343), not about the Go
runtime.  For EVERY interleaving of main, the `recurseLigate` goroutines and the collector (unbuffered channel,
`wg.Add` before `go`, `wg.Done` last, `close` after `wg.Wait`): no goroutine ever sends on the closed
channel and the WaitGroup counter never goes negative (`panicked = false`); when `close(c)` has been
executed no send is pending and everything has been received (close happens after the last send); and a
run can only stop after the collector has handed over a list `arr` that is a permutation of all sends —
for which `CircularLigate` returns the same set of molecules as under the depth-first schedule.
(Only "delivered ⇒ permutation of the sends" is proved; that every permutation is delivered by some run is
neither claimed nor needed.) -/
theorem ligate_schedule (pool : List Fragment) {s : Sys} (hr : Reach (Sys.init (seedWorks pool)) s) :
    s.panicked = false ∧
    (s.closed = true → pending s = [] ∧ s.recvd.Perm (emitted pool)) ∧
    ((∀ s', ¬ Step s s') → ∃ arr, s.result = some arr ∧ arr.Perm (emitted pool) ∧
      ∀ k, k ∈ (circularLigate pool arr).map key ↔ k ∈ (circularLigateDFS pool).map key) := by
  have hinv := reach_inv (fuel_never_exhausted pool) hr
  refine ⟨hinv.ok, fun hc => closed_complete hinv hc, fun hmax => ?_⟩
  obtain ⟨arr, h1, h2⟩ := terminal_delivers hinv hmax
  exact ⟨arr, h1, h2, ligate_schedule_perm pool h2⟩

/-! ### terminates -/

/-- About the model's spawn tree and Step system (see `ligate_schedule`).  The bound `variant` is the size of
the spawn trees and can be factorial in `|pool|` (a tail `X→B` plus n fragments `B→B`): termination, not speed.
For every finite pool: the recursion tree of every seed is finite with `go`-nesting depth at most
`|pool|` and is never cut off by the model's fuel; every run of the goroutine system has at most
`variant (init)` steps, so there is no infinite run; and a run that cannot continue has delivered. -/
theorem ligate_terminates (pool : List Fragment) :
    (∀ w ∈ seedWorks pool, noStuck w = true ∧ depth w ≤ pool.length) ∧
    (∀ (n : Nat) (s : Sys), Run (Sys.init (seedWorks pool)) n s → n ≤ variant (Sys.init (seedWorks pool))) ∧
    (∀ f : Nat → Sys, f 0 = Sys.init (seedWorks pool) → ¬ ∀ i, Step (f i) (f (i + 1))) ∧
    (∀ (n : Nat) (s : Sys), Run (Sys.init (seedWorks pool)) n s → (∀ s', ¬ Step s s') → s.result.isSome = true) := by
  refine ⟨fun w hw => ⟨fuel_never_exhausted pool w hw, ?_⟩, fun n s hrun => ?_, fun f _ hstep => no_infinite_run f hstep,
    fun n s hrun hmax => ?_⟩
  · obtain ⟨f, _, rfl⟩ := List.mem_map.1 hw
    exact depth_le pool _ f [f]
  · have := run_bounded hrun; omega
  · have hinv := reach_inv (fuel_never_exhausted pool) (run_reach Reach.refl hrun)
    obtain ⟨r, hr, _⟩ := terminal_delivers hinv hmax
    simp [hr]

-- the pool that made the unfixed code run forever (a→b, b→c, c→b): finite tree, one ring found from two seeds
example : let a : Fragment := ⟨"AC".toList, "AATG".toList, "GCTT".toList⟩
    let b : Fragment := ⟨"GG".toList, "GCTT".toList, "CCGA".toList⟩
    let c : Fragment := ⟨"TT".toList, "CCGA".toList, "GCTT".toList⟩
    emitted [a, b, c] = ["GCTTGGCCGATT".toList, "CCGATTGCTTGG".toList] ∧
    (circularLigateDFS [a, b, c]).length = 1 := by decide

/-! ### the judge's ring enumerators are correct with respect to the spec's definition of a ring -/

/-- what `Driver/C09.lean` enumerates with `ringsWalk` is sound: every list returned is a `Ring` of the pool -/
theorem judge_rings_sound (b : Bool) (pool : List Fragment) : ∀ os ∈ ringsWalk b pool, Ring pool os :=
  ringsWalk_sound b pool

/-- … and complete: the unpruned walk returns exactly the rings of the pool (every ring, at every starting fragment, on
both strands), for pools of every size -/
theorem judge_rings_exact (pool : List Fragment) (os : List Oriented) : os ∈ ringsWalk false pool ↔ Ring pool os :=
  mem_ringsWalk_iff pool os

/-- the set a designed pool's result is compared with — the pruned walk filtered by `Simple` — is exactly the set of simple
rings of the pool (`ligate_designed` speaks about precisely these) -/
theorem judge_simple_rings_exact (pool : List Fragment) (os : List Oriented) :
    os ∈ (ringsWalk true pool).filter (fun os => decide (Simple os)) ↔ Ring pool os ∧ Simple os :=
  mem_simpleRingsWalk_iff pool os

/-- the upper bound used on pools that are not designed — the one-lap walk — is exactly the class of `ligate_exact` -/
theorem judge_oneLap_exact (pool : List Fragment) (os : List Oriented) :
    os ∈ ringsOneLap pool ↔ ∃ f suf, os = ⟨f, false⟩ :: suf ∧ Ring pool os ∧ OneLap f suf :=
  mem_ringsOneLap_iff pool os

/-! ### GoldenGate -/

/-- `GoldenGate` is `CircularLigate` on the concatenation of the cuts, so all of the above applies to it -/
theorem goldenGate_eq (cut : Part → List Fragment) (parts : List Part) (arr : List Str) :
    goldenGate cut parts arr = circularLigate (parts.flatMap cut) arr := rfl

theorem goldenGate_exact (cut : Part → List Fragment) (parts : List Part) (hdna : dnaPool (goldenGatePool cut parts) = true)
    {arr : List Str} (harr : arr.Perm (emitted (goldenGatePool cut parts))) :
    (∀ c ∈ goldenGate cut parts arr, ∃ os, Ring (goldenGatePool cut parts) os ∧ c = molecule os) ∧
    (∀ os, Ring (goldenGatePool cut parts) os → Simple os → ∃ c ∈ goldenGate cut parts arr, SameMolecule (molecule os) c) ∧
    ((goldenGate cut parts arr).Pairwise fun a b => ¬ SameMolecule a b) :=
  ⟨ligate_sound_result _ harr, fun _ hr hs => ligate_complete _ hdna hr hs harr, ligate_unique _ hdna harr⟩

/-- the property as stated, for GoldenGate: if the fragments the parts are cut into form a designed assembly, the
molecules returned are exactly those of its simple rings, each exactly once -/
theorem goldenGate_designed (cut : Part → List Fragment) (parts : List Part) (hd : designed (goldenGatePool cut parts) = true)
    {arr : List Str} (harr : arr.Perm (emitted (goldenGatePool cut parts))) :
    (∀ k, k ∈ (goldenGate cut parts arr).map key ↔
      ∃ os, Ring (goldenGatePool cut parts) os ∧ Simple os ∧ k = key (molecule os)) ∧
    ((goldenGate cut parts arr).map key).Nodup :=
  ⟨ligate_designed _ hd harr, ligate_unique_keys _ arr⟩

end PolyVerif.Props.C09
