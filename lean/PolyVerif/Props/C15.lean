import PolyVerif.Lemmas.PolyJson
import PolyVerif.Lemmas.JsonText
/-
Property C15 — JSON is a lossless interchange form for annotated sequences.

  "Serialising any annotated sequence to poly's JSON form and reading it back yields an equal
   value in every field - metadata, references, nested locations, qualifiers, sequence - and
   re-links every feature to its parent so that each feature reports the same sequence as before.
   Converting GenBank or GFF input to JSON and back to the original format gives the same text as
   writing the parsed input directly."

The theorems speak about the model in Model/PolyJson.lean: `toJ` = json.Marshal, `fromJ` =
json.Unmarshal into a zero Sequence, `polyjsonParse` = polyjson.Parse, all three driven by the
struct table `Gen.polyStructs` that is regenerated from the compiled types on every run, so each
of the theorems below is re-checked against the JSON form the code has *now*.  The JSON TEXT layer is in the theorems
too, for the Lean printer and reader (`json_text_roundtrip`, `json_indent_roundtrip`, `text_roundtrip*` (Marshal's compact text), `write_text_*` (MarshalIndent's text));
that `encoding/json` writes the printer's bytes and reads like the reader is corresponded on every case.

Domain decisions, stated once:
* "non-ASCII text" means valid Unicode text: strings are code-point lists.  A Go string holding bytes that are
  not valid UTF-8 is outside the property (encoding/json replaces them by U+FFFD by design) — the driver's
  named exclusion `skip:invalid-utf8`.
* `GetSequence` is modelled on ASCII parent text (hypothesis of `relinked`, `relinked_reports`); `relinked_any`
  is free of it.
* The conversion clause is proved in general (`convert_same`) and for the models of the two real writers
  (`convert_same_gbk`, `convert_same_gff`, and the `_pipe` variants), which are C03's and C14's models applied to
  the fields those writers read (Model/PolyJsonViews.lean).

Hypothesis `x.WF`: the two kinds of map (Meta.Other, Feature.Attributes) are written in the
model's canonical form (entries sorted by key, keys distinct) — a Go map has no order, so this
restricts the representation, not the values.  Strings, integers, nesting depth, list lengths
are unrestricted.
-/
namespace PolyVerif.Props.C15
open PolyVerif PolyVerif.PolyJson

/-! ## the regenerated struct table -/

def jsonNames (fs : List PField) : List S := fs.filterMap (·.json)

/-- Within each struct the JSON member names are pairwise distinct (decided on the regenerated table). -/
theorem tags_nodup : ∀ st ∈ Gen.polyStructs, (jsonNames st.2).Nodup := by decide

/-- the fields the model knows, with the kind it gives them -/
def expected : List (String × List (String × PKind)) := [
  ("Sequence", [("Meta", .struct "Meta"), ("Description", .str), ("SequenceHash", .str),
    ("SequenceHashFunction", .str), ("Sequence", .str), ("Features", .slice (.struct "Feature"))]),
  ("Meta", [("Name", .str), ("GffVersion", .str), ("RegionStart", .int), ("RegionEnd", .int), ("Size", .int),
    ("Type", .str), ("Date", .str), ("Definition", .str), ("Accession", .str), ("Version", .str),
    ("Keywords", .str), ("Organism", .str), ("Source", .str), ("Origin", .str), ("Locus", .struct "Locus"),
    ("References", .slice (.struct "Reference")), ("Other", .mapSS)]),
  ("Locus", [("Name", .str), ("SequenceLength", .str), ("MoleculeType", .str), ("GenbankDivision", .str),
    ("ModificationDate", .str), ("SequenceCoding", .str), ("Circular", .bool), ("Linear", .bool)]),
  ("Reference", [("Index", .str), ("Authors", .str), ("Title", .str), ("Journal", .str), ("PubMed", .str),
    ("Remark", .str), ("Range", .str)]),
  ("Location", [("Start", .int), ("End", .int), ("Complement", .bool), ("Join", .bool),
    ("FivePrimePartial", .bool), ("ThreePrimePartial", .bool), ("SubLocations", .slice (.struct "Location"))]),
  ("Feature", [("Name", .str), ("Source", .str), ("Type", .str), ("Score", .str), ("Strand", .str),
    ("Phase", .str), ("Attributes", .mapSS), ("GbkLocationString", .str), ("Sequence", .str),
    ("SequenceLocation", .struct "Location"), ("SequenceHash", .str), ("Description", .str),
    ("SequenceHashFunction", .str), ("ParentSequence", .ptr "Sequence")])]

def goKinds (fs : List PField) : List (String × PKind) := fs.map fun f => (f.go, f.kind)

/-- Every field of the model appears exactly once in the compiled struct, with the kind the model
gives it, and the compiled structs have no other field and there is no other struct
(order of fields and of structs is free). -/
theorem fields_expected :
    Gen.polyStructs.length = expected.length ∧
    ∀ e ∈ expected, ∃ fs, Gen.polyStructs.lookup e.1 = some fs ∧ fs.length = e.2.length ∧
      ∀ gk ∈ e.2, (goKinds fs).count gk = 1 := by decide

/-- The only field that is not part of the JSON form is the parent pointer of a feature. -/
theorem only_parent_dropped : ∀ st ∈ Gen.polyStructs, ∀ f ∈ st.2,
    f.json = none → (st.1 = "Feature" ∧ f.go = "ParentSequence") := by decide

/-- No field is encoded in a way the model does not cover (quoted scalars, a field type with a custom codec,
embedded or unexported fields, a decoder that disagrees with the encoder), and none is `omitempty`. -/
theorem plain_fields : ∀ st ∈ Gen.polyStructs, ∀ f ∈ st.2, f.flags = [] ∧ f.omitempty = false := by decide

/-- No type of the JSON form has a codec of its own: none of the structs reachable from `poly.Sequence` (the root
and slice element types such as `Feature`, `Reference` included) nor any field, element or key type implements
`json.Marshaler`, `json.Unmarshaler`, `encoding.TextMarshaler` or `encoding.TextUnmarshaler`, through a value or a
pointer receiver — so `encoding/json` encodes every one of them by its struct table, which is what the model does. -/
theorem no_custom_codecs : ∀ c ∈ Gen.polyCodecs, c.2 = [] := by decide

/-- … that list covers every struct of the table … -/
theorem codecs_cover_structs : ∀ st ∈ Gen.polyStructs, ("poly." ++ st.1) ∈ Gen.polyCodecs.map (·.1) := by decide

/-- … and the type of every field, with every type nested in it (slice / array / pointer elements, map keys and
elements — by their Go names, so a `type StrandT string` is not mistaken for `string`), is in that list. Together with
`no_custom_codecs`: no type that occurs anywhere in the JSON form has a codec of its own. -/
theorem field_types_listed : ∀ st ∈ Gen.polyStructs, ∀ f ∈ st.2,
    f.typs ≠ [] ∧ ∀ t ∈ f.typs, t ∈ Gen.polyCodecs.map (·.1) := by decide

/-! ## reading back what was written -/

/-- `json.Unmarshal(json.Marshal(x))` returns `x` itself — every field, every nesting level, nil-ness of
every slice and map included — except that the features' parent pointers are nil. -/
theorem unmarshal_marshal (x : Sequence) (h : x.WF = true) : fromJ (toJ x) = x.unlink := by
  simp only [Sequence.WF, Bool.and_eq_true, List.all_eq_true] at h
  rw [sequence_rt_raw, meta_rt _ h.1,
    slice_rt_on Feature.toJ Feature.fromJ Feature.unlink x.features none (fun f hf => feature_rt f (h.2 f hf))]
  rfl

/-- `polyjson.Parse(json.Marshal(x))` is `x` with its feature list made non-nil and every feature
pointing to the returned sequence text: the exact result, from which the clauses below follow. -/
theorem parse_marshal (x : Sequence) (h : x.WF = true) :
    polyjsonParse (toJ x) = { x with features := some ((x.features.getD []).map (relinkTo x.sequence)) } := by
  simp only [polyjsonParse, unmarshal_marshal x h, Sequence.unlink]
  cases x with
  | mk m d sh shf sq fs =>
    cases fs with
    | none => rfl
    | some l =>
      simp only [Option.map_some, Option.getD_some, List.map_map]
      congr

/-- Clause 1 (equal value in every field), with `≈` = equal up to nil-vs-empty collections and
parent pointers (`Sequence.Equiv`). -/
theorem roundtrip (x : Sequence) (h : x.WF = true) : (polyjsonParse (toJ x)).Equiv x := by
  rw [parse_marshal x h]
  cases x with
  | mk m d sh shf sq fs =>
    simp only [Sequence.Equiv, Sequence.norm, Option.getD_some, List.map_map]
    congr 2

/-- Clause 1 at its sharpest: precisely one identification happens, nil → empty for the top-level
feature list.  For a sequence whose features were added with `AddFeature` (so the list is not nil
and every parent pointer leads back to it) the result equals the input, parent links included. -/
theorem roundtrip_exact (x : Sequence) (h : x.WF = true) (hl : x.Linked) (hn : x.features ≠ none) :
    polyjsonParse (toJ x) = x := by
  rw [parse_marshal x h]
  cases x with
  | mk m d sh shf sq fs =>
    cases fs with
    | none => exact absurd rfl hn
    | some l =>
      simp only [Option.getD_some, Sequence.mk.injEq, Option.some.injEq, true_and]
      have : ∀ f ∈ l, relinkTo sq f = f := by
        intro f hf
        have hp : f.parent = some sq := hl f (by simpa using hf)
        cases f; simp_all [relinkTo]
      rw [List.map_congr_left this, List.map_id']

/-- Clause 1 against the independent spec relation (pairwise comparison, maps as finite functions). -/
theorem roundtrip_spec (x : Sequence) (h : x.WF = true) :
    Spec.Lossless.sameSeq (polyjsonParse (toJ x)) x = true := by
  rw [parse_marshal x h]
  simp only [Sequence.WF, Bool.and_eq_true, List.all_eq_true] at h
  simp only [Spec.Lossless.sameSeq, sameMeta_refl _ h.1, beq_self_eq_true, Bool.true_and,
    Spec.Lossless.sameSlice, Option.getD_some]
  exact sameList_map_left _ _ _ (fun f hf => sameFeature_relink _ f (h.2 f hf))

/-! ## the JSON text layer (Lean printer / reader; reusable by any property that prints `JVal`s) -/

/-- A string body as the printer writes it (`\"` `\\` `\b` `\f` `\n` `\r` `\t`, `\u00XX` for other control characters,
`\u003c` `\u003e` `\u0026` for `<` `>` `&`, `\u2028`, `\u2029` — the escapes `encoding/json` emits — everything else
verbatim), closed by `"`, is read back to the same code points, whatever follows. Every code point list. -/
theorem json_string_roundtrip (s rest : S) :
    JsonRead.readStr (escJson s ++ 34 :: rest) [] none = some (s, rest) :=
  JsonText.readStr_quote s rest

/-- An integer of either sign as the printer writes it (no `+`, no leading zeros) is read back, provided the text that
follows does not continue the number (digit, `.`, `e`, `E`). -/
theorem json_int_roundtrip (n : Int) (rest : S) (h : JsonText.NumEnd rest) :
    JsonRead.readNum (intDigits n ++ rest) = some (.num n, rest) :=
  JsonText.readNum_int n rest h

/-- THE TEXT ROUND TRIP, every JSON value: strings over arbitrary code points, integers, null / true / false, arrays,
objects with their members in order, nested to any depth: the reader reads back exactly what the printer wrote.
Strings are code-point lists and the text theorems hold for ALL of them, also for lists no Go string holds (surrogates,
values above 0x10FFFF: Go would write U+FFFD); Go strings are the lists of scalar values (`validS` in the driver), and
the UTF-8 encoding of the text into bytes is below the model. -/
theorem json_text_roundtrip (v : JVal) : JsonRead.parse v.print = some v :=
  JsonText.parse_print v

/-- The same under ANY layout that puts only blanks (space, tab, LF, CR) after `[` `{` `,` `:` and before `]` `}` … -/
theorem json_layout_roundtrip (L : Layout) (hL : JsonText.BlankLayout L) (v : JVal) (d : Nat) :
    JsonRead.parse (JVal.printL L d v) = some v :=
  JsonText.parse_printL L hL v d

/-- … in particular under `json.MarshalIndent(v, "", " ")`'s layout, the text `polyjson.Write` stores and
`poly convert -o json` prints. -/
theorem json_indent_roundtrip (v : JVal) : JsonRead.parse v.printIndent = some v :=
  JsonText.parse_printIndent v

/-- Clause 1 at the level of TEXT: parsing the text written for `x` gives `x` (feature list non-nil, every feature linked
to the result) — `polyjson.Parse(json.Marshal(x))` with the Lean printer and reader in the place of `encoding/json`'s. -/
theorem text_roundtrip_exact (x : Sequence) (h : x.WF = true) :
    parseText (marshalText x)
      = some { x with features := some ((x.features.getD []).map (relinkTo x.sequence)) } := by
  simp only [parseText, marshalText, json_text_roundtrip, Option.map_some, parse_marshal x h]

/-- … hence an equal value (`≈`) … -/
theorem text_roundtrip (x : Sequence) (h : x.WF = true) :
    ∃ y, parseText (marshalText x) = some y ∧ y.Equiv x :=
  ⟨_, by simp only [parseText, marshalText, json_text_roundtrip, Option.map_some], roundtrip x h⟩

/-- … and `x` itself for a sequence built with `AddFeature`. -/
theorem text_roundtrip_self (x : Sequence) (h : x.WF = true) (hl : x.Linked) (hn : x.features ≠ none) :
    parseText (marshalText x) = some x := by
  simp only [parseText, marshalText, json_text_roundtrip, Option.map_some, roundtrip_exact x h hl hn]

/-- plain `json.Unmarshal` of the written text: `x` with nil parent pointers -/
theorem text_unmarshal (x : Sequence) (h : x.WF = true) : unmarshalText (marshalText x) = some x.unlink := by
  simp only [unmarshalText, marshalText, json_text_roundtrip, Option.map_some, unmarshal_marshal x h]

/-- Clause 1 through a FILE: `polyjson.Read` of what `polyjson.Write(x, path)` stored (MarshalIndent's text) … -/
theorem write_text_roundtrip_exact (x : Sequence) (h : x.WF = true) :
    parseText (writeFileText x)
      = some { x with features := some ((x.features.getD []).map (relinkTo x.sequence)) } := by
  simp only [parseText, writeFileText, json_indent_roundtrip, Option.map_some, parse_marshal x h]

theorem write_text_roundtrip (x : Sequence) (h : x.WF = true) :
    ∃ y, parseText (writeFileText x) = some y ∧ y.Equiv x :=
  ⟨_, by simp only [parseText, writeFileText, json_indent_roundtrip, Option.map_some], roundtrip x h⟩

theorem write_text_roundtrip_self (x : Sequence) (h : x.WF = true) (hl : x.Linked) (hn : x.features ≠ none) :
    parseText (writeFileText x) = some x := by
  simp only [parseText, writeFileText, json_indent_roundtrip, Option.map_some, roundtrip_exact x h hl hn]

/-- … and the pipe path of `poly convert`: `json.MarshalIndent` then plain `json.Unmarshal`. -/
theorem write_text_unmarshal (x : Sequence) (h : x.WF = true) : unmarshalText (writeFileText x) = some x.unlink := by
  simp only [unmarshalText, writeFileText, json_indent_roundtrip, Option.map_some, unmarshal_marshal x h]

/-! ## re-linking -/

/-- Clause 2a: every feature of the parsed value points to the parsed value's own sequence text. -/
theorem relinked_parent (x : Sequence) (h : x.WF = true) :
    ∀ f ∈ (polyjsonParse (toJ x)).features.getD [], f.parent = some (polyjsonParse (toJ x)).sequence := by
  rw [parse_marshal x h]
  intro f hf
  simp only [Option.getD_some, List.mem_map] at hf
  obtain ⟨g, _, rfl⟩ := hf
  rfl

/-- Clause 2b, for ANY way of reading a feature's sequence off its parent text and its location value
(`g` = what `GetSequence` computes: Go's byte slicing of the UTF-8 text, reverse complement, panics …):
a report that is a function of (parent text, location) is the same before and after, feature by feature,
whenever `x`'s features are linked to `x`.  No assumption on the text (ASCII or not). -/
theorem relinked_any {β : Type} (g : S → Location → β) (x : Sequence) (h : x.WF = true) (hl : x.Linked) :
    ((polyjsonParse (toJ x)).features.getD []).map (fun f => f.parent.map fun p => g p f.sequenceLocation)
      = (x.features.getD []).map (fun f => f.parent.map fun p => g p f.sequenceLocation) := by
  rw [parse_marshal x h]
  simp only [Option.getD_some, List.map_map]
  apply List.map_congr_left
  intro f hf
  simp [Function.comp, relinkTo, hl f hf]

/-- Clause 2b with the model of `GetSequence` (`Feature.getSeq`: slicing, concatenation, reverse
complement, panics).  That model is Go's function on ASCII parent text (one byte per code point:
nucleotide / protein letters), which is therefore an explicit hypothesis; for other text use `relinked_any`.
The i-th feature of the parsed value reports exactly what the i-th feature's location denotes in
`x`'s sequence text … -/
theorem relinked_reports (x : Sequence) (h : x.WF = true) (_hascii : asciiS x.sequence = true) (i : Nat) :
    ((polyjsonParse (toJ x)).features.getD [])[i]?.map Feature.getSeq
      = (x.features.getD [])[i]?.map (fun f => f.sequenceLocation.seqOf x.sequence) := by
  rw [parse_marshal x h]
  simp only [Option.getD_some, List.getElem?_map, Option.map_map]
  rfl

/-- … which, when `x`'s features are linked to `x` (added with `AddFeature`), is what they reported
before: same feature count, and feature by feature the same `GetSequence` outcome (panics included). -/
theorem relinked (x : Sequence) (h : x.WF = true) (hl : x.Linked) (_hascii : asciiS x.sequence = true) :
    ((polyjsonParse (toJ x)).features.getD []).map Feature.getSeq = (x.features.getD []).map Feature.getSeq := by
  rw [parse_marshal x h]
  simp only [Option.getD_some, List.map_map]
  apply List.map_congr_left
  intro f hf
  simp [Function.comp, Feature.getSeq, relinkTo, hl f hf]

/-- `GetSequence` cannot tell a nil sub-location list from an empty one, at any depth: the reported
sequence is a function of the `≈`-class of the location. -/
theorem getSeq_nil_empty (p : S) (l : Location) : l.norm.seqOf p = l.seqOf p := seqOf_norm p l

/-! ## conversion through JSON -/

/-- Clause 3, general form: any writer that depends only on the value (not on nil-vs-empty collections,
not on parent pointers) produces the same output from the JSON round trip as from the value itself. -/
theorem convert_same {β : Type} (b : Sequence → β) (hb : ∀ a c : Sequence, a.Equiv c → b a = b c)
    (x : Sequence) (h : x.WF = true) : b (polyjsonParse (toJ x)) = b x :=
  hb _ _ (roundtrip x h)

/-- the value read back by a plain `json.Unmarshal` (the pipe path of `poly convert`: no re-linking) is
also `≈ x` -/
theorem unmarshal_equiv (x : Sequence) (h : x.WF = true) : (fromJ (toJ x)).Equiv x := by
  rw [unmarshal_marshal x h]
  cases x with
  | mk m d sh shf sq fs =>
    cases fs with
    | none => rfl
    | some l =>
      simp only [Sequence.Equiv, Sequence.norm, Sequence.unlink, Option.map_some, Option.getD_some, List.map_map]
      congr 2

/-- Clause 3 for `genbank.Build` — its model `GenbankBuild.build` (property C03) applied to the writer's view
of the value, for every iteration order `o` of the maps: GenBank → value `x` → JSON → `polyjson.Parse`
(or `polyjson.Read` of the written file) → GenBank text equals the text written from `x` directly. -/
theorem convert_same_gbk (x : Sequence) (h : x.WF = true) (o : GenbankBuild.MapOrders) :
    GenbankBuild.build (polyjsonParse (toJ x)).toGbk o = GenbankBuild.build x.toGbk o := by
  rw [toGbk_congr _ _ (roundtrip x h)]

/-- Clause 3 for `gff.Build` (its model `Gff.build`, property C14). -/
theorem convert_same_gff (x : Sequence) (h : x.WF = true) :
    Gff.build (polyjsonParse (toJ x)).toGff = Gff.build x.toGff := by
  rw [toGff_congr _ _ (roundtrip x h)]

/-- the same two through a plain `json.Unmarshal` (stdin / pipe mode of `poly convert`) -/
theorem convert_same_gbk_pipe (x : Sequence) (h : x.WF = true) (o : GenbankBuild.MapOrders) :
    GenbankBuild.build (fromJ (toJ x)).toGbk o = GenbankBuild.build x.toGbk o := by
  rw [toGbk_congr _ _ (unmarshal_equiv x h)]

theorem convert_same_gff_pipe (x : Sequence) (h : x.WF = true) :
    Gff.build (fromJ (toJ x)).toGff = Gff.build x.toGff := by
  rw [toGff_congr _ _ (unmarshal_equiv x h)]

/-! ## non-vacuity -/

/-- a sequence with a depth-3 location tree, partial flags, a nil and an empty sub-location list,
non-ASCII text (U+00E9, U+4E2D, U+1F9EC), sorted maps, a nil map, references -/
def sample : Sequence :=
  let loc : Location := .mk 0 9 true true true false (some [
      .mk 0 3 false false false true none,
      .mk 2 9 false true false false (some [.mk 2 4 true false false false (some []), .mk 5 9 false false false false none])])
  let f1 : Feature :=
    { Feature.zero with
      name := ofStr "gène", type := ofStr "CDS",
      attributes := some [(ofStr "gene", ofStr "中"), (ofStr "note", [0x1F9EC])],
      gbkLocationString := ofStr "complement(join(1..3,join(complement(3..4),6..9)))",
      sequenceLocation := loc, parent := some (ofStr "ACGTTGCATG") }
  let f2 : Feature :=
    { Feature.zero with
      type := ofStr "misc", attributes := none,
      sequenceLocation := .mk 1 4 false false false false none, parent := some (ofStr "ACGTTGCATG") }
  { Sequence.zero with
    metadata :=
      { Meta.zero with
        name := ofStr "pX", regionStart := -3, regionEnd := 9223372036854775807,
        locus := { Locus.zero with name := ofStr "pX", circular := true },
        references := some [{ Reference.zero with authors := ofStr "Ünal" }],
        other := some [(ofStr "COMMENT", ofStr "x"), (ofStr "DBLINK", [])] },
    sequence := ofStr "ACGTTGCATG", features := some [f1, f2] }

example : sample.WF = true := by decide
example : sample.Linked := by
  intro f hf
  simp only [sample, Option.getD_some, List.mem_cons, List.not_mem_nil, or_false] at hf
  rcases hf with rfl | rfl <;> rfl
example : sample.features ≠ none := by simp [sample]
/-- the sample's features report real sequences (so `relinked` is not about panics only) -/
example : (sample.features.getD []).map Feature.getSeq
    = [.ok (ofStr "ATGCGTCGT"), .ok (ofStr "CGT")] := by decide
example : asciiS sample.sequence = true := by decide
/-- the writers' views of the sample are not empty: two features with their qualifiers, the location tree, the bases -/
example : sample.toGbk.features.map (fun f => (f.attributes.length, f.sequenceLocation.subs.length)) = [(2, 2), (0, 0)]
    ∧ sample.toGbk.sequence = "ACGTTGCATG".toList ∧ sample.toGbk.metadata.other.length = 2 := by decide
example : sample.toGff.features.map (fun f => (f.start, f.stop, f.attrs.length)) = [(0, 9, 2), (1, 4, 0)]
    ∧ sample.toGff.name = "pX".toList := by decide
/-- the printer's escapes on a string with `"`, newline, `<`, U+2028, a supplementary-plane character and U+0001 -/
example : (JVal.str [34, 10, 60, 0x2028, 0x1F9EC, 1]).print
    = ofStr "\"\\\"\\n\\u003c\\u2028" ++ [0x1F9EC] ++ ofStr "\\u0001\"" := by decide
example : (JVal.arr [.num (-120), .obj [([97], .null), ([98], .bool true)], .arr []]).print
    = ofStr "[-120,{\"a\":null,\"b\":true},[]]" := by decide
example : (JVal.arr [.num 1, .obj [([97], .arr []), ([98], .obj [([99], .null)])]]).printIndent
    = ofStr "[\n 1,\n {\n  \"a\": [],\n  \"b\": {\n   \"c\": null\n  }\n }\n]" := by decide
/-- a writer that satisfies `convert_same`'s hypothesis without being constant -/
example : ∀ a c : Sequence, a.Equiv c →
    (a.features.getD []).map (·.type) = (c.features.getD []).map (·.type) := by
  intro a c h
  have := congrArg (fun s => (s.features.getD []).map (·.type)) h
  simpa [Sequence.norm, Feature.norm, Function.comp_def] using this
/-- `≈` is not the trivial relation -/
example : ¬ sample.Equiv Sequence.zero := by
  intro h
  have := congrArg (fun s => s.sequence) h
  simp [Sequence.norm, sample, Sequence.zero, ofStr] at this

end PolyVerif.Props.C15
