import PolyVerif.Lemmas.CodonCombine
/-
C18 — Adding and compromising codon tables.

Model: Model/CodonTables.lean `addTable`, `compromise` (written once over an `Arith` record; the theorems
are about `exactArith`: cut-off a rational, shares ⌊10000·w/Σ⌋; the correspondence check runs `floatArith`).
Spec:  Spec/ValueTables.lean — tables read as maps (`weightAt`, `totalOf`, `pairs`), `shareFloor`, `Compatible`.

Domain of the clauses: `Compatible t₁ t₂` (no letter / triplet listed twice, same (letter, triplet) pairs —
the two tables may list amino acids and codons in different orders), and for the numeric clauses
non-negative weights and every amino acid occurring (`posTotals`), which keeps `0/0` out.
-/
namespace PolyVerif.Props.C18
open PolyVerif PolyVerif.Codon PolyVerif.CodonTables PolyVerif.Spec PolyVerif.Spec.ValueTables
open PolyVerif.Lemmas.CodonCombine

theorem compatible_unpack {t1 t2 : Table} (h : Compatible t1 t2 = true) :
    WF t1 ∧ WF t2 ∧ (∀ p ∈ pairs t1, p ∈ pairs t2) ∧ (∀ p ∈ pairs t2, p ∈ pairs t1) := by
  simp only [Compatible, Bool.and_eq_true, sameCode, List.all_eq_true, List.contains_iff_mem] at h
  exact ⟨wf_of_bool h.1.1, wf_of_bool h.1.2, h.2.1, h.2.2⟩

theorem wf_mapWeights {t : Table} (w : WF t) (f : Str → Str → Int → Int) : WF (mapWeights f t) := by
  have hp : (entriesOf (mapWeights f t).aminoAcids).map (·.2.1) = (entriesOf t.aminoAcids).map (·.2.1) := by
    simp only [entriesOf, mapWeights, List.map_flatMap, List.flatMap_map, List.map_map]
    rfl
  refine ⟨?_, by rw [hp]; exact w.keys⟩
  have : (mapWeights f t).aminoAcids.map (·.letter) = t.aminoAcids.map (·.letter) := by
    simp [mapWeights, List.map_map, Function.comp]
  rw [this]; exact w.letters

/-- reading a re-weighted table: the weight function applied to the old weight -/
theorem weightAt_mapWeights {t : Table} (w : WF t) (f : Str → Str → Int → Int) {l x : Str} (h : (l, x) ∈ pairs t) :
    weightAt (mapWeights f t) l x = f l x (weightAt t l x) := by
  obtain ⟨a, ha, c, hc, rfl, rfl⟩ := mem_pairs.1 h
  rw [weightAt_mem w ha hc]
  let a' : AminoAcid := { a with codons := a.codons.map fun c => { c with weight := f a.letter c.triplet c.weight } }
  let c' : Codon := { c with weight := f a.letter c.triplet c.weight }
  have ha' : a' ∈ (mapWeights f t).aminoAcids := List.mem_map.2 ⟨a, ha, rfl⟩
  have hc' : c' ∈ a'.codons := List.mem_map.2 ⟨c, hc, rfl⟩
  exact weightAt_mem (wf_mapWeights w f) ha' hc'

theorem weightOf_eq_weightAt {t : Table} (w : WF t) {l x : Str} (h : (l, x) ∈ pairs t) : weightOf t x = weightAt t l x := by
  obtain ⟨a, ha, c, hc, rfl, rfl⟩ := mem_pairs.1 h
  rw [weightAt_mem w ha hc, weightOf_mem w ha hc]

/-! ### AddCodonTable -/

/-- structural form: the result is the first table with each weight replaced by the sum -/
theorem add_structure {t1 t2 : Table} (h : Compatible t1 t2 = true) :
    addTable t1 t2 = mapWeights (fun _ x w => w + weightOf t2 x) t1 := by
  obtain ⟨_, w2, s12, _⟩ := compatible_unpack h
  exact addTable_eq w2 s12

/-- each codon gets the sum of its two weights -/
theorem add_sums {t1 t2 : Table} (h : Compatible t1 t2 = true) {l x : Str} (hp : (l, x) ∈ pairs t1) :
    weightAt (addTable t1 t2) l x = weightAt t1 l x + weightAt t2 l x := by
  obtain ⟨w1, w2, s12, _⟩ := compatible_unpack h
  rw [add_structure h, weightAt_mapWeights w1 _ hp, weightOf_eq_weightAt w2 (s12 _ hp)]

/-- ... and the result lists exactly the first table's (letter, triplet) pairs, so `add_sums` speaks about every codon of the result -/
theorem add_pairs {t1 t2 : Table} (h : Compatible t1 t2 = true) : pairs (addTable t1 t2) = pairs t1 := by
  rw [add_structure h, pairs_mapWeights]

/-- the first table's assignment, order, start and stop codons are kept -/
theorem add_keeps_code {t1 t2 : Table} (h : Compatible t1 t2 = true) : codeOf (addTable t1 t2) = codeOf t1 := by
  rw [add_structure h, codeOf_mapWeights]

/-! ### CompromiseCodonTable -/

/-- cut-offs outside 0..1 are rejected with an error (not a panic, not a table), whatever the tables -/
theorem compromise_rejects (t1 t2 : Table) (c : Rat) (h : c < 0 ∨ c > 1) : compromise exactArith t1 t2 c = .err := by
  simp only [compromise, exactArith]
  rcases h with h | h
  · simp [h]
  · by_cases h0 : c < 0 <;> simp [h0, h]

/-- the same for every arithmetic (in particular the float64 one the code is compared with) -/
theorem compromise_rejects_any {κ : Type} (A : Arith κ) (t1 t2 : Table) (c : κ)
    (h : A.below0 c = true ∨ A.above1 c = true) : compromise A t1 t2 c = .err := by
  simp only [compromise]
  rcases h with h | h
  · simp [h]
  · cases h0 : A.below0 c <;> simp [h]

theorem comb_comm {κ : Type} (A : Arith κ) (hm : ∀ a b, A.mean a b = A.mean b a) (cw f s : Int) :
    comb A cw f s = comb A cw s f := by
  simp only [comb, Bool.or_comm (decide (f < cw)), hm f s]

/-- symmetry as maps for EVERY arithmetic whose mean is commutative: no fact about rounding is needed, so the
symmetry is exact, not up to ±1.  For `floatArith` the hypothesis `hm` is the IEEE fact that float64 addition
commutes; it CANNOT be discharged in Lean (`Float` is opaque to the kernel), so for the real function this is
a theorem only modulo that fact (gen/c18.py PARTIAL); the judge demands r12 = r21 as maps on every pair. -/
theorem compromise_symm_any {κ : Type} (A : Arith κ) (hm : ∀ a b, A.mean a b = A.mean b a)
    {t1 t2 : Table} (h : Compatible t1 t2 = true) (c : κ) (h0 : A.below0 c = false) (h1 : A.above1 c = false) :
    ∃ r12 r21, compromise A t1 t2 c = .ok r12 ∧ compromise A t2 t1 c = .ok r21 ∧
      (∀ q, q ∈ pairs r12 ↔ q ∈ pairs r21) ∧ ∀ l x, (l, x) ∈ pairs r12 → weightAt r12 l x = weightAt r21 l x := by
  obtain ⟨w1, w2, s12, s21⟩ := compatible_unpack h
  refine ⟨_, _, compromise_eq A w1 w2 s12 s21 c h0 h1, compromise_eq A w2 w1 s21 s12 c h0 h1, ?_, ?_⟩
  · intro q; rw [pairs_mapWeights, pairs_mapWeights]; exact ⟨s12 q, s21 q⟩
  · intro l x hp
    rw [pairs_mapWeights] at hp
    rw [weightAt_mapWeights w1 _ hp, weightAt_mapWeights w2 _ (s12 _ hp)]
    exact comb_comm A hm _ _ _

theorem finalCodons_triplets {κ : Type} (A : Arith κ) (cw ft st : Int) (sws : List Int) (cs : List Codon) :
    ∀ (i : Nat) (r : List Codon), finalCodons A cw ft st sws i cs = some r → r.map (·.triplet) = cs.map (·.triplet) := by
  induction cs with
  | nil => intro i r h; simp only [finalCodons, Option.some.injEq] at h; subst h; rfl
  | cons c rest ih =>
    intro i r h
    simp only [finalCodons] at h
    split at h
    · cases h
    · split at h
      · cases h
      · next r' hr' =>
        simp only [Option.some.injEq] at h
        subst h
        simp [ih _ _ hr']

theorem compromiseAAs_code {κ : Type} (A : Arith κ) (cw : Int) (t2 : Table) (aas : List AminoAcid) :
    ∀ r, compromiseAAs A cw t2 aas = some r →
      r.map (fun a => (a.letter, a.codons.map (·.triplet))) = aas.map (fun a => (a.letter, a.codons.map (·.triplet))) := by
  induction aas with
  | nil => intro r h; simp only [compromiseAAs, Option.some.injEq] at h; subst h; rfl
  | cons a rest ih =>
    intro r h
    simp only [compromiseAAs] at h
    split at h
    · cases h
    · next a' ha' =>
      split at h
      · cases h
      · next r' hr' =>
        simp only [Option.some.injEq] at h
        subst h
        simp only [compromiseAA] at ha'
        split at ha'
        · cases ha'
        · next cs hcs =>
          simp only [Option.some.injEq] at ha'
          subst ha'
          simp [ih _ hr', finalCodons_triplets _ _ _ _ _ _ _ _ hcs]

/-- whenever a table is returned — any two tables, any arithmetic — it has the first table's assignment,
order, start and stop codons -/
theorem compromise_keeps_code {κ : Type} (A : Arith κ) (t1 t2 : Table) (c : κ) (r : Table)
    (h : compromise A t1 t2 c = .ok r) : codeOf r = codeOf t1 := by
  simp only [compromise] at h
  split at h
  · cases h
  · split at h
    · cases h
    · split at h
      · cases h
      · next aas haas =>
        simp only [Outcome.ok.injEq] at h
        subst h
        simp only [codeOf, compromiseAAs_code _ _ _ _ _ haas]

/-- the rule of one codon: 0 below the cut-off, the mean of the two shares otherwise -/
def rule (cw f s : Int) : Int := if f < cw ∨ s < cw then 0 else (f + s) / 2

theorem nonneg_weightAt {t : Table} (hn : nonNeg t = true) (l x : Str) : 0 ≤ weightAt t l x := by
  simp only [weightAt, weightAtE]
  split
  · next e he =>
    have := List.mem_of_find?_eq_some he
    simp only [nonNeg, List.all_eq_true, decide_eq_true_eq] at hn
    exact hn e this
  · exact Int.le_refl 0

theorem pos_total {t : Table} (w : WF t) (hp : posTotals t = true) {l x : Str} (h : (l, x) ∈ pairs t) : 0 < totalOf t l := by
  obtain ⟨a, ha, c, hc, rfl, rfl⟩ := mem_pairs.1 h
  rw [totalOf_eq t a ha w.letters]
  simp only [posTotals, List.all_eq_true, decide_eq_true_eq] at hp
  exact hp a ha

theorem shareFloor_nonneg {w tot : Int} (hw : 0 ≤ w) (ht : 0 < tot) : 0 ≤ shareFloor w tot :=
  Int.ediv_nonneg (by omega) (by omega)

theorem exact_share {w tot : Int} (hw : 0 ≤ w) (ht : 0 < tot) : exactArith.share w tot = shareFloor w tot := by
  have : ¬ tot = 0 := by omega
  simp only [exactArith, this, if_false, shareFloor]
  exact Int.tdiv_eq_ediv_of_nonneg (by omega)

theorem exact_comb {cw f s : Int} (hf : 0 ≤ f) (hs : 0 ≤ s) : comb exactArith cw f s = rule cw f s := by
  simp only [comb, rule, exactArith, Bool.or_eq_true, decide_eq_true_eq]
  split
  · rfl
  · exact Int.tdiv_eq_ediv_of_nonneg (by omega)

/-- Under the property's hypotheses CompromiseCodonTable returns a table (no error, no panic) and every
codon's weight is `rule ⌊10000·c⌋ share₁ share₂` with the exact shares on the 10000 scale. -/
theorem compromise_weight {t1 t2 : Table} (h : Compatible t1 t2 = true)
    (n1 : nonNeg t1 = true) (n2 : nonNeg t2 = true) (p1 : posTotals t1 = true) (p2 : posTotals t2 = true)
    (c : Rat) (c0 : 0 ≤ c) (c1 : c ≤ 1) :
    ∃ r, compromise exactArith t1 t2 c = .ok r ∧ pairs r = pairs t1 ∧
      ∀ l x, (l, x) ∈ pairs t1 → weightAt r l x =
        rule (10000 * c).floor (shareFloor (weightAt t1 l x) (totalOf t1 l)) (shareFloor (weightAt t2 l x) (totalOf t2 l)) := by
  obtain ⟨w1, w2, s12, s21⟩ := compatible_unpack h
  have hb0 : exactArith.below0 c = false := by simp only [exactArith, decide_eq_false_iff_not]; exact Rat.not_lt.2 c0
  have hb1 : exactArith.above1 c = false := by simp only [exactArith, decide_eq_false_iff_not]; exact Rat.not_lt.2 c1
  refine ⟨_, compromise_eq exactArith w1 w2 s12 s21 c hb0 hb1, pairs_mapWeights _ _, ?_⟩
  intro l x hp
  rw [weightAt_mapWeights w1 _ hp]
  have hw1 := nonneg_weightAt n1 l x
  have hw2 := nonneg_weightAt n2 l x
  have ht1 := pos_total w1 p1 hp
  have ht2 := pos_total w2 p2 (s12 _ hp)
  rw [exact_share hw1 ht1, exact_share hw2 ht2, exact_comb (shareFloor_nonneg hw1 ht1) (shareFloor_nonneg hw2 ht2)]
  rfl

section clauses
variable {t1 t2 r : Table} (h : Compatible t1 t2 = true)
  (n1 : nonNeg t1 = true) (n2 : nonNeg t2 = true) (p1 : posTotals t1 = true) (p2 : posTotals t2 = true)
  {c : Rat} (c0 : 0 ≤ c) (c1 : c ≤ 1) (hr : compromise exactArith t1 t2 c = .ok r)
include h n1 n2 p1 p2 c0 c1 hr

theorem compromise_rule {l x : Str} (hp : (l, x) ∈ pairs t1) : weightAt r l x =
    rule (10000 * c).floor (shareFloor (weightAt t1 l x) (totalOf t1 l)) (shareFloor (weightAt t2 l x) (totalOf t2 l)) := by
  obtain ⟨r', h1, _, h3⟩ := compromise_weight h n1 n2 p1 p2 c c0 c1
  rw [hr] at h1
  cases h1
  exact h3 l x hp

/-- mean of the two per-amino-acid usage shares (scaled to 10000) when neither is below the cut-off -/
theorem compromise_mean {l x : Str} (hp : (l, x) ∈ pairs t1)
    (hf : (10000 * c).floor ≤ shareFloor (weightAt t1 l x) (totalOf t1 l))
    (hs : (10000 * c).floor ≤ shareFloor (weightAt t2 l x) (totalOf t2 l)) :
    weightAt r l x = (shareFloor (weightAt t1 l x) (totalOf t1 l) + shareFloor (weightAt t2 l x) (totalOf t2 l)) / 2 := by
  rw [compromise_rule h n1 n2 p1 p2 c0 c1 hr hp, rule, if_neg (by omega)]

/-- zero if either share is below the cut-off -/
theorem compromise_zero_below {l x : Str} (hp : (l, x) ∈ pairs t1)
    (hlow : shareFloor (weightAt t1 l x) (totalOf t1 l) < (10000 * c).floor ∨
            shareFloor (weightAt t2 l x) (totalOf t2 l) < (10000 * c).floor) :
    weightAt r l x = 0 := by
  rw [compromise_rule h n1 n2 p1 p2 c0 c1 hr hp, rule, if_pos hlow]

/-- a codon that keeps a positive weight is not rarer than the cut-off in either table -/
theorem compromise_never_rare {l x : Str} (hp : (l, x) ∈ pairs t1) (hpos : 0 < weightAt r l x) :
    (10000 * c).floor ≤ shareFloor (weightAt t1 l x) (totalOf t1 l) ∧
    (10000 * c).floor ≤ shareFloor (weightAt t2 l x) (totalOf t2 l) := by
  rw [compromise_rule h n1 n2 p1 p2 c0 c1 hr hp, rule] at hpos
  split at hpos
  · omega
  · omega

/-- "a gene optimised with a compromise table never uses a codon rarer than the cut-off in either organism":
for ANY optimiser that emits, per residue, only codons the table lists under that letter with positive weight
(C07 `optimize_threshold` states this of the model of codon.Optimize) -/
theorem optimize_compromise_never_rare (opt : Table → Str → List (Str × Str))
    (hopt : ∀ t p l x, (l, x) ∈ opt t p → (l, x) ∈ pairs t ∧ 0 < weightAt t l x)
    (p : Str) {l x : Str} (he : (l, x) ∈ opt r p) :
    (10000 * c).floor ≤ shareFloor (weightAt t1 l x) (totalOf t1 l) ∧
    (10000 * c).floor ≤ shareFloor (weightAt t2 l x) (totalOf t2 l) := by
  obtain ⟨hp, hpos⟩ := hopt r p l x he
  obtain ⟨r', h1, h2, _⟩ := compromise_weight h n1 n2 p1 p2 c c0 c1
  rw [hr] at h1
  cases h1
  rw [h2] at hp
  exact compromise_never_rare h n1 n2 p1 p2 c0 c1 hr hp hpos

end clauses

/-- symmetric in the two tables, as maps: same (letter, triplet) pairs, same weight for each -/
theorem compromise_symm {t1 t2 : Table} (h : Compatible t1 t2 = true)
    (n1 : nonNeg t1 = true) (n2 : nonNeg t2 = true) (p1 : posTotals t1 = true) (p2 : posTotals t2 = true)
    {c : Rat} (c0 : 0 ≤ c) (c1 : c ≤ 1) {r12 r21 : Table}
    (h12 : compromise exactArith t1 t2 c = .ok r12) (h21 : compromise exactArith t2 t1 c = .ok r21) :
    (∀ q, q ∈ pairs r12 ↔ q ∈ pairs r21) ∧ ∀ l x, (l, x) ∈ pairs r12 → weightAt r12 l x = weightAt r21 l x := by
  obtain ⟨_, _, s12, s21⟩ := compatible_unpack h
  have h' : Compatible t2 t1 = true := by
    simp only [Compatible, Bool.and_eq_true, sameCode] at h ⊢
    exact ⟨⟨h.1.2, h.1.1⟩, h.2.2, h.2.1⟩
  obtain ⟨ra, ha1, ha2, _⟩ := compromise_weight h n1 n2 p1 p2 c c0 c1
  obtain ⟨rb, hb1, hb2, _⟩ := compromise_weight h' n2 n1 p2 p1 c c0 c1
  rw [h12] at ha1; cases ha1
  rw [h21] at hb1; cases hb1
  refine ⟨fun q => by rw [ha2, hb2]; exact ⟨s12 q, s21 q⟩, ?_⟩
  intro l x hp
  rw [ha2] at hp
  rw [compromise_rule h n1 n2 p1 p2 c0 c1 h12 hp, compromise_rule h' n2 n1 p2 p1 c0 c1 h21 (s12 _ hp)]
  simp only [rule, Int.add_comm, Or.comm]

/-! ### non-vacuity: two small tables over one code, listed in different orders -/

def cod (x : String) (w : Int) : Codon := { triplet := x.toList, weight := w }
def tA : Table := { startCodons := ["TTG".toList], stopCodons := ["TAA".toList], aminoAcids :=
  [{ letter := "F".toList, codons := [cod "TTT" 3, cod "TTC" 1] },
   { letter := "L".toList, codons := [cod "TTA" 2, cod "TTG" 2, cod "CTT" 4] }] }
def tB : Table := { startCodons := ["ATG".toList], stopCodons := ["TGA".toList], aminoAcids :=
  [{ letter := "L".toList, codons := [cod "CTT" 1, cod "TTG" 3, cod "TTA" 0] },
   { letter := "F".toList, codons := [cod "TTC" 5, cod "TTT" 5] }] }

example : Compatible tA tB = true ∧ nonNeg tA = true ∧ nonNeg tB = true ∧ posTotals tA = true ∧ posTotals tB = true := by decide
example : addTable tA tB = { tA with aminoAcids :=
  [{ letter := "F".toList, codons := [cod "TTT" 8, cod "TTC" 6] },
   { letter := "L".toList, codons := [cod "TTA" 2, cod "TTG" 5, cod "CTT" 5] }] } := by decide
-- shares of tA: F 7500/2500, L 2500/2500/5000; of tB: F 5000/5000, L 0/7500/2500; cut-off 1/4 = 2500
example : compromise exactArith tA tB (1 / 4) = .ok { tA with aminoAcids :=
  [{ letter := "F".toList, codons := [cod "TTT" 6250, cod "TTC" 3750] },
   { letter := "L".toList, codons := [cod "TTA" 0, cod "TTG" 5000, cod "CTT" 3750] }] } := by decide +kernel
example : compromise exactArith tA tB (3 / 2) = .err := by decide +kernel

end PolyVerif.Props.C18
