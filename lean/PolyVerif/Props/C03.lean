import PolyVerif.Model.GenbankBuild
import PolyVerif.Spec.GbStrict
import PolyVerif.Lemmas.GbBuild
/-
C03 — GenBank write-then-read is the identity; writing is deterministic; the written text
follows the flat-file layout.
-/
namespace PolyVerif.Props.C03
open PolyVerif PolyVerif.StrBuild PolyVerif.GenbankBuild PolyVerif.Spec.GbStrict
open PolyVerif.Lemmas.GbBuild

/-! ### determinism -/

theorem buildFeatureString_order (f : Feature) (o₁ o₂ : List Nat) :
    buildFeatureString f o₁ = buildFeatureString f o₂ := by
  unfold buildFeatureString
  rw [sorted_rangeKeys f.attributes o₁ o₂]

theorem buildFeatures_order (q₁ q₂ : Nat → List Nat) : ∀ (fs : List Feature) (i : Nat),
    buildFeatures q₁ i fs = buildFeatures q₂ i fs
  | [], _ => rfl
  | f :: fs, i => by
    simp only [buildFeatures]
    rw [buildFeatureString_order f (q₁ i) (q₂ i), buildFeatures_order q₁ q₂ fs (i + 1)]

/-- Writing is deterministic: whatever order the Go runtime visits `Meta.Other` and every
feature's `Attributes` in, `Build` returns the same bytes.  (`MapOrders` ranges over ALL
iteration orders: `permute_perm`, `permute_surjective`.) -/
theorem build_deterministic (x : Sequence) (o₁ o₂ : MapOrders) : build x o₁ = build x o₂ := by
  unfold build
  simp only []
  rw [sorted_rangeKeys x.metadata.other o₁.other o₂.other, buildFeatures_order o₁.quals o₂.quals]

/-- non-vacuity: two maps, two genuinely different visiting orders -/
example :
    let m : List (Str × Str) := [("b".toList, "2".toList), ("a".toList, "1".toList), ("c".toList, "3".toList)]
    rangeKeys [2, 1, 0] m ≠ rangeKeys [] m ∧ sortStrings (rangeKeys [2, 1, 0] m) = ["a".toList, "b".toList, "c".toList] := by
  decide

/-! ### word wrap -/

/-- For every text without newline whose only white space is the blank, and every limit,
`WrapString` replaces some runs of blanks by one newline each (and may drop a final run of
blanks); it never touches a word. -/
theorem wrap_breaks_only_at_blanks (t : Str) (lim : Nat) (h : Plain t) : Wrapped (wrapString t lim) t :=
  wrapString_wrapped t lim h

/-- wrap / unwrap inversion, the lemma the round trip of every metadata field rests on: for
single-spaced text of ANY length (words of any length, any wrap limit), joining the lines
`WrapString` produces with single blanks gives the text back. -/
theorem wrap_unwrap (t : Str) (lim : Nat) (h : singleSpaced t = true) :
    joinSp (splitChar '\n' (wrapString t lim)) = t := by
  rw [splitChar_nl_eq_lines, joinSp_lines]
  by_cases h0 : t = []
  · subst h0
    simp [wrapString, wrapGo, denl]
  · have hs : spacedFrom false t = true := by simpa [singleSpaced, h0] using h
    exact (wrapString_wrapped t lim (plain_of_spacedFrom t false hs)).denl_eq false hs

/-- non-vacuity: a text that is wrapped (two breaks at limit 20) -/
example : singleSpaced "the quick brown fox jumps over the lazy dog again".toList = true
    ∧ wrapString "the quick brown fox jumps over the lazy dog again".toList 20
        = "the quick brown fox\njumps over the lazy\ndog again".toList := by decide

/-- the hypothesis is needed: a double blank at a break is lost -/
example : joinSp (splitChar '\n' (wrapString "aaaa  bbbb".toList 6)) ≠ "aaaa  bbbb".toList := by decide

/-! ### cached or structural location -/

/-- the qualifier lines of a feature: `/key="value"` at column 22, one line each, keys ascending -/
def qualifierLines (f : Feature) (o : List Nat) : Str :=
  ((sortStrings (rangeKeys o f.attributes)).map fun q =>
    spaces 21 ++ ['/'] ++ q ++ "=\"".toList ++ lookupD f.attributes q ++ "\"\n".toList).flatten

/-- the location column of a feature line is the cached text when there is one, and
`BuildLocationString` of the structure otherwise -/
theorem build_cached_or_structural (f : Feature) (o : List Nat) :
    (f.gbkLocationString ≠ [] →
      buildFeatureString f o = spaces 5 ++ f.type ++ spaces (16 - f.type.length) ++ f.gbkLocationString ++ ['\n']
        ++ qualifierLines f o)
    ∧ (f.gbkLocationString = [] →
      buildFeatureString f o = spaces 5 ++ f.type ++ spaces (16 - f.type.length)
        ++ Location.buildLoc f.sequenceLocation ++ ['\n'] ++ qualifierLines f o) := by
  constructor <;> intro h <;> simp [buildFeatureString, qualifierLines, h]

end PolyVerif.Props.C03
