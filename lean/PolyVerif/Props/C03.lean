import PolyVerif.Model.GenbankBuild
import PolyVerif.Spec.GbStrict
/-
C03 — GenBank write-then-read is the identity; writing is deterministic; the written text
follows the flat-file layout.
-/
namespace PolyVerif.Props.C03
open PolyVerif PolyVerif.StrBuild PolyVerif.GenbankBuild PolyVerif.Spec.GbStrict

/-- the qualifier lines of a feature: `/key="value"` at column 22, one line each, keys ascending -/
def qualifierLines (f : Feature) (o : List Nat) : Str :=
  ((sortStrings (rangeKeys o f.attributes)).map fun q =>
    spaces 21 ++ ['/'] ++ q ++ "=\"".toList ++ lookupD f.attributes q ++ "\"\n".toList).flatten

/-- the location column of a feature line is the cached text when there is one, and
`BuildLocationString` of the structure otherwise -/
theorem build_cached_or_structural (f : Feature) (o : List Nat) :
    (f.gbkLocationString ≠ [] →
      buildFeatureString f o = spaces 5 ++ f.type ++ spaces (16 - f.type.length) ++ f.gbkLocationString ++ ['\n']
        ++ qualifierLines f o)
    ∧ (f.gbkLocationString = [] →
      buildFeatureString f o = spaces 5 ++ f.type ++ spaces (16 - f.type.length)
        ++ Location.buildLoc f.sequenceLocation ++ ['\n'] ++ qualifierLines f o) := by
  constructor <;> intro h <;> simp [buildFeatureString, qualifierLines, h]

end PolyVerif.Props.C03
