import PolyVerif.Model.GenbankBuild
import PolyVerif.Spec.GbStrict
import PolyVerif.Lemmas.GbBuild
import PolyVerif.Lemmas.GbCompose
import PolyVerif.Lemmas.GbLayoutJ
import PolyVerif.Lemmas.GbBlankRun
/-
C03 — GenBank write-then-read is the identity; writing is deterministic; the written text
follows the flat-file layout.
-/
namespace PolyVerif.Props.C03
open PolyVerif PolyVerif.StrBuild PolyVerif.GenbankBuild PolyVerif.Spec.GbStrict
open PolyVerif.Lemmas.GbBuild

/-! ### determinism -/

/-- Writing is deterministic: whatever order the Go runtime visits `Meta.Other` and every
feature's `Attributes` in, `Build` returns the same bytes.  (`MapOrders` ranges over ALL
iteration orders: `permute_perm`, `permute_surjective`.) -/
theorem build_deterministic (x : Sequence) (o₁ o₂ : MapOrders) : build x o₁ = build x o₂ :=
  build_order_irrelevant x o₁ o₂

/-- non-vacuity: two maps, two genuinely different visiting orders -/
example :
    let m : List (Str × Str) := [("b".toList, "2".toList), ("a".toList, "1".toList), ("c".toList, "3".toList)]
    rangeKeys [2, 1, 0] m ≠ rangeKeys [] m ∧ sortStrings (rangeKeys [2, 1, 0] m) = ["a".toList, "b".toList, "c".toList] := by
  decide

/-! ### word wrap -/

/-- For every text without newline whose only white space is the blank, and every limit,
`WrapString` replaces some runs of blanks by one newline each (and may drop a final run of
blanks); it never touches a word. -/
theorem wrap_breaks_only_at_blanks (t : Str) (lim : Nat) (h : Plain t) : Wrapped (wrapString t lim) t :=
  wrapString_wrapped t lim h

/-- wrap / unwrap inversion, the lemma the round trip of every metadata field rests on: for
single-spaced text of ANY length (words of any length, any wrap limit), joining the lines
`WrapString` produces with single blanks gives the text back. -/
theorem wrap_unwrap (t : Str) (lim : Nat) (h : singleSpaced t = true) :
    joinSp (splitChar '\n' (wrapString t lim)) = t := by
  rw [splitChar_nl_eq_lines, joinSp_lines]
  by_cases h0 : t = []
  · subst h0
    simp [wrapString, wrapGo, denl]
  · have hs : spacedFrom false t = true := by simpa [singleSpaced, h0] using h
    exact (wrapString_wrapped t lim (plain_of_spacedFrom t false hs)).denl_eq false hs

/-- non-vacuity: a text that is wrapped (two breaks at limit 20) -/
example : singleSpaced "the quick brown fox jumps over the lazy dog again".toList = true
    ∧ wrapString "the quick brown fox jumps over the lazy dog again".toList 20
        = "the quick brown fox\njumps over the lazy\ndog again".toList := by decide

/-- the hypothesis is needed: a double blank at a break is lost -/
example : joinSp (splitChar '\n' (wrapString "aaaa  bbbb".toList 6)) ≠ "aaaa  bbbb".toList := by decide

/-! ### the written text follows the flat-file layout -/

/-- The layout domain = the JUDGE's layout domain `wfLayoutJ` minus the two known findings
(every conjunct decidable, see `Spec/GbStrict.lean`):
locus name a non-empty blank-free word, length digits (or empty), molecule type one of poly's twelve
(or empty), division one of the eighteen (or empty), date `dd-MMM-yyyy` (or empty); the six metadata
texts, every reference field and every extra-block value printable ASCII of ANY length without a
blank at either end, RUNS OF BLANKS INSIDE ALLOWED as long as none of them falls on a wrap point of
`WrapString(_, 68)` (`!clsBlankRun x`: a SYNTACTIC condition on the value and the writer's wrap column —
`WrapString` writes as many characters as the text has; no reader occurs in it); a reference number that
is unset or a blank-free word; extra
keywords distinct, ≤ 11 letters (set off from their text by a blank), beginning with a letter, not one of the writer's own keywords;
feature keys ≤ 15 columns; qualifier keys distinct blank-free words without `=`; qualifier values
printable ASCII of any length; cached location text blank-free, else a structure that is a location (`wfLoc`);
sequence 1 ≤ length < 10^9 letters. -/
def WFLayout (x : Sequence) : Prop := wfLayoutG x = true

instance (x : Sequence) : Decidable (WFLayout x) := by unfold WFLayout; infer_instance

/-- **The exact result on the whole judge's layout domain with a locus name** — nothing about blank runs
is assumed.  For every such record and every map iteration order the independent strict column reader
recovers from the text `Build` writes exactly `abs (expectedBack x)`: the record in which every metadata
text is replaced by what its wrapped lines re-join to (`readBack`: a run of blanks that falls on a wrap
point comes back as one blank) and an unset reference number by the position.  The layout clause below and
the failure of the class `C03-blank-run-at-wrap` are both corollaries. -/
theorem build_strict_layout_exact (x : Sequence) (o : MapOrders) (h : wfLayoutJ x = true)
    (hname : x.metadata.locus.name ≠ []) :
    strictRead (build x o) = some (abs (expectedBack x)) := by
  rw [build_deterministic x o MapOrders.id]
  exact PolyVerif.Lemmas.GbLayoutJ.strict_layout_exact x (PolyVerif.Lemmas.GbBlankRun.facts0_of_wfLayoutJ x h hname)

/-- the former domain (single-spaced metadata) lies inside it -/
theorem wfLayout_subset (x : Sequence) (h : wfLayout x = true) :
    strictRead (build x MapOrders.id) = some (abs x) :=
  PolyVerif.Lemmas.GbLayoutJ.strict_layout_of_facts x (PolyVerif.Lemmas.GbLayoutJ.facts_of_wfLayout x h)

/-- **Layout clause** (`_partial` only in that it excludes the two known findings
`C03-blank-run-at-wrap` and `C03-nameless-locus`; on BOTH classes the clause fails for EVERY record:
`blank_run_class_fails`, `nameless_class_fails`, hence `layout_clause_iff`).
For every record of the judge's layout domain outside those two classes
and every map iteration order, the
independent strict column reader (keyword = columns 1-12, continuation ⇔ 12 leading blanks, feature
key in columns 6-20 / location from column 22, qualifier `/k="v"` at column 22, ORIGIN counter in
columns 1-9 then groups of 10, terminator `//`) recovers exactly `abs x` from the text `Build`
writes — with metadata wrapped over any number of lines (runs of blanks inside a line are kept), any
number of references, extra blocks, features and qualifiers, and a sequence of any length below 10^9.
Every reference is recovered with its number: its own `Index` when set (any blank-free word — no
positional numbering is assumed here), else its position (`refNum`).  The clause "with and without
cached location text" is part of this statement: the location column the reader must find is the cached
text when there is one and `BuildLocationString` of the structure otherwise (`absFeat`). -/
theorem build_strict_layout_partial (x : Sequence) (o : MapOrders) (h : WFLayout x) :
    strictRead (build x o) = some (abs x) := by
  rw [build_deterministic x o MapOrders.id]
  exact PolyVerif.Lemmas.GbLayoutJ.strict_layout_of_facts x (PolyVerif.Lemmas.GbBlankRun.facts_of_wfLayoutG x h)

/-! ### the two excluded classes: syntactic, disjoint, and the clause fails on every record of them -/

/-- **`C03-blank-run-at-wrap` fails the clause, universally.**  For EVERY record of the judge's layout
domain in the class and every map order, the strict reader does not recover `abs x`: what it recovers
(`build_strict_layout_exact`) holds strictly fewer characters of metadata text than the record given. -/
theorem blank_run_class_fails (x : Sequence) (o : MapOrders) (h : wfLayoutJ x = true) (hc : clsBlankRun x = true) :
    strictRead (build x o) = some (abs (expectedBack x)) ∧ abs (expectedBack x) ≠ abs x
      ∧ strictRead (build x o) ≠ some (abs x) := by
  have hname : x.metadata.locus.name ≠ [] := by
    simp only [clsBlankRun, Bool.and_eq_true, bne_iff_ne, ne_eq] at hc
    exact hc.1
  have hlt := PolyVerif.Lemmas.GbBlankRun.recSize_expectedBack_lt x h hc
  have hne : abs (expectedBack x) ≠ abs x := fun e => by rw [e] at hlt; exact Nat.lt_irrefl _ hlt
  have hex := build_strict_layout_exact x o h hname
  exact ⟨hex, hne, fun e => hne (Option.some.inj (hex.symm.trans e))⟩

/-- **the class is syntactic**: a record of the class holds, in one of the metadata texts that `Build`
passes through `WrapString`, two adjacent blanks (`hasBlankRun`) — and (definition of `clsBlankRun`)
`WrapString` writes fewer characters for that text than it has.  Nothing else that a reader could lose
is hidden in the class. -/
theorem blank_run_class_syntactic (x : Sequence) (h : wfLayoutJ x = true) (hc : clsBlankRun x = true) :
    ∃ t ∈ metaTexts x, hasBlankRun t = true :=
  PolyVerif.Lemmas.GbBlankRun.cls_hasBlankRun x h hc

/-- **`C03-nameless-locus` fails the clause, universally** (no other hypothesis on the record): the strict
reader never returns a record without a locus name, whatever the text. -/
theorem nameless_class_fails (x : Sequence) (o : MapOrders) (hc : clsNameless x = true) :
    strictRead (build x o) ≠ some (abs x) := by
  intro e
  have := PolyVerif.Lemmas.GbBlankRun.strictRead_name e
  simp only [clsNameless, beq_iff_eq] at hc
  exact this hc

/-- the judge's layout domain is PARTITIONED: every record of it lies in exactly one of the theorem's
domain, the class `C03-blank-run-at-wrap`, the class `C03-nameless-locus` (name-less first: a name-less
record with a blank run at a wrap point is in the name-less class only) -/
theorem layout_domain_partition (x : Sequence) (h : wfLayoutJ x = true) :
    (WFLayout x ∨ clsBlankRun x = true ∨ clsNameless x = true)
      ∧ ¬(WFLayout x ∧ clsBlankRun x = true) ∧ ¬(WFLayout x ∧ clsNameless x = true)
      ∧ ¬(clsBlankRun x = true ∧ clsNameless x = true) := by
  unfold WFLayout wfLayoutG clsNameless
  have hb : clsBlankRun x = true → (x.metadata.locus.name == []) = false := by
    intro hc
    simp only [clsBlankRun, Bool.and_eq_true, bne_iff_ne, ne_eq] at hc
    simpa using hc.1
  cases hc : clsBlankRun x <;> cases hn : (x.metadata.locus.name == []) <;> simp_all

/-- **the layout clause holds exactly on the theorem's domain**: on the judge's layout domain, the strict
reader recovers `abs x` from `build x o` if and only if the record is in neither class -/
theorem layout_clause_iff (x : Sequence) (o : MapOrders) (h : wfLayoutJ x = true) :
    strictRead (build x o) = some (abs x) ↔ WFLayout x := by
  constructor
  · intro e
    rcases (layout_domain_partition x h).1 with hw | hc | hc
    · exact hw
    · exact absurd e (blank_run_class_fails x o h hc).2.2
    · exact absurd e (nameless_class_fails x o hc)
  · exact build_strict_layout_partial x o

/-- a record with wrapped metadata, a reference with sub-blocks, two extra keyword blocks (given
out of order), a structural join location, a cached location, unsorted qualifiers and 70 bases -/
def exampleRecord : Sequence :=
  { metadata :=
      { locus := { name := "pUC19".toList, sequenceLength := "70".toList, moleculeType := "genomic DNA".toList,
                   genbankDivision := "SYN".toList, modificationDate := "01-JAN-2020".toList, circular := true },
        definition := "Cloning vector pUC19 complete sequence with a definition long enough to be wrapped onto a second line".toList,
        accession := "L09137".toList, version := "L09137.2".toList, keywords := [],
        source := "synthetic construct".toList, organism := "synthetic construct".toList,
        references := [{ index := "1".toList, authors := "Norrander,J. and Messing,J.".toList, title := "Improved M13 vectors".toList,
                         range := "(bases 1 to 70)".toList }],
        other := [("DBLINK".toList, "BioProject: PRJNA1".toList), ("COMMENT".toList, "a comment".toList)] },
    features :=
      [ { type := "CDS".toList,
          sequenceLocation := { join := true, subs := [{ start := 0, stop := 10, five := true }, { start := 20, stop := 30, complement := true }] },
          attributes := [("product".toList, "beta \"lactamase\"".toList), ("gene".toList, "bla".toList)] },
        { type := "misc_feature".toList, gbkLocationString := "complement(5..>60)".toList } ],
    sequence := "acgtacgtacgtacgtacgtacgtacgtacgtacgtacgtacgtacgtacgtacgtacgtacgtacgtac".toList }

/-- non-vacuity: the example lies in the layout domain … -/
example : WFLayout exampleRecord := by decide +kernel

/-- … and so does a record whose definition holds a run of three blanks that stays inside a line -/
example : WFLayout { exampleRecord with metadata := { exampleRecord.metadata with definition := "two   words".toList } } := by
  decide +kernel

/-- … and, as a test of the statement on it, the reader does recover the record (kernel evaluation) -/
example : strictRead (build exampleRecord { other := [1, 0], quals := fun _ => [1] }) = some (abs exampleRecord) := by
  decide

/-- outside the domain the clause fails: a 13-column extra keyword is cut by the column reader -/
example :
    let x : Sequence := { exampleRecord with metadata := { exampleRecord.metadata with other := [("ABCDEFGHIJKLM".toList, "v".toList)] } }
    ¬ WFLayout x ∧ strictRead (build x {}) ≠ some (abs x) := by decide +kernel

/-! ### known findings: kernel-checked witnesses -/

/-- 68 columns of words, then TWO blanks, then more words: the run falls on the wrap point -/
def blankRunText : Str :=
  "abcdefghi abcdefghi abcdefghi abcdefghi abcdefghi abcdefghi bbbbbbb  tail words".toList

def blankRunRecord : Sequence :=
  { metadata := { locus := { name := "x".toList }, definition := blankRunText }, sequence := "acgt".toList }

/-- `C03-blank-run-at-wrap`, on the text: printable, no blank at either end, yet wrap-then-join loses a blank -/
theorem blank_run_at_wrap_witness :
    ¬ (∀ t : Str, textJ t = true → joinSp (splitChar '\n' (wrapString t 68)) = t) := by
  intro h
  exact absurd (h blankRunText (by decide)) (by decide)

/-- … and on the record: it is in the judge's layout domain, the independent reader does NOT recover it
from what `Build` writes, it recovers exactly what the finding predicts -/
theorem blank_run_at_wrap_record_witness :
    wfLayoutJ blankRunRecord = true ∧ clsBlankRun blankRunRecord = true
      ∧ strictRead (build blankRunRecord {}) ≠ some (abs blankRunRecord)
      ∧ strictRead (build blankRunRecord {}) = some (abs (expectedBack blankRunRecord)) := by
  decide +kernel

/-- `C03-nameless-locus`: a record assembled without a locus name is in the judge's domain, in this class
and not in the other, and is not recovered: the LOCUS line `LOCUS            4 bp …` is read one token to
the left, exactly as the finding predicts (`expectedBack`: the length is taken for the name) -/
theorem nameless_locus_witness :
    let x : Sequence := { metadata := { locus := { sequenceLength := "4".toList } }, sequence := "acgt".toList }
    wfLayoutJ x = true ∧ clsNameless x = true ∧ clsBlankRun x = false
      ∧ strictRead (build x {}) ≠ some (abs x)
      ∧ strictRead (build x {}) = some (abs (expectedBack x)) := by
  decide +kernel

/-- the two classes do not overlap: the record of the blank-run witness WITHOUT its name is in the
name-less class only, and what is read back is again the prediction (blank lost AND tokens shifted) -/
theorem nameless_first_witness :
    let x : Sequence := { blankRunRecord with metadata := { blankRunRecord.metadata with locus := { sequenceLength := "4".toList } } }
    wfLayoutJ x = true ∧ clsNameless x = true ∧ clsBlankRun x = false
      ∧ strictRead (build x {}) = some (abs (expectedBack x)) := by
  decide +kernel

end PolyVerif.Props.C03
