import PolyVerif.Lemmas.DeBruijnCert
import PolyVerif.Gen.DeBruijnCert11
import PolyVerif.Props.C17Cert11a
import PolyVerif.Props.C17Cert11b
import PolyVerif.Props.C17Cert11c
/-
C17, order 11 — kernel-checked, no `native_decide` (see Props/C17Cert.lean for the method).
`Gen/DeBruijnCert11.lean` is regenerated on every run from `primers.NucleobaseDeBruijnSequence(11)`
of the running code; the 65 segment evaluations are in Props/C17Cert11a/b/c.
-/
namespace PolyVerif.Props.C17
open PolyVerif PolyVerif.Spec PolyVerif.Gen

/-- the text returned by `NucleobaseDeBruijnSequence(11)`, as extracted -/
def generated11 : Str := seqStr DB11.chunkSymbols DB11.segs.flatten DB11.seqLength

/-- order 11: the generated sequence has length 4¹¹+10 and contains every 11-letter word exactly once
(and, what the barcode laws use, its 11-letter windows are pairwise different) -/
theorem generated11_isDeBruijn : IsDeBruijn 11 generated11 ∧ (windows 11 generated11).Nodup := by
  have h := segments_isDeBruijn 11 (by omega) DB11.lk 128 DB11.segs DB11.states (by decide)
    (by
      intro j hj
      have : j = 0 ∨ j = 1 ∨ j = 2 ∨ j = 3 ∨ j = 4 ∨ j = 5 ∨ j = 6 ∨ j = 7 ∨ j = 8 ∨ j = 9 ∨ j = 10 ∨ j = 11 ∨ j = 12 ∨ j = 13 ∨ j = 14 ∨ j = 15 ∨ j = 16 ∨ j = 17 ∨ j = 18 ∨ j = 19 ∨ j = 20 ∨ j = 21 ∨ j = 22 ∨ j = 23 ∨ j = 24 ∨ j = 25 ∨ j = 26 ∨ j = 27 ∨ j = 28 ∨ j = 29 ∨ j = 30 ∨ j = 31 ∨ j = 32 ∨ j = 33 ∨ j = 34 ∨ j = 35 ∨ j = 36 ∨ j = 37 ∨ j = 38 ∨ j = 39 ∨ j = 40 ∨ j = 41 ∨ j = 42 ∨ j = 43 ∨ j = 44 ∨ j = 45 ∨ j = 46 ∨ j = 47 ∨ j = 48 ∨ j = 49 ∨ j = 50 ∨ j = 51 ∨ j = 52 ∨ j = 53 ∨ j = 54 ∨ j = 55 ∨ j = 56 ∨ j = 57 ∨ j = 58 ∨ j = 59 ∨ j = 60 ∨ j = 61 ∨ j = 62 ∨ j = 63 ∨ j = 64 := by
        have : DB11.segs.length = 65 := by decide
        omega
      rcases this with rfl | rfl | rfl | rfl | rfl | rfl | rfl | rfl | rfl | rfl | rfl | rfl | rfl | rfl | rfl | rfl | rfl | rfl | rfl | rfl | rfl | rfl | rfl | rfl | rfl | rfl | rfl | rfl | rfl | rfl | rfl | rfl | rfl | rfl | rfl | rfl | rfl | rfl | rfl | rfl | rfl | rfl | rfl | rfl | rfl | rfl | rfl | rfl | rfl | rfl | rfl | rfl | rfl | rfl | rfl | rfl | rfl | rfl | rfl | rfl | rfl | rfl | rfl | rfl | rfl
      · exact cert11_seg0
      · exact cert11_seg1
      · exact cert11_seg2
      · exact cert11_seg3
      · exact cert11_seg4
      · exact cert11_seg5
      · exact cert11_seg6
      · exact cert11_seg7
      · exact cert11_seg8
      · exact cert11_seg9
      · exact cert11_seg10
      · exact cert11_seg11
      · exact cert11_seg12
      · exact cert11_seg13
      · exact cert11_seg14
      · exact cert11_seg15
      · exact cert11_seg16
      · exact cert11_seg17
      · exact cert11_seg18
      · exact cert11_seg19
      · exact cert11_seg20
      · exact cert11_seg21
      · exact cert11_seg22
      · exact cert11_seg23
      · exact cert11_seg24
      · exact cert11_seg25
      · exact cert11_seg26
      · exact cert11_seg27
      · exact cert11_seg28
      · exact cert11_seg29
      · exact cert11_seg30
      · exact cert11_seg31
      · exact cert11_seg32
      · exact cert11_seg33
      · exact cert11_seg34
      · exact cert11_seg35
      · exact cert11_seg36
      · exact cert11_seg37
      · exact cert11_seg38
      · exact cert11_seg39
      · exact cert11_seg40
      · exact cert11_seg41
      · exact cert11_seg42
      · exact cert11_seg43
      · exact cert11_seg44
      · exact cert11_seg45
      · exact cert11_seg46
      · exact cert11_seg47
      · exact cert11_seg48
      · exact cert11_seg49
      · exact cert11_seg50
      · exact cert11_seg51
      · exact cert11_seg52
      · exact cert11_seg53
      · exact cert11_seg54
      · exact cert11_seg55
      · exact cert11_seg56
      · exact cert11_seg57
      · exact cert11_seg58
      · exact cert11_seg59
      · exact cert11_seg60
      · exact cert11_seg61
      · exact cert11_seg62
      · exact cert11_seg63
      · exact cert11_seg64)
    (by decide) (by decide)
  exact h

end PolyVerif.Props.C17
