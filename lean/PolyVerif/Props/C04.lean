import PolyVerif.Model.Seqhash
/-
C04 — Seqhash is invariant under rotation, strand, case and RNA/DNA spelling.
-/
namespace PolyVerif.Props.C04
open PolyVerif PolyVerif.Seqhash PolyVerif.Transform

theorem tag_length (ty : String) (c d : Bool) : (tag ty c d).length = 3 := rfl

end PolyVerif.Props.C04
