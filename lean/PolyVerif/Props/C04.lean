import PolyVerif.Lemmas.SeqhashSpec
import PolyVerif.Driver.C04
import PolyVerif.Props.C12Booth
/-
C04 — Seqhash is invariant under rotation, strand, case and RNA/DNA spelling.

All four clauses are proved for EVERY digest function `blake`, every string of every length,
every offset, over `hashSpec` = the statement-by-statement model of `seqhash.Hash` with the
rotation step given by the arg-min least rotation (`Spec.leastRotation`), and then transferred to
`hash` (rotation step = the Booth loop of the code) through C12's `booth_least`
(`hash_model_eq_spec`, `model_hash_*` at the end; `hashWith_congr` is the general bridge).  Helper lemmas: Lemmas/SeqhashSpec.lean, Lemmas/RotationSpec.lean.

ASCII.  None of the theorems needs an ASCII hypothesis on the model side: `Char.toUpper` /
`Char.toLower` move only `a–z` / `A–Z` (`ascii_or_fixed`; the ASCII part is decided over all
128 code points), and acceptance already confines the normalised letters to the finite
alphabets.  The model agrees with Go's `strings.ToUpper` only on ASCII input, which is the
correspondence domain (assumption "inputs are ASCII" of the check).
-/
namespace PolyVerif.Props.C04
open PolyVerif PolyVerif.Seqhash PolyVerif.Transform PolyVerif.Spec

/-! ### rotation -/

/-- hashing any rotation of a sequence as a circular molecule yields the identical seqhash
(single- or double-stranded; any type; on rejected input both sides are the same error) -/
theorem hash_rot (blake : List UInt8 → List UInt8) (s : Str) (ty : String) (ds : Bool) (k : Nat) :
    hashSpec blake (rotl k s) ty true ds = hashSpec blake s ty true ds := by
  by_cases ha : Accepted ty ds (norm ty s)
  · have ha' : Accepted ty ds (norm ty (rotl k s)) := by rw [norm_rotl, accepted_rotl]; exact ha
    rw [hashSpec_ok _ _ _ _ _ ha, hashSpec_ok _ _ _ _ _ ha', norm_rotl, canonSpec_rotl]
  · have ha' : ¬ Accepted ty ds (norm ty (rotl k s)) := by rw [norm_rotl, accepted_rotl]; exact ha
    rw [hashSpec_err _ _ _ _ _ ha, hashSpec_err _ _ _ _ _ ha']

/-- the reverse complement of a rotation is a rotation of the reverse complement (offset `n - k`) -/
theorem revComp_rotl (k : Nat) (s : Str) :
    revComp (rotl k s) = rotl (s.length - k % s.length) (revComp s) := Seqhash.revComp_rotl k s

/-! ### strand -/

/-- hashing the reverse complement as a double-stranded nucleic acid yields the identical seqhash.
Domain of the clause: the normalised sequence (upper-cased, `U → T` under RNA) is over the 15
IUPAC codes `ACGTRYSWKMBDHVN` — i.e. the input is over those codes in either case, with `U/u`
allowed only under type RNA. -/
theorem hash_strand (blake : List UInt8 → List UInt8) (s : Str) (ty : String) (c : Bool)
    (h : Iupac15 (norm ty s)) :
    hashSpec blake (revComp s) ty c true = hashSpec blake s ty c true := by
  have hn := norm_revComp h
  have hacc : Accepted ty true (norm ty (revComp s)) ↔ Accepted ty true (norm ty s) := by
    rw [hn]
    have key : ∀ t, Iupac15 t → (Accepted ty true t ↔ (ty = "DNA" ∨ ty = "RNA")) := by
      intro t ht
      constructor
      · rintro (⟨h', _⟩ | ⟨_, _, h'⟩)
        · exact h'
        · exact absurd h' (by simp)
      · intro h'
        exact Or.inl ⟨h', fun x hx => upperCodes_sub_nucleotide x (ht x hx)⟩
    rw [key _ h.revComp, key _ h]
  by_cases ha : Accepted ty true (norm ty s)
  · rw [hashSpec_ok _ _ _ _ _ ha, hashSpec_ok _ _ _ _ _ (hacc.2 ha), hn, canonSpec_revComp h.rc_rc]
  · rw [hashSpec_err _ _ _ _ _ ha, hashSpec_err _ _ _ _ _ (fun h' => ha (hacc.1 h'))]

/-! ### case -/

/-- any input with the same upper-casing has the same hash (all types, all flags; also for the
Booth-loop model, since `Hash` upper-cases first) -/
theorem hashWith_of_upper_eq (rot : Str → Option Str) (blake : List UInt8 → List UInt8) {s s' : Str}
    (h : upper s' = upper s) (ty : String) (c d : Bool) :
    hashWith rot blake s' ty c d = hashWith rot blake s ty c d := by
  have hany : s'.any (fun c => decide (c.toNat > 127)) = s.any (fun c => decide (c.toNat > 127)) := by
    rw [← any_nonascii_upper s', ← any_nonascii_upper s, h]
  unfold hashWith
  rw [h, hany]

theorem hash_of_upper_eq (blake : List UInt8 → List UInt8) {s s' : Str} (h : upper s' = upper s)
    (ty : String) (c d : Bool) : hashSpec blake s' ty c d = hashSpec blake s ty c d :=
  hashWith_of_upper_eq _ blake h ty c d

/-- an arbitrary per-position change of case: position `i` is lower-cased when `f i`, upper-cased otherwise -/
def recase (f : Nat → Bool) (s : Str) : Str :=
  s.zipIdx.map fun (c, i) => if f i then c.toLower else c.toUpper

theorem upper_recase_aux (f : Nat → Bool) : ∀ (s : Str) (k : Nat),
    ((s.zipIdx k).map fun (c, i) => if f i then c.toLower else c.toUpper).map Char.toUpper = s.map Char.toUpper
  | [], _ => rfl
  | c :: cs, k => by
    simp only [List.zipIdx_cons, List.map_cons, List.cons.injEq]
    refine ⟨?_, upper_recase_aux f cs (k + 1)⟩
    split
    · exact toUpper_toLower c
    · exact toUpper_toUpper c

/-- recasing does not change the upper-cased string -/
theorem upper_recase (f : Nat → Bool) (s : Str) : upper (recase f s) = upper s :=
  upper_recase_aux f s 0

theorem recase_length (f : Nat → Bool) (s : Str) : (recase f s).length = s.length := by
  simp [recase]

/-- changing the case of the letters, position by position in any way, yields the identical seqhash -/
theorem hash_case (blake : List UInt8 → List UInt8) (f : Nat → Bool) (s : Str) (ty : String) (c d : Bool) :
    hashSpec blake (recase f s) ty c d = hashSpec blake s ty c d :=
  hash_of_upper_eq blake (upper_recase f s) ty c d

/-- the recasing used by the check's driver is an instance -/
theorem driver_recase (mask s : Str) :
    Driver.C04.recase mask s =
      if mask.isEmpty then s else recase (fun i => mask[i % mask.length]! == 'l') s := rfl

theorem hash_case_driver (blake : List UInt8 → List UInt8) (mask s : Str) (ty : String) (c d : Bool) :
    hashSpec blake (Driver.C04.recase mask s) ty c d = hashSpec blake s ty c d := by
  rw [driver_recase]
  split
  · rfl
  · exact hash_case blake _ s ty c d

/-! ### RNA / DNA spelling -/

theorem table_nucleotide_upper : ∀ c ∈ nucleotideLetters, c.toUpper = c := by decide

/-- An RNA sequence and the same sequence spelled as DNA (upper case, `U` written as `T`) receive
seqhashes that differ only in the molecule-type letter (position 3: `R` vs `D`). -/
theorem hash_rna_dna (blake : List UInt8 → List UInt8) (s : Str) (c d : Bool) (h : Str)
    (hr : hashSpec blake s "RNA" c d = .ok h) :
    hashSpec blake (uToT (upper s)) "DNA" c d = .ok (h.set 3 'D') ∧ h[3]? = some 'R' := by
  obtain ⟨hacc, rfl⟩ := hashSpec_ok_iff.1 hr
  have hnR : norm "RNA" s = uToT (upper s) := by simp [norm]
  rw [hnR] at hacc ⊢
  have hlet : ∀ x ∈ uToT (upper s), x ∈ nucleotideLetters := by
    rcases hacc with ⟨_, hl⟩ | ⟨hp, _⟩
    · exact hl
    · exact absurd hp (by decide)
  have hnD : norm "DNA" (uToT (upper s)) = uToT (upper s) := by
    have : norm "DNA" (uToT (upper s)) = upper (uToT (upper s)) := by
      unfold norm; rw [if_neg (by decide)]
    rw [this]
    unfold upper
    conv => rhs; rw [← List.map_id (uToT (List.map Char.toUpper s))]
    apply List.map_congr_left
    intro x hx
    exact table_nucleotide_upper x (hlet x hx)
  have haccD : Accepted "DNA" d (norm "DNA" (uToT (upper s))) := by
    rw [hnD]; exact Or.inl ⟨Or.inl rfl, hlet⟩
  rw [hashSpec_ok _ _ _ _ _ haccD, hnD]
  constructor
  · congr 1
  · simp [v1, v1_prefix, tag]

/-- the same for ANY DNA spelling of the RNA sequence (any case: `upper s' = uToT (upper s)`), in
particular the case-preserving one (`U → T`, `u → t`) the check's driver also sends -/
theorem hash_rna_dna_spelling (blake : List UInt8 → List UInt8) (s s' : Str) (c d : Bool) (h : Str)
    (hs : upper s' = uToT (upper s)) (hr : hashSpec blake s "RNA" c d = .ok h) :
    hashSpec blake s' "DNA" c d = .ok (h.set 3 'D') ∧ h[3]? = some 'R' := by
  have h0 := hash_rna_dna blake s c d h hr
  have hu : upper (uToT (upper s)) = uToT (upper s) := by
    -- accepted RNA input: the letters of `uToT (upper s)` are upper-case nucleotide letters
    obtain ⟨hacc, _⟩ := hashSpec_ok_iff.1 hr
    have hnR : norm "RNA" s = uToT (upper s) := by simp [norm]
    rw [hnR] at hacc
    have hlet : ∀ x ∈ uToT (upper s), x ∈ nucleotideLetters := by
      rcases hacc with ⟨_, hl⟩ | ⟨hp, _⟩
      · exact hl
      · exact absurd hp (by decide)
    unfold upper
    conv => rhs; rw [← List.map_id (uToT (List.map Char.toUpper s))]
    apply List.map_congr_left
    intro x hx
    exact table_nucleotide_upper x (hlet x hx)
  rw [hash_of_upper_eq blake (hs.trans hu.symm) "DNA" c d]
  exact h0

theorem ascii_uToTCase : ∀ n : Fin 128,
    (if Char.ofNat n.val = 'U' then 'T' else if Char.ofNat n.val = 'u' then 't' else Char.ofNat n.val).toUpper =
      (if (Char.ofNat n.val).toUpper = 'U' then 'T' else (Char.ofNat n.val).toUpper) := by decide

theorem upper_uToTCase (s : Str) : upper (Driver.C04.uToTCase s) = uToT (upper s) := by
  unfold upper Driver.C04.uToTCase uToT
  rw [List.map_map, List.map_map]
  apply List.map_congr_left
  intro c _
  simp only [Function.comp]
  rcases ascii_or_fixed c with h | ⟨h, _⟩
  · exact forall_ascii (P := fun c => (if c = 'U' then 'T' else if c = 'u' then 't' else c).toUpper =
        (if c.toUpper = 'U' then 'T' else c.toUpper)) ascii_uToTCase c h
  · by_cases hU : c = 'U'
    · subst hU; decide
    · by_cases hu : c = 'u'
      · subst hu; decide
      · simp only [hU, hu, ↓reduceIte, h]

theorem hash_rna_dna_case_preserving (blake : List UInt8 → List UInt8) (s : Str) (c d : Bool) (h : Str)
    (hr : hashSpec blake s "RNA" c d = .ok h) :
    hashSpec blake (Driver.C04.uToTCase s) "DNA" c d = .ok (h.set 3 'D') ∧ h[3]? = some 'R' :=
  hash_rna_dna_spelling blake s _ c d h (upper_uToTCase s) hr

/-- the judge's domain for the strand clause is literally the hypothesis of `hash_strand` -/
theorem driver_strandDomain (s : Str) (ty : String) :
    Driver.C04.strandDomain s ty = true ↔ Iupac15 (norm ty s) := by
  unfold Driver.C04.strandDomain Iupac15
  simp [List.all_eq_true]

/-! ### the same four clauses for the model of the code itself

`Seqhash.hash` is the statement-by-statement model whose rotation step is the Booth loop
(`rotateSequence`).  C12 (`Props/C12Booth.booth_least`) proves that loop equal to the arg-min, so
`hash = hashSpec` and the clauses above hold of `hash` with no "modulo C12" left. -/

theorem hash_model_eq_spec : Seqhash.hash = Seqhash.hashSpec := Props.C12Booth.hash_eq_hashSpec

theorem model_hash_rot (blake : List UInt8 → List UInt8) (s : Str) (ty : String) (ds : Bool) (k : Nat) :
    Seqhash.hash blake (rotl k s) ty true ds = Seqhash.hash blake s ty true ds := by
  rw [hash_model_eq_spec]; exact hash_rot blake s ty ds k

theorem model_hash_strand (blake : List UInt8 → List UInt8) (s : Str) (ty : String) (c : Bool)
    (h : Iupac15 (norm ty s)) :
    Seqhash.hash blake (revComp s) ty c true = Seqhash.hash blake s ty c true := by
  rw [hash_model_eq_spec]; exact hash_strand blake s ty c h

theorem model_hash_case (blake : List UInt8 → List UInt8) (f : Nat → Bool) (s : Str) (ty : String) (c d : Bool) :
    Seqhash.hash blake (recase f s) ty c d = Seqhash.hash blake s ty c d := by
  rw [hash_model_eq_spec]; exact hash_case blake f s ty c d

theorem model_hash_rna_dna (blake : List UInt8 → List UInt8) (s : Str) (c d : Bool) (h : Str)
    (hr : Seqhash.hash blake s "RNA" c d = .ok h) :
    Seqhash.hash blake (uToT (upper s)) "DNA" c d = .ok (h.set 3 'D') ∧ h[3]? = some 'R' := by
  rw [hash_model_eq_spec] at *; exact hash_rna_dna blake s c d h hr

/-! ### non-vacuity: concrete inputs meeting the hypotheses (tests on literals, not theorems) -/

/-- strand-clause hypothesis: lower case, ambiguity codes and `u` under RNA are inside the domain -/
example : Iupac15 (norm "RNA" "acgUryKn".toList) := by decide
example : Iupac15 (norm "DNA" "GAATTCnRyk".toList) := by decide
/-- …and `U` under DNA is outside it -/
example : ¬ Iupac15 (norm "DNA" "ACGU".toList) := by decide
example : revComp (rotl 1 "AACG".toList) = rotl 3 (revComp "AACG".toList) := by decide
example : recase (fun i => i % 2 == 0) "ACgt".toList = "aCgT".toList := by decide
/-- the premise of `hash_rna_dna` is satisfiable (identity "digest") -/
example : ∃ h, hashSpec id "acgu".toList "RNA" true true = .ok h :=
  ⟨_, hashSpec_ok id _ _ _ _ (by decide)⟩

end PolyVerif.Props.C04
