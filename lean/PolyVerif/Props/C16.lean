import Mathlib.Data.List.Perm.Basic
import PolyVerif.Lemmas.RebaseListing
/-
C16 — REBASE parsing recovers every enzyme record and decodes suppliers.

`parse`, `exportJ`, `importJ` are the models of rebase.Parse, rebase.Export (as a JSON value) and
json.Unmarshal into map[string]Enzyme (Model/Rebase.lean); `listing`, `expectedMap` and the
decidable well-formedness predicates are the independent spec (Spec/RebaseListing.lean).  Nothing
bounds the number of records, suppliers, prose lines or blank lines.
-/
namespace PolyVerif.Props.C16
open PolyVerif PolyVerif.LineText PolyVerif.Rebase PolyVerif.Spec.RebaseListing

/-! ### obligations on the regenerated struct tags (re-decided on every run) -/

/-- `rebase.Enzyme` has exactly the eight exported fields the model writes, in this order, with
these Go types; none is `omitempty`, none is dropped by `json:"-"` -/
theorem tags_shape : Gen.enzymeJsonFields.map (fun r => (r.1, r.2.2.1, r.2.2.2)) = expectedShape := by decide

/-- the eight JSON object keys are pairwise different (otherwise encoding/json drops fields) -/
theorem tags_nodup : [kName, kIsoschizomers, kRecognitionSequence, kMethylationSite, kMicroOrganism, kSource,
    kCommercialAvailability, kReferences].Nodup := by decide

/-! ### parsing a listing -/

/-- **Parse (listing sups recs ℓ) = expectedMap sups recs** for every supplier table, record list
and layout that satisfy `wfListing`: one entry per record keyed by its name (a repeated name keeps
the last record), the eight fields exactly as written — the isoschizomer list as written, none for
an empty `<2>` line —, every supplier letter decoded through the listing's own table; header prose,
indentation (blanks and/or tabs), number and shape of blank lines, further reference lines and the
final newline are arbitrary.  (Until fix a3fb5a0 an empty `<2>` line came back as `[""]` and this
statement was false of the code — former known finding C16-empty-isoschizomers.) -/
theorem parse_listing (sups : List Supplier) (recs : List Rec) (ℓ : Spec.RebaseListing.Layout) (h : wfListing sups recs ℓ = true) :
    parse (listing sups recs ℓ) = .ok (expectedMap sups recs) :=
  parse_listing_core sups recs ℓ h

/-- with pairwise different names the map has exactly one entry per record, in the order written -/
theorem parse_listing_entries (sups : List Supplier) (recs : List Rec) (ℓ : Spec.RebaseListing.Layout) (h : wfListing sups recs ℓ = true)
    (hn : namesNodup recs = true) :
    parse (listing sups recs ℓ) = .ok (recs.map fun r => (r.name, enzymeOf sups r)) := by
  rw [parse_listing sups recs ℓ h, expectedMap_of_nodup sups recs hn]

/-- the decoding used by `expectedMap` (`commercialAvailability = codes.map (supplierOf sups)`)
gives, for the letter of any line of the table, exactly the name written on that line -/
theorem suppliers_decoded (sups : List Supplier) (s : Supplier) (hs : s ∈ sups) (hnd : codesNodup sups = true) :
    supplierOf sups s.code = s.name := supplierOf_mem sups s hs hnd

/-! ### export and re-import -/

/-- **the JSON export parses back to the same map** (JSON-value level): importing the exported
value yields the entries of `m` in sorted key order, for every association list `m` (a Go map when the
keys are distinct: `export_roundtrip_perm`) -/
theorem export_roundtrip (m : List (Str × Enzyme)) : importJ (exportJ m) = some (sortedEntries {} m) :=
  importJ_exportJ tags_nodup m

/-- … which is `m` itself up to the order of the entries, when the keys are distinct (a Go map) -/
theorem export_roundtrip_perm (m : List (Str × Enzyme)) (hnd : (m.map (·.1)).Nodup) :
    ∃ m', importJ (exportJ m) = some m' ∧ m'.Perm m :=
  ⟨_, export_roundtrip m, sortedEntries_perm {} m hnd⟩

/-- **the JSON export parses back to the same map, at the level of the TEXT**: `exportText m` is the text
of `exportJ m` written by the printer of Base/JVal (compared byte for byte with `rebase.Export`'s real
output on every case), `importText` reads a text with the reader of Base/JsonRead and then `importJ`;
the composition gives the entries of `m` in sorted key order, for every map (rests on
`JsonText.parse_print`: the reader reads back whatever the printer writes) -/
theorem export_text_roundtrip (m : List (Str × Enzyme)) : importText (exportText m) = some (sortedEntries {} m) :=
  importText_exportText tags_nodup m

/-- … which is `m` itself up to the order of the entries when the keys are distinct (a Go map) -/
theorem export_text_roundtrip_perm (m : List (Str × Enzyme)) (hnd : (m.map (·.1)).Nodup) :
    ∃ m', importText (exportText m) = some m' ∧ m'.Perm m :=
  ⟨_, export_text_roundtrip m, sortedEntries_perm {} m hnd⟩

/-- the map `Parse` returns for a listing survives Export (as text) and re-import -/
theorem parse_export_text_roundtrip (sups : List Supplier) (recs : List Rec) (ℓ : Spec.RebaseListing.Layout) (h : wfListing sups recs ℓ = true) :
    ∃ m m', parse (listing sups recs ℓ) = .ok m ∧ importText (exportText m) = some m' ∧ m'.Perm m :=
  ⟨_, _, parse_listing sups recs ℓ h, export_text_roundtrip _, sortedEntries_perm {} _ (expectedMap_keys_nodup sups recs)⟩

/-- the map `Parse` returns for a listing survives Export and re-import (value level) -/
theorem parse_export_roundtrip (sups : List Supplier) (recs : List Rec) (ℓ : Spec.RebaseListing.Layout) (h : wfListing sups recs ℓ = true) :
    ∃ m m', parse (listing sups recs ℓ) = .ok m ∧ importJ (exportJ m) = some m' ∧ m'.Perm m :=
  ⟨_, _, parse_listing sups recs ℓ h, export_roundtrip _, sortedEntries_perm {} _ (expectedMap_keys_nodup sups recs)⟩

/-! ### non-vacuity: concrete inputs meeting the hypotheses (tests, not theorems) -/

def sampleSups : List Supplier := [⟨'N', "New England Biolabs (3/21)".toList⟩, ⟨'K', "Takara Bio Inc. (6/18)".toList⟩]
def sampleRecs : List Rec :=
  [ { name := "AaaI".toList, isos := ["XmaIII".toList, "EagI".toList], recog := "C^GGCCG".toList, meth := [],
      org := "Acetobacter aceti".toList, src := "M. Fukaya".toList, codes := ['K', 'N'], refs := "Tagami, H., (1988)".toList,
      moreRefs := ["Another, A., Unpublished observations.".toList] },
    { name := "AbaI".toList, isos := [], recog := "T^GATCA".toList, meth := [], org := [], src := [], codes := [], refs := [] } ]
def spacesLayout : Spec.RebaseListing.Layout :=
  { prose := ["REBASE version 104".toList, [' '], "<ENZYME NAME>   Restriction enzyme name.".toList],
    indent := List.replicate 16 ' ' }
def tabsLayout : Spec.RebaseListing.Layout := { indent := ['\t'], blank := [' '], afterHeading := 1, gaps := [0, 2], finalNewline := false }

example : wfListing sampleSups sampleRecs spacesLayout = true := by decide
example : wfListing sampleSups sampleRecs tabsLayout = true := by decide
example : parse (listing sampleSups sampleRecs spacesLayout) = .ok (expectedMap sampleSups sampleRecs) := by decide
example : parse (listing sampleSups sampleRecs tabsLayout) = .ok (expectedMap sampleSups sampleRecs) := by decide
example : ((expectedMap sampleSups sampleRecs).map fun kv => kv.2.commercialAvailability)
    = [["Takara Bio Inc. (6/18)".toList, "New England Biolabs (3/21)".toList], []] := by decide
example : ((expectedMap sampleSups sampleRecs).map fun kv => kv.2.isoschizomers)
    = [["XmaIII".toList, "EagI".toList], []] := by decide

end PolyVerif.Props.C16
