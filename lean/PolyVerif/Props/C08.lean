import PolyVerif.Lemmas.CodonRefine
/-
C08 — Codon usage tables count exactly and never leak between calls.

Model: Model/CodonTables.lean (getCodonFrequency as the rune loop, OptimizeTable, and the HEAP model of
GetCodonTable / OptimizeTable / AddCodonTable / CompromiseCodonTable / JSON round trip on histories).
Spec:  Spec/ValueTables.lean (countCodons by chunking, the same operations on immutable values, Linear).

KNOWN FINDINGS C08-alias-default and C08-receiver-mutated (one mechanism — OptimizeTable writes the new
weights in place through slices that struct copies share — seen on a package-level default table, resp. on
a table built by add / compromise / json).  The full statement of the property,

    history_refines_FULL (unproved, REFUTED) :  ∀ hist, runHeap cmp defs hist = runValue addTable cmp defs hist

is FALSE of the model (and of the code: the model agrees with the code on every history, linear or not,
in the correspondence check); it is REFUTED by `alias_witness` and `receiver_witness` below.  What is proved is
`history_refines_partial`, the same statement under `Linear defs hist`.  `Linear` is a decidable, syntactic
class that CONTAINS every failing history (reading a table through a handle whose cell was re-weighted
through another handle, or requesting a default table again after a handle to it was re-weighted); it is a
sufficient condition, not an exact one: `[g 1, w 0 s, w 0 s, o 1]` is not Linear and still satisfies the
conclusion (the stale cell happens to hold the right value).  Nothing is hidden by that: the driver judges
non-Linear histories too and tags only those that fail exactly as the heap model predicts.
-/
namespace PolyVerif.Props.C08
open PolyVerif PolyVerif.Codon PolyVerif.CodonTables PolyVerif.Spec.ValueTables
open PolyVerif.Lemmas.CodonFreq PolyVerif.Lemmas.CodonRefine

/-! ### exact counting -/

/-- The rune loop with its letter counter computes, for EVERY key `c`, the number of in-frame chunks of the
upper-cased sequence equal to `c` — any length (also not divisible by 3: the tail is dropped), ANY letters
(non-ACGT and non-ASCII chunks are counted under their own key and never disturb the frame).  No hypothesis:
since /repo 053f18d codons are framed by letters, not bytes.  (`upper` is `map Char.toUpper` on both sides;
what is assumed of Go's strings.ToUpper outside ASCII is stated in Model/CodonTables.lean.) -/
theorem frequency_exact (s : Str) (c : Str) :
    mapGet (getCodonFrequency (CodonTables.upper s)) c = (countCodons s c : Int) :=
  congrFun (freq_fun_eq s) c

/-- the framing alone, before upper-casing: for every sequence the map counts the in-frame chunks -/
theorem frequency_frames (s : Str) (c : Str) : mapGet (getCodonFrequency s) c = ((chunks3 s).count c : Nat) :=
  freq_counts s c

/-- re-weighting sets every weight to exactly that count and touches nothing else: the model's
`OptimizeTable` on a value is the spec's `reweight` -/
theorem reweight_exact (t : Table) (s : Str) : optimizeTable t s = reweight t s := by
  have h := optimizeCell_eq_reweight s t.aminoAcids t rfl
  simp only [optimizeTable, h]
  rfl

/-- letters, triplets, their order, start and stop codons are untouched (no hypothesis on `s`) -/
theorem reweight_keeps_code (t : Table) (s : Str) : codeOf (optimizeTable t s) = codeOf t := by
  have h := eraseW_optimizeCell s t.aminoAcids
  simp only [eraseW] at h
  simp only [codeOf, optimizeTable, h]

/-- the in-place write keeps the code of the cell it writes to -/
theorem reweight_cell_keeps_code (cell : List AminoAcid) (s : Str) : eraseW (optimizeCell s cell) = eraseW cell :=
  eraseW_optimizeCell s cell

-- the two regression inputs of /repo 053f18d (before it: ATG = 0 in both)
example : mapGet (getCodonFrequency (CodonTables.upper "éééATG".toList)) "ATG".toList = 1 := by decide
example : mapGet (getCodonFrequency (CodonTables.upper "AAéATGATG".toList)) "ATG".toList = 2 := by decide
example : mapGet (getCodonFrequency (CodonTables.upper "atgATGgcnAT".toList)) "ATG".toList = 2 := by decide
example : countCodons "atgATGgcnAT".toList "GCN".toList = 1 := by decide

/-! ### histories: heap semantics refines value semantics on Linear histories -/

/-- For every Linear history — of ANY length, over any default tables, any combining function —
what each step shows under the real sharing semantics is what it shows under value semantics. -/
theorem history_refines_partial {κ : Type} (cmp : Table → Table → κ → Outcome Table) (defs : List (Nat × Table))
    (hist : List (Op κ)) (hl : Linear defs hist = true) :
    runHeap cmp defs hist = runValue addTable cmp defs hist :=
  inv_run cmp hist _ _ _ (inv_init defs) hl

/-- the regenerated default tables carry uniform weight 1 (re-decided on every run against what
`GetCodonTable` returns in a fresh process; their assignment is tied to the NCBI codes by Props/C06) -/
theorem defaults_uniform :
    genDefaults.all (fun p => p.2.aminoAcids.all fun a => a.codons.all fun c => c.weight == 1) = true := by decide

/-- consequence: on a Linear history a freshly requested default table is the pristine one -/
theorem linear_get_pristine {κ : Type} (cmp : Table → Table → κ → Outcome Table) (defs : List (Nat × Table))
    (hist : List (Op κ)) (id : Nat) (t : Table) (ht : defs.lookup id = some t)
    (hl : Linear defs (hist ++ [Op.get id]) = true) :
    (runHeap cmp defs (hist ++ [Op.get id])).getLast? = some (Obs.table t) := by
  rw [history_refines_partial cmp defs _ hl]
  simp [runValue, List.foldl_append, vstep, ht, VState.push]

/-- the regenerated default tables of the NCBI ids (an id the code answers in addition is outside the property) -/
def ncbiDefaults : List (Nat × Table) := genDefaults.filter fun p => ncbiIds.contains p.1

/-- The known finding, kernel-checked: request table 11, re-weight it, request table 11 again — the second
request shows the re-weighted table, value semantics says pristine. -/
def h₀ : List (Op Unit) := [Op.get 11, Op.reweight 0 "ATGATG".toList, Op.get 11]
def noCmp : Table → Table → Unit → Outcome Table := fun _ _ _ => .err

theorem alias_witness : ¬ (runHeap noCmp ncbiDefaults h₀ = runValue addTable noCmp ncbiDefaults h₀) := by decide

/-- ... and it is not Linear -/
theorem alias_witness_nonlinear : Linear ncbiDefaults h₀ = false := by decide

/-- second class: reading through a stale handle -/
def h₁ : List (Op Unit) := [Op.get 1, Op.reweight 0 "ATG".toList, Op.observe 0]
theorem stale_witness : ¬ (runHeap noCmp ncbiDefaults h₁ = runValue addTable noCmp ncbiDefaults h₁) ∧ Linear ncbiDefaults h₁ = false := by decide

/-- The second finding, kernel-checked: a table detached from every default table (JSON round trip) is
re-weighted; the handle it was re-weighted through shows the new weights although value semantics leaves
the receiver unchanged.  No default table is involved: the last step shows table 1 pristine in both semantics. -/
def h₂ : List (Op Unit) := [Op.get 1, Op.json 0, Op.reweight 1 "ATG".toList, Op.observe 1, Op.get 1]

theorem receiver_witness : ¬ (runHeap noCmp ncbiDefaults h₂ = runValue addTable noCmp ncbiDefaults h₂) ∧
    Linear ncbiDefaults h₂ = false := by decide

/-- … and no default table is involved: the two semantics differ at step 3 (the look at the JSON copy) and
agree at the last step (default table 1 requested again: pristine in both) -/
theorem receiver_witness_steps :
    (runHeap noCmp ncbiDefaults h₂)[3]? ≠ (runValue addTable noCmp ncbiDefaults h₂)[3]? ∧
    (runHeap noCmp ncbiDefaults h₂)[4]? = (runValue addTable noCmp ncbiDefaults h₂)[4]? ∧
    (runHeap noCmp ncbiDefaults h₂)[4]? = (ncbiDefaults.lookup 1).map Obs.table := by decide

/-- which finding a break belongs to is decided by the region it exposes: a default table for `h₀`, `h₁`,
a built table for `h₂` (`ncbiDefaults.length = 25`) -/
theorem witness_regions : breaks ncbiDefaults h₀ = [8] ∧ breaks ncbiDefaults h₁ = [0] ∧ breaks ncbiDefaults h₂ = [25] ∧
    ncbiDefaults.length = 25 := by decide

/-- `breaks` lists nothing exactly on the Linear histories -/
theorem breaksFrom_nil_iff {κ : Type} (defs : List (Nat × Table)) (hist : List (Op κ)) :
    ∀ st, breaksFrom defs st hist = [] ↔ linearFrom defs st hist = true := by
  induction hist with
  | nil => intro st; simp [breaksFrom, linearFrom]
  | cons op rest ih =>
    intro st
    simp only [breaksFrom, linearFrom, lforce]
    cases h : lstep defs st op with
    | some st' => simp only []; exact ih st'
    | none =>
      cases op with
      | get id =>
        simp only [lstep] at h
        cases hi : indexOfId defs id with
        | none => simp [hi] at h
        | some r => simp [hi]
      | reweight k s =>
        simp only [lstep] at h
        split at h <;> cases h
      | add h1 h2 => simp
      | compromise h1 h2 c => simp
      | json k => simp
      | observe k => simp

theorem linear_iff_no_breaks {κ : Type} (defs : List (Nat × Table)) (hist : List (Op κ)) :
    breaks defs hist = [] ↔ Linear defs hist = true := breaksFrom_nil_iff defs hist _

/-- Linear is not vacuous and is weaker than "never touch a re-weighted handle again": re-weighting through a
stale handle, then reading the newest result, adding, serialising is Linear -/
example : Linear ncbiDefaults ([Op.get 1, Op.reweight 0 "ATG".toList, Op.reweight 0 "GCT".toList, Op.observe 2,
    Op.get 2, Op.add 2 4, Op.json 5, Op.reweight 6 "TAA".toList, Op.observe 7, Op.observe 5] : List (Op Unit)) = true := by decide

/-! ### concurrent re-weighting of different tables -/

/-- re-weightings of tables in different cells commute -/
theorem disjoint_commute (h : Heap) (a b : Addr) (s s' : Str) (hab : a ≠ b) :
    writeAt (writeAt h a s) b s' = writeAt (writeAt h b s') a s := by
  have e1 := writeAt_get_ne h a b s hab
  have e2 := writeAt_get_ne h b a s' (Ne.symm hab)
  cases ha : h[a]? with
  | none =>
    rw [ha] at e2
    rw [writeAt_of_none s ha, writeAt_of_none s e2]
  | some ca =>
    cases hb : h[b]? with
    | none =>
      rw [hb] at e1
      rw [writeAt_of_none s' hb, writeAt_of_none s' e1]
    | some cb =>
      rw [hb] at e1; rw [ha] at e2
      rw [writeAt_of_some s' e1, writeAt_of_some s e2, writeAt_of_some s ha, writeAt_of_some s' hb]
      exact List.set_comm _ _ hab

/-- a write moves past a block of writes to other cells -/
theorem exec_comm (ws : List (Addr × Str)) : ∀ (h : Heap) (y : Addr × Str), (∀ w ∈ ws, w.1 ≠ y.1) →
    execWrites (writeAt h y.1 y.2) ws = writeAt (execWrites h ws) y.1 y.2 := by
  induction ws with
  | nil => intro h y _; rfl
  | cons w rest ih =>
    intro h y hy
    simp only [execWrites, List.foldl_cons] at ih ⊢
    rw [disjoint_commute h y.1 w.1 y.2 w.2 (Ne.symm (hy w (by simp)))]
    exact ih _ y (fun w' hw' => hy w' (by simp [hw']))

/-- EVERY interleaving of two threads that re-weight different tables leaves the same heap as running
the first thread and then the second -/
theorem interleavings_agree {t₁ t₂ l : List (Addr × Str)} (hi : Interleave t₁ t₂ l)
    (hd : ∀ w₁ ∈ t₁, ∀ w₂ ∈ t₂, w₁.1 ≠ w₂.1) (h : Heap) : execWrites h l = execWrites h (t₁ ++ t₂) := by
  induction hi generalizing h with
  | nil => rfl
  | @left x l₁ l₂ l _ ih =>
    simp only [execWrites, List.cons_append, List.foldl_cons] at ih ⊢
    exact ih (fun w₁ h₁ w₂ h₂ => hd w₁ (by simp [h₁]) w₂ h₂) _
  | @right y l₁ l₂ l _ ih =>
    have ih' := ih (fun w₁ h₁ w₂ h₂ => hd w₁ h₁ w₂ (by simp [h₂])) (writeAt h y.1 y.2)
    have hc := exec_comm l₁ h y (fun w hw => hd w hw y (by simp))
    simp only [execWrites, List.foldl_cons, List.foldl_append] at ih' hc ⊢
    rw [ih', hc]

/-- so the table a thread ends with depends on that thread's own calls only -/
theorem thread_result_independent {t₁ t₂ l : List (Addr × Str)} (hi : Interleave t₁ t₂ l) (a : Addr)
    (h₁ : ∀ w ∈ t₁, w.1 = a) (h₂ : ∀ w ∈ t₂, w.1 ≠ a) (h : Heap) :
    (execWrites h l)[a]? = (execWrites h t₁)[a]? := by
  rw [interleavings_agree hi (fun w₁ m₁ w₂ m₂ => by rw [h₁ w₁ m₁]; exact Ne.symm (h₂ w₂ m₂)) h]
  simp only [execWrites, List.foldl_append]
  generalize List.foldl (fun h w => writeAt h w.1 w.2) h t₁ = h'
  clear hi
  induction t₂ generalizing h' with
  | nil => rfl
  | cons w rest ih =>
    simp only [List.foldl_cons]
    rw [ih (fun w' hw' => h₂ w' (by simp [hw'])), writeAt_get_ne _ _ _ _ (h₂ w (by simp))]

/-- different ids are different cells -/
theorem default_cells_distinct (defs : List (Nat × Table)) (i j r : Nat)
    (hi : indexOfId defs i = some r) (hj : indexOfId defs j = some r) : i = j := by
  induction defs generalizing r with
  | nil => simp [indexOfId] at hi
  | cons p rest ih =>
    obtain ⟨k, t⟩ := p
    simp only [indexOfId] at hi hj
    by_cases e1 : k = i
    · by_cases e2 : k = j
      · rw [← e1, ← e2]
      · subst e1
        simp only [e2, if_true, if_false, Option.some.injEq, Option.map_eq_some_iff] at hi hj
        obtain ⟨_, _, h⟩ := hj; omega
    · by_cases e2 : k = j
      · subst e2
        simp only [e1, if_true, if_false, Option.some.injEq, Option.map_eq_some_iff] at hi hj
        obtain ⟨_, _, h⟩ := hi; omega
      · simp only [e1, e2, if_false, Option.map_eq_some_iff] at hi hj
        obtain ⟨a, ha, h⟩ := hi
        obtain ⟨b, hb, h'⟩ := hj
        exact ih a ha (by rw [show a = b by omega]; exact hb)

/-- the heap step of a `reweight` operation is `writeAt` on the handle's cell -/
theorem hstep_reweight_heap {κ : Type} (cmp : Table → Table → κ → Outcome Table) (st : HState) (k : Nat) (s : Str)
    (ht : HTable) (hk : st.handles[k]? = some ht) (hc : ht.aas < st.heap.length) :
    (hstep cmp st (.reweight k s)).heap = writeAt st.heap ht.aas s := by
  have : st.heap[ht.aas]? = some st.heap[ht.aas] := List.getElem?_eq_getElem hc
  simp only [hstep, hk, this, writeAt]

example : Interleave [(0, "ATG".toList), (0, "GCT".toList)] [(1, "TAA".toList)]
    [(0, "ATG".toList), (1, "TAA".toList), (0, "GCT".toList)] := .left (.right (.left .nil))

end PolyVerif.Props.C08
