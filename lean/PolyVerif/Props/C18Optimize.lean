import PolyVerif.Props.C18
import PolyVerif.Props.C07
/-
C18, last clause, linked to C07's model of codon.Optimize: "a gene optimised with a compromise table never
uses a codon rarer than the cut-off in either organism".

`CodonOptimize.Emits r p cs` (Lemmas/CodonOptimize.lean) says: position by position, `cs` is a codon the
table `r` lists under the residue, with a share above 10 % and a POSITIVE weight; Props/C07
`optimize_threshold` proves it of every output of the model of codon.Optimize.  A positive weight in a
compromise table means both shares reach the cut-off (`compromise_never_rare`).
-/
namespace PolyVerif.Props.C18
open PolyVerif PolyVerif.Codon PolyVerif.CodonTables PolyVerif.Spec PolyVerif.Spec.ValueTables
open PolyVerif.Lemmas.CodonCombine

/-- what `Emits` says about each (residue, codon) position, read through the map view of the table -/
theorem emits_positive {r : Table} (w : Lemmas.CodonCombine.WF r) : ∀ (p : Str) (cs : List Str), CodonOptimize.Emits r p cs →
    ∀ ac ∈ p.zip cs, ([ac.1], ac.2) ∈ pairs r ∧ 0 < weightAt r [ac.1] ac.2 := by
  intro p
  induction p with
  | nil => intro cs _ ac hac; simp at hac
  | cons aa rest ih =>
    intro cs he ac hac
    cases cs with
    | nil => simp at hac
    | cons c cs' =>
      simp only [CodonOptimize.Emits] at he
      obtain ⟨⟨a, ha, hl, cd, hcd, ht, _, hpos⟩, hrest⟩ := he
      simp only [List.zip_cons_cons, List.mem_cons] at hac
      rcases hac with rfl | hin
      · refine ⟨mem_pairs.2 ⟨a, ha, cd, hcd, hl, ht⟩, ?_⟩
        show 0 < weightAt r [aa] c
        rw [← hl, ← ht, weightAt_mem w ha hcd]
        exact hpos
      · exact ih cs' hrest ac hin

section
variable {t1 t2 r : Table} (h : Compatible t1 t2 = true)
  (n1 : nonNeg t1 = true) (n2 : nonNeg t2 = true) (p1 : posTotals t1 = true) (p2 : posTotals t2 = true)
  {c : Rat} (c0 : 0 ≤ c) (c1 : c ≤ 1) (hr : compromise exactArith t1 t2 c = .ok r)
include h n1 n2 p1 p2 c0 c1 hr

/-- every codon list `Emits` allows for the compromise table uses, at every position, a codon whose share
reaches the cut-off in BOTH tables -/
theorem optimize_compromise_never_rare_emits (p : Str) (cs : List Str) (he : CodonOptimize.Emits r p cs) :
    ∀ ac ∈ p.zip cs,
      (10000 * c).floor ≤ shareFloor (weightAt t1 [ac.1] ac.2) (totalOf t1 [ac.1]) ∧
      (10000 * c).floor ≤ shareFloor (weightAt t2 [ac.1] ac.2) (totalOf t2 [ac.1]) := by
  obtain ⟨w1, _, _, _⟩ := compatible_unpack h
  obtain ⟨r', h1, h2, _⟩ := compromise_weight h n1 n2 p1 p2 c c0 c1
  rw [hr] at h1
  cases h1
  have wr : Lemmas.CodonCombine.WF r := by
    have := compromise_eq exactArith w1 (compatible_unpack h).2.1 (compatible_unpack h).2.2.1 (compatible_unpack h).2.2.2 c
      (by simp only [exactArith, decide_eq_false_iff_not]; exact Rat.not_lt.2 c0)
      (by simp only [exactArith, decide_eq_false_iff_not]; exact Rat.not_lt.2 c1)
    rw [hr] at this
    cases this
    exact wf_mapWeights w1 _
  intro ac hac
  obtain ⟨hp, hpos⟩ := emits_positive wr p cs he ac hac
  rw [h2] at hp
  exact compromise_never_rare h n1 n2 p1 p2 c0 c1 hr hp hpos

/-- … hence of every output of C07's model of codon.Optimize run on the compromise table (any sorter that
permutes, any in-range draws), read off the in-frame codons of the output -/
theorem optimize_compromise_never_rare_model {sorter : List CodonOptimize.Choice → List CodonOptimize.Choice}
    (hperm : ∀ l, (sorter l).Perm l) (hwf : CodonOptimize.WF r) {p : Str} (hp : p ≠ []) {rs : List Nat}
    (hd : CodonOptimize.DrawsOK (CodonOptimize.chooserMap sorter r) p rs)
    (henc : ∀ aa ∈ p, CodonOptimize.hasChooser r [aa] = true) {dna : Str}
    (ho : CodonOptimize.optimize sorter r p rs = some (.ok dna)) :
    ∀ ac ∈ p.zip (CodonTranslate.chunks3 dna),
      (10000 * c).floor ≤ shareFloor (weightAt t1 [ac.1] ac.2) (totalOf t1 [ac.1]) ∧
      (10000 * c).floor ≤ shareFloor (weightAt t2 [ac.1] ac.2) (totalOf t2 [ac.1]) :=
  optimize_compromise_never_rare_emits h n1 n2 p1 p2 c0 c1 hr p _ (Props.C07.optimize_threshold hperm hwf hp hd henc ho)

end
end PolyVerif.Props.C18
