import PolyVerif.Lemmas.DeBruijnCert
import PolyVerif.Gen.DeBruijnCert10
/-
C17, order 10 — kernel-checked, no `native_decide` (see Props/C17Cert.lean for the method).
`Gen/DeBruijnCert10.lean` is regenerated on every run from `primers.NucleobaseDeBruijnSequence(10)`
of the running code; 17 segments of 65536 symbols, one kernel evaluation each.
-/
namespace PolyVerif.Props.C17
open PolyVerif PolyVerif.Spec PolyVerif.Gen

set_option maxRecDepth 1000000 in
theorem cert10_seg0 : segCheck DB10.lk 1048576 9 128 DB10.segs DB10.states 0 = true := by decide +kernel
set_option maxRecDepth 1000000 in
theorem cert10_seg1 : segCheck DB10.lk 1048576 9 128 DB10.segs DB10.states 1 = true := by decide +kernel
set_option maxRecDepth 1000000 in
theorem cert10_seg2 : segCheck DB10.lk 1048576 9 128 DB10.segs DB10.states 2 = true := by decide +kernel
set_option maxRecDepth 1000000 in
theorem cert10_seg3 : segCheck DB10.lk 1048576 9 128 DB10.segs DB10.states 3 = true := by decide +kernel
set_option maxRecDepth 1000000 in
theorem cert10_seg4 : segCheck DB10.lk 1048576 9 128 DB10.segs DB10.states 4 = true := by decide +kernel
set_option maxRecDepth 1000000 in
theorem cert10_seg5 : segCheck DB10.lk 1048576 9 128 DB10.segs DB10.states 5 = true := by decide +kernel
set_option maxRecDepth 1000000 in
theorem cert10_seg6 : segCheck DB10.lk 1048576 9 128 DB10.segs DB10.states 6 = true := by decide +kernel
set_option maxRecDepth 1000000 in
theorem cert10_seg7 : segCheck DB10.lk 1048576 9 128 DB10.segs DB10.states 7 = true := by decide +kernel
set_option maxRecDepth 1000000 in
theorem cert10_seg8 : segCheck DB10.lk 1048576 9 128 DB10.segs DB10.states 8 = true := by decide +kernel
set_option maxRecDepth 1000000 in
theorem cert10_seg9 : segCheck DB10.lk 1048576 9 128 DB10.segs DB10.states 9 = true := by decide +kernel
set_option maxRecDepth 1000000 in
theorem cert10_seg10 : segCheck DB10.lk 1048576 9 128 DB10.segs DB10.states 10 = true := by decide +kernel
set_option maxRecDepth 1000000 in
theorem cert10_seg11 : segCheck DB10.lk 1048576 9 128 DB10.segs DB10.states 11 = true := by decide +kernel
set_option maxRecDepth 1000000 in
theorem cert10_seg12 : segCheck DB10.lk 1048576 9 128 DB10.segs DB10.states 12 = true := by decide +kernel
set_option maxRecDepth 1000000 in
theorem cert10_seg13 : segCheck DB10.lk 1048576 9 128 DB10.segs DB10.states 13 = true := by decide +kernel
set_option maxRecDepth 1000000 in
theorem cert10_seg14 : segCheck DB10.lk 1048576 9 128 DB10.segs DB10.states 14 = true := by decide +kernel
set_option maxRecDepth 1000000 in
theorem cert10_seg15 : segCheck DB10.lk 1048576 9 128 DB10.segs DB10.states 15 = true := by decide +kernel
set_option maxRecDepth 1000000 in
theorem cert10_seg16 : segCheck DB10.lk 1048576 9 128 DB10.segs DB10.states 16 = true := by decide +kernel

/-- the text returned by `NucleobaseDeBruijnSequence(10)`, as extracted -/
def generated10 : Str := seqStr DB10.chunkSymbols DB10.segs.flatten DB10.seqLength

/-- order 10: the generated sequence has length 4¹⁰+9 and contains every 10-letter word exactly once
(and, what the barcode laws use, its 10-letter windows are pairwise different) -/
theorem generated10_isDeBruijn : IsDeBruijn 10 generated10 ∧ (windows 10 generated10).Nodup := by
  have h := segments_isDeBruijn 10 (by omega) DB10.lk 128 DB10.segs DB10.states (by decide)
    (by
      intro j hj
      have : j = 0 ∨ j = 1 ∨ j = 2 ∨ j = 3 ∨ j = 4 ∨ j = 5 ∨ j = 6 ∨ j = 7 ∨ j = 8 ∨ j = 9 ∨ j = 10 ∨ j = 11 ∨ j = 12 ∨ j = 13 ∨ j = 14 ∨ j = 15 ∨ j = 16 := by
        have : DB10.segs.length = 17 := by decide
        omega
      rcases this with rfl | rfl | rfl | rfl | rfl | rfl | rfl | rfl | rfl | rfl | rfl | rfl | rfl | rfl | rfl | rfl | rfl
      · exact cert10_seg0
      · exact cert10_seg1
      · exact cert10_seg2
      · exact cert10_seg3
      · exact cert10_seg4
      · exact cert10_seg5
      · exact cert10_seg6
      · exact cert10_seg7
      · exact cert10_seg8
      · exact cert10_seg9
      · exact cert10_seg10
      · exact cert10_seg11
      · exact cert10_seg12
      · exact cert10_seg13
      · exact cert10_seg14
      · exact cert10_seg15
      · exact cert10_seg16)
    (by decide) (by decide)
  exact h

end PolyVerif.Props.C17
