import PolyVerif.Lemmas.Thermo
import PolyVerif.Props.C11
/-
C19 — melting temperatures follow the nearest-neighbour formula monotonically.

Objects.  `santaLucia n s c na mg`, `meltingTemp n s`, `marmurDoty n s` (Model/Primers.lean) are the
model of primers.SantaLucia / MeltingTemp / MarmurDoty, generic in the number type; `realNum` is the
instance at ℝ with `Real.log`, `floatNum` the instance at binary64 the correspondence check runs.
`NN.*` (Spec/NearestNeighbor.lean) is the independent spec: ten duplex steps, indexed sums, exact
integers in tenths.  `Acgt s`: every letter of `s` is one of A C G T a c g t.

Every clause of the property is proved for ALL such oligos (no length bound) over EXACT REAL
arithmetic.  Theorems stated for an arbitrary `Num α` hold for the binary64 instance as well.
What is NOT proved: any statement relating the binary64 evaluation to the real one (Lean's `Float`
is opaque to the kernel): that it stays within tolerance of the formula, and its monotonicity.
STRICT monotonicity is in fact false in binary64 (conditions a few ulp apart give equal Tm); the
check's judge demands of the float64 results "never decreasing; strictly increasing from a relative
separation of 1e-9 of the log argument upward" (Driver/C19.lean).  `tm_weak_mono_any_arith` is a
CONDITIONAL theorem (never decreasing, for every arithmetic satisfying `MonoArith`); whether binary64
satisfies `MonoArith` cannot be proved in Lean, so float64 monotonicity rests on the correspondence
check and judge alone — see PARTIAL in gen/c19.py.
-/
namespace PolyVerif.Props.C19
open PolyVerif PolyVerif.Primers PolyVerif.Transform PolyVerif.Spec PolyVerif.Lemmas.Thermo

/-! ## the regenerated tables are the typed parameters (re-decided on every run) -/

/-- every pair entry, the terminal letters, the initiation and symmetry terms observed from the
running code equal the typed duplex parameters -/
theorem table_matches_parameters :
    (∀ x ∈ allBases, ∀ y ∈ allBases, nnLookup x.toChar y.toChar = NN.step x y) ∧
    (∀ x ∈ allBases, terminalLookup x.toChar = if x = .A ∨ x = .T then some NN.terminalAT else none) ∧
    Gen.nnInit = NN.initiation ∧ Gen.nnSymmetry = NN.symmetry := by decide

/-- the A/C/G/T part of the observed table has exactly the sixteen pairs and the two terminal letters
(entries involving other bytes are outside the property and kept apart in `Gen.nnOther*`; nothing
here depends on them, so a change of behaviour on non-nucleotide input cannot break a proof) -/
theorem table_sizes : Gen.nnRows.length = 16 ∧ Gen.nnTerminal.length = 2 := by decide

/-- every ordered pair belongs to one of the ten duplex steps (the spec's fallback is never used);
all pair enthalpies are ≤ −7.2 and entropies ≤ −19.9 -/
theorem step_total : ∀ x ∈ allBases, ∀ y ∈ allBases,
    (NN.duplexSteps.lookup (x, y) = some (NN.step x y) ∨
      (NN.duplexSteps.lookup (x, y) = none ∧ NN.duplexSteps.lookup (y.compl, x.compl) = some (NN.step x y)))
    ∧ (NN.step x y).1 ≤ -72 ∧ (NN.step x y).2 ≤ -199 := by decide

/-! ## the formula -/

/-- **nn_sum** — no off-by-one: started from accumulators `(h, S)`, the neighbour loop over an
`N`-letter oligo adds exactly `Σ_{i < N-1} step(b[i], b[i+1])` (tenths → units) to each. -/
theorem nn_sum (b : List Base) (h S : ℝ) :
    nnLoop realNum (b.map Base.toChar) (h, S) =
      (h + (((List.range (b.length - 1)).map fun i => (NN.step (b.getD i .A) (b.getD (i + 1) .A)).1).sum : Int) / 10,
       S + (((List.range (b.length - 1)).map fun i => (NN.step (b.getD i .A) (b.getD (i + 1) .A)).2).sum : Int) / 10) := by
  rw [nnLoop_real, pairSum_eq_stepSum]
  simp [NN.stepSum, List.map_map, Function.comp_def]

/-- **formula** — for every A/C/G/T oligo (either case, any length ≥ 1) and all real concentrations the
model returns `Tm = 1000·dH / (dS + R ln(C/f)) − 273.15`, `dH = (init + sym + terminal + Σ pairs)`,
`dS = (init + sym + terminal + Σ pairs) + 0.368 (N−1) ln(Na + 140 Mg)`, `f = 1` iff self-complementary
else 4 (`exactTm`, `exactDH`, `exactDS`, `exactF` in Lemmas/Thermo.lean spell this out over `NN.dH10`,
`NN.dS10`). -/
theorem santaLucia_formula {s : Str} (hs : Acgt s) (hne : s ≠ []) (c na mg : ℝ) :
    ∃ b, NN.basesOf? s = some b ∧ b.length = s.length ∧
      santaLucia realNum s c na mg = .ok (exactTm b c na mg, exactDH b, exactDS b na mg) := by
  obtain ⟨b, hb, hu, hl⟩ := bases_of_acgt hs
  have hbne : b ≠ [] := by
    intro h; rw [h] at hl; exact hne (List.length_eq_zero_iff.1 hl.symm)
  refine ⟨b, hb, hl, ?_⟩
  unfold santaLucia santaLuciaCore
  rw [hu, coreUpper_real b hbne]
  simp only [Outcome.map, exactTm, exactDen, realNum, Num.dec]
  congr 2
  norm_num
  ring

/-- the empty sequence panics (index −1), for every number type -/
theorem empty_panics {α : Type} [Add α] [Sub α] [Mul α] [Div α] (n : Num α) (c na mg : α) :
    santaLucia n [] c na mg = .panic := rfl

/-! ## which terms are present -/

/-- the last letter, upper-cased, is A or T -/
def LastAT (s : Str) : Prop := (upper s).getLast? = some 'A' ∨ (upper s).getLast? = some 'T'

/-- everything in `dH`, `dS₀` except the terminal term (tenths) -/
def sansTerminal (b : List Base) : Int × Int :=
  (NN.initiation.1 + (NN.cond (NN.selfComplementary b) NN.symmetry).1 + (NN.stepSum b).1,
   NN.initiation.2 + (NN.cond (NN.selfComplementary b) NN.symmetry).2 + (NN.stepSum b).2)

/-- everything in `dS₀` except the symmetry term (tenths) -/
def sansSymmetry (b : List Base) : Int :=
  NN.initiation.2 + (NN.cond (NN.endsInAT b) NN.terminalAT).2 + (NN.stepSum b).2

theorem endsInAT_iff_lastAT {s : Str} {b : List Base} (hu : upper s = b.map Base.toChar) :
    NN.endsInAT b = true ↔ LastAT s := by
  unfold LastAT NN.endsInAT
  rw [hu, List.getLast?_map]
  cases b.getLast? with
  | none => simp
  | some l => cases l <;> simp [Base.toChar]

/-- **terminal_penalty_iff_last_AT** — the reported enthalpy / entropy exceed the sum of all other
terms by exactly 2.2 / 6.9 iff the last letter is A or T, and by exactly 0 iff it is not. -/
theorem terminal_penalty_iff_last_AT {s : Str} (hs : Acgt s) (hne : s ≠ []) (c na mg : ℝ) :
    ∃ b t h S, NN.basesOf? s = some b ∧ santaLucia realNum s c na mg = .ok (t, h, S) ∧
      (h - ((sansTerminal b).1 : ℝ) / 10 = 2.2 ↔ LastAT s) ∧
      (h - ((sansTerminal b).1 : ℝ) / 10 = 0 ↔ ¬ LastAT s) ∧
      (S - ((sansTerminal b).2 : ℝ) / 10 - 0.368 * ((s.length : ℝ) - 1) * Real.log (na + 140 * mg) = 6.9 ↔ LastAT s) ∧
      (S - ((sansTerminal b).2 : ℝ) / 10 - 0.368 * ((s.length : ℝ) - 1) * Real.log (na + 140 * mg) = 0 ↔ ¬ LastAT s) := by
  obtain ⟨b, hb, hu, hl⟩ := bases_of_acgt hs
  obtain ⟨b₁, hb₁, -, hf⟩ := santaLucia_formula hs hne c na mg
  obtain rfl : b = b₁ := Option.some.inj (hb.symm.trans hb₁)
  refine ⟨b, _, _, _, hb, hf, ?_⟩
  rw [← endsInAT_iff_lastAT hu, ← hl]
  have hH : exactDH b - ((sansTerminal b).1 : ℝ) / 10 = ((NN.cond (NN.endsInAT b) NN.terminalAT).1 : ℝ) / 10 := by
    simp only [exactDH, NN.dH10, sansTerminal]; push_cast; ring
  have hS : exactDS b na mg - ((sansTerminal b).2 : ℝ) / 10 - 0.368 * ((b.length : ℝ) - 1) * Real.log (na + 140 * mg)
      = ((NN.cond (NN.endsInAT b) NN.terminalAT).2 : ℝ) / 10 := by
    simp only [exactDS, NN.dS10, sansTerminal]; push_cast; ring
  rw [hH, hS]
  cases NN.endsInAT b <;> norm_num [NN.cond, NN.terminalAT]

/-- **symmetry_iff_selfcomp** — the model's test `s == ReverseComplement(s)` on the upper-cased oligo
is position-wise Watson–Crick pairing `s[i] = s[N-1-i]'`; the factor `f` is 1 exactly then and 4
otherwise; the entropy carries −1.4 (and the enthalpy 0) exactly then. -/
theorem symmetry_iff_selfcomp {s : Str} (hs : Acgt s) (hne : s ≠ []) (c na mg : ℝ) :
    ∃ b t h S k, NN.basesOf? s = some b ∧ santaLucia realNum s c na mg = .ok (t, h, S) ∧
      santaLuciaCore realNum s na mg = .ok k ∧ k.dH = h ∧ k.dS = S ∧
      ((upper s == revComp (upper s)) = true ↔ NN.selfComplementary b = true) ∧
      (k.symmetryFactor = 1 ↔ NN.selfComplementary b = true) ∧
      (k.symmetryFactor = 4 ↔ NN.selfComplementary b = false) ∧
      (S - (sansSymmetry b : ℝ) / 10 - 0.368 * ((s.length : ℝ) - 1) * Real.log (na + 140 * mg) = -1.4
        ↔ NN.selfComplementary b = true) ∧
      (S - (sansSymmetry b : ℝ) / 10 - 0.368 * ((s.length : ℝ) - 1) * Real.log (na + 140 * mg) = 0
        ↔ NN.selfComplementary b = false) := by
  obtain ⟨b, hb, hu, hl⟩ := bases_of_acgt hs
  obtain ⟨b₁, hb₁, -, hf⟩ := santaLucia_formula hs hne c na mg
  obtain rfl : b = b₁ := Option.some.inj (hb.symm.trans hb₁)
  have hbne : b ≠ [] := by
    intro h; rw [h] at hl; exact hne (List.length_eq_zero_iff.1 hl.symm)
  have hk : santaLuciaCore realNum s na mg = .ok ⟨exactDH b, exactDS b na mg, exactF b⟩ := by
    unfold santaLuciaCore; rw [hu, coreUpper_real b hbne]
  refine ⟨b, _, _, _, _, hb, hf, hk, rfl, rfl, ?_, ?_⟩
  · rw [hu, selfComp_model_spec]
  have hS : exactDS b na mg - (sansSymmetry b : ℝ) / 10 - 0.368 * ((b.length : ℝ) - 1) * Real.log (na + 140 * mg)
      = ((NN.cond (NN.selfComplementary b) NN.symmetry).2 : ℝ) / 10 := by
    simp only [exactDS, NN.dS10, sansSymmetry]; push_cast; ring
  rw [← hl, hS]
  simp only [exactF, NN.symmetryFactor]
  cases NN.selfComplementary b <;> norm_num [NN.cond, NN.symmetry]

theorem upper_acgt_both : ∀ c ∈ acgtLetters, c.toUpper ∈ C11.acgtBoth := by decide

/-- **odd_length_no_symmetry** — an oligo of odd length over A/C/G/T is never self-complementary (its
middle base would have to pair with itself, Props/C11 `odd_not_palindromic`), so `SantaLucia` gives it
the factor 4 and no symmetry entropy, whatever its flanks. -/
theorem odd_length_no_symmetry {s : Str} (hs : Acgt s) (hodd : s.length % 2 = 1) (c na mg : ℝ) :
    ∃ k, santaLuciaCore realNum s na mg = .ok k ∧ k.symmetryFactor = 4 := by
  have hne : s ≠ [] := by intro h; rw [h] at hodd; simp at hodd
  obtain ⟨b, t, h, S, k, -, -, hk, -, -, hself, -, h4, -, -⟩ := symmetry_iff_selfcomp hs hne c na mg
  refine ⟨k, hk, h4.2 ?_⟩
  have hu : ∀ x ∈ upper s, x ∈ C11.acgtBoth := by
    intro x hx
    simp only [upper, List.mem_map] at hx
    obtain ⟨y, hy, rfl⟩ := hx
    exact upper_acgt_both y (hs y hy)
  have hl : (upper s).length % 2 = 1 := by simpa [upper] using hodd
  have hp := C11.odd_not_palindromic hu hl
  cases hb : NN.selfComplementary b with
  | false => rfl
  | true =>
    have := hself.2 hb
    simp only [isPalindromic] at hp
    rw [hp] at this
    exact absurd this (by simp)

example : Acgt "GCAGC".toList ∧ "GCAGC".toList.length % 2 = 1 := by decide

/-! ## independence of letter case and of concentrations (any number type, hence also binary64) -/

section generic
variable {α : Type} [Add α] [Sub α] [Mul α] [Div α]

/-- **case_indep (general form)** — the three functions depend on their argument only through its
upper-casing. -/
theorem case_indep_of_upper_eq (n : Num α) {s t : Str} (h : upper s = upper t) :
    santaLucia n s = santaLucia n t ∧ meltingTemp n s = meltingTemp n t ∧ marmurDoty n s = marmurDoty n t := by
  refine ⟨santaLucia_congr_upper n h, ?_, ?_⟩
  · unfold meltingTemp; rw [santaLucia_congr_upper n h]
  · unfold marmurDoty; rw [h]

/-- **case_indep** — for A/C/G/T oligos written in any mixture of cases, every result is the result
for the upper-cased and for the lower-cased oligo. -/
theorem case_indep (n : Num α) {s : Str} (hs : Acgt s) :
    santaLucia n (upper s) = santaLucia n s ∧ santaLucia n (s.map Char.toLower) = santaLucia n s ∧
    meltingTemp n (upper s) = meltingTemp n s ∧ meltingTemp n (s.map Char.toLower) = meltingTemp n s ∧
    marmurDoty n (upper s) = marmurDoty n s ∧ marmurDoty n (s.map Char.toLower) = marmurDoty n s := by
  obtain ⟨a1, a2, a3⟩ := case_indep_of_upper_eq n (upper_upper hs)
  obtain ⟨b1, b2, b3⟩ := case_indep_of_upper_eq n (upper_lower hs)
  exact ⟨a1, b1, a2, b2, a3, b3⟩

/-- **dH_indep_conc** — the enthalpy (and whether the call panics) does not depend on any of the three
concentrations. -/
theorem dH_indep_conc (n : Num α) (s : Str) (c na mg c' na' mg' : α) :
    (santaLucia n s c na mg).map (·.2.1) = (santaLucia n s c' na' mg').map (·.2.1) := by
  rw [santaLucia_dH, santaLucia_dH]
  exact coreUpper_dH_indep n (upper s) na mg na' mg'

/-- **meltingTemp_default (general form)** — `MeltingTemp s` is the first component of
`SantaLucia s 500e-9 50e-3 0`. -/
theorem meltingTemp_is_santaLucia_at_defaults (n : Num α) (s : Str) :
    meltingTemp n s = (santaLucia n s (n.dec 500 9) (n.dec 50 3) (n.ofInt 0)).map (·.1) := rfl

end generic

/-- **meltingTemp_default** over the reals: 500 nM oligo, 50 mM sodium, no magnesium. -/
theorem meltingTemp_default (s : Str) :
    meltingTemp realNum s = (santaLucia realNum s 500e-9 50e-3 0).map (·.1) := by
  have h1 : realNum.dec 500 9 = 500e-9 := by norm_num [Num.dec, realNum]
  have h2 : realNum.dec 50 3 = 50e-3 := by norm_num [Num.dec, realNum]
  have h3 : realNum.ofInt 0 = 0 := by norm_num [realNum]
  rw [meltingTemp_is_santaLucia_at_defaults, h1, h2, h3]

/-! ## signs, the duplex-forming regime, strict monotonicity -/

/-- **dH_neg** — every A/C/G/T oligo with at least one neighbour pair has negative enthalpy. -/
theorem dH_neg {s : Str} (hs : Acgt s) (hl : 2 ≤ s.length) (c na mg : ℝ) :
    ∃ t h S, santaLucia realNum s c na mg = .ok (t, h, S) ∧ h < 0 := by
  have hne : s ≠ [] := by intro h; rw [h] at hl; simp at hl
  obtain ⟨b, -, hbl, hf⟩ := santaLucia_formula hs hne c na mg
  exact ⟨_, _, _, hf, exactDH_neg (by omega)⟩

/-- **regime** — within the property's ranges (`0 < C ≤ 1 mM`, `0 < Na + 140 Mg ≤ 15`, which contains
`1 mM ≤ Na ≤ 1 M`, `0 ≤ Mg ≤ 100 mM`) the entropy is negative and so is the denominator
`dS + R ln(C/f)` of the melting-temperature formula, for every oligo of length ≥ 2: the
"duplex-forming regime" of the property statement is the whole range. -/
theorem regime {s : Str} (hs : Acgt s) (hl : 2 ≤ s.length) {c na mg : ℝ} (hc0 : 0 < c) (hc1 : c ≤ 1e-3)
    (h0 : 0 < na + 140 * mg) (h15 : na + 140 * mg ≤ 15) :
    ∃ k, santaLuciaCore realNum s na mg = .ok k ∧ k.dS < 0 ∧
      k.dS + 1.9872 * Real.log (c / k.symmetryFactor) < 0 := by
  obtain ⟨b, hb, hu, hbl⟩ := bases_of_acgt hs
  have hbne : b ≠ [] := by intro h; rw [h] at hbl; simp at hbl; omega
  have hk : santaLuciaCore realNum s na mg = .ok ⟨exactDH b, exactDS b na mg, exactF b⟩ := by
    unfold santaLuciaCore; rw [hu, coreUpper_real b hbne]
  exact ⟨_, hk, exactDS_neg (by omega) h0 h15, exactDen_neg (by omega) hc0 hc1 h0 h15⟩

/-- the ranges named by the property lie inside the hypotheses of `regime` -/
theorem ranges_in_regime {na mg : ℝ} (hna : 1e-3 ≤ na) (hna1 : na ≤ 1) (hmg : 0 ≤ mg) (hmg1 : mg ≤ 0.1) :
    0 < na + 140 * mg ∧ na + 140 * mg ≤ 15 := by
  constructor
  · have : (0 : ℝ) < 1e-3 := by norm_num
    nlinarith
  · norm_num at hmg1; linarith

/-- **tm_mono_oligo** — strictly increasing in the oligo concentration (dH, dS unchanged). -/
theorem tm_mono_oligo {s : Str} (hs : Acgt s) (hl : 2 ≤ s.length) {c₁ c₂ na mg : ℝ}
    (hc₁ : 0 < c₁) (hc : c₁ < c₂) (hc₂ : c₂ ≤ 1e-3) (h0 : 0 < na + 140 * mg) (h15 : na + 140 * mg ≤ 15) :
    ∃ t₁ t₂ h S, santaLucia realNum s c₁ na mg = .ok (t₁, h, S) ∧
      santaLucia realNum s c₂ na mg = .ok (t₂, h, S) ∧ t₁ < t₂ := by
  have hne : s ≠ [] := by intro h; rw [h] at hl; simp at hl
  obtain ⟨b, hb, hbl, hf₁⟩ := santaLucia_formula hs hne c₁ na mg
  obtain ⟨b₁, hb₁, -, hf₂⟩ := santaLucia_formula hs hne c₂ na mg
  obtain rfl : b = b₁ := Option.some.inj (hb.symm.trans hb₁)
  exact ⟨_, _, _, _, hf₁, hf₂, exactTm_mono_oligo (by omega) hc₁ hc hc₂ h0 h15⟩

/-- **tm_mono_na** — strictly increasing in the sodium concentration (dH unchanged, dS increasing). -/
theorem tm_mono_na {s : Str} (hs : Acgt s) (hl : 2 ≤ s.length) {c na₁ na₂ mg : ℝ}
    (hc0 : 0 < c) (hc1 : c ≤ 1e-3) (h0 : 0 < na₁ + 140 * mg) (hna : na₁ < na₂) (h15 : na₂ + 140 * mg ≤ 15) :
    ∃ t₁ t₂ h S₁ S₂, santaLucia realNum s c na₁ mg = .ok (t₁, h, S₁) ∧
      santaLucia realNum s c na₂ mg = .ok (t₂, h, S₂) ∧ S₁ < S₂ ∧ t₁ < t₂ := by
  have hne : s ≠ [] := by intro h; rw [h] at hl; simp at hl
  obtain ⟨b, hb, hbl, hf₁⟩ := santaLucia_formula hs hne c na₁ mg
  obtain ⟨b₁, hb₁, -, hf₂⟩ := santaLucia_formula hs hne c na₂ mg
  obtain rfl : b = b₁ := Option.some.inj (hb.symm.trans hb₁)
  have hlt : na₁ + 140 * mg < na₂ + 140 * mg := by linarith
  exact ⟨_, _, _, _, _, hf₁, hf₂, exactDS_mono_salt (by omega) h0 hlt,
    exactTm_mono_salt (by omega) hc0 hc1 h0 hlt h15⟩

/-- **tm_mono_mg** — strictly increasing in the magnesium concentration (dH unchanged, dS increasing). -/
theorem tm_mono_mg {s : Str} (hs : Acgt s) (hl : 2 ≤ s.length) {c na mg₁ mg₂ : ℝ}
    (hc0 : 0 < c) (hc1 : c ≤ 1e-3) (h0 : 0 < na + 140 * mg₁) (hmg : mg₁ < mg₂) (h15 : na + 140 * mg₂ ≤ 15) :
    ∃ t₁ t₂ h S₁ S₂, santaLucia realNum s c na mg₁ = .ok (t₁, h, S₁) ∧
      santaLucia realNum s c na mg₂ = .ok (t₂, h, S₂) ∧ S₁ < S₂ ∧ t₁ < t₂ := by
  have hne : s ≠ [] := by intro h; rw [h] at hl; simp at hl
  obtain ⟨b, hb, hbl, hf₁⟩ := santaLucia_formula hs hne c na mg₁
  obtain ⟨b₁, hb₁, -, hf₂⟩ := santaLucia_formula hs hne c na mg₂
  obtain rfl : b = b₁ := Option.some.inj (hb.symm.trans hb₁)
  have hlt : na + 140 * mg₁ < na + 140 * mg₂ := by linarith
  exact ⟨_, _, _, _, _, hf₁, hf₂, exactDS_mono_salt (by omega) h0 hlt,
    exactTm_mono_salt (by omega) hc0 hc1 h0 hlt h15⟩

/-! ## what survives rounding: weak monotonicity for monotone, NaN-propagating arithmetic

Strictness cannot survive binary64 (conditions a few ulp apart give equal temperatures); what does
is the ORDER.  `MonoArith n` (Lemmas/Thermo.lean) lists the facts used: NaN propagation (`Ok a := a ≤ a`,
for binary64 "not NaN": a defined result had defined operands) and monotonicity of `+ - * / log` in the
stated arguments whenever both results are defined.  Each law is true of IEEE-754 round-to-nearest with
a sound logarithm INCLUDING NaN and ±∞ (the guards exclude exactly ∞−∞, 0·∞, ∞/∞, 0/0).  For such an
arithmetic the model never decreases Tm when any of the three concentrations grows, provided both
temperatures are defined and the computed values have the signs of the regime.
Honest scope: that binary64 with Go's `math.Log` satisfies `MonoArith` is an ASSUMPTION about IEEE
arithmetic which Lean cannot discharge (`Float` is opaque); the theorem is a conditional statement, it is
NOT evidence about float64 by itself.  The float64 behaviour is established by the correspondence
check and the judge only (see PARTIAL in gen/c19.py). -/

section mono
variable {α : Type} [Add α] [Sub α] [Mul α] [Div α] [LE α] [LT α]

/-- **tm_weak_mono_any_arith** — coordinate-wise larger concentrations never give a smaller Tm (and give
the same dH, a dS at least as large), for every number type satisfying `MonoArith`, when both reported
temperatures are defined (`Ok`) and the computed quantities satisfy: `140, R, 0.368·(N−1) ≥ 0`, salt
effect `> 0`, `f > 0`, `C/f > 0`, `dH·1000 ≤ 0`, and the denominator at the larger condition `< 0`. -/
theorem tm_weak_mono_any_arith {n : Num α} (A : MonoArith n) (s : Str) {c c' na na' mg mg' : α}
    (hc : c ≤ c') (hna : na ≤ na') (hmg : mg ≤ mg')
    (h140 : n.ofInt 0 ≤ n.ofInt 140) (hR : n.ofInt 0 ≤ n.dec 19872 4)
    (hK : n.ofInt 0 ≤ n.dec 368 3 * n.ofInt (((upper s).length : Int) - 1))
    (hsalt : n.ofInt 0 < na + mg * n.ofInt 140)
    {k k' : Core α} (hk : santaLuciaCore n s na mg = .ok k) (hk' : santaLuciaCore n s na' mg' = .ok k')
    (hf : n.ofInt 0 < k.symmetryFactor) (hcf : n.ofInt 0 < c / k.symmetryFactor)
    (hH : k.dH * n.ofInt 1000 ≤ n.ofInt 0)
    (hD : k'.dS + n.dec 19872 4 * n.log (c' / k'.symmetryFactor) < n.ofInt 0)
    {t h S t' h' S' : α} (hr : santaLucia n s c na mg = .ok (t, h, S))
    (hr' : santaLucia n s c' na' mg' = .ok (t', h', S')) (ot : Ok t) (ot' : Ok t') :
    h = h' ∧ S ≤ S' ∧ t ≤ t' :=
  santaLucia_weak_mono A s hc hna hmg h140 hR hK hsalt hk hk' hf hcf hH hD hr hr' ot ot'

end mono

/-- the assumptions are consistent: exact real arithmetic satisfies all of them -/
theorem monotone_arith_real : MonoArith realNum := monoArith_real

/-- non-vacuity of `tm_weak_mono_any_arith`: over ℝ every one of its hypotheses holds for each A/C/G/T
oligo of length ≥ 2 on the property's ranges, and it yields the weak form of the three monotonicity
theorems in one statement (all three concentrations moving at once). -/
theorem tm_weak_mono_real {s : Str} (hs : Acgt s) (hl : 2 ≤ s.length) {c c' na na' mg mg' : ℝ}
    (hc0 : 0 < c) (hc : c ≤ c') (hc1 : c' ≤ 1e-3) (hna : na ≤ na') (hmg : mg ≤ mg')
    (h0 : 0 < na + 140 * mg) (h15 : na' + 140 * mg' ≤ 15) :
    ∃ t t' h S S', santaLucia realNum s c na mg = .ok (t, h, S) ∧
      santaLucia realNum s c' na' mg' = .ok (t', h, S') ∧ S ≤ S' ∧ t ≤ t' := by
  have hne : s ≠ [] := by intro h; rw [h] at hl; simp at hl
  obtain ⟨b, hb, hu, hbl⟩ := bases_of_acgt hs
  have hbne : b ≠ [] := by intro h; rw [h] at hbl; simp at hbl; omega
  have hb2 : 2 ≤ b.length := by omega
  have h0' : 0 < na' + 140 * mg' := by linarith
  have hk : santaLuciaCore realNum s na mg = .ok ⟨exactDH b, exactDS b na mg, exactF b⟩ := by
    unfold santaLuciaCore; rw [hu, coreUpper_real b hbne]
  have hk' : santaLuciaCore realNum s na' mg' = .ok ⟨exactDH b, exactDS b na' mg', exactF b⟩ := by
    unfold santaLuciaCore; rw [hu, coreUpper_real b hbne]
  obtain ⟨b₁, hb₁, -, hf₁⟩ := santaLucia_formula hs hne c na mg
  obtain ⟨b₂, hb₂, -, hf₂⟩ := santaLucia_formula hs hne c' na' mg'
  obtain rfl : b = b₁ := Option.some.inj (hb.symm.trans hb₁)
  obtain rfl : b = b₂ := Option.some.inj (hb.symm.trans hb₂)
  obtain ⟨hfpos, -⟩ := exactF_pos b
  have hlen : (upper s).length = b.length := by rw [hu, List.length_map]
  have key := tm_weak_mono_any_arith monoArith_real s (c := c) (c' := c') (na := na) (na' := na')
    (mg := mg) (mg' := mg') hc hna hmg
    (by norm_num [realNum]) (by norm_num [realNum, Num.dec])
    (by
      rw [hlen]
      have : (2 : ℝ) ≤ (b.length : ℝ) := by exact_mod_cast hb2
      simp only [realNum, Num.dec]; push_cast; norm_num; linarith)
    (by simp only [realNum]; push_cast; linarith)
    hk hk'
    (by simpa [realNum] using hfpos)
    (by simpa [realNum] using div_pos hc0 hfpos)
    (by
      have := exactDH_neg hb2
      simp only [realNum]; push_cast; linarith)
    (by
      have := exactDen_neg hb2 (lt_of_lt_of_le hc0 hc) hc1 h0' h15
      unfold exactDen at this
      simp only [realNum, Num.dec]; push_cast; norm_num at this ⊢; linarith)
    hf₁ hf₂ (le_refl _) (le_refl _)
  exact ⟨_, _, _, _, _, hf₁, hf₂, key.2.1, key.2.2⟩

/-! ## Marmur–Doty -/

/-- **marmurDoty_formula** — `2(A+T) + 4(G+C) − 7` with the counts of the upper-cased letters (for every
string), which for an A/C/G/T oligo is 2 per A/T base plus 4 per G/C base minus 7. -/
theorem marmurDoty_formula (s : Str) :
    marmurDoty realNum s =
      2 * (((upper s).count 'A' : ℝ) + (upper s).count 'T') + 4 * (((upper s).count 'G' : ℝ) + (upper s).count 'C') - 7 := by
  simp only [marmurDoty, realNum]
  push_cast
  ring

theorem marmurDoty_spec {s : Str} (hs : Acgt s) :
    ∃ b, NN.basesOf? s = some b ∧ marmurDoty realNum s = (NN.marmurDoty b : ℝ) := by
  obtain ⟨b, hb, hu, -⟩ := bases_of_acgt hs
  refine ⟨b, hb, ?_⟩
  rw [marmurDoty_formula, hu]
  unfold NN.marmurDoty
  have key : ∀ b : List Base,
      2 * (((b.map Base.toChar).count 'A' : ℝ) + (b.map Base.toChar).count 'T')
        + 4 * (((b.map Base.toChar).count 'G' : ℝ) + (b.map Base.toChar).count 'C')
      = (((b.map NN.mdWeight).sum : Int) : ℝ) := by
    intro b
    induction b with
    | nil => simp
    | cons x xs ih =>
      cases x <;> simp [Base.toChar, NN.mdWeight] at ih ⊢ <;> linarith
  rw [key b, Int.cast_sub, Int.cast_ofNat]

/-! ## non-vacuity: concrete inputs satisfying the hypotheses -/

example : Acgt "GAATTC".toList ∧ 2 ≤ "GAATTC".toList.length := by decide
example : Acgt "acgATGgcagtAGCatgc".toList := by decide
/-- the EcoRI site is self-complementary, `ACGT…` with a trailing `A` is not; spec values in tenths -/
example : NN.selfComplementary [.G, .A, .A, .T, .T, .C] = true ∧ NN.dH10 [.G, .A, .A, .T, .T, .C] = -386
    ∧ NN.dS10 [.G, .A, .A, .T, .T, .C] = -57 - 14 - 222 - 213 - 204 - 213 - 222 := by decide
example : NN.selfComplementary [.A, .C, .G, .A] = false ∧ NN.endsInAT [.A, .C, .G, .A] = true
    ∧ NN.dH10 [.A, .C, .G, .A] = 2 + 22 - 84 - 106 - 82 := by decide
/-- the default conditions and the grid corners lie in the regime -/
example : (0 : ℝ) < 500e-9 ∧ (500e-9 : ℝ) ≤ 1e-3 ∧ (0 : ℝ) < 50e-3 + 140 * 0 ∧ (50e-3 : ℝ) + 140 * 0 ≤ 15 := by
  norm_num
example : (0 : ℝ) < 1 + 140 * 0.1 ∧ (1 : ℝ) + 140 * 0.1 ≤ 15 := by norm_num
example : ∃ t₁ t₂ h S, santaLucia realNum "GAATTC".toList 1e-9 50e-3 0 = .ok (t₁, h, S) ∧
    santaLucia realNum "GAATTC".toList 1e-3 50e-3 0 = .ok (t₂, h, S) ∧ t₁ < t₂ :=
  tm_mono_oligo (by decide) (by decide) (by norm_num) (by norm_num) (by norm_num) (by norm_num) (by norm_num)

end PolyVerif.Props.C19
