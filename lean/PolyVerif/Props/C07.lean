import Mathlib.Data.List.Nodup
import PolyVerif.Lemmas.CodonOptimize
/-
C07 — Optimized coding sequences translate back to the requested protein.

The theorems hold
* for every table `t` with `WF t` (it lists each of the 64 codons exactly once; weights are non-negative; the
  usage total of every amino acid is below 2^50, the range where the exact share test is the code's float test —
  so the 25 default tables, `default_wf`, and every re-weighting of them from a sequence shorter than 3·2^50),
* for every `sorter` that returns a permutation of its argument (`sort.Slice` is unstable: the order of
  equal-weight choices is universally quantified; sortedness is not even needed) — `stableSort_perm` shows the
  stable sort used to replay real runs is one of them,
* for every protein and every list of draws consistent with the run (`DrawsOK`: each draw actually made
  lies in `[1, max]` of the chooser it is made from).
The float share test is modelled exactly (`10·w > Σw`); see Model/CodonOptimize.lean for the assumption.
-/
namespace PolyVerif.Props.C07
open PolyVerif PolyVerif.Codon PolyVerif.CodonTranslate PolyVerif.CodonOptimize

variable {sorter : List Choice → List Choice}

/-- Optimize succeeds on an encodable protein, and what it returns is a possible codon list -/
theorem optimize_total (hperm : ∀ l, (sorter l).Perm l) {t : Table} (hwf : WF t) {p : Str} (hp : p ≠ [])
    {rs : List Nat} (hd : DrawsOK (chooserMap sorter t) p rs) (henc : ∀ aa ∈ p, hasChooser t [aa] = true) :
    ∃ cs, Emits t p cs ∧ optimize sorter t p rs = some (.ok cs.flatten) := by
  obtain ⟨cs, hem, hloop⟩ := optimizeLoop_ok hperm hwf.2.1 p rs [] hd henc
  refine ⟨cs, hem, ?_⟩
  have hb : byteLen p ≠ 0 := fun h => hp ((byteLen_eq_zero p).1 h)
  simp [optimize, partition_nonempty hwf.1, hb, hloop]

/-- three bases per residue -/
theorem optimize_len (hperm : ∀ l, (sorter l).Perm l) {t : Table} (hwf : WF t) {p : Str} (hp : p ≠ [])
    {rs : List Nat} (hd : DrawsOK (chooserMap sorter t) p rs) (henc : ∀ aa ∈ p, hasChooser t [aa] = true)
    {dna : Str} (h : optimize sorter t p rs = some (.ok dna)) : dna.length = 3 * p.length := by
  obtain ⟨cs, hem, ho⟩ := optimize_total hperm hwf hp hd henc
  rw [ho] at h
  cases h
  have hl := emits_length t p cs hem
  have h3 : ∀ c ∈ cs, c.length = 3 := fun c hc => all64_len3 c ((emits_codons hwf.1 p cs hem).1 c hc)
  rw [← hl]
  clear hem ho hl
  induction cs with
  | nil => rfl
  | cons c cs ih =>
    have := h3 c List.mem_cons_self
    have := ih (fun x hx => h3 x (List.mem_cons_of_mem _ hx))
    simp only [List.flatten_cons, List.length_append, List.length_cons]
    omega

theorem flatten_ascii : ∀ (cs : List Str), (∀ c ∈ cs, c ∈ all64) → Ascii cs.flatten := by
  intro cs h x hx
  obtain ⟨c, hc, hxc⟩ := List.mem_flatten.1 hx
  exact all64_ascii c (h c hc) x hxc

/-- the round trip: translating the optimizer's output under the same table gives the protein back -/
theorem optimize_roundtrip (hperm : ∀ l, (sorter l).Perm l) {t : Table} (hwf : WF t) {p : Str} (hp : p ≠ [])
    {rs : List Nat} (hd : DrawsOK (chooserMap sorter t) p rs) (henc : ∀ aa ∈ p, hasChooser t [aa] = true)
    {dna : Str} (h : optimize sorter t p rs = some (.ok dna)) : translate dna t = .ok p := by
  obtain ⟨cs, hem, ho⟩ := optimize_total hperm hwf hp hd henc
  rw [ho] at h
  cases h
  obtain ⟨hin, hback⟩ := emits_codons hwf.1 p cs hem
  have hcore : translateCore t cs.flatten = p := by
    rw [translateCore_eq_chunks, chunks3_flatten cs (fun c hc => all64_len3 c (hin c hc))]
    exact hback
  have hne : cs.flatten ≠ [] := by
    intro h0
    have := emits_length t p cs hem
    cases cs with
    | nil => exact hp (List.length_eq_zero_iff.1 this.symm)
    | cons c cs' =>
      have := all64_len3 c (hin c List.mem_cons_self)
      simp only [List.flatten_cons, List.append_eq_nil_iff] at h0
      rw [h0.1] at this; cases this
  have hb : byteLen cs.flatten ≠ 0 := fun h => hne ((byteLen_eq_zero _).1 h)
  simp [translate, partition_nonempty hwf.1, hb, hcore]

/-- every emitted codon has a usage share above 10 % among its synonyms and a positive weight
(`Emits`, read off the in-frame codons of the output) -/
theorem optimize_threshold (hperm : ∀ l, (sorter l).Perm l) {t : Table} (hwf : WF t) {p : Str} (hp : p ≠ [])
    {rs : List Nat} (hd : DrawsOK (chooserMap sorter t) p rs) (henc : ∀ aa ∈ p, hasChooser t [aa] = true)
    {dna : Str} (h : optimize sorter t p rs = some (.ok dna)) : Emits t p (chunks3 dna) := by
  obtain ⟨cs, hem, ho⟩ := optimize_total hperm hwf hp hd henc
  rw [ho] at h
  cases h
  rw [chunks3_flatten cs (fun c hc => all64_len3 c ((emits_codons hwf.1 p cs hem).1 c hc))]
  exact hem

/-- the set the correspondence check tests real outputs against is EXACTLY the model's set of possible
outputs: `member t p dna` (a per-position look-up, no chooser built, no draw made) holds iff some list of
in-range draws makes the model return `dna` — for every sorter -/
theorem optimize_possible_iff (hperm : ∀ l, (sorter l).Perm l) {t : Table} (hwf : WF t) {p : Str} (hp : p ≠ [])
    (dna : Str) :
    member t p dna = true ↔
      ∃ rs, DrawsOK (chooserMap sorter t) p rs ∧ optimize sorter t p rs = some (.ok dna) := by
  have hb : byteLen p ≠ 0 := fun h => hp ((byteLen_eq_zero p).1 h)
  have hopt : ∀ rs, optimize sorter t p rs = optimizeLoop (chooserMap sorter t) p rs [] := by
    intro rs; simp [optimize, partition_nonempty hwf.1, hb]
  constructor
  · intro h
    simp only [member, Bool.and_eq_true, beq_iff_eq] at h
    obtain ⟨hlen, hm⟩ := h
    have hpos := (memberLoop_iff _ _ _).1 hm
    obtain ⟨rs, hd, hloop⟩ := loop_of_posOK hperm hwf p (chunks3 dna) [] hpos
    refine ⟨rs, hd, ?_⟩
    rw [hopt, hloop, flatten_chunks3 dna (by omega)]
    rfl
  · rintro ⟨rs, hd, ho⟩
    rw [hopt] at ho
    obtain ⟨cs, hpos, hout⟩ := posOK_of_loop hperm hwf p rs [] dna hd ho
    simp only [List.nil_append] at hout
    have h3 : ∀ c ∈ cs, c.length = 3 := fun c hc => all64_len3 c (posOK_items hwf.1 p cs hpos c hc)
    simp only [member, Bool.and_eq_true, beq_iff_eq]
    refine ⟨?_, ?_⟩
    · rw [hout, flatten_length3 cs h3, posOK_length _ p cs hpos]
    · rw [hout, chunks3_flatten cs h3]
      exact (memberLoop_iff _ _ _).2 hpos

/-- an amino acid with positive total usage and at most 9 synonyms has a codon above the 10 % share:
it gets a chooser (with `max > 0`, so `rand.Intn` cannot panic) -/
theorem eligible_exists (a : AminoAcid) (hpos : 0 < sumWeights a) (h9 : a.codons.length ≤ 9) :
    (∃ c ∈ a.codons, 10 * c.weight > sumWeights a) ∧ choices a ≠ [] := by
  have key : ∀ (l : List Codon.Codon) (S : Int), (∀ c ∈ l, 10 * c.weight ≤ S) →
      10 * (l.map (·.weight)).sum ≤ (l.length : Int) * S := by
    intro l S
    induction l with
    | nil => simp
    | cons c cs ih =>
      intro h
      have h1 := h c List.mem_cons_self
      have h2 := ih (fun x hx => h x (List.mem_cons_of_mem _ hx))
      simp only [List.map_cons, List.sum_cons, List.length_cons, Int.natCast_add, Int.natCast_one, Int.add_mul, Int.one_mul]
      omega
  have hex : ∃ c ∈ a.codons, 10 * c.weight > sumWeights a := by
    apply Classical.byContradiction
    intro hno
    have hall : ∀ c ∈ a.codons, 10 * c.weight ≤ sumWeights a := by
      intro c hc
      apply Classical.byContradiction
      intro hlt
      exact hno ⟨c, hc, by omega⟩
    have h10 := key a.codons (sumWeights a) hall
    have hle : (a.codons.length : Int) * sumWeights a ≤ 9 * sumWeights a :=
      Int.mul_le_mul_of_nonneg_right (by omega) (Int.le_of_lt hpos)
    unfold sumWeights at *
    omega
  refine ⟨hex, ?_⟩
  obtain ⟨c, hc, hgt⟩ := hex
  intro h0
  have : ({ item := c.triplet, weight := c.weight } : Choice) ∈ choices a := by
    simp only [choices, List.mem_map, List.mem_filter]
    refine ⟨c, ⟨hc, ?_⟩, rfl⟩
    simp only [shareTest, hpos, if_true, decide_eq_true_eq]
    exact hgt
  rw [h0] at this
  cases this

/-- "a table in which the requested amino acid has positive usage": such an entry (with at most 9 synonyms)
makes its letter encodable -/
theorem positive_usage_encodable {t : Table} {a : AminoAcid} (ha : a ∈ t.aminoAcids)
    (hpos : 0 < sumWeights a) (h9 : a.codons.length ≤ 9) : hasChooser t a.letter = true := by
  simp only [hasChooser, List.any_eq_true, Bool.and_eq_true, beq_iff_eq, decide_eq_true_eq]
  exact ⟨a, ha, rfl, List.length_pos_iff.2 (eligible_exists a hpos h9).2⟩

/-- the other side of the 10 % rule: an amino acid with ten or more synonyms of EQUAL usage has no codon whose
share exceeds 10 % (each share is at most exactly 1/10), so it gets no chooser and `Optimize` returns the error
although its usage is positive.  (The statement's "positive usage" clause and its "> 10 %" clause disagree there;
the code, the model and the judge follow the threshold.  No NCBI code has more than 8 synonyms, `default_synonyms_le_8`.) -/
theorem ten_equal_synonyms_unencodable (a : AminoAcid) (w : Int) (hw : 0 ≤ w) (hall : ∀ c ∈ a.codons, c.weight = w)
    (h10 : 10 ≤ a.codons.length) : choices a = [] := by
  have hsum : ∀ l : List Codon.Codon, (∀ c ∈ l, c.weight = w) → (l.map (·.weight)).sum = (l.length : Int) * w := by
    intro l
    induction l with
    | nil => simp
    | cons c cs ih =>
      intro h
      have h1 := h c List.mem_cons_self
      have h2 := ih (fun x hx => h x (List.mem_cons_of_mem _ hx))
      simp only [List.map_cons, List.sum_cons, List.length_cons, Int.natCast_add, Int.natCast_one, Int.add_mul, Int.one_mul, h1, h2]
      omega
  have hs : sumWeights a = (a.codons.length : Int) * w := hsum a.codons hall
  have hge : 10 * w ≤ sumWeights a := by
    rw [hs]
    exact Int.mul_le_mul_of_nonneg_right (by omega) hw
  simp only [choices, List.map_eq_nil_iff, List.filter_eq_nil_iff]
  intro c hc
  have hcw := hall c hc
  simp only [shareTest, hcw]
  split
  · simp; omega
  · split
    · omega
    · simp; omega

/-- "in proportion to its weight", exactly: of the `max` equally likely values of `rand.Intn(max) + 1`,
exactly `w(c)` make `Pick` return codon `c` — whatever order the unstable sort left the choices in -/
theorem pick_proportional (hperm : ∀ l, (sorter l).Perm l) {t : Table} (hwf : WF t)
    {a : AminoAcid} (ha : a ∈ t.aminoAcids) {c : Codon.Codon} (hc : c ∈ a.codons)
    (hel : shareTest c.weight (sumWeights a) = true) :
    ((List.range' 1 (newChooser sorter (choices a)).max.toNat).countP
      fun (r : Nat) => decide (pick (newChooser sorter (choices a)) r = .ok c.triplet)) = c.weight.toNat := by
  have hn := hwf.2.1 a ha
  have hdata : ∀ ch ∈ sorter (choices a), 0 ≤ ch.weight := by
    intro ch hch
    obtain ⟨c', _, rfl, _, hpos⟩ := mem_choices hn ((hperm _).mem_iff.1 hch)
    exact Int.le_of_lt hpos
  -- the triplets of one entry are distinct
  have hnd_trip : (a.codons.map (·.triplet)).Nodup := by
    have h := hwf.1.1
    simp only [triplets] at h
    exact (List.nodup_flatMap.1 h).1 a ha
  have hnd_choices : (choices a).Nodup := by
    have : ((choices a).map (·.item)).Nodup := by
      simp only [choices, List.map_map]
      exact (List.Sublist.map _ List.filter_sublist).nodup hnd_trip
    exact List.Nodup.of_map _ this
  have hnd : (sorter (choices a)).Nodup := ((hperm _).nodup_iff).2 hnd_choices
  have hmem : ({ item := c.triplet, weight := c.weight } : Choice) ∈ sorter (choices a) := by
    apply (hperm _).mem_iff.2
    simp only [choices, List.mem_map, List.mem_filter]
    exact ⟨c, ⟨hc, hel⟩, rfl⟩
  have hcount := linPick_count (sorter (choices a)) hdata hnd { item := c.triplet, weight := c.weight }
  simp only [hmem, if_true] at hcount
  rw [← hcount]
  have hmax : (newChooser sorter (choices a)).max = sumW (sorter (choices a)) := rfl
  rw [hmax]
  apply List.countP_congr
  intro r hr
  have hr' := List.mem_range'_1.1 hr
  have hS : 0 ≤ sumW (sorter (choices a)) := sumW_nonneg _ hdata
  have hpos : ¬ (newChooser sorter (choices a)).max ≤ 0 := by rw [hmax]; omega
  have hsearch : (newChooser sorter (choices a)).data[searchInts (newChooser sorter (choices a)).totals (r : Int)]? =
      linPick (sorter (choices a)) r := search_eq_linPick (sorter (choices a)) hdata r
  simp only [pick, hpos, if_false, hsearch, decide_eq_true_eq]
  -- picking the item `c.triplet` is picking the choice of `c`: items are distinct
  cases hl : linPick (sorter (choices a)) (r : Int) with
  | none => simp
  | some ch =>
    have hchm := linPick_mem _ _ _ hl
    obtain ⟨c', hc', rfl, _, _⟩ := mem_choices hn ((hperm _).mem_iff.1 hchm)
    simp only [Outcome.ok.injEq, Option.some.injEq, Choice.mk.injEq]
    constructor
    · intro h
      have : c' = c := by
        have hinj := List.inj_on_of_nodup_map hnd_trip
        exact hinj hc' hc h
      subst this; exact ⟨rfl, rfl⟩
    · intro h; exact h.1

/-- a residue the table cannot encode (no entry of that name — lower case, 'J', … — or no codon above the
share, e.g. all synonyms have weight zero) makes Optimize return the error, whatever was drawn before -/
theorem optimize_unencodable (hperm : ∀ l, (sorter l).Perm l) {t : Table} (hwf : WF t) {p : Str}
    {rs : List Nat} (hd : DrawsOK (chooserMap sorter t) p rs) (hbad : ∃ aa ∈ p, hasChooser t [aa] = false) :
    optimize sorter t p rs = some .err := by
  have hp : p ≠ [] := by
    obtain ⟨_, h, _⟩ := hbad
    exact List.ne_nil_of_mem h
  have hb : byteLen p ≠ 0 := fun h => hp ((byteLen_eq_zero p).1 h)
  simp [optimize, partition_nonempty hwf.1, hb, optimizeLoop_err hperm hwf.2.1 p rs [] hd hbad]

/-- the residues that have no chooser: no entry of that name, or an entry none of whose codons passes the
share test — in particular an entry whose synonyms all have weight zero -/
theorem unencodable_zero (t : Table) (l : Str)
    (h : ∀ a ∈ t.aminoAcids, a.letter = l → ∀ c ∈ a.codons, c.weight = 0) : hasChooser t l = false := by
  rw [Bool.eq_false_iff]
  intro hc
  simp only [hasChooser, List.any_eq_true, Bool.and_eq_true, beq_iff_eq, decide_eq_true_eq] at hc
  obtain ⟨a, ha, hl, hpos⟩ := hc
  have hz := h a ha hl
  have hs : sumWeights a = 0 := by
    unfold sumWeights
    generalize a.codons = cs at hz
    induction cs with
    | nil => rfl
    | cons c cs ih =>
      have := hz c List.mem_cons_self
      have := ih (fun x hx => hz x (List.mem_cons_of_mem _ hx))
      simp only [List.map_cons, List.sum_cons]; omega
  have : choices a = [] := by
    simp only [choices, List.map_eq_nil_iff, List.filter_eq_nil_iff]
    intro c hc
    simp [shareTest, hs, hz c hc]
  simp [this] at hpos

/-- the stable sort by weight — the sorter with which real `Optimize` runs are replayed on the model, and the
order `sort.Slice` leaves on the short slices a chooser is built from — is one of the sorters the theorems cover -/
theorem stableSort_admissible : ∀ l : List Choice, (stableSort l).Perm l := stableSort_perm

/-- the two guards -/
theorem optimize_empty_table (p : Str) (rs : List Nat) :
    optimize sorter { startCodons := [], stopCodons := [], aminoAcids := [] } p rs = some .err := rfl

theorem optimize_empty_protein (t : Table) (rs : List Nat) : optimize sorter t [] rs = some .err := by
  simp [optimize, byteLen]

/-! ### the default tables and the library's random proteins -/

theorem default_nonneg : ∀ id ∈ Spec.Ncbi.ids, NonNeg (getCodonTable id) := by decide +kernel

theorem default_bounded : ∀ id ∈ Spec.Ncbi.ids, Bounded (getCodonTable id) := by decide +kernel

theorem default_wf : ∀ id ∈ Spec.Ncbi.ids, WF (getCodonTable id) :=
  fun id hid => ⟨(rowOk_spec (rows_ok id hid)).2.1.1, default_nonneg id hid, default_bounded id hid⟩

/-- no genetic code gives an amino acid more than 8 codons (S in codes 5, 9, 14, 21; T in code 3): for the 25
default tables and every re-weighting of them the side condition `≤ 9 synonyms` of `eligible_exists` /
`positive_usage_encodable` always holds, so there "positive usage" does imply "encodable" -/
theorem default_synonyms_le_8 : ∀ id ∈ Spec.Ncbi.ids, ∀ a ∈ (getCodonTable id).aminoAcids, a.codons.length ≤ 8 := by
  decide +kernel

/-- the three codes without a termination entry (their stop codons are context dependent and read as amino acids) -/
def noStopIds : List Nat := [27, 28, 31]

/-- every default table encodes the 20 standard amino acids; all but codes 27, 28, 31 also encode '*' -/
theorem default_encodes : ∀ id ∈ Spec.Ncbi.ids,
    (∀ aa ∈ proteinAlphabet, hasChooser (getCodonTable id) [aa] = true) ∧
    (hasChooser (getCodonTable id) ['*'] = !(noStopIds.contains id)) := by decide +kernel

theorem proteinBody_spec (draw : Nat → Nat) (hdraw : ∀ i, draw i < 20) : ∀ (n i : Nat),
    ∃ body, proteinBody draw n i = .ok body ∧ body.length = n ∧ ∀ c ∈ body, c ∈ proteinAlphabet
  | 0, _ => ⟨[], rfl, rfl, by simp⟩
  | n + 1, i => by
    obtain ⟨rest, hr, hl, hm⟩ := proteinBody_spec draw hdraw n (i + 1)
    have hlt : draw i < proteinAlphabet.length := by
      have : proteinAlphabet.length = 20 := by decide
      rw [this]; exact hdraw i
    refine ⟨proteinAlphabet[draw i] :: rest, ?_, by simp [hl], ?_⟩
    · simp [proteinBody, List.getElem?_eq_getElem hlt, hr]
    · intro c hc
      rcases List.mem_cons.1 hc with rfl | hc
      · exact List.getElem_mem _
      · exact hm c hc

/-- `ProteinSequence`: an error for `length ≤ 2`; otherwise `M`, then `length - 2` letters of the 20 standard
amino acids, then `*` -/
theorem random_protein_alphabet (draw : Nat → Nat) (hdraw : ∀ i, draw i < 20) (length : Int) :
    (length ≤ 2 → proteinSequence length draw = .err) ∧
    (2 < length → ∃ body, proteinSequence length draw = .ok ('M' :: body ++ ['*']) ∧
      (body.length : Int) = length - 2 ∧ ∀ c ∈ body, c ∈ proteinAlphabet) := by
  constructor
  · intro h; simp [proteinSequence, h]
  · intro h
    obtain ⟨body, hb, hl, hm⟩ := proteinBody_spec draw hdraw (length - 2).toNat 0
    refine ⟨body, ?_, by omega, hm⟩
    have : ¬ length ≤ 2 := by omega
    simp [proteinSequence, this, hb]

/-- every random protein is encodable by every default table that has a termination entry, so Optimize
succeeds on it and the result translates back -/
theorem random_protein_roundtrip (hperm : ∀ l, (sorter l).Perm l) (draw : Nat → Nat) (hdraw : ∀ i, draw i < 20)
    (length : Int) (hlen : 2 < length) (id : Nat) (hid : id ∈ Spec.Ncbi.ids) (hstop : noStopIds.contains id = false)
    (rs : List Nat) :
    ∃ p, proteinSequence length draw = .ok p ∧
      (DrawsOK (chooserMap sorter (getCodonTable id)) p rs →
        ∃ dna, optimize sorter (getCodonTable id) p rs = some (.ok dna) ∧ dna.length = 3 * p.length ∧
          translate dna (getCodonTable id) = .ok p ∧ Emits (getCodonTable id) p (chunks3 dna)) := by
  obtain ⟨body, hp, _, hm⟩ := (random_protein_alphabet draw hdraw length).2 hlen
  refine ⟨_, hp, ?_⟩
  intro hd
  have hwf := default_wf id hid
  obtain ⟨h20, hst⟩ := default_encodes id hid
  rw [hstop] at hst
  have henc : ∀ aa ∈ 'M' :: body ++ ['*'], hasChooser (getCodonTable id) [aa] = true := by
    intro aa haa
    simp only [List.cons_append, List.mem_cons, List.mem_append, List.not_mem_nil, or_false] at haa
    rcases haa with rfl | haa | rfl
    · exact h20 'M' (by decide)
    · exact h20 aa (hm aa haa)
    · exact hst
  have hne : ('M' :: body ++ ['*']) ≠ [] := by simp
  obtain ⟨cs, _, ho⟩ := optimize_total hperm hwf hne hd henc
  exact ⟨cs.flatten, ho, optimize_len hperm hwf hne hd henc ho, optimize_roundtrip hperm hwf hne hd henc ho,
    optimize_threshold hperm hwf hne hd henc ho⟩

/-- … and under codes 27, 28, 31, whose tables have no `*` entry, the final `*` of a random protein is
unencodable: Optimize returns the error (it does not crash) -/
theorem random_protein_no_stop (hperm : ∀ l, (sorter l).Perm l) (draw : Nat → Nat) (hdraw : ∀ i, draw i < 20)
    (length : Int) (hlen : 2 < length) (id : Nat) (hid : id ∈ Spec.Ncbi.ids) (hstop : noStopIds.contains id = true)
    (rs : List Nat) :
    ∃ p, proteinSequence length draw = .ok p ∧
      (DrawsOK (chooserMap sorter (getCodonTable id)) p rs → optimize sorter (getCodonTable id) p rs = some .err) := by
  obtain ⟨body, hp, _, _⟩ := (random_protein_alphabet draw hdraw length).2 hlen
  refine ⟨_, hp, fun hd => optimize_unencodable hperm (default_wf id hid) hd ⟨'*', by simp, ?_⟩⟩
  have := (default_encodes id hid).2
  rw [hstop] at this
  exact this

/-! ### non-vacuity -/

/-- a concrete run: table 11, protein "MK*", draws 1, 2, 1 (insertion order standing in for the sort) -/
example : WF (getCodonTable 11) ∧ DrawsOK (chooserMap id (getCodonTable 11)) "MK*".toList [1, 2, 1] ∧
    optimize id (getCodonTable 11) "MK*".toList [1, 2, 1] = some (.ok "ATGAAGTAA".toList) ∧
    translate "ATGAAGTAA".toList (getCodonTable 11) = .ok "MK*".toList := by decide +kernel

/-- the hypotheses of `pick_proportional`, `eligible_exists`, `positive_usage_encodable` are satisfiable -/
example : ∃ a ∈ (getCodonTable 11).aminoAcids, 0 < sumWeights a ∧ a.codons.length ≤ 9 ∧ a.codons.length > 1 ∧
    ∃ c ∈ a.codons, shareTest c.weight (sumWeights a) = true := by decide +kernel

/-- the membership test accepts a possible output and rejects an impossible one -/
example : member (getCodonTable 11) "MK*".toList "ATGAAGTAA".toList = true ∧
    member (getCodonTable 11) "MK*".toList "ATGAAGTTT".toList = false ∧
    member (getCodonTable 11) "MK*".toList "ATGAAG".toList = false := by decide +kernel

/-- the threshold at work: L has weights 1,1,1,1,1,20 (sum 25): only CTG (20) passes; 10·1 > 25 fails -/
example : choices { letter := ['L'], codons := [⟨"TTA".toList, 1⟩, ⟨"TTG".toList, 1⟩, ⟨"CTT".toList, 1⟩,
    ⟨"CTC".toList, 1⟩, ⟨"CTA".toList, 1⟩, ⟨"CTG".toList, 20⟩] } = [⟨"CTG".toList, 20⟩] := by decide +kernel

/-- the boundary: a share of exactly 10 % is not enough (`>`), 0/0 (NaN) fails -/
example : shareTest 1 10 = false ∧ shareTest 2 19 = true ∧ shareTest 0 0 = false := by decide

/-- ten equally used synonyms: none is above 10 %, the amino acid is unencodable (why `eligible_exists` needs ≤ 9) -/
example : choices { letter := ['X'], codons := (List.range 10).map fun i => ⟨[Char.ofNat (65 + i)], 1⟩ } = [] := by
  decide +kernel

/-- unencodable residues under a default table: lower case, 'J', and '*' under code 27 -/
example : hasChooser (getCodonTable 1) ['k'] = false ∧ hasChooser (getCodonTable 1) ['J'] = false ∧
    hasChooser (getCodonTable 27) ['*'] = false ∧
    optimize id (getCodonTable 1) "MkV".toList [1] = some .err := by decide +kernel

end PolyVerif.Props.C07
