import PolyVerif.Lemmas.RotationSpec
/-
C12 — Circular sequences rotate to their lexicographically least rotation.

This module holds the theorems about the SPECIFICATION (`Spec.leastRotation`, the arg-min over
all rotations under byte-lexicographic order), for strings of EVERY length including the empty
string: what "a rotation" is (same length, same letters in the same cyclic order), that the order
is a total order so that "least" is meaningful and unique, that the arg-min is a rotation, is no
greater than any rotation, and is constant on rotation classes — and that ANY function with the
first two properties canonicalises (`canonical_of_least`), which is the property's "consequently"
clause.  That the Booth-loop model of the Go code computes this arg-min is a separate module
(Props/C12Booth.lean); nothing here depends on it.  Helper lemmas: Lemmas/RotationSpec.lean.
-/
namespace PolyVerif.Props.C12
open PolyVerif PolyVerif.Spec

/-! ### what "a rotation of the input" means -/

theorem rotl_length (k : Nat) (s : Str) : (rotl k s).length = s.length := Spec.rotl_length k s

/-- same letters with the same multiplicities -/
theorem rotl_perm (k : Nat) (s : Str) : (rotl k s).Perm s := Spec.rotl_perm k s

/-- the laws of rotation: identity, full turn, composition, offsets count modulo the length -/
theorem rotl_laws (s : Str) :
    rotl 0 s = s ∧ rotl s.length s = s ∧ (∀ a b, rotl a (rotl b s) = rotl (a + b) s) ∧
      (∀ k, rotl (k % s.length) s = rotl k s) ∧ (∀ k, rotl (s.length - k % s.length) (rotl k s) = s) :=
  ⟨rotl_zero s, rotl_length_self s, fun a b => rotl_rotl a b s, fun k => rotl_mod k s, fun k => rotl_inv k s⟩

/-- "same letters in the same cyclic order": `a` is a rotation of `b` iff `b` can be cut into two
pieces `u ++ v` with `a = v ++ u` -/
theorem isRotation_iff_cut (a b : Str) : IsRotation a b ↔ ∃ u v, b = u ++ v ∧ a = v ++ u := by
  constructor
  · rintro ⟨k, rfl⟩
    exact ⟨b.take (k % b.length), b.drop (k % b.length), (List.take_append_drop _ _).symm, rfl⟩
  · rintro ⟨u, v, rfl, rfl⟩
    refine ⟨u.length, ?_⟩
    rw [rotl_eq_rotate, List.rotate_append_length_eq]

/-- being a rotation is an equivalence relation; related strings have the same length and are
permutations of each other -/
theorem isRotation_equiv : Equivalence IsRotation := isRotation_equivalence

theorem isRotation_same_length {a b : Str} (h : IsRotation a b) : a.length = b.length := h.length_eq

theorem isRotation_same_letters {a b : Str} (h : IsRotation a b) : a.Perm b := h.perm

/-- the set of rotations of a rotation of `s` is the set of rotations of `s` -/
theorem rotations_of_rotation (x : Str) (k : Nat) (s : Str) :
    (IsRotation x (rotl k s) ↔ IsRotation x s) ∧ (x ∈ rotations (rotl k s) ↔ x ∈ rotations s) :=
  ⟨isRotation_rotl_iff x k s, mem_rotations_rotl x k s⟩

/-! ### the order is total, so "least" is meaningful and unique -/

/-- `lexLe` is a total preorder, antisymmetric (hence a total order), `lexLt` is its strict part,
and both coincide with the standard lexicographic order on `List Char` -/
theorem lexLe_total_order :
    (∀ a, lexLe a a = true) ∧
    (∀ a b c, lexLe a b = true → lexLe b c = true → lexLe a c = true) ∧
    (∀ a b, lexLe a b = true ∨ lexLe b a = true) ∧
    (∀ a b, lexLe a b = true → lexLe b a = true → a = b) ∧
    (∀ a b, lexLt a b = true ↔ lexLe a b = true ∧ lexLe b a = false) ∧
    (∀ a b : Str, lexLt a b = true ↔ a < b) :=
  ⟨lexLe_refl, fun _ _ _ => lexLe_trans, lexLe_total, fun _ _ => lexLe_antisymm,
   fun _ _ => lexLt_iff_le_not_le, lexLt_iff_lt⟩

/-- `lexMin` is the binary minimum of that order -/
theorem lexMin_is_min (a b : Str) :
    (lexMin a b = a ∨ lexMin a b = b) ∧ lexLe (lexMin a b) a = true ∧ lexLe (lexMin a b) b = true ∧
      lexMin a b = lexMin b a :=
  ⟨lexMin_eq_or a b, lexMin_le_left a b, lexMin_le_right a b, lexMin_comm a b⟩

/-! ### the arg-min specification -/

/-- the least rotation is a rotation of the input, at an offset below the length -/
theorem least_is_rotation (s : Str) : ∃ k, k < max 1 s.length ∧ leastRotation s = rotl k s :=
  (leastRotation_isRotation s).exists_lt

theorem least_same_length (s : Str) : (leastRotation s).length = s.length := leastRotation_length s

theorem least_same_letters (s : Str) : (leastRotation s).Perm s := (leastRotation_isRotation s).perm

/-- …no greater than ANY rotation (any offset, also beyond the length) -/
theorem least_le_all (s : Str) : ∀ k, lexLe (leastRotation s) (rotl k s) = true :=
  leastRotation_le_rotl s

/-- these two properties determine it -/
theorem least_unique (s m : Str) (hrot : IsRotation m s) (hle : ∀ k, lexLe m (rotl k s) = true) :
    m = leastRotation s := leastRotation_unique hrot hle

/-- every rotation of a sequence is canonicalised to one and the same string -/
theorem least_canonical (s : Str) (k : Nat) : leastRotation (rotl k s) = leastRotation s :=
  leastRotation_rotl k s

/-- two strings have the same canonical form exactly when they are rotations of each other -/
theorem least_eq_iff_rotation (a b : Str) : leastRotation a = leastRotation b ↔ IsRotation a b :=
  leastRotation_eq_iff

/-- the property's "consequently": ANY function that returns a rotation of its input which is no
greater than every rotation canonicalises rotation classes (and is in fact `leastRotation`) -/
theorem canonical_of_least (f : Str → Str)
    (h : ∀ s, IsRotation (f s) s ∧ ∀ k, lexLe (f s) (rotl k s) = true) :
    ∀ s k, f (rotl k s) = f s := by
  have hf : ∀ s, f s = leastRotation s := fun s => leastRotation_unique (h s).1 (h s).2
  intro s k
  rw [hf, hf, leastRotation_rotl]

/-- the index form: `leastIndex s` is an offset below the length, its rotation is the least one,
and no earlier offset gives the least rotation -/
theorem least_index (s : Str) :
    leastIndex s < max 1 s.length ∧ rotl (leastIndex s) s = leastRotation s ∧
      ∀ j, j < leastIndex s → rotl j s ≠ leastRotation s := leastIndex_spec s

/-! ### non-vacuity / sanity on literals (tests, not theorems) -/

example : leastRotation "banana".toList = "abanan".toList := by decide
example : leastIndex "banana".toList = 5 := by decide
example : leastRotation "abab".toList = "abab".toList ∧ leastIndex "abab".toList = 0 := by decide
example : leastRotation [] = [] := by decide
example : IsRotation "nanaba".toList "banana".toList := ⟨2, by decide⟩
example : lexLe "ab".toList "abc".toList = true ∧ lexLt "Z".toList "a".toList = true := by decide
/-- the hypothesis of `canonical_of_least` is satisfiable (by `leastRotation` itself) -/
example : ∀ s, IsRotation (leastRotation s) s ∧ ∀ k, lexLe (leastRotation s) (rotl k s) = true :=
  fun s => ⟨leastRotation_isRotation s, leastRotation_le_rotl s⟩

end PolyVerif.Props.C12
