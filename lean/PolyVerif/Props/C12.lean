import PolyVerif.Model.Seqhash
/-
C12 — Circular sequences rotate to their lexicographically least rotation.
-/
namespace PolyVerif.Props.C12
open PolyVerif PolyVerif.Spec

theorem rotl_length (k : Nat) (s : Str) : (rotl k s).length = s.length := by
  simp [rotl]
  have : k % s.length ≤ s.length ∨ s.length = 0 := by
    by_cases h : s.length = 0
    · right; exact h
    · left; exact Nat.le_of_lt (Nat.mod_lt _ (Nat.pos_of_ne_zero h))
  omega

end PolyVerif.Props.C12
