import PolyVerif.Lemmas.BoothLex
/-
C12 — the Booth loop (`seqhash.boothLeastRotation` / `RotateSequence`), proved about the model
`Seqhash.booth` / `Seqhash.rotateSequence` for strings of EVERY length.

The model returns `none` in every state in which Go would panic — an index at or above the length
(`xs[i]?`, explicit size tests) or below zero (every subtraction of the loop is guarded by `≤`,
because `Nat` subtraction would silently truncate) — and also where the inner loop's fuel
`characterIndex + 1` would be exhausted or `leastRotationIndex` would be assigned a negative value;
so `… = some _` says: every index expression of the loop is in bounds in both directions, no index
variable goes negative, and the inner loop terminates within its fuel.

Proof: `Lemmas/BoothSeg.lean` (windows, borders, failure function), `Lemmas/BoothInv.lean` (the
loop invariants (i)–(iii) of DESIGN §4 C12 and their preservation — KMP border chains plus the
Duval-style comparisons), `Lemmas/BoothModel.lean` (the model walked along them),
`Lemmas/BoothLex.lean` (windows of the doubled word = rotations; exit theorem).  The theory of the
arg-min spec (`leastRotation_unique`, `leastRotation_rotl`, `leastIndex_spec`) is w-seqhash's
`Lemmas/RotationSpec.lean`.
-/
namespace PolyVerif.Props.C12Booth
open PolyVerif PolyVerif.Spec PolyVerif.Seqhash PolyVerif.Booth

/-- The Booth loop on a non-empty string never indexes out of range, never exhausts the inner
loop's fuel, and returns the FIRST index `k < n` whose rotation is no greater than any rotation. -/
theorem booth_spec (s : Str) (hn : 0 < s.length) :
    ∃ k, booth s = some k ∧ k < s.length ∧
      (∀ p, p < k → lexLt (rotl k s) (rotl p s) = true) ∧
      (∀ p, lexLe (rotl k s) (rotl p s) = true) :=
  booth_exit s hn

theorem booth_nil : booth [] = some 0 := by
  simp [booth, booth.go]

/-- `boothLeastRotation` never panics (all strings, including the empty one) and its result is an
offset into the first copy of the doubled string. -/
theorem booth_safe (s : Str) : ∃ k, booth s = some k ∧ k < max 1 s.length := by
  rcases Nat.eq_zero_or_pos s.length with h0 | hn
  · have : s = [] := List.length_eq_zero_iff.1 h0
    subst this
    exact ⟨0, booth_nil, by simp⟩
  · obtain ⟨k, hk, hlt, _⟩ := booth_spec s hn
    exact ⟨k, hk, by omega⟩

/-- `RotateSequence` never panics: the slice `[k, k+n)` of the doubled string is in range and is
the rotation of the input by `k`. -/
theorem rotate_safe (s : Str) :
    ∃ k, k < max 1 s.length ∧ booth s = some k ∧ rotateSequence s = some (rotl k s) := by
  rcases Nat.eq_zero_or_pos s.length with h0 | hn
  · have : s = [] := List.length_eq_zero_iff.1 h0
    subst this
    exact ⟨0, by simp, booth_nil, by simp [rotateSequence, booth_nil, rotl]⟩
  · obtain ⟨k, hk, hlt, _⟩ := booth_spec s hn
    refine ⟨k, by omega, hk, ?_⟩
    unfold rotateSequence
    simp only [hk]
    rw [if_pos (by simp; omega), slice_eq_rotl s hlt]

/-- clause 1 of C12: the result is a rotation of the input — same length, same letters (a
permutation), in the same cyclic order. -/
theorem rotate_isRotation (s : Str) :
    ∃ r, rotateSequence s = some r ∧ IsRotation r s ∧ r.length = s.length ∧ r.Perm s := by
  obtain ⟨k, _, _, hr⟩ := rotate_safe s
  exact ⟨rotl k s, hr, isRotation_rotl k s, rotl_length k s, rotl_perm k s⟩

/-- clause 2 of C12: the result is lexicographically no greater than any rotation of the input. -/
theorem rotate_le_all (s : Str) :
    ∃ r, rotateSequence s = some r ∧ ∀ p, lexLe r (rotl p s) = true := by
  obtain ⟨k, _, hk, hr⟩ := rotate_safe s
  refine ⟨rotl k s, hr, ?_⟩
  rcases Nat.eq_zero_or_pos s.length with h0 | hn
  · have : s = [] := List.length_eq_zero_iff.1 h0
    subst this
    intro p; simp [rotl, lexLe, lexLt]
  · obtain ⟨k', hk', _, _, hle⟩ := booth_spec s hn
    rw [hk] at hk'
    cases hk'
    exact hle

/-- **booth_least**: the model of `RotateSequence` computes exactly the arg-min spec, for every
string. -/
theorem booth_least (s : Str) : rotateSequence s = some (leastRotation s) := by
  obtain ⟨r, hr, hle⟩ := rotate_le_all s
  obtain ⟨r', hr', hrot, _⟩ := rotate_isRotation s
  rw [hr] at hr'
  cases hr'
  rw [hr, leastRotation_unique hrot hle]

/-- the index returned by the Booth loop is the FIRST index of a least rotation. -/
theorem booth_first (s : Str) : booth s = some (leastIndex s) := by
  obtain ⟨hli, hlr, hlf⟩ := leastIndex_spec s
  rcases Nat.eq_zero_or_pos s.length with h0 | hn
  · have : s = [] := List.length_eq_zero_iff.1 h0
    subst this
    rw [booth_nil]
    simp at hli
    rw [hli]
  · obtain ⟨k, hk, hkn, hlt, hle⟩ := booth_spec s hn
    have hkr : rotl k s = leastRotation s := leastRotation_unique (isRotation_rotl k s) hle
    rw [hk]
    congr 1
    rcases Nat.lt_trichotomy k (leastIndex s) with c | c | c
    · exact absurd hkr (hlf k c)
    · exact c
    · have := hlt _ c
      rw [hkr, hlr, lexLt_irrefl] at this
      cases this

/-- clause 3 of C12: every rotation of a sequence is canonicalised to one and the same string. -/
theorem rotate_canonical (k : Nat) (s : Str) : rotateSequence (rotl k s) = rotateSequence s := by
  rw [booth_least, booth_least, leastRotation_rotl]

/-- two circular sequences are canonicalised to the same string exactly when they are rotations
of each other -/
theorem rotate_eq_iff (a b : Str) : rotateSequence a = rotateSequence b ↔ IsRotation a b := by
  rw [booth_least, booth_least, Option.some.injEq, leastRotation_eq_iff]

/-- the model of `RotateSequence` IS the arg-min spec (as functions) … -/
theorem rotateSequence_eq_spec : rotateSequence = fun s => some (leastRotation s) :=
  funext booth_least

/-- … hence the model of `seqhash.Hash` (rotation by the Booth loop) equals `hashSpec` (rotation by
the arg-min), which is what C04/C05 are stated over: nothing there is "modulo C12" any more. -/
theorem hash_eq_hashSpec : Seqhash.hash = Seqhash.hashSpec := by
  unfold Seqhash.hash Seqhash.hashSpec
  rw [rotateSequence_eq_spec]

/-- test: a periodic word -/
example : rotateSequence "banana".toList = some "abanan".toList := by
  rw [booth_least]; decide

end PolyVerif.Props.C12Booth
