import PolyVerif.Lemmas.DeBruijnCert
import PolyVerif.Gen.DeBruijnCert11
/-
C17, order 11, segments 22..43 of 65 (see Props/C17Cert.lean for the method).  Three modules so that lake
checks them in parallel; each kernel evaluation covers 65536 symbols.
-/
namespace PolyVerif.Props.C17
open PolyVerif PolyVerif.Spec PolyVerif.Gen

set_option maxRecDepth 1000000 in
theorem cert11_seg22 : segCheck DB11.lk 4194304 10 128 DB11.segs DB11.states 22 = true := by decide +kernel
set_option maxRecDepth 1000000 in
theorem cert11_seg23 : segCheck DB11.lk 4194304 10 128 DB11.segs DB11.states 23 = true := by decide +kernel
set_option maxRecDepth 1000000 in
theorem cert11_seg24 : segCheck DB11.lk 4194304 10 128 DB11.segs DB11.states 24 = true := by decide +kernel
set_option maxRecDepth 1000000 in
theorem cert11_seg25 : segCheck DB11.lk 4194304 10 128 DB11.segs DB11.states 25 = true := by decide +kernel
set_option maxRecDepth 1000000 in
theorem cert11_seg26 : segCheck DB11.lk 4194304 10 128 DB11.segs DB11.states 26 = true := by decide +kernel
set_option maxRecDepth 1000000 in
theorem cert11_seg27 : segCheck DB11.lk 4194304 10 128 DB11.segs DB11.states 27 = true := by decide +kernel
set_option maxRecDepth 1000000 in
theorem cert11_seg28 : segCheck DB11.lk 4194304 10 128 DB11.segs DB11.states 28 = true := by decide +kernel
set_option maxRecDepth 1000000 in
theorem cert11_seg29 : segCheck DB11.lk 4194304 10 128 DB11.segs DB11.states 29 = true := by decide +kernel
set_option maxRecDepth 1000000 in
theorem cert11_seg30 : segCheck DB11.lk 4194304 10 128 DB11.segs DB11.states 30 = true := by decide +kernel
set_option maxRecDepth 1000000 in
theorem cert11_seg31 : segCheck DB11.lk 4194304 10 128 DB11.segs DB11.states 31 = true := by decide +kernel
set_option maxRecDepth 1000000 in
theorem cert11_seg32 : segCheck DB11.lk 4194304 10 128 DB11.segs DB11.states 32 = true := by decide +kernel
set_option maxRecDepth 1000000 in
theorem cert11_seg33 : segCheck DB11.lk 4194304 10 128 DB11.segs DB11.states 33 = true := by decide +kernel
set_option maxRecDepth 1000000 in
theorem cert11_seg34 : segCheck DB11.lk 4194304 10 128 DB11.segs DB11.states 34 = true := by decide +kernel
set_option maxRecDepth 1000000 in
theorem cert11_seg35 : segCheck DB11.lk 4194304 10 128 DB11.segs DB11.states 35 = true := by decide +kernel
set_option maxRecDepth 1000000 in
theorem cert11_seg36 : segCheck DB11.lk 4194304 10 128 DB11.segs DB11.states 36 = true := by decide +kernel
set_option maxRecDepth 1000000 in
theorem cert11_seg37 : segCheck DB11.lk 4194304 10 128 DB11.segs DB11.states 37 = true := by decide +kernel
set_option maxRecDepth 1000000 in
theorem cert11_seg38 : segCheck DB11.lk 4194304 10 128 DB11.segs DB11.states 38 = true := by decide +kernel
set_option maxRecDepth 1000000 in
theorem cert11_seg39 : segCheck DB11.lk 4194304 10 128 DB11.segs DB11.states 39 = true := by decide +kernel
set_option maxRecDepth 1000000 in
theorem cert11_seg40 : segCheck DB11.lk 4194304 10 128 DB11.segs DB11.states 40 = true := by decide +kernel
set_option maxRecDepth 1000000 in
theorem cert11_seg41 : segCheck DB11.lk 4194304 10 128 DB11.segs DB11.states 41 = true := by decide +kernel
set_option maxRecDepth 1000000 in
theorem cert11_seg42 : segCheck DB11.lk 4194304 10 128 DB11.segs DB11.states 42 = true := by decide +kernel
set_option maxRecDepth 1000000 in
theorem cert11_seg43 : segCheck DB11.lk 4194304 10 128 DB11.segs DB11.states 43 = true := by decide +kernel

end PolyVerif.Props.C17
