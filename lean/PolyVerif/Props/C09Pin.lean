import PolyVerif.Model.Ligate
import PolyVerif.Gen.CloneFacts
/-
C09 — structural pin of the hand-transcribed goroutine system (SOFT obligation).

Imported by nothing; `check` builds it by name (gen/c09.py `SOFT_MODULES`).  If it no longer builds, the evidence says so
(`soft_obligations_broken`) and NO violation is raised: a harmless restructuring of the goroutines (a bounded worker pool,
a waiter goroutine that closes the channel, …) changes these facts although every result stays the same.  It then tells the
reader that `ligate_schedule` / `ligate_terminates` (Props/C09.lean) speak about a Step system that no longer has the shape
of the code, and that for the schedule only the GOMAXPROCS / `-race` runs remain.
-/
namespace PolyVerif.Props.C09Pin
open PolyVerif PolyVerif.Ligate

/-- Structural pin of the hand-transcribed goroutine system: the synchronisation vocabulary of the functions reachable
from `clone.CircularLigate`, re-extracted from the source by harness/cmd/extract-clone on every run, is the one the Step
system is written in (`expectedCloneFacts`, Model/Ligate.lean).  A change that brings in another mechanism (mutex,
semaphore channel, `select`, `sync.Map`, a second collector, no channel at all) breaks this obligation even if every result
stays the same, and so does a change of the ORDER the Step rules rest on (`Add` not immediately before the `go`, `Done` not
deferred first, `close` before the wait, collector started after the wait); a restructuring inside vocabulary and order
(helpers, `range`, a buffered channel, one goroutine per seed) does not. -/
theorem clone_structure_pinned :
    (Gen.clonePrimitives, Gen.cloneSyncCalls, Gen.cloneStringChanCollectors, Gen.cloneStringChanSenders,
      Gen.cloneAddBeforeGo, Gen.cloneDeferDoneFirst, Gen.cloneCloseAfterWait, Gen.cloneCollectorBeforeWait) = expectedCloneFacts := by
  unfold expectedCloneFacts
  simp only [Prod.mk.injEq]
  decide

end PolyVerif.Props.C09Pin
