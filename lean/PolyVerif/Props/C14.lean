import Mathlib.Data.List.Forall2
import PolyVerif.Lemmas.GffRoundTrip
import PolyVerif.Model.Location
/-
C14 — GFF write-then-read preserves records and 1-based/0-based coordinates.

`parse`, `build`, `getSeq` are the models of gff.Parse, gff.Build and Feature.GetSequence
(Model/Gff.lean); `layout`, `denote`, `bases`, `expected` and the decidable well-formedness
predicates are the independent spec (Spec/GffLayout.lean).  Nothing here bounds the sequence
length, the number of features or of attributes; the attribute list stands for the Go map in
an arbitrary iteration order.
-/
namespace PolyVerif.Props.C14
open PolyVerif PolyVerif.LineText PolyVerif.Gff PolyVerif.Spec.GffLayout

/-! ### C14, first clause: write then read -/

/-- **The exact result of Parse ∘ Build over the quantifier AS WORDED** (`wfBuildQ`: a seqid may begin
with `#`), with ANY line-break rule in Build's FASTA loop: `Parse (Build x) = expected (dropHash x)` —
every feature whose written seqid begins with `#` is lost (known finding C14-hash-seqid), and
everything else — region, sequence, every other feature in order — comes back as `expected` says.
Any sequence length, any number of features and attributes, the attribute map in any iteration
order.  (The correspondence check compares the real Build's text with the model's up to the
position of the newlines inside the sequence; this theorem is what makes that comparison sufficient.) -/
theorem parse_buildWith_hash (brk : Nat → Bool) (x : Gff) (h : wfBuildQ x = true) :
    parse (buildWith brk x) = .ok (expected (dropHash x)) := by
  simp only [wfBuildQ, Bool.and_eq_true, List.all_eq_true] at h
  obtain ⟨⟨⟨⟨⟨⟨h1, h2⟩, h3⟩, h4⟩, h5⟩, h6⟩, h7⟩ := h
  have htail := fasta_tail brk x.seq h6
  -- no line before the sequence holds LF or CR
  have hhead : ∀ l ∈ headLines x, ∀ c ∈ ['\n', '\r'], c ∉ l := by
    intro l hl c hc
    have hc3 : c ∈ [' ', '\n', '\r'] := by
      simp only [List.mem_cons, List.not_mem_nil, or_false] at hc ⊢
      rcases hc with rfl | rfl <;> simp
    have hc4 : c ∈ ['\t', '\n', '\r', ' '] := by
      simp only [List.mem_cons, List.not_mem_nil, or_false] at hc ⊢
      rcases hc with rfl | rfl <;> simp
    have hsp : c ≠ ' ' := by
      simp only [List.mem_cons, List.not_mem_nil, or_false] at hc
      rcases hc with rfl | rfl <;> decide
    simp only [headLines, List.mem_cons, List.mem_append, List.mem_map, List.not_mem_nil, or_false] at hl
    rcases hl with rfl | rfl | ⟨f, hf, rfl⟩ | rfl | rfl | rfl
    · unfold versionLine
      split
      · simp only [List.mem_append, List.mem_cons, not_or]
        exact ⟨sGffVersion_free _ hc3, hsp, free_not_mem h3 hc3⟩
      · simp only [List.mem_append, List.mem_cons, List.not_mem_nil, or_false, not_or]
        refine ⟨sGffVersion_free _ hc3, hsp, ?_, hsp⟩
        simp only [List.mem_cons, List.not_mem_nil, or_false] at hc
        rcases hc with rfl | rfl <;> decide
    · unfold regionLine
      simp only [List.append_assoc, List.cons_append, List.mem_append, List.mem_cons, not_or]
      exact ⟨sSeqRegion_free _ hc3, hsp, free_not_mem h1 hc3, hsp, regionStartText_free x _ hc3, hsp,
        regionEndText_free x _ hc3⟩
    · exact (buildFeature_line (h7 f hf)).2 c hc
    · simp only [List.mem_cons, List.not_mem_nil, or_false] at hc
      rcases hc with rfl | rfl <;> decide
    · simp only [List.mem_cons, List.not_mem_nil, or_false] at hc
      rcases hc with rfl | rfl <;> decide
    · simp only [List.mem_cons, not_or]
      refine ⟨?_, free_not_mem h2 hc⟩
      simp only [List.mem_cons, List.not_mem_nil, or_false] at hc
      rcases hc with rfl | rfl <;> decide
  have hlines : split '\n' (buildWith brk x) = headLines x ++ split '\n' (wrapWith brk 0 x.seq ++ ['\n']) := by
    unfold buildWith
    rw [List.append_assoc, split_unlines _ _ (fun l hl => hhead l hl '\n' (by simp))]
  have htailcr : ∀ l ∈ split '\n' (wrapWith brk 0 x.seq ++ ['\n']), '\r' ∉ l := by
    intro l hl hm
    have := split_mem hl '\r' hm
    have hmem : '\r' ∈ wrapWith brk 0 x.seq := by
      rcases List.mem_append.1 this.1 with hm | hm
      · exact hm
      · simp at hm
    rcases wrapWith_mem brk 0 x.seq '\r' hmem with hm | hm
    · exact seqChar_noCR (h6 _ hm) rfl
    · exact absurd hm (by decide)
  have htrim : (split '\n' (buildWith brk x)).map trimCR = versionLine x :: ([] ++ regionLine x ::
      ((x.features.map (buildFeature x.locusName) ++ [sClose]) ++ sFasta :: ('>' :: x.name) ::
        split '\n' (wrapWith brk 0 x.seq ++ ['\n']))) := by
    rw [hlines, map_trimCR_of_free]
    · simp [headLines, List.append_assoc]
    · intro l hl
      rcases List.mem_append.1 hl with hl | hl
      · exact hhead l hl '\r' (by simp)
      · exact htailcr l hl
  have hmid : MidOk (x.features.map (buildFeature x.locusName) ++ [sClose])
      ((x.features.filter fun f => !hasPrefix sHash1 (effName x.locusName f)).map (expectedFeature x.locusName)) := by
    have := MidOk.append (midOk_features x.locusName x.features h7)
      (MidOk.skip (line := sClose) (by decide) (by decide))
    simpa using this
  unfold parse parseLines
  rw [htrim, parseTrimmed_doc _ _ _ _ _ _ _ _ _ _ _ _ (versionLine_split x h3) (regionLine_split x h1)
    (versionLine_facts x).1 (versionLine_facts x).2 (regionLine_prefix x) (regionLine_facts x).1 (regionLine_facts x).2
    (by simp) MidOk.nil x.seq hmid htail]
  rw [atoi_regionStartText x h4, atoi_regionEndText x h5]
  rfl

/-- `wfBuild` is `wfBuildQ` plus "no written seqid begins with `#`" -/
theorem wfBuild_split (x : Gff) (h : wfBuild x = true) : wfBuildQ x = true ∧ dropHash x = x := by
  simp only [wfBuild, wfBuildQ, Bool.and_eq_true, List.all_eq_true] at h ⊢
  obtain ⟨h1, h7⟩ := h
  refine ⟨⟨h1, fun f hf => (wfFeature_split (h7 f hf)).1⟩, ?_⟩
  have : x.features.filter (fun f => !hasPrefix sHash1 (if f.name ≠ [] then f.name else x.locusName)) = x.features := by
    apply List.filter_eq_self.2
    intro f hf
    have := (wfFeature_split (h7 f hf)).2
    simp only [effName] at this
    simp only [this, Bool.not_false]
  simp only [dropHash, this]

/-- **Parse (Build x) = expected x** with ANY line-break rule, for every record that satisfies `wfBuild`
(no written seqid begins with `#`) -/
theorem parse_buildWith (brk : Nat → Bool) (x : Gff) (h : wfBuild x = true) :
    parse (buildWith brk x) = .ok (expected x) := by
  have hs := wfBuild_split x h
  have := parse_buildWith_hash brk x hs.1
  rwa [hs.2] at this

/-- **Parse (Build x) = expected x** for Build as it is: a line break after every 70th letter except
at position `RegionEnd` — hence for every residue of the length modulo 70 and every position of
`RegionEnd` relative to the line breaks. -/
theorem parse_build (x : Gff) (h : wfBuild x = true) : parse (build x) = .ok (expected x) :=
  parse_buildWith (buildBreak x.regionEnd) x h

/-- the exact result for Build as it is, over the quantifier as worded -/
theorem parse_build_hash (x : Gff) (h : wfBuildQ x = true) : parse (build x) = .ok (expected (dropHash x)) :=
  parse_buildWith_hash (buildBreak x.regionEnd) x h

/-- a one-feature record whose seqid begins with `#` -/
def hashSeqidRecord : Gff :=
  { name := ['s'], gffVersion := ['3'], regionStart := 1, regionEnd := 4, seq := "ACGT".toList,
    features := [{ name := ['#', 'x'], source := ['p'], type := ['g'], start := 0, stop := 4, score := ['.'], strand := ['+'],
                   phase := ['.'], attrs := [(['I', 'D'], ['a'])] }] }

/-- **Known finding C14-hash-seqid**, kernel-checked on the model: over the quantifier as worded
(`wfBuildQ`: seqids free of white space, nothing said about `#`) `parse_build` is false — `Build`
writes the seqid `#x` unescaped, `Parse` skips the line as a comment: one feature in, none out.
`parse_build` above is the clause under the hypothesis `wfBuild`, which excludes exactly this class
(`wfBuild x` is `wfBuildQ x` and no seqid beginning with `#`). -/
theorem hash_seqid_witness : ¬ (∀ x : Gff, wfBuildQ x = true → parse (build x) = .ok (expected x)) := by
  intro h
  have h1 : wfBuildQ hashSeqidRecord = true := by decide
  have h2 : (parse (build hashSeqidRecord) = .ok (expected hashSeqidRecord)) = False := by decide
  exact h2 ▸ h hashSeqidRecord h1

/-- a record all of whose printed fields are set -/
def allSet (x : Gff) : Bool :=
  !x.name.isEmpty && x.regionStart != 0 && x.regionEnd != 0
  && x.features.all fun f => !f.name.isEmpty && !f.source.isEmpty && !f.type.isEmpty

/-- **Preservation, clause by clause**: region name and bounds, the full sequence, and for every
feature (position by position) seqid, source, type, score, strand, phase, coordinates, and the
attributes as a map (a permutation of the entries). -/
theorem parse_build_preserves (x : Gff) (h : wfBuild x = true) (hs : allSet x = true) :
    ∃ y, parse (build x) = .ok y ∧ y.name = x.name ∧ y.regionStart = x.regionStart ∧ y.regionEnd = x.regionEnd
      ∧ y.seq = x.seq
      ∧ List.Forall₂ (fun (g f : Feature) =>
          g.name = f.name ∧ g.source = f.source ∧ g.type = f.type ∧ g.score = f.score ∧ g.strand = f.strand
          ∧ g.phase = f.phase ∧ g.start = f.start ∧ g.stop = f.stop ∧ g.attrs.Perm f.attrs) y.features x.features := by
  refine ⟨expected x, parse_build x h, ?_⟩
  simp only [allSet, Bool.and_eq_true, Bool.not_eq_true', bne_iff_ne, ne_eq, List.all_eq_true, List.isEmpty_eq_false_iff] at hs
  obtain ⟨⟨⟨hn, hrs⟩, hre⟩, hfs⟩ := hs
  simp only [wfBuild, Bool.and_eq_true, List.all_eq_true] at h
  have hwf := h.2
  refine ⟨by simp [expected, regionName, hn], by simp [expected, hrs], by simp [expected, hre], rfl, ?_⟩
  simp only [expected]
  rw [List.forall₂_map_left_iff]
  apply List.forall₂_same.2
  intro f hf
  have hset := hfs f hf
  have ha := (featureFacts (wfFeature_split (hwf f hf)).1).attrs
  simp only [expectedFeature, hset.1.1, hset.1.2, hset.2, ne_eq, not_false_eq_true, if_true, true_and]
  exact canonAttrs_perm ha.nodup

/-! ### C14, second clause: coordinates -/

/-- the 0-based half-open interval of `f` lies inside a sequence of length `n` -/
def inside (f : Feature) (n : Nat) : Prop := 0 ≤ f.start ∧ f.start ≤ f.stop ∧ f.stop ≤ n

instance (f : Feature) (n : Nat) : Decidable (inside f n) := by unfold inside; infer_instance

/-- **Coordinate law on a Build round trip, stated on the parse result**: whatever `Parse (Build x)`
returns, its features correspond one to one, in order, to the features of `x`, and for every feature
of `x` lying inside the sequence the PARSED feature's GetSequence is exactly bases `start+1 .. end`
(1-based inclusive: the numbers Build wrote into columns 4 and 5) of the PARSED sequence. -/
theorem coords_build (x : Gff) (h : wfBuild x = true) (y : Gff) (hy : parse (build x) = .ok y) :
    List.Forall₂ (fun (g f : Feature) => inside f x.seq.length →
        getSeq y.seq g = .ok (bases y.seq (f.start + 1).toNat f.stop.toNat)) y.features x.features := by
  rw [parse_build x h] at hy
  cases hy
  simp only [expected]
  rw [List.forall₂_map_left_iff]
  apply List.forall₂_same.2
  intro f _ hin
  obtain ⟨h0, h1, h2⟩ := hin
  have hs : f.start = ((f.start.toNat : Nat) : Int) := by omega
  have he : f.stop = ((f.stop.toNat : Nat) : Int) := by omega
  have hb : (f.start + 1).toNat = f.start.toNat + 1 := by omega
  simp only [getSeq, expectedFeature]
  rw [hb, hs, he]
  simp only [Int.toNat_natCast]
  exact slice_eq_bases x.seq f.start.toNat f.stop.toNat (by omega) (by omega)

/-- `Outcome` of the location model (C02) -/
def toLoc {α : Type} : Outcome α → Location.Outcome α
  | .ok a => .ok a
  | .err => .err
  | .panic => .panic

/-- the `getSeq` used above is poly's `getFeatureSequence` as modelled for C02 (Model/Location.lean),
on the locations gff.Parse creates: no sub-locations, no complement flag -/
theorem getSeq_is_getFeatureSequence (parent : Str) (f : Feature) :
    Location.getSeq { start := f.start, stop := f.stop } parent = toLoc (getSeq parent f) := by
  simp only [Location.getSeq, getSeq, Location.slice, slice, Bool.false_eq_true, if_false]
  split <;> rfl

/-! ### C14, third clause: text laid out by the independent writer -/

/-- **The parse of any text written by the independent GFF3 writer is what the document denotes** —
arbitrary FASTA line widths (also blank lines inside the sequence); any number of skip lines
(blank lines, `#` comments, `##` directives, `###`) before every feature, after the last feature
and between the lines of the FASTA section; directives between `##gff-version` and
`##sequence-region`; column 9 with or without a final `;` (also an empty column 9); LF or CR LF line
ends; with or without the final line end.  (The last three made `Parse` panic until fixes
aac6dbd, 244ec83, 4e5b18b.) -/
theorem parse_layout (d : GffDoc) (ℓ : Layout) (hd : wfDoc d = true) (hl : wfLayout ℓ = true) :
    parse (layout d ℓ) = .ok (denote d) := by
  simp only [wfDoc, Bool.and_eq_true, List.all_eq_true] at hd
  obtain ⟨⟨⟨⟨⟨⟨h1, h2⟩, h3⟩, h4⟩, h5⟩, h6⟩, h7⟩ := hd
  simp only [wfLayout, wfPreRegion, Bool.and_eq_true, Bool.not_eq_true', List.all_eq_true] at hl
  obtain ⟨⟨⟨hbetween, hafter⟩, hfasta⟩, hpre⟩ := hl
  -- the lines, in the shape of `parseTrimmed_doc`
  let vline := joinSep ' ' [sGffVersion, d.version]
  let rline := joinSep ' ' [sSeqRegion, d.region, itoa d.regionFirst, itoa d.regionLast]
  let mid := interleave (d.feats.map (featText ℓ.trailingSemi)) ℓ.between ++ ℓ.after
  let tail := interleave (chunks ℓ.widths d.seq) ℓ.fastaBetween
  have hshape : layoutLines d ℓ = vline :: (ℓ.preRegion ++ rline :: (mid ++ sFasta :: ('>' :: d.defline) :: tail)) := by
    simp [layoutLines, vline, rline, mid, tail, List.append_assoc]
  have hmid : MidOk mid (d.feats.map denoteFeat) := by
    have := MidOk.append (midOk_featLines ℓ.trailingSemi d.feats ℓ.between h5 hbetween) (midOk_skips ℓ.after hafter)
    simpa [mid] using this
  have hchunk : ∀ l ∈ chunks ℓ.widths d.seq, ∀ c ∈ l, seqChar c = true :=
    fun l hl c hc => h7 c (chunks_mem _ _ l hl c hc)
  have htail : TailOk tail d.seq := by
    have := tailOk_chunks (chunks ℓ.widths d.seq) ℓ.fastaBetween hchunk hfasta
    rwa [chunks_flatten] at this
  have hpreOk : MidOk ℓ.preRegion [] := midOk_skips _ (fun l hl => (hpre l hl).1)
  have hvsplit : idx (split ' ' vline) 1 = .ok d.version := by
    simp only [vline, joinSep]
    rw [split_cons_line _ (sGffVersion_free _ (by simp)), split_nosep (free_not_mem h1 (by simp))]
    rfl
  have hrsplit : split ' ' rline = [sSeqRegion, d.region, itoa d.regionFirst, itoa d.regionLast] := by
    simp only [rline, joinSep]
    rw [split_cons_line _ (sSeqRegion_free _ (by simp)), split_cons_line _ (free_not_mem h2 (by simp)),
      split_cons_line _ (itoa_free_tabnl _ _ (by simp)), split_nosep (itoa_free_tabnl _ _ (by simp))]
  have hvf : hasPrefix sHash1 vline = true ∧ vline ≠ sFasta := by
    simp only [vline, joinSep]
    rw [sGffVersion_eq]
    exact header_line_facts _ _ _ (by decide)
  have hrf : hasPrefix sHash1 rline = true ∧ rline ≠ sFasta := by
    simp only [rline, joinSep]
    rw [sSeqRegion_eq]
    exact header_line_facts _ _ _ (by decide)
  have hrp : hasPrefix sSeqRegion rline = true := by
    simp only [rline, joinSep]
    exact hasPrefix_append_self _ _
  -- no line holds LF or CR
  have hfree : ∀ l ∈ layoutLines d ℓ, ∀ c ∈ ['\n', '\r'], c ∉ l := by
    rw [hshape]
    intro l hl c hc
    have hc3 : c ∈ [' ', '\n', '\r'] := by
      simp only [List.mem_cons, List.not_mem_nil, or_false] at hc ⊢
      rcases hc with rfl | rfl <;> simp
    have hc4 : c ∈ ['\t', '\n', '\r', ' '] := by
      simp only [List.mem_cons, List.not_mem_nil, or_false] at hc ⊢
      rcases hc with rfl | rfl <;> simp
    have hsp : c ≠ ' ' := by
      simp only [List.mem_cons, List.not_mem_nil, or_false] at hc
      rcases hc with rfl | rfl <;> decide
    simp only [List.mem_cons, List.mem_append, mid, tail] at hl
    rcases hl with rfl | hl | rfl | (hl | hl) | rfl | rfl | hl
    · simp only [vline, joinSep, List.mem_append, List.mem_cons, not_or]
      exact ⟨sGffVersion_free _ hc3, hsp, free_not_mem h1 hc3⟩
    · exact (skip_facts (hpre l hl).1).2 c hc
    · simp only [rline, joinSep, List.mem_append, List.mem_cons, not_or]
      exact ⟨sSeqRegion_free _ hc3, hsp, free_not_mem h2 hc3, hsp,
        itoa_free_tabnl _ _ hc4, hsp, itoa_free_tabnl _ _ hc4⟩
    · rcases mem_interleave _ _ l hl with hm | ⟨g, hg, hm⟩
      · obtain ⟨f, hf, rfl⟩ := List.mem_map.1 hm
        exact (featText_line ℓ.trailingSemi (h5 f hf)).2.2 c hc
      · exact (skip_facts (hbetween g hg l hm)).2 c hc
    · exact (skip_facts (hafter l hl)).2 c hc
    · simp only [List.mem_cons, List.not_mem_nil, or_false] at hc
      rcases hc with rfl | rfl <;> decide
    · simp only [List.mem_cons, not_or]
      refine ⟨?_, free_not_mem h6 hc⟩
      simp only [List.mem_cons, List.not_mem_nil, or_false] at hc
      rcases hc with rfl | rfl <;> decide
    · rcases mem_interleave _ _ l hl with hm | ⟨g, hg, hm⟩
      · intro hmem
        have hsc := hchunk l hm c hmem
        simp only [List.mem_cons, List.not_mem_nil, or_false] at hc
        rcases hc with rfl | rfl
        · exact (seqChar_facts hsc).1 rfl
        · exact seqChar_noCR hsc rfl
      · exact (skip_facts (hfasta g hg l hm)).2 c hc
  have hne : layoutLines d ℓ ≠ [] := by rw [hshape]; simp
  unfold parse parseLines layout
  rw [split_layoutText _ hne hfree, hshape]
  by_cases hfn : ℓ.finalNewline = true
  · have : (vline :: (ℓ.preRegion ++ rline :: (mid ++ sFasta :: ('>' :: d.defline) :: tail))) ++ [[]]
        = vline :: (ℓ.preRegion ++ rline :: (mid ++ sFasta :: ('>' :: d.defline) :: (tail ++ [[]]))) := by simp
    have htail' : TailOk (tail ++ [[]]) d.seq := by
      simpa using TailOk.append htail TailOk.blank
    rw [if_pos hfn, this, parseTrimmed_doc _ _ _ _ _ _ _ _ _ _ _ _ hvsplit hrsplit hvf.1 hvf.2 hrp hrf.1 hrf.2
      (fun l hl => (hpre l hl).2) hpreOk d.seq hmid htail']
    simp [denote, atoi_itoa (inInt_spec h3), atoi_itoa (inInt_spec h4)]
  · rw [if_neg hfn, List.append_nil, parseTrimmed_doc _ _ _ _ _ _ _ _ _ _ _ _ hvsplit hrsplit hvf.1 hvf.2 hrp hrf.1 hrf.2
      (fun l hl => (hpre l hl).2) hpreOk d.seq hmid htail]
    simp [denote, atoi_itoa (inInt_spec h3), atoi_itoa (inInt_spec h4)]

/-- the 1-based inclusive interval of the feature line `f` lies inside a sequence of length `n`
(`first = last + 1` is the empty interval) -/
def insideLine (f : FeatLine) (n : Nat) : Prop := 1 ≤ f.first ∧ f.first ≤ f.last + 1 ∧ f.last ≤ n

instance (f : FeatLine) (n : Nat) : Decidable (insideLine f n) := by unfold insideLine; infer_instance

/-- **Coordinate law on laid-out text, stated on the parse result**: whatever `Parse` returns for the
text, its features correspond one to one, in order, to the feature lines of the document, and for
every line whose columns 4 and 5 (`first`, `last`: 1-based, inclusive) lie inside the sequence the
PARSED feature's GetSequence is exactly bases `first..last` of the PARSED sequence. -/
theorem coords_layout (d : GffDoc) (ℓ : Layout) (hd : wfDoc d = true) (hl : wfLayout ℓ = true)
    (y : Gff) (hy : parse (layout d ℓ) = .ok y) :
    List.Forall₂ (fun (g : Feature) (f : FeatLine) => insideLine f d.seq.length →
        getSeq y.seq g = .ok (bases y.seq f.first.toNat f.last.toNat)) y.features d.feats := by
  rw [parse_layout d ℓ hd hl] at hy
  cases hy
  simp only [denote]
  rw [List.forall₂_map_left_iff]
  apply List.forall₂_same.2
  intro f _ hin
  obtain ⟨h0, h1, h2⟩ := hin
  have hs : f.first - 1 = (((f.first - 1).toNat : Nat) : Int) := by omega
  have he : f.last = ((f.last.toNat : Nat) : Int) := by omega
  have hb : f.first.toNat = (f.first - 1).toNat + 1 := by omega
  simp only [getSeq, denoteFeat]
  rw [hb, hs, he]
  simp only [Int.toNat_natCast]
  exact slice_eq_bases d.seq (f.first - 1).toNat f.last.toNat (by omega) (by omega)

/-! ### non-vacuity: concrete inputs meeting the hypotheses (tests, not theorems) -/

/-- 71 letters (one-letter last line), RegionEnd on a line break, two features at the extreme
coordinates, attribute maps given in unsorted order, one defaulted column -/
def sample : Gff :=
  { name := "chr1".toList, gffVersion := ['3'], regionStart := 1, regionEnd := 70,
    seq := List.replicate 35 'A' ++ List.replicate 36 'C',
    features := [
      { name := "chr1".toList, source := "poly".toList, type := "gene".toList, start := 0, stop := 71, score := ['.'],
        strand := ['+'], phase := ['.'], attrs := [("Name".toList, "x y".toList), ("ID".toList, "g1".toList)] },
      { name := "chr1".toList, source := [], type := "CDS".toList, start := 70, stop := 71, score := [],
        strand := ['-'], phase := ['0'], attrs := [("ID".toList, [])] } ] }

example : wfBuild sample = true := by decide
example : parse (build sample) = .ok (expected sample) := by decide
example : ∀ f ∈ sample.features, inside f sample.seq.length := by decide
example : getSeq sample.seq (expectedFeature [] (sample.features.getD 1 {})) = .ok ['C'] := by decide
example : bases sample.seq 71 71 = ['C'] := by decide

/-- The last lines of `Build`'s text for a 140-letter sequence (a multiple of the line width), as
line lengths after the FASTA definition line; the final `0` is the empty field after the last
newline.  `RegionEnd = 140 = len`: the break after letter 140 is suppressed, no blank line.
`RegionEnd = 1` (any value that is no multiple of 70 up to the length): breaks after 70 and 140, then
the final newline leaves a blank line.  `RegionEnd = 70` (a smaller multiple): the break after
letter 70 is suppressed — one 140-letter line — and the text ends with a blank line.  `Parse` skips
blank lines and joins the others, so all three read back the same sequence (`parse_buildWith`).
(The correspondence check compares these line shapes with the real Build exactly: `buildx` cases.) -/
def tailShape (regionEnd : Int) : List Nat :=
  ((split '\n' (build { name := ['s'], regionStart := 1, regionEnd := regionEnd, seq := List.replicate 140 'A' })).drop 5).map
    List.length

example : tailShape 140 = [70, 70, 0] := by decide +kernel
example : tailShape 1 = [70, 70, 0, 0] := by decide +kernel
example : tailShape 70 = [140, 0, 0] := by decide +kernel

def sampleDoc : GffDoc :=
  { version := "3.1.26".toList, region := "ctg123".toList, regionFirst := 1, regionLast := 9,
    feats := [{ seqid := "ctg123".toList, source := ['.'], type := "exon".toList, first := 2, last := 4, score := ['.'],
                strand := ['+'], phase := ['.'], attrs := [("ID".toList, "e1".toList), ("Parent".toList, "m1".toList)] },
              { seqid := "ctg123".toList, source := ['.'], type := "exon".toList, first := 9, last := 9, score := ['.'],
                strand := ['-'], phase := ['.'], attrs := [("ID".toList, "e2".toList)] }],
    defline := "ctg123 test".toList, seq := "ACGTACGTA".toList }
def sampleLayout : Layout :=
  { between := [["##species x".toList, "# a comment".toList, []], [['#'], "###".toList]], after := ["###".toList, []],
    fastaBetween := [[], ["# inside the sequence".toList]], widths := [4, 0, 3], finalNewline := false }

/-- the same layout with directives before the region line, `;` at the end of column 9, CR LF -/
def sampleLayout2 : Layout :=
  { sampleLayout with preRegion := ["##species x".toList, "##feature-ontology so.obo".toList], trailingSemi := true,
                      crlf := true, finalNewline := true }

example : wfDoc sampleDoc = true ∧ wfLayout sampleLayout = true ∧ wfLayout sampleLayout2 = true := by decide
example : parse (layout sampleDoc sampleLayout) = .ok (denote sampleDoc) := by decide
example : parse (layout sampleDoc sampleLayout2) = .ok (denote sampleDoc) := by decide
/-- a feature without attributes: an empty ninth column reads back as no attributes -/
example : parse (build { sample with features := [{ name := "chr1".toList, start := 0, stop := 3 }] })
    = .ok (expected { sample with features := [{ name := "chr1".toList, start := 0, stop := 3 }] }) := by decide
example : ∀ f ∈ sampleDoc.feats, insideLine f sampleDoc.seq.length := by decide
example : getSeq (denote sampleDoc).seq (denoteFeat (sampleDoc.feats.getD 0 ⟨[], [], [], 0, 0, [], [], [], []⟩)) = .ok "CGT".toList := by decide

end PolyVerif.Props.C14
