import Mathlib.Data.List.Forall2
import PolyVerif.Lemmas.GffRoundTrip
import PolyVerif.Model.Location
/-
C14 — GFF write-then-read preserves records and 1-based/0-based coordinates.

`parse`, `build`, `getSeq` are the models of gff.Parse, gff.Build and Feature.GetSequence
(Model/Gff.lean); `layout`, `denote`, `bases`, `expected` and the decidable well-formedness
predicates are the independent spec (Spec/GffLayout.lean).  Nothing here bounds the sequence
length, the number of features or of attributes; the attribute list stands for the Go map in
an arbitrary iteration order.
-/
namespace PolyVerif.Props.C14
open PolyVerif PolyVerif.LineText PolyVerif.Gff PolyVerif.Spec.GffLayout

/-! ### C14, first clause: write then read -/

/-- **Parse (Build x) = expected x** with ANY line-break rule in Build's FASTA loop, for every record
that satisfies `wfBuild` — any sequence length, any number of features and attributes, the
attribute map in any iteration order.  (The correspondence check compares the real Build's text
with the model's up to the position of the newlines inside the sequence; this theorem is what
makes that comparison sufficient.) -/
theorem parse_buildWith (brk : Nat → Bool) (x : Gff) (h : wfBuild x = true) :
    parse (buildWith brk x) = .ok (expected x) := by
  simp only [wfBuild, Bool.and_eq_true, List.all_eq_true] at h
  obtain ⟨⟨⟨⟨⟨⟨h1, h2⟩, h3⟩, h4⟩, h5⟩, h6⟩, h7⟩ := h
  have htail := fasta_tail brk x.seq h6
  have hlines : split '\n' (buildWith brk x) = versionLine x :: regionLine x ::
      ((x.features.map (buildFeature x.locusName) ++ [sClose]) ++ sFasta :: ('>' :: x.name) ::
        split '\n' (wrapWith brk 0 x.seq ++ ['\n'])) := by
    unfold buildWith
    rw [List.append_assoc, split_unlines]
    · simp [headLines, List.append_assoc]
    · intro l hl
      simp only [headLines, List.mem_cons, List.mem_append, List.mem_map, List.not_mem_nil, or_false] at hl
      rcases hl with rfl | rfl | ⟨f, hf, rfl⟩ | rfl | rfl | rfl
      · unfold versionLine
        split
        · simp only [List.mem_append, List.mem_cons, not_or]
          exact ⟨sGffVersion_free _ (by simp), by decide, free_not_mem h3 (by simp)⟩
        · have := sGffVersion_free '\n' (by simp)
          simp only [List.mem_append, List.mem_cons, List.not_mem_nil, or_false, not_or]
          exact ⟨this, by decide, by decide, by decide⟩
      · unfold regionLine
        simp only [List.append_assoc, List.cons_append, List.mem_append, List.mem_cons, not_or]
        exact ⟨sSeqRegion_free _ (by simp), by decide, free_not_mem h1 (by simp), by decide,
          regionStartText_free x _ (by simp), by decide, regionEndText_free x _ (by simp)⟩
      · exact (buildFeature_line (h7 f hf)).2.2
      · decide
      · decide
      · simp only [List.mem_cons, not_or]
        exact ⟨by decide, free_not_mem h2 (by simp)⟩
  have hmid : MidOk (x.features.map (buildFeature x.locusName) ++ [sClose]) (x.features.map (expectedFeature x.locusName)) := by
    have := MidOk.append (midOk_features x.locusName x.features h7)
      (MidOk.skip (line := sClose) (by decide) (by decide))
    simpa using this
  unfold parse
  rw [hlines, parseLines_doc _ _ _ _ _ _ _ _ _ _ _ (versionLine_split x h3) (regionLine_split x h1)
    (versionLine_facts x).1 (versionLine_facts x).2 (regionLine_facts x).1 (regionLine_facts x).2 hmid htail.1]
  rw [htail.2, atoi_regionStartText x h4, atoi_regionEndText x h5]
  rfl

/-- **Parse (Build x) = expected x** for Build as it is: a line break after every 70th letter except
at position `RegionEnd` — hence for every residue of the length modulo 70 and every position of
`RegionEnd` relative to the line breaks. -/
theorem parse_build (x : Gff) (h : wfBuild x = true) : parse (build x) = .ok (expected x) :=
  parse_buildWith (buildBreak x.regionEnd) x h

/-- a record all of whose printed fields are set -/
def allSet (x : Gff) : Bool :=
  !x.name.isEmpty && x.regionStart != 0 && x.regionEnd != 0
  && x.features.all fun f => !f.name.isEmpty && !f.source.isEmpty && !f.type.isEmpty

/-- **Preservation, clause by clause**: region name and bounds, the full sequence, and for every
feature (position by position) seqid, source, type, score, strand, phase, coordinates, and the
attributes as a map (a permutation of the entries). -/
theorem parse_build_preserves (x : Gff) (h : wfBuild x = true) (hs : allSet x = true) :
    ∃ y, parse (build x) = .ok y ∧ y.name = x.name ∧ y.regionStart = x.regionStart ∧ y.regionEnd = x.regionEnd
      ∧ y.seq = x.seq
      ∧ List.Forall₂ (fun (g f : Feature) =>
          g.name = f.name ∧ g.source = f.source ∧ g.type = f.type ∧ g.score = f.score ∧ g.strand = f.strand
          ∧ g.phase = f.phase ∧ g.start = f.start ∧ g.stop = f.stop ∧ g.attrs.Perm f.attrs) y.features x.features := by
  refine ⟨expected x, parse_build x h, ?_⟩
  simp only [allSet, Bool.and_eq_true, Bool.not_eq_true', bne_iff_ne, ne_eq, List.all_eq_true, List.isEmpty_eq_false_iff] at hs
  obtain ⟨⟨⟨hn, hrs⟩, hre⟩, hfs⟩ := hs
  simp only [wfBuild, Bool.and_eq_true, List.all_eq_true] at h
  have hwf := h.2
  refine ⟨by simp [expected, regionName, hn], by simp [expected, hrs], by simp [expected, hre], rfl, ?_⟩
  simp only [expected]
  rw [List.forall₂_map_left_iff]
  apply List.forall₂_same.2
  intro f hf
  have hset := hfs f hf
  have ha := (featureFacts (hwf f hf)).attrs
  simp only [expectedFeature, hset.1.1, hset.1.2, hset.2, ne_eq, not_false_eq_true, if_true, true_and]
  exact canonAttrs_perm ha.nodup

/-! ### C14, second clause: coordinates -/

/-- **Coordinate law on a Build round trip**: for a feature lying inside the sequence, the
parsed feature's GetSequence is exactly bases `start+1 .. end` (1-based inclusive, the numbers
written in columns 4 and 5) of the file's sequence. -/
theorem coords_build (x : Gff) (h : wfBuild x = true) (f : Feature) (_hf : f ∈ x.features)
    (s e : Nat) (hs : f.start = s) (he : f.stop = e) (h1 : s ≤ e) (h2 : e ≤ x.seq.length) :
    ∃ y, parse (build x) = .ok y ∧ getSeq y.seq (expectedFeature x.locusName f) = .ok (bases x.seq (s + 1) e) := by
  refine ⟨expected x, parse_build x h, ?_⟩
  simp only [getSeq, expected, expectedFeature, hs, he]
  exact slice_eq_bases x.seq s e h1 h2

/-- `Outcome` of the location model (C02) -/
def toLoc {α : Type} : Outcome α → Location.Outcome α
  | .ok a => .ok a
  | .err => .err
  | .panic => .panic

/-- the `getSeq` used above is poly's `getFeatureSequence` as modelled for C02 (Model/Location.lean),
on the locations gff.Parse creates: no sub-locations, no complement flag -/
theorem getSeq_is_getFeatureSequence (parent : Str) (f : Feature) :
    Location.getSeq { start := f.start, stop := f.stop } parent = toLoc (getSeq parent f) := by
  simp only [Location.getSeq, getSeq, Location.slice, slice, Bool.false_eq_true, if_false]
  split <;> rfl

/-! ### C14, third clause: text laid out by the independent writer -/

/-- **The parse of any text written by the independent GFF3 writer is what the document denotes**
— arbitrary FASTA line widths (also blank lines inside the sequence), `##` directive lines, blank
lines between features, `#` comment lines (skipped since fix fdf6b17), with or without `###`, with or
without the final newline. -/
theorem parse_layout (d : GffDoc) (ℓ : Layout) (hd : wfDoc d = true) (hl : wfLayout ℓ = true) :
    parse (layout d ℓ) = .ok (denote d) := by
  simp only [wfDoc, Bool.and_eq_true, List.all_eq_true] at hd
  obtain ⟨⟨⟨⟨⟨⟨h1, h2⟩, h3⟩, h4⟩, h5⟩, h6⟩, h7⟩ := hd
  simp only [wfLayout, Bool.and_eq_true, List.all_eq_true] at hl
  have hdirs := hl.1
  have hcoms := hl.2
  -- the lines, in the shape of `parseLines_doc`
  let vline := joinSep ' ' [sGffVersion, d.version]
  let rline := joinSep ' ' [sSeqRegion, d.region, itoa d.regionFirst, itoa d.regionLast]
  let mid := ℓ.directives ++ ℓ.comments ++ featBlock d.feats ℓ.gaps ++ (if ℓ.closeMark then [sClose] else [])
  have hshape : layoutLines d ℓ = vline :: rline :: (mid ++ sFasta :: ('>' :: d.defline) :: chunks ℓ.widths d.seq) := by
    simp [layoutLines, vline, rline, mid, List.append_assoc]
  have hmid : MidOk mid (d.feats.map denoteFeat) := by
    have hclose : MidOk (if ℓ.closeMark then [sClose] else []) [] := by
      split
      · exact MidOk.skip (by decide) (by decide)
      · exact MidOk.nil
    have := MidOk.append (MidOk.append (MidOk.append (midOk_directives ℓ.directives hdirs)
      (midOk_comments ℓ.comments hcoms)) (midOk_featBlock d.feats ℓ.gaps h5)) hclose
    simpa [mid] using this
  have hvsplit : idx (split ' ' vline) 1 = .ok d.version := by
    simp only [vline, joinSep]
    rw [split_cons_line _ (sGffVersion_free _ (by simp)), split_nosep (free_not_mem h1 (by simp))]
    rfl
  have hrsplit : split ' ' rline = [sSeqRegion, d.region, itoa d.regionFirst, itoa d.regionLast] := by
    simp only [rline, joinSep]
    rw [split_cons_line _ (sSeqRegion_free _ (by simp)), split_cons_line _ (free_not_mem h2 (by simp)),
      split_cons_line _ (itoa_free_tabnl _ _ (by simp)), split_nosep (itoa_free_tabnl _ _ (by simp))]
  have hvf : hasPrefix sHash1 vline = true ∧ vline ≠ sFasta := by
    simp only [vline, joinSep]
    rw [sGffVersion_eq]
    exact header_line_facts _ _ _ (by decide)
  have hrf : hasPrefix sHash1 rline = true ∧ rline ≠ sFasta := by
    simp only [rline, joinSep]
    rw [sSeqRegion_eq]
    exact header_line_facts _ _ _ (by decide)
  have hseqnl : '\n' ∉ d.seq := fun hm => (seqChar_facts (h7 _ hm)).1 rfl
  have hchunk : ∀ l ∈ chunks ℓ.widths d.seq, ∀ c ∈ l, seqChar c = true :=
    fun l hl c hc => h7 c (chunks_mem _ _ l hl c hc)
  -- no line holds a newline
  have hnonl : ∀ l ∈ layoutLines d ℓ, '\n' ∉ l := by
    rw [hshape]
    intro l hl
    simp only [List.mem_cons, List.mem_append, mid] at hl
    rcases hl with rfl | rfl | (((hl | hl) | hl) | hl) | rfl | rfl | hl
    · simp only [vline, joinSep, List.mem_append, List.mem_cons, not_or]
      exact ⟨sGffVersion_free _ (by simp), by decide, free_not_mem h1 (by simp)⟩
    · simp only [rline, joinSep, List.mem_append, List.mem_cons, not_or]
      exact ⟨sSeqRegion_free _ (by simp), by decide, free_not_mem h2 (by simp), by decide,
        itoa_free_tabnl _ _ (by simp), by decide, itoa_free_tabnl _ _ (by simp)⟩
    · have := hdirs l hl
      simp only [wfDirective, Bool.and_eq_true] at this
      exact free_not_mem this.2 (by simp)
    · have := hcoms l hl
      simp only [wfComment, Bool.and_eq_true] at this
      exact free_not_mem this.2 (by simp)
    · exact featBlock_noNl d.feats ℓ.gaps h5 l hl
    · split at hl
      · simp only [List.mem_singleton] at hl; subst hl; decide
      · simp at hl
    · decide
    · simp only [List.mem_cons, not_or]
      exact ⟨by decide, free_not_mem h6 (by simp)⟩
    · intro hm
      exact hseqnl (chunks_mem _ _ l hl _ hm)
  have hne : layoutLines d ℓ ≠ [] := by rw [hshape]; simp
  unfold parse layout
  by_cases hfn : ℓ.finalNewline = true
  · rw [if_pos hfn, split_joinSep_sep hne hnonl, hshape]
    have : (vline :: rline :: (mid ++ sFasta :: ('>' :: d.defline) :: chunks ℓ.widths d.seq)) ++ [[]]
        = vline :: rline :: (mid ++ sFasta :: ('>' :: d.defline) :: (chunks ℓ.widths d.seq ++ [[]])) := by simp
    rw [this, parseLines_doc _ _ _ _ _ _ _ _ _ _ _ hvsplit hrsplit hvf.1 hvf.2 hrf.1 hrf.2 hmid
      (by
        intro l hl
        rcases List.mem_append.1 hl with hl | hl
        · exact hchunk l hl
        · simp only [List.mem_singleton] at hl; subst hl; simp)]
    simp [denote, chunks_flatten, atoi_itoa (inInt_spec h3), atoi_itoa (inInt_spec h4)]
  · rw [if_neg hfn, List.append_nil, split_joinSep hne hnonl, hshape,
      parseLines_doc _ _ _ _ _ _ _ _ _ _ _ hvsplit hrsplit hvf.1 hvf.2 hrf.1 hrf.2 hmid hchunk]
    simp [denote, chunks_flatten, atoi_itoa (inInt_spec h3), atoi_itoa (inInt_spec h4)]

/-- **Coordinate law on laid-out text**: a feature line with columns 4 and 5 = `first`, `last`
(1-based, inclusive, inside the sequence; `first = last + 1` is the empty interval) denotes a
feature whose GetSequence is exactly bases `first..last` of the file's sequence. -/
theorem coords_layout (d : GffDoc) (f : FeatLine) (s e : Nat) (hs : f.first = (s : Int) + 1) (he : f.last = e)
    (h1 : s ≤ e) (h2 : e ≤ d.seq.length) :
    getSeq (denote d).seq (denoteFeat f) = .ok (bases d.seq (s + 1) e) := by
  simp only [getSeq, denote, denoteFeat, hs, he]
  have : (s : Int) + 1 - 1 = s := by omega
  rw [this]
  exact slice_eq_bases d.seq s e h1 h2

/-! ### non-vacuity: concrete inputs meeting the hypotheses (tests, not theorems) -/

/-- 71 letters (one-letter last line), RegionEnd on a line break, two features at the extreme
coordinates, attribute maps given in unsorted order, one defaulted column -/
def sample : Gff :=
  { name := "chr1".toList, gffVersion := ['3'], regionStart := 1, regionEnd := 70,
    seq := List.replicate 35 'A' ++ List.replicate 36 'C',
    features := [
      { name := "chr1".toList, source := "poly".toList, type := "gene".toList, start := 0, stop := 71, score := ['.'],
        strand := ['+'], phase := ['.'], attrs := [("Name".toList, "x y".toList), ("ID".toList, "g1".toList)] },
      { name := "chr1".toList, source := [], type := "CDS".toList, start := 70, stop := 71, score := [],
        strand := ['-'], phase := ['0'], attrs := [("ID".toList, [])] } ] }

example : wfBuild sample = true := by decide
example : parse (build sample) = .ok (expected sample) := by decide
example : getSeq sample.seq (expectedFeature [] (sample.features.getD 1 {})) = .ok ['C'] := by decide
example : bases sample.seq 71 71 = ['C'] := by decide

/-- The last lines of `Build`'s text for a 140-letter sequence (a multiple of the line width), as
line lengths after the FASTA definition line; the final `0` is the empty field after the last
newline.  `RegionEnd = 140 = len`: the break after letter 140 is suppressed, no blank line.
`RegionEnd = 1` (any value that is no multiple of 70 up to the length): breaks after 70 and 140, then
the final newline leaves a blank line.  `RegionEnd = 70` (a smaller multiple): the break after
letter 70 is suppressed — one 140-letter line — and the text ends with a blank line.  `Parse` skips
blank lines and joins the others, so all three read back the same sequence (`parse_buildWith`). -/
def tailShape (regionEnd : Int) : List Nat :=
  ((split '\n' (build { name := ['s'], regionStart := 1, regionEnd := regionEnd, seq := List.replicate 140 'A' })).drop 5).map
    List.length

example : tailShape 140 = [70, 70, 0] := by decide +kernel
example : tailShape 1 = [70, 70, 0, 0] := by decide +kernel
example : tailShape 70 = [140, 0, 0] := by decide +kernel

def sampleDoc : GffDoc :=
  { version := "3.1.26".toList, region := "ctg123".toList, regionFirst := 1, regionLast := 9,
    feats := [{ seqid := "ctg123".toList, source := ['.'], type := "exon".toList, first := 2, last := 4, score := ['.'],
                strand := ['+'], phase := ['.'], attrs := [("ID".toList, "e1".toList), ("Parent".toList, "m1".toList)] }],
    defline := "ctg123 test".toList, seq := "ACGTACGTA".toList }
def sampleLayout : Layout :=
  { directives := ["##species x".toList], comments := ["# a comment".toList, ['#']], gaps := [2], closeMark := false,
    widths := [4, 0, 3], finalNewline := false }

example : wfDoc sampleDoc = true ∧ wfLayout sampleLayout = true := by decide
example : parse (layout sampleDoc sampleLayout) = .ok (denote sampleDoc) := by decide
example : getSeq (denote sampleDoc).seq (denoteFeat (sampleDoc.feats.getD 0 ⟨[], [], [], 0, 0, [], [], [], []⟩)) = .ok "CGT".toList := by decide

end PolyVerif.Props.C14
