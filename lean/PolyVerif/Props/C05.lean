import PolyVerif.Model.Seqhash
/-
C05 — Seqhash separates distinct molecules and follows the published v1 form.
-/
namespace PolyVerif.Props.C05
open PolyVerif PolyVerif.Seqhash

theorem hex_length (bs : List UInt8) : (hex bs).length = 2 * bs.length := by
  induction bs with
  | nil => rfl
  | cons b bs ih => simp [hex, List.flatMap_cons] at *; omega

end PolyVerif.Props.C05
