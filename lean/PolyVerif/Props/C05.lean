import PolyVerif.Lemmas.SeqhashSpec
import PolyVerif.Props.C12Booth
/-
C05 — Seqhash separates distinct molecules and follows the published v1 form.

Stated over `hashSpec` (the model of `seqhash.Hash` with the arg-min least rotation) for EVERY
digest function, then transferred to `hash` (rotation step = the Booth loop of the code) through
C12's `booth_least` (`model_hash_*` near the end); collision-freeness of the digest is the explicit HYPOTHESIS
`Function.Injective blake` of the separation theorems (satisfiable: see the toy digest at the
end), never an axiom.  The rejection theorems hold for every rotation function (`hashWith rot`),
hence also for the Booth-loop model.

Strand-closed alphabet.  "Equal up to strand" is an equivalence only where reverse-complementing
twice gives the sequence back; that fails for `U` (complemented to `A`) and `Z` (complemented to
the zero rune), both of which `Hash` accepts.  `hash_inj` is therefore stated, in the
double-stranded case, under the hypothesis that both normalised sequences are over the 15 codes
`ACGTRYSWKMBDHVN` (`Iupac15`); `hash_inj_general` is the unconditional statement (some strand of
one equals, up to rotation, some strand of the other).
-/
namespace PolyVerif.Props.C05
open PolyVerif PolyVerif.Seqhash PolyVerif.Transform PolyVerif.Spec

theorem hex_length (bs : List UInt8) : (hex bs).length = 2 * bs.length := Seqhash.hex_length bs

/-! ### "the same molecule" -/

/-- equal, or equal up to rotation when circular -/
def SameUpToRotation (circ : Bool) (x y : Str) : Prop := if circ then IsRotation x y else x = y

/-- the normalised sequences denote the same molecule: equal up to rotation when circular, and up
to strand (reverse complement) when double-stranded -/
def SameMolecule (x y : Str) (circ ds : Bool) : Prop :=
  SameUpToRotation circ x y ∨ (ds = true ∧ SameUpToRotation circ x (revComp y))

/-- the strands a declared molecule consists of -/
def strands (ds : Bool) (x : Str) : List Str := if ds then [x, revComp x] else [x]

theorem SameUpToRotation.refl (circ : Bool) (x : Str) : SameUpToRotation circ x x := by
  cases circ
  · exact rfl
  · exact IsRotation.refl x

theorem SameUpToRotation.symm {circ : Bool} {x y : Str} (h : SameUpToRotation circ x y) : SameUpToRotation circ y x := by
  cases circ
  · exact Eq.symm h
  · exact IsRotation.symm h

theorem SameUpToRotation.revComp {circ : Bool} {x y : Str} (h : SameUpToRotation circ x y) :
    SameUpToRotation circ (revComp x) (revComp y) := by
  cases circ
  · exact congrArg Transform.revComp h
  · exact Seqhash.IsRotation.revComp h

/-- single-stranded canonical representatives coincide exactly on `SameUpToRotation` -/
theorem canon_ss_eq_iff (circ : Bool) (x y : Str) :
    canonSpec x circ false = canonSpec y circ false ↔ SameUpToRotation circ x y := by
  cases circ
  · exact Iff.rfl
  · exact leastRotation_eq_iff

/-- the double-stranded representative is the lesser of the two single-stranded ones -/
theorem canon_ds (circ : Bool) (x : Str) :
    canonSpec x circ true = lexMin (canonSpec x circ false) (canonSpec (revComp x) circ false) := by
  cases circ <;> rfl

/-- equal canonical representatives: some strand of one is, up to rotation, some strand of the other -/
theorem canon_eq_strands {x y : Str} {circ ds : Bool} (h : canonSpec x circ ds = canonSpec y circ ds) :
    ∃ x' ∈ strands ds x, ∃ y' ∈ strands ds y, SameUpToRotation circ x' y' := by
  cases ds
  · exact ⟨x, by simp [strands], y, by simp [strands], (canon_ss_eq_iff circ x y).1 h⟩
  · rw [canon_ds, canon_ds] at h
    rcases lexMin_eq_or (canonSpec x circ false) (canonSpec (revComp x) circ false) with ex | ex <;>
    rcases lexMin_eq_or (canonSpec y circ false) (canonSpec (revComp y) circ false) with ey | ey <;>
    rw [ex, ey] at h
    · exact ⟨x, by simp [strands], y, by simp [strands], (canon_ss_eq_iff _ _ _).1 h⟩
    · exact ⟨x, by simp [strands], revComp y, by simp [strands], (canon_ss_eq_iff _ _ _).1 h⟩
    · exact ⟨revComp x, by simp [strands], y, by simp [strands], (canon_ss_eq_iff _ _ _).1 h⟩
    · exact ⟨revComp x, by simp [strands], revComp y, by simp [strands], (canon_ss_eq_iff _ _ _).1 h⟩

/-- on the strand-closed alphabet that is `SameMolecule` -/
theorem sameMolecule_of_canon_eq {x y : Str} {circ ds : Bool}
    (hx : ds = true → Iupac15 x) (hy : ds = true → Iupac15 y)
    (h : canonSpec x circ ds = canonSpec y circ ds) : SameMolecule x y circ ds := by
  obtain ⟨x', hx', y', hy', hs⟩ := canon_eq_strands h
  cases ds
  · simp only [strands, Bool.false_eq_true, ↓reduceIte, List.mem_singleton] at hx' hy'
    subst hx'; subst hy'
    exact Or.inl hs
  · have rx := (hx rfl).rc_rc
    have ry := (hy rfl).rc_rc
    simp only [strands, ↓reduceIte, List.mem_cons, List.not_mem_nil, or_false] at hx' hy'
    rcases hx' with rfl | rfl <;> rcases hy' with rfl | rfl
    · exact Or.inl hs
    · exact Or.inr ⟨rfl, hs⟩
    · right; refine ⟨rfl, ?_⟩
      have := hs.revComp; rwa [rx] at this
    · left
      have := hs.revComp; rwa [rx, ry] at this

/-- conversely the same molecule has the same canonical representative (C04 at the level of `canonSpec`) -/
theorem canon_eq_of_sameMolecule {x y : Str} {circ ds : Bool} (hy : ds = true → Iupac15 y)
    (h : SameMolecule x y circ ds) : canonSpec x circ ds = canonSpec y circ ds := by
  have rot : ∀ {u v : Str} (d : Bool), SameUpToRotation circ u v → canonSpec u circ d = canonSpec v circ d := by
    intro u v d huv
    cases circ
    · exact congrArg (fun t => canonSpec t false d) huv
    · exact canonSpec_of_isRotation huv d
  rcases h with h | ⟨rfl, h⟩
  · exact rot ds h
  · rw [rot true h, canonSpec_revComp (hy rfl).rc_rc]

/-! ### separation -/

/-- the core: equal hashes under an injective digest force equal tags and equal canonical representatives -/
theorem hash_inj_canon {blake : List UInt8 → List UInt8} (hb : Function.Injective blake)
    {a b : Str} {ta tb : String} {ca da cb db : Bool} {h : Str}
    (h₁ : hashSpec blake a ta ca da = .ok h) (h₂ : hashSpec blake b tb cb db = .ok h) :
    ta = tb ∧ ca = cb ∧ da = db ∧ canonSpec (norm ta a) ca da = canonSpec (norm tb b) cb db := by
  obtain ⟨acc₁, e₁⟩ := hashSpec_ok_iff.1 h₁
  obtain ⟨acc₂, e₂⟩ := hashSpec_ok_iff.1 h₂
  obtain ⟨htag, hhex⟩ := v1_injective (e₁.symm.trans e₂)
  obtain ⟨rfl, rfl, rfl⟩ := tag_injective acc₁.type acc₂.type htag
  refine ⟨rfl, rfl, rfl, ?_⟩
  exact bytes_injective (acc₁.canon_ascii ca) (acc₂.canon_ascii ca) (hb (hex_injective hhex))

/-- Two accepted inputs receive the same seqhash only if they denote the same molecule: same type,
topology and strandedness, and normalised sequences equal up to rotation when circular and up to
strand when double-stranded (double-stranded case on the strand-closed alphabet, see header). -/
theorem hash_inj {blake : List UInt8 → List UInt8} (hb : Function.Injective blake)
    {a b : Str} {ta tb : String} {ca da cb db : Bool} {h : Str}
    (hcl : da = true → Iupac15 (norm ta a) ∧ Iupac15 (norm tb b))
    (h₁ : hashSpec blake a ta ca da = .ok h) (h₂ : hashSpec blake b tb cb db = .ok h) :
    ta = tb ∧ ca = cb ∧ da = db ∧ SameMolecule (norm ta a) (norm tb b) ca da := by
  obtain ⟨rfl, rfl, rfl, hc⟩ := hash_inj_canon hb h₁ h₂
  exact ⟨rfl, rfl, rfl, sameMolecule_of_canon_eq (fun hd => (hcl hd).1) (fun hd => (hcl hd).2) hc⟩

/-- the unconditional form (any accepted letters, including `U` under DNA and `Z`): some strand of
the one is, up to rotation, some strand of the other -/
theorem hash_inj_general {blake : List UInt8 → List UInt8} (hb : Function.Injective blake)
    {a b : Str} {ta tb : String} {ca da cb db : Bool} {h : Str}
    (h₁ : hashSpec blake a ta ca da = .ok h) (h₂ : hashSpec blake b tb cb db = .ok h) :
    ta = tb ∧ ca = cb ∧ da = db ∧
      ∃ x ∈ strands da (norm ta a), ∃ y ∈ strands da (norm tb b), SameUpToRotation ca x y := by
  obtain ⟨rfl, rfl, rfl, hc⟩ := hash_inj_canon hb h₁ h₂
  exact ⟨rfl, rfl, rfl, canon_eq_strands hc⟩

/-- completeness (with C04: hash partition = orbit partition): accepted inputs of the same declared
kind that denote the same molecule receive the same seqhash — for every digest -/
theorem hash_same_molecule (blake : List UInt8 → List UInt8) {a b : Str} {ty : String} {c d : Bool}
    (ha : Accepted ty d (norm ty a)) (hb : Accepted ty d (norm ty b))
    (hcl : d = true → Iupac15 (norm ty b))
    (h : SameMolecule (norm ty a) (norm ty b) c d) :
    hashSpec blake a ty c d = hashSpec blake b ty c d := by
  rw [hashSpec_ok _ _ _ _ _ ha, hashSpec_ok _ _ _ _ _ hb, canon_eq_of_sameMolecule hcl h]

/-! ### the published v1 form -/

/-- the tag letters describe the declared molecule -/
theorem tag_form (ty : String) (c d : Bool) :
    tag ty c d = [if ty = "DNA" then 'D' else if ty = "RNA" then 'R' else 'P',
                  if c then 'C' else 'L', if d then 'D' else 'S'] := rfl

/-- on accepted input the value is `v1_`, the tag, `_`, and the hex digest of the bytes of the
upper-cased canonical representative (least rotation and/or lesser strand) -/
theorem hash_form (blake : List UInt8 → List UInt8) (s : Str) (ty : String) (c d : Bool)
    (h : Accepted ty d (norm ty s)) :
    hashSpec blake s ty c d =
      .ok ("v1_".toList ++ tag ty c d ++ ['_'] ++ hex (blake (bytes (canonSpec (norm ty s) c d)))) :=
  hashSpec_ok blake s ty c d h

/-- the canonical representative spelled out -/
theorem canon_form (t : Str) :
    canonSpec t false false = t ∧ canonSpec t true false = leastRotation t ∧
    canonSpec t false true = lexMin t (revComp t) ∧
    canonSpec t true true = lexMin (leastRotation t) (leastRotation (revComp t)) := ⟨rfl, rfl, rfl, rfl⟩

/-- a value is returned exactly on accepted input, and the model never panics -/
theorem hash_ok_iff (blake : List UInt8 → List UInt8) (s : Str) (ty : String) (c d : Bool) :
    (∃ h, hashSpec blake s ty c d = .ok h) ↔ Accepted ty d (norm ty s) := by
  constructor
  · rintro ⟨h, e⟩; exact (hashSpec_ok_iff.1 e).1
  · intro h; exact ⟨_, hashSpec_ok blake s ty c d h⟩

/-- with a 32-byte digest (BLAKE3-256) the value is 71 letters: 7 of prefix and tag, then 64
lower-case hex digits -/
theorem hex_len (blake : List UInt8 → List UInt8) (hlen : ∀ x, (blake x).length = 32)
    {s : Str} {ty : String} {c d : Bool} {h : Str} (e : hashSpec blake s ty c d = .ok h) :
    h.length = 71 ∧ h.take 7 = "v1_".toList ++ tag ty c d ++ ['_'] ∧
      (h.drop 7).length = 64 ∧ ∀ x ∈ h.drop 7, x ∈ "0123456789abcdef".toList := by
  obtain ⟨_, rfl⟩ := hashSpec_ok_iff.1 e
  have ht := v1_take blake ty c d (canonSpec (norm ty s) c d)
  refine ⟨by rw [v1_length, hlen], ht.1, ?_, ?_⟩
  · rw [ht.2, Seqhash.hex_length, hlen]
  · rw [ht.2]; exact hex_digits _

/-! ### rejections (for every rotation function, so also for the Booth-loop model `hash`) -/

/-- unknown molecule types are rejected with an error -/
theorem reject_type (rot : Str → Option Str) (blake : List UInt8 → List UInt8) (s : Str) (ty : String) (c d : Bool)
    (h : ty ≠ "DNA" ∧ ty ≠ "RNA" ∧ ty ≠ "PROTEIN") : hashWith rot blake s ty c d = .err := by
  apply hashWith_err
  intro hacc
  rcases hacc.type with e | e | e
  · exact h.1 e
  · exact h.2.1 e
  · exact h.2.2 e

/-- a letter outside the type's alphabet (after upper-casing, and `U → T` under RNA) is rejected
with an error -/
theorem reject_letter (rot : Str → Option Str) (blake : List UInt8 → List UInt8) (s : Str) (ty : String) (c d : Bool)
    (x : Char) (hx : x ∈ norm ty s)
    (hbad : ((ty = "DNA" ∨ ty = "RNA") ∧ x ∉ nucleotideLetters) ∨ (ty = "PROTEIN" ∧ x ∉ proteinLetters)) :
    hashWith rot blake s ty c d = .err := by
  obtain ⟨h1, h2, h3⟩ := str_ne
  apply hashWith_err
  rintro (⟨hty, hl⟩ | ⟨hty, hl, _⟩)
  · rcases hbad with ⟨_, hn⟩ | ⟨hp, _⟩
    · exact hn (hl x hx)
    · subst hp; rcases hty with e | e
      · exact h2 e.symm
      · exact h3 e.symm
  · rcases hbad with ⟨hn, _⟩ | ⟨_, hn⟩
    · subst hty; rcases hn with e | e
      · exact h2 e.symm
      · exact h3 e.symm
    · exact hn (hl x hx)

/-- double-stranded proteins are rejected with an error -/
theorem reject_ds_protein (rot : Str → Option Str) (blake : List UInt8 → List UInt8) (s : Str) (c : Bool) :
    hashWith rot blake s "PROTEIN" c true = .err := by
  obtain ⟨h1, h2, h3⟩ := str_ne
  apply hashWith_err
  rintro (⟨e | e, _⟩ | ⟨_, _, e⟩)
  · exact h2 e.symm
  · exact h3 e.symm
  · exact absurd e (by simp)

/-- and those three are the only reasons for rejection -/
theorem err_iff (blake : List UInt8 → List UInt8) (s : Str) (ty : String) (c d : Bool) :
    hashSpec blake s ty c d = .err ↔ ¬ Accepted ty d (norm ty s) := by
  constructor
  · intro e ha
    rw [hashSpec_ok _ _ _ _ _ ha] at e
    cases e
  · exact hashSpec_err blake s ty c d

/-! ### the same for the model of the code itself

`Seqhash.hash` has the Booth loop as its rotation step; C12 (`Props/C12Booth.booth_least`) proves it
equal to the arg-min, so `hash = hashSpec` and nothing is left "modulo C12". -/

theorem hash_model_eq_spec : Seqhash.hash = Seqhash.hashSpec := Props.C12Booth.hash_eq_hashSpec

theorem model_hash_inj {blake : List UInt8 → List UInt8} (hb : Function.Injective blake)
    {a b : Str} {ta tb : String} {ca da cb db : Bool} {h : Str}
    (hcl : da = true → Iupac15 (norm ta a) ∧ Iupac15 (norm tb b))
    (h₁ : Seqhash.hash blake a ta ca da = .ok h) (h₂ : Seqhash.hash blake b tb cb db = .ok h) :
    ta = tb ∧ ca = cb ∧ da = db ∧ SameMolecule (norm ta a) (norm tb b) ca da := by
  rw [hash_model_eq_spec] at h₁ h₂; exact hash_inj hb hcl h₁ h₂

theorem model_hash_inj_general {blake : List UInt8 → List UInt8} (hb : Function.Injective blake)
    {a b : Str} {ta tb : String} {ca da cb db : Bool} {h : Str}
    (h₁ : Seqhash.hash blake a ta ca da = .ok h) (h₂ : Seqhash.hash blake b tb cb db = .ok h) :
    ta = tb ∧ ca = cb ∧ da = db ∧
      ∃ x ∈ strands da (norm ta a), ∃ y ∈ strands da (norm tb b), SameUpToRotation ca x y := by
  rw [hash_model_eq_spec] at h₁ h₂; exact hash_inj_general hb h₁ h₂

theorem model_hash_same_molecule (blake : List UInt8 → List UInt8) {a b : Str} {ty : String} {c d : Bool}
    (ha : Accepted ty d (norm ty a)) (hb : Accepted ty d (norm ty b))
    (hcl : d = true → Iupac15 (norm ty b))
    (h : SameMolecule (norm ty a) (norm ty b) c d) :
    Seqhash.hash blake a ty c d = Seqhash.hash blake b ty c d := by
  rw [hash_model_eq_spec]; exact hash_same_molecule blake ha hb hcl h

theorem model_hash_form (blake : List UInt8 → List UInt8) (s : Str) (ty : String) (c d : Bool)
    (h : Accepted ty d (norm ty s)) :
    Seqhash.hash blake s ty c d =
      .ok ("v1_".toList ++ tag ty c d ++ ['_'] ++ hex (blake (bytes (canonSpec (norm ty s) c d)))) := by
  rw [hash_model_eq_spec]; exact hash_form blake s ty c d h

theorem model_hex_len (blake : List UInt8 → List UInt8) (hlen : ∀ x, (blake x).length = 32)
    {s : Str} {ty : String} {c d : Bool} {h : Str} (e : Seqhash.hash blake s ty c d = .ok h) :
    h.length = 71 ∧ h.take 7 = "v1_".toList ++ tag ty c d ++ ['_'] ∧
      (h.drop 7).length = 64 ∧ ∀ x ∈ h.drop 7, x ∈ "0123456789abcdef".toList := by
  rw [hash_model_eq_spec] at e; exact hex_len blake hlen e

/-- the model of the code never panics: it returns a value or the error -/
theorem model_hash_err_iff (blake : List UInt8 → List UInt8) (s : Str) (ty : String) (c d : Bool) :
    Seqhash.hash blake s ty c d = .err ↔ ¬ Accepted ty d (norm ty s) := by
  rw [hash_model_eq_spec]; exact err_iff blake s ty c d

/-! ### non-vacuity -/

/-- a toy digest that is injective: the identity -/
def toyDigest : List UInt8 → List UInt8 := id

theorem toyDigest_injective : Function.Injective toyDigest := fun _ _ h => h

/-- the hypotheses of `hash_inj` are satisfiable on a non-trivial pair: a plasmid and a rotation of
its reverse complement, declared circular double-stranded -/
example : ∃ h, hashSpec toyDigest "AACG".toList "DNA" true true = .ok h ∧
    hashSpec toyDigest "TTCG".toList "DNA" true true = .ok h :=
  ⟨_, hashSpec_ok toyDigest _ _ _ _ (by decide), by
    rw [hashSpec_ok toyDigest _ _ _ _ (by decide)]
    congr 2⟩

example : Iupac15 (norm "DNA" "AACG".toList) ∧ Iupac15 (norm "DNA" "TTCG".toList) := by decide
example : SameMolecule "AACG".toList "TTCG".toList true true :=
  Or.inr ⟨rfl, ⟨2, by decide⟩⟩
/-- distinct molecules are separated: the conclusion of `hash_inj` can fail, so the theorem has content -/
example : canonSpec "AACG".toList true true ≠ canonSpec "AACC".toList true true := by decide
/-- the strand-closed hypothesis of `hash_inj` cannot be dropped: `U` is accepted under DNA and is
complemented to `A`, so `AU` and `AT` (linear, double-stranded) have the same representative although
neither is the other or the other's reverse complement; `hash_inj_general` is what holds there -/
example : Accepted "DNA" true (norm "DNA" "AU".toList) ∧
    canonSpec "AU".toList false true = canonSpec "AT".toList false true ∧
    ¬ SameMolecule "AU".toList "AT".toList false true := by
  refine ⟨by decide, by decide, ?_⟩
  simp only [SameMolecule, SameUpToRotation, Bool.false_eq_true, ↓reduceIte, true_and]
  decide
example : Accepted "PROTEIN" false (norm "PROTEIN" "mkv*".toList) := by decide
example : ¬ Accepted "DNA" false (norm "DNA" "ACGX".toList) := by decide
/-- a digest of constant length 32 exists (hypothesis of `hex_len`) -/
example : ∀ x : List UInt8, ((fun _ => List.replicate 32 (0 : UInt8)) x).length = 32 := fun _ => rfl

end PolyVerif.Props.C05
