import PolyVerif.Lemmas.SeqhashSpec
import PolyVerif.Props.C12Booth
/-
C05 — Seqhash separates distinct molecules and follows the published v1 form.

Stated over `hashSpec` (the model of `seqhash.Hash` with the arg-min least rotation) for EVERY
digest function, then transferred to `hash` (rotation step = the Booth loop of the code) through
C12's `booth_least` (`model_hash_*` near the end); collision-freeness of the digest is the explicit HYPOTHESIS
`Function.Injective blake` of the separation theorems (satisfiable: see the toy digest at the
end), never an axiom.  The rejection theorems hold for every rotation function (`hashWith rot`),
hence also for the Booth-loop model.

KNOWN FINDING C05-dna-u-strand.  The full-strength separation clause is FALSE of the code: `Hash`
accepts `U` under type DNA (only RNA rewrites it to `T`), and `U` and `T` have the same complement
`A`, so for double-stranded DNA two inputs that differ only in `U` vs `T` — not the same molecule —
receive the same seqhash (`hash_inj_dna_u_witness`, kernel-checked on the model).  The clause is
therefore proved as `hash_inj_partial` under a SUFFICIENT hypothesis (no `U` in double-stranded DNA
inputs; it also excludes harmless inputs such as `ACU`), and `hash_collision_class` bounds the collisions
unconditionally ("collision ⇒ same molecule ∨ residue"): a collision between different molecules
happens only between double-stranded DNA sequences, one containing `U`, with the same other strand
which is the hashed strand of both; `hash_collision_of_residue` is the converse (that residue always
collides), so the pair characterises the collision set exactly.  The completeness direction fails in
the same class (`hash_same_molecule_dna_u_witness`; `hash_same_molecule_partial`).  `Z` (accepted under DNA
and RNA; not a nucleotide code, the property defines no other strand for it) is NOT excluded from the
separation theorems: complementing is injective on the accepted nucleotide letters other than
`U` (a `decide`d fact about the regenerated table, so it follows the code's present answer for `Z`), so
nothing collides with `Z`.  The completeness theorem excludes `Z` from double-stranded inputs.

"Sequence" in the conclusions means the NORMALISED sequence `norm ty s`: upper-cased (C04's case
clause) and, under type RNA, with `U` read as `T` (the first statements of `Hash`; under RNA the two
spellings `T` and `U` of a letter are identified by design, see `rna_reads_u_as_t`).
-/
namespace PolyVerif.Props.C05
open PolyVerif PolyVerif.Seqhash PolyVerif.Transform PolyVerif.Spec

theorem hex_length (bs : List UInt8) : (hex bs).length = 2 * bs.length := Seqhash.hex_length bs

/-! ### "the same molecule" -/

/-- equal, or equal up to rotation when circular -/
def SameUpToRotation (circ : Bool) (x y : Str) : Prop := if circ then IsRotation x y else x = y

/-- the normalised sequences denote the same molecule: equal up to rotation when circular, and up
to strand when double-stranded (one is the reverse complement of the other, in either direction —
the relation is symmetric by definition, also where `revComp` is not an involution) -/
def SameMolecule (x y : Str) (circ ds : Bool) : Prop :=
  SameUpToRotation circ x y ∨
    (ds = true ∧ (SameUpToRotation circ x (revComp y) ∨ SameUpToRotation circ (revComp x) y))

/-- the strands a declared molecule consists of -/
def strands (ds : Bool) (x : Str) : List Str := if ds then [x, revComp x] else [x]

theorem SameUpToRotation.refl (circ : Bool) (x : Str) : SameUpToRotation circ x x := by
  cases circ
  · exact rfl
  · exact IsRotation.refl x

theorem SameUpToRotation.symm {circ : Bool} {x y : Str} (h : SameUpToRotation circ x y) : SameUpToRotation circ y x := by
  cases circ
  · exact Eq.symm h
  · exact IsRotation.symm h

theorem SameUpToRotation.revComp {circ : Bool} {x y : Str} (h : SameUpToRotation circ x y) :
    SameUpToRotation circ (revComp x) (revComp y) := by
  cases circ
  · exact congrArg Transform.revComp h
  · exact Seqhash.IsRotation.revComp h

theorem SameMolecule.symm {x y : Str} {circ ds : Bool} (h : SameMolecule x y circ ds) : SameMolecule y x circ ds := by
  rcases h with h | ⟨hd, h | h⟩
  · exact Or.inl h.symm
  · exact Or.inr ⟨hd, Or.inr h.symm⟩
  · exact Or.inr ⟨hd, Or.inl h.symm⟩

/-- a double-stranded nucleic-acid sequence without `U`: letters among the accepted nucleotide letters
other than `U` (`Z` allowed) -/
def NoU (t : Str) : Prop := (∀ c ∈ t, c ∈ nucleotideLetters) ∧ 'U' ∉ t

instance (t : Str) : Decidable (NoU t) := by unfold NoU; infer_instance

/-- on `U`-free nucleotide strings reverse-complementing can be cancelled on both sides -/
theorem SameUpToRotation.of_revComp {circ : Bool} {x y : Str} (hx : NoU x) (hy : NoU y)
    (h : SameUpToRotation circ (Transform.revComp x) (Transform.revComp y)) : SameUpToRotation circ x y := by
  have key : SameUpToRotation circ ((Transform.revComp x).reverse.map decompl) ((Transform.revComp y).reverse.map decompl) := by
    cases circ
    · exact congrArg (fun t => t.reverse.map decompl) h
    · exact (IsRotation.reverse h).map decompl
  rwa [revComp_cancel hx.1 hx.2, revComp_cancel hy.1 hy.2] at key

/-- single-stranded canonical representatives coincide exactly on `SameUpToRotation` -/
theorem canon_ss_eq_iff (circ : Bool) (x y : Str) :
    canonSpec x circ false = canonSpec y circ false ↔ SameUpToRotation circ x y := by
  cases circ
  · exact Iff.rfl
  · exact leastRotation_eq_iff

/-- the double-stranded representative is the lesser of the two single-stranded ones -/
theorem canon_ds (circ : Bool) (x : Str) :
    canonSpec x circ true = lexMin (canonSpec x circ false) (canonSpec (revComp x) circ false) := by
  cases circ <;> rfl

/-- equal canonical representatives: some strand of one is, up to rotation, some strand of the other -/
theorem canon_eq_strands {x y : Str} {circ ds : Bool} (h : canonSpec x circ ds = canonSpec y circ ds) :
    ∃ x' ∈ strands ds x, ∃ y' ∈ strands ds y, SameUpToRotation circ x' y' := by
  cases ds
  · exact ⟨x, by simp [strands], y, by simp [strands], (canon_ss_eq_iff circ x y).1 h⟩
  · rw [canon_ds, canon_ds] at h
    rcases lexMin_eq_or (canonSpec x circ false) (canonSpec (revComp x) circ false) with ex | ex <;>
    rcases lexMin_eq_or (canonSpec y circ false) (canonSpec (revComp y) circ false) with ey | ey <;>
    rw [ex, ey] at h
    · exact ⟨x, by simp [strands], y, by simp [strands], (canon_ss_eq_iff _ _ _).1 h⟩
    · exact ⟨x, by simp [strands], revComp y, by simp [strands], (canon_ss_eq_iff _ _ _).1 h⟩
    · exact ⟨revComp x, by simp [strands], y, by simp [strands], (canon_ss_eq_iff _ _ _).1 h⟩
    · exact ⟨revComp x, by simp [strands], revComp y, by simp [strands], (canon_ss_eq_iff _ _ _).1 h⟩

/-- the OTHER strand is the one that gets hashed: it is no greater than the sequence itself (least
rotations compared when circular) -/
def OtherStrandLesser (circ : Bool) (x : Str) : Prop :=
  lexLe (canonSpec (Transform.revComp x) circ false) (canonSpec x circ false) = true

instance (circ : Bool) (x : Str) : Decidable (OtherStrandLesser circ x) := by
  unfold OtherStrandLesser; infer_instance

/-- residue of the separation clause, unconditionally: equal canonical representatives mean the same
molecule, or — double-stranded only — the two sequences have the SAME OTHER STRAND (up to rotation) and
for both it is the other strand that is hashed -/
theorem canon_eq_cases {x y : Str} {circ ds : Bool} (h : canonSpec x circ ds = canonSpec y circ ds) :
    SameMolecule x y circ ds ∨
      (ds = true ∧ SameUpToRotation circ (revComp x) (revComp y) ∧
        OtherStrandLesser circ x ∧ OtherStrandLesser circ y) := by
  cases ds
  · exact Or.inl (Or.inl ((canon_ss_eq_iff circ x y).1 h))
  · rw [canon_ds, canon_ds] at h
    rcases lexMin_eq_or (canonSpec x circ false) (canonSpec (revComp x) circ false) with ex | ex <;>
    rcases lexMin_eq_or (canonSpec y circ false) (canonSpec (revComp y) circ false) with ey | ey
    · rw [ex, ey] at h; exact Or.inl (Or.inl ((canon_ss_eq_iff _ _ _).1 h))
    · rw [ex, ey] at h; exact Or.inl (Or.inr ⟨rfl, Or.inl ((canon_ss_eq_iff _ _ _).1 h)⟩)
    · rw [ex, ey] at h; exact Or.inl (Or.inr ⟨rfl, Or.inr ((canon_ss_eq_iff _ _ _).1 h)⟩)
    · have lx : OtherStrandLesser circ x := by
        have := lexMin_le_left (canonSpec x circ false) (canonSpec (revComp x) circ false)
        rwa [ex] at this
      have ly : OtherStrandLesser circ y := by
        have := lexMin_le_left (canonSpec y circ false) (canonSpec (revComp y) circ false)
        rwa [ey] at this
      rw [ex, ey] at h
      exact Or.inr ⟨rfl, (canon_ss_eq_iff _ _ _).1 h, lx, ly⟩

/-- …and CONVERSELY that residue always collides: same other strand, hashed for both ⇒ equal
representatives.  (Without the two `OtherStrandLesser` conjuncts it does not: `AAU`/`AAT` have the same
other strand `ATT` but are hashed as themselves.) -/
theorem canon_eq_of_residue {x y : Str} {circ : Bool}
    (hs : SameUpToRotation circ (revComp x) (revComp y))
    (lx : OtherStrandLesser circ x) (ly : OtherStrandLesser circ y) :
    canonSpec x circ true = canonSpec y circ true := by
  rw [canon_ds, canon_ds, lexMin_comm (canonSpec x circ false), lexMin_eq_left lx,
    lexMin_comm (canonSpec y circ false), lexMin_eq_left ly]
  exact (canon_ss_eq_iff _ _ _).2 hs

/-- without `U` the same other strand means the same sequence, so that is `SameMolecule` -/
theorem sameMolecule_of_canon_eq {x y : Str} {circ ds : Bool}
    (hx : ds = true → NoU x) (hy : ds = true → NoU y)
    (h : canonSpec x circ ds = canonSpec y circ ds) : SameMolecule x y circ ds := by
  rcases canon_eq_cases h with hs | ⟨hd, hs, _, _⟩
  · exact hs
  · exact Or.inl (hs.of_revComp (hx hd) (hy hd))

theorem SameUpToRotation.mem_iff {circ : Bool} {x y : Str} (h : SameUpToRotation circ x y) {c : Char} :
    c ∈ x ↔ c ∈ y := by
  cases circ
  · have : x = y := h
    rw [this]
  · exact IsRotation.mem_iff h

/-- a fact about the accepted nucleotide ALPHABET only (no complement table involved): apart from
`U` and `Z` it consists of the 15 IUPAC codes -/
theorem table_nucleotide_noUZ : ∀ c ∈ nucleotideLetters, c ≠ 'U' → c ≠ 'Z' → c ∈ upperCodes := by
  decide

/-- a `U`-free, `Z`-free accepted nucleotide sequence is over the 15 IUPAC codes — the letters whose
other strand the property defines (`Z` is not a nucleotide code: no nomenclature gives it a partner,
so the completeness clause says nothing about double-stranded inputs containing it, and no theorem
here depends on what the code's complement table answers for `Z`) -/
theorem iupac15_of_noUZ {y : Str} (hy : NoU y) (hz : 'Z' ∉ y) : Iupac15 y := by
  intro c hc
  exact table_nucleotide_noUZ c (hy.1 c hc) (fun e => hy.2 (e ▸ hc)) (fun e => hz (e ▸ hc))

/-- conversely the same molecule has the same canonical representative (C04 at the level of
`canonSpec`), for accepted nucleotide sequences over the 15 codes (no `U`, no `Z`) when double-stranded -/
theorem canon_eq_of_sameMolecule {x y : Str} {circ ds : Bool}
    (hx : ds = true → NoU x) (hy : ds = true → NoU y)
    (hzx : ds = true → 'Z' ∉ x) (hzy : ds = true → 'Z' ∉ y)
    (h : SameMolecule x y circ ds) : canonSpec x circ ds = canonSpec y circ ds := by
  have rot : ∀ {u v : Str} (d : Bool), SameUpToRotation circ u v → canonSpec u circ d = canonSpec v circ d := by
    intro u v d huv
    cases circ
    · exact congrArg (fun t => canonSpec t false d) huv
    · exact canonSpec_of_isRotation huv d
  rcases h with h | ⟨rfl, h | h⟩
  · exact rot ds h
  · rw [rot true h, canonSpec_revComp (iupac15_of_noUZ (hy rfl) (hzy rfl)).rc_rc]
  · rw [← rot true h, canonSpec_revComp (iupac15_of_noUZ (hx rfl) (hzx rfl)).rc_rc]

/-! ### separation -/

/-- the core: equal hashes under an injective digest force equal tags and equal canonical representatives -/
theorem hash_inj_canon {blake : List UInt8 → List UInt8} (hb : Function.Injective blake)
    {a b : Str} {ta tb : String} {ca da cb db : Bool} {h : Str}
    (h₁ : hashSpec blake a ta ca da = .ok h) (h₂ : hashSpec blake b tb cb db = .ok h) :
    ta = tb ∧ ca = cb ∧ da = db ∧ canonSpec (norm ta a) ca da = canonSpec (norm tb b) cb db := by
  obtain ⟨acc₁, e₁⟩ := hashSpec_ok_iff.1 h₁
  obtain ⟨acc₂, e₂⟩ := hashSpec_ok_iff.1 h₂
  obtain ⟨htag, hhex⟩ := v1_injective (e₁.symm.trans e₂)
  obtain ⟨rfl, rfl, rfl⟩ := tag_injective acc₁.type acc₂.type htag
  refine ⟨rfl, rfl, rfl, ?_⟩
  exact bytes_injective (acc₁.canon_ascii ca) (acc₂.canon_ascii ca) (hb (hex_injective hhex))

theorem noU_norm_rna (s : Str) : 'U' ∉ norm "RNA" s := by
  simp only [norm, ↓reduceIte, uToT, List.mem_map, not_exists, not_and]
  intro c _
  split
  · decide
  · rename_i h; exact h

theorem Accepted.noU {ty : String} {t : Str} (h : Accepted ty true t) (hu : 'U' ∉ t) : NoU t := by
  rcases h with ⟨_, hl⟩ | ⟨_, _, hd⟩
  · exact ⟨hl, hu⟩
  · exact absurd hd (by simp)

/- The clause at full strength, as the property states it:

     hash_inj : Function.Injective blake →
         hash blake a ta ca da = .ok h → hash blake b tb cb db = .ok h →
         ta = tb ∧ ca = cb ∧ da = db ∧ SameMolecule (norm ta a) (norm tb b) ca da

   is REFUTED by `hash_inj_dna_u_witness` below (known finding C05-dna-u-strand).  What is proved is
   the same statement under the hypothesis `hcl` (double-stranded DNA inputs contain no `U`/`u`), which is
   SUFFICIENT, not exact (it also excludes `ACU`/`ACT`, which do not collide); the collision set is
   characterised by the pair `hash_collision_class` (upper bound) / `hash_collision_of_residue` (converse). -/

/-- Two accepted inputs receive the same seqhash only if they denote the same molecule: same type,
topology and strandedness, and normalised sequences equal up to rotation when circular and up to
strand when double-stranded — PARTIAL: for double-stranded DNA the sequences must not contain `U`
(under RNA `U` has been rewritten to `T`; `Z` and every other accepted letter are covered). -/
theorem hash_inj_partial {blake : List UInt8 → List UInt8} (hb : Function.Injective blake)
    {a b : Str} {ta tb : String} {ca da cb db : Bool} {h : Str}
    (hcl : da = true → (ta = "DNA" → 'U' ∉ upper a) ∧ (tb = "DNA" → 'U' ∉ upper b))
    (h₁ : hashSpec blake a ta ca da = .ok h) (h₂ : hashSpec blake b tb cb db = .ok h) :
    ta = tb ∧ ca = cb ∧ da = db ∧ SameMolecule (norm ta a) (norm tb b) ca da := by
  have acc₁ := (hashSpec_ok_iff.1 h₁).1
  have acc₂ := (hashSpec_ok_iff.1 h₂).1
  obtain ⟨rfl, rfl, rfl, hc⟩ := hash_inj_canon hb h₁ h₂
  refine ⟨rfl, rfl, rfl, sameMolecule_of_canon_eq ?_ ?_ hc⟩
  all_goals
    intro hd
    subst hd
  · refine Accepted.noU acc₁ ?_
    by_cases hr : ta = "RNA"
    · subst hr; exact noU_norm_rna a
    · have : norm ta a = upper a := by simp [norm, hr]
      rw [this]
      rcases acc₁ with ⟨hty | hty, _⟩ | ⟨_, _, hd⟩
      · exact (hcl rfl).1 hty
      · exact absurd hty hr
      · exact absurd hd (by simp)
  · refine Accepted.noU acc₂ ?_
    by_cases hr : ta = "RNA"
    · subst hr; exact noU_norm_rna b
    · have : norm ta b = upper b := by simp [norm, hr]
      rw [this]
      rcases acc₂ with ⟨hty | hty, _⟩ | ⟨_, _, hd⟩
      · exact (hcl rfl).2 hty
      · exact absurd hty hr
      · exact absurd hd (by simp)

/-- WHERE collisions between different molecules can happen, unconditionally (no hypothesis on the
letters): two accepted inputs with the same seqhash (injective digest) have the same tags and are the
same molecule, OR they lie in the residue class — double-stranded DNA, one of them contains `U`, the same
other strand up to rotation (they differ only in the `U`/`T` spelling of letters, both complemented to
`A`), and for both it is the other strand that is hashed.  An UPPER bound on the collision set
("collision ⇒ same molecule ∨ residue"); `hash_collision_of_residue` is the converse, so together the
pair characterises the collisions exactly.  The driver's `knownSep` is the residue WITHOUT the two
`OtherStrandLesser` conjuncts (necessary for a collision, not sufficient: `AAU`/`AAT`); it is applied
to observed failing pairs only.  `hash_inj_partial` is the special case where the residue is empty. -/
theorem hash_collision_class {blake : List UInt8 → List UInt8} (hb : Function.Injective blake)
    {a b : Str} {ta tb : String} {ca da cb db : Bool} {h : Str}
    (h₁ : hashSpec blake a ta ca da = .ok h) (h₂ : hashSpec blake b tb cb db = .ok h) :
    ta = tb ∧ ca = cb ∧ da = db ∧
      (SameMolecule (norm ta a) (norm tb b) ca da ∨
        (da = true ∧ ta = "DNA" ∧ ('U' ∈ norm ta a ∨ 'U' ∈ norm tb b) ∧
          SameUpToRotation ca (revComp (norm ta a)) (revComp (norm tb b)) ∧
          OtherStrandLesser ca (norm ta a) ∧ OtherStrandLesser ca (norm tb b))) := by
  have acc₁ := (hashSpec_ok_iff.1 h₁).1
  have acc₂ := (hashSpec_ok_iff.1 h₂).1
  obtain ⟨rfl, rfl, rfl, hc⟩ := hash_inj_canon hb h₁ h₂
  refine ⟨rfl, rfl, rfl, ?_⟩
  rcases canon_eq_cases hc with hs | ⟨hd, hs, lx, ly⟩
  · exact Or.inl hs
  · subst hd
    by_cases hu : 'U' ∈ norm ta a ∨ 'U' ∈ norm ta b
    · right
      refine ⟨rfl, ?_, hu, hs, lx, ly⟩
      rcases acc₁ with ⟨hty | hty, _⟩ | ⟨_, _, hd⟩
      · exact hty
      · subst hty
        rcases hu with hu | hu
        · exact absurd hu (noU_norm_rna a)
        · exact absurd hu (noU_norm_rna b)
      · exact absurd hd (by simp)
    · left
      simp only [not_or] at hu
      exact Or.inl (hs.of_revComp (Accepted.noU acc₁ hu.1) (Accepted.noU acc₂ hu.2))

/-- CONVERSE of `hash_collision_class`, for EVERY digest: two accepted double-stranded inputs of the same
declared kind in the residue class (same other strand up to rotation, hashed for both) receive the same
seqhash.  With `hash_collision_class`: for accepted inputs of one kind and an injective digest,
`hash a = hash b ↔ (canonical representatives equal) ↔ SameMolecule-with-equal-representatives ∨ residue`. -/
theorem hash_collision_of_residue (blake : List UInt8 → List UInt8) {a b : Str} {ty : String} {c : Bool}
    (ha : Accepted ty true (norm ty a)) (hb : Accepted ty true (norm ty b))
    (hs : SameUpToRotation c (revComp (norm ty a)) (revComp (norm ty b)))
    (la : OtherStrandLesser c (norm ty a)) (lb : OtherStrandLesser c (norm ty b)) :
    hashSpec blake a ty c true = hashSpec blake b ty c true := by
  rw [hashSpec_ok _ _ _ _ _ ha, hashSpec_ok _ _ _ _ _ hb, canon_eq_of_residue hs la lb]

/-- the two extra conjuncts are needed: `AAU` and `AAT` (linear double-stranded DNA) have the same other
strand `ATT` but each is hashed as itself, and they do not collide -/
example : revComp (norm "DNA" "AAU".toList) = revComp (norm "DNA" "AAT".toList) ∧
    ¬ OtherStrandLesser false (norm "DNA" "AAU".toList) ∧
    canonSpec (norm "DNA" "AAU".toList) false true ≠ canonSpec (norm "DNA" "AAT".toList) false true := by decide

/-- the finding, for EVERY digest: under double-stranded DNA the one-letter sequences `U` and `T`
(and the circular `UC` and `TC`) are both accepted and receive the same seqhash … -/
theorem dna_u_collision (blake : List UInt8 → List UInt8) :
    (∃ h, hashSpec blake "U".toList "DNA" false true = .ok h ∧ hashSpec blake "T".toList "DNA" false true = .ok h) ∧
    (∃ h, hashSpec blake "UC".toList "DNA" true true = .ok h ∧ hashSpec blake "TC".toList "DNA" true true = .ok h) := by
  refine ⟨⟨_, hashSpec_ok blake _ _ _ _ (by decide), ?_⟩, ⟨_, hashSpec_ok blake _ _ _ _ (by decide), ?_⟩⟩
  · rw [hashSpec_ok blake _ _ _ _ (by decide)]
    have : canonSpec (norm "DNA" "T".toList) false true = canonSpec (norm "DNA" "U".toList) false true := by decide
    rw [this]
  · rw [hashSpec_ok blake _ _ _ _ (by decide)]
    have : canonSpec (norm "DNA" "TC".toList) true true = canonSpec (norm "DNA" "UC".toList) true true := by decide
    rw [this]

/-- … although they are not the same molecule: neither equals the other or the other's reverse
complement (both have the reverse complement `A`, resp. `GA`), in either direction -/
theorem dna_u_not_same :
    ¬ SameMolecule (norm "DNA" "U".toList) (norm "DNA" "T".toList) false true ∧
    ¬ SameMolecule (norm "DNA" "UC".toList) (norm "DNA" "TC".toList) true true := by
  constructor
  · simp only [SameMolecule, SameUpToRotation, Bool.false_eq_true, ↓reduceIte, true_and]
    decide
  · have hmem : ∀ {a b : Str} (c : Char), c ∈ a → c ∉ b → ¬ IsRotation a b :=
      fun c ha hb h => hb (h.mem_iff.1 ha)
    simp only [SameMolecule, SameUpToRotation, ↓reduceIte, true_and]
    rintro (h | h | h)
    · exact hmem 'U' (by decide) (by decide) h
    · exact hmem 'U' (by decide) (by decide) h
    · exact hmem 'T' (by decide) (by decide) h.symm

/-- KNOWN FINDING C05-dna-u-strand, kernel-checked on the model of the code (`Seqhash.hash`, Booth
loop included): the separation clause at full strength is false, even for an injective digest -/
theorem hash_inj_dna_u_witness :
    ¬ ∀ (blake : List UInt8 → List UInt8), Function.Injective blake →
      ∀ (a b : Str) (ta tb : String) (ca da cb db : Bool) (h : Str),
        Seqhash.hash blake a ta ca da = .ok h → Seqhash.hash blake b tb cb db = .ok h →
        ta = tb ∧ ca = cb ∧ da = db ∧ SameMolecule (norm ta a) (norm tb b) ca da := by
  intro hall
  obtain ⟨⟨h, h₁, h₂⟩, _⟩ := dna_u_collision id
  rw [← Props.C12Booth.hash_eq_hashSpec] at h₁ h₂
  exact dna_u_not_same.1 (hall id (fun _ _ e => e) _ _ _ _ _ _ _ _ h h₁ h₂).2.2.2

/-- the unconditional form (any accepted letters, including `U` under DNA and `Z`): some strand of
the one is, up to rotation, some strand of the other -/
theorem hash_inj_general {blake : List UInt8 → List UInt8} (hb : Function.Injective blake)
    {a b : Str} {ta tb : String} {ca da cb db : Bool} {h : Str}
    (h₁ : hashSpec blake a ta ca da = .ok h) (h₂ : hashSpec blake b tb cb db = .ok h) :
    ta = tb ∧ ca = cb ∧ da = db ∧
      ∃ x ∈ strands da (norm ta a), ∃ y ∈ strands da (norm tb b), SameUpToRotation ca x y := by
  obtain ⟨rfl, rfl, rfl, hc⟩ := hash_inj_canon hb h₁ h₂
  exact ⟨rfl, rfl, rfl, canon_eq_strands hc⟩

/- Completeness at full strength (with C04: hash partition = orbit partition),

     hash_same_molecule : Accepted ty d (norm ty a) → Accepted ty d (norm ty b) →
         SameMolecule (norm ty a) (norm ty b) c d → hash blake a ty c d = hash blake b ty c d

   is REFUTED by `hash_same_molecule_dna_u_witness` below (second half of known finding
   C05-dna-u-strand: strand invariance fails for double-stranded DNA containing `U`).  Proved: the same
   statement under the hypothesis excluding double-stranded DNA inputs that contain `U` (`Z` is covered). -/

/-- completeness — PARTIAL: accepted inputs of the same declared kind that denote the same molecule
receive the same seqhash, for every digest; for double-stranded DNA the sequences must not contain `U`,
and double-stranded sequences must not contain `Z` (the property does not say what the other strand
of `Z` is; the theorem does not depend on what the code's complement table answers for it) -/
theorem hash_same_molecule_partial (blake : List UInt8 → List UInt8) {a b : Str} {ty : String} {c d : Bool}
    (ha : Accepted ty d (norm ty a)) (hb : Accepted ty d (norm ty b))
    (hcl : d = true → ty = "DNA" → 'U' ∉ upper a ∧ 'U' ∉ upper b)
    (hz : d = true → 'Z' ∉ upper a ∧ 'Z' ∉ upper b)
    (h : SameMolecule (norm ty a) (norm ty b) c d) :
    hashSpec blake a ty c d = hashSpec blake b ty c d := by
  have noz : ∀ s, 'Z' ∉ upper s → 'Z' ∉ norm ty s := by
    intro s hs
    unfold norm
    split
    · simp only [uToT, List.mem_map, not_exists, not_and]
      intro x hx
      split
      · decide
      · intro e; exact hs (e ▸ hx)
    · exact hs
  have nou : ∀ s, Accepted ty d (norm ty s) → (d = true → ty = "DNA" → 'U' ∉ upper s) → d = true → NoU (norm ty s) := by
    intro s hs hu hd
    subst hd
    refine Accepted.noU hs ?_
    by_cases hr : ty = "RNA"
    · subst hr; exact noU_norm_rna s
    · have : norm ty s = upper s := by simp [norm, hr]
      rw [this]
      rcases hs with ⟨hty | hty, _⟩ | ⟨_, _, hd⟩
      · exact hu rfl hty
      · exact absurd hty hr
      · exact absurd hd (by simp)
  rw [hashSpec_ok _ _ _ _ _ ha, hashSpec_ok _ _ _ _ _ hb,
    canon_eq_of_sameMolecule (nou a ha fun hd ht => (hcl hd ht).1) (nou b hb fun hd ht => (hcl hd ht).2)
      (fun hd => noz a (hz hd).1) (fun hd => noz b (hz hd).2) h]

/-- KNOWN FINDING C05-dna-u-strand, completeness half, kernel-checked on the model of the code: `CUC`
and `GAG` are both accepted as linear double-stranded DNA and are the same molecule (`GAG` is the
reverse complement of `CUC`), yet they receive different seqhashes (`rc GAG = CTC < CUC`) — for EVERY
injective digest -/
theorem hash_same_molecule_dna_u_witness :
    Accepted "DNA" true (norm "DNA" "CUC".toList) ∧ Accepted "DNA" true (norm "DNA" "GAG".toList) ∧
    SameMolecule (norm "DNA" "CUC".toList) (norm "DNA" "GAG".toList) false true ∧
    ∀ blake : List UInt8 → List UInt8, Function.Injective blake →
      Seqhash.hash blake "CUC".toList "DNA" false true ≠ Seqhash.hash blake "GAG".toList "DNA" false true := by
  refine ⟨by decide, by decide, Or.inr ⟨rfl, Or.inr (show revComp (norm "DNA" "CUC".toList) = norm "DNA" "GAG".toList by decide)⟩, ?_⟩
  intro blake hb he
  rw [Props.C12Booth.hash_eq_hashSpec, hashSpec_ok blake _ _ _ _ (by decide), hashSpec_ok blake _ _ _ _ (by decide)] at he
  have hv := (v1_injective (Outcome.ok.inj he)).2
  have hbytes := hb (hex_injective hv)
  revert hbytes
  decide

/-! ### the published v1 form -/

/-- the tag letters describe the declared molecule (a definitional unfolding of the model's `tag`,
recorded for reference; the form clause proper is `hash_form` + the correspondence) -/
theorem tag_form (ty : String) (c d : Bool) :
    tag ty c d = [if ty = "DNA" then 'D' else if ty = "RNA" then 'R' else 'P',
                  if c then 'C' else 'L', if d then 'D' else 'S'] := rfl

/-- on accepted input the value is `v1_`, the tag, `_`, and the hex digest of the bytes of the
upper-cased canonical representative (least rotation and/or lesser strand) -/
theorem hash_form (blake : List UInt8 → List UInt8) (s : Str) (ty : String) (c d : Bool)
    (h : Accepted ty d (norm ty s)) :
    hashSpec blake s ty c d =
      .ok ("v1_".toList ++ tag ty c d ++ ['_'] ++ hex (blake (bytes (canonSpec (norm ty s) c d)))) :=
  hashSpec_ok blake s ty c d h

/-- the canonical representative spelled out (definitional unfolding, recorded for reference) -/
theorem canon_form (t : Str) :
    canonSpec t false false = t ∧ canonSpec t true false = leastRotation t ∧
    canonSpec t false true = lexMin t (revComp t) ∧
    canonSpec t true true = lexMin (leastRotation t) (leastRotation (revComp t)) := ⟨rfl, rfl, rfl, rfl⟩

/-- a value is returned exactly on accepted input, and the model never panics -/
theorem hash_ok_iff (blake : List UInt8 → List UInt8) (s : Str) (ty : String) (c d : Bool) :
    (∃ h, hashSpec blake s ty c d = .ok h) ↔ Accepted ty d (norm ty s) := by
  constructor
  · rintro ⟨h, e⟩; exact (hashSpec_ok_iff.1 e).1
  · intro h; exact ⟨_, hashSpec_ok blake s ty c d h⟩

/-- with a 32-byte digest (BLAKE3-256) the value is 71 letters: 7 of prefix and tag, then 64
lower-case hex digits -/
theorem hex_len (blake : List UInt8 → List UInt8) (hlen : ∀ x, (blake x).length = 32)
    {s : Str} {ty : String} {c d : Bool} {h : Str} (e : hashSpec blake s ty c d = .ok h) :
    h.length = 71 ∧ h.take 7 = "v1_".toList ++ tag ty c d ++ ['_'] ∧
      (h.drop 7).length = 64 ∧ ∀ x ∈ h.drop 7, x ∈ "0123456789abcdef".toList := by
  obtain ⟨_, rfl⟩ := hashSpec_ok_iff.1 e
  have ht := v1_take blake ty c d (canonSpec (norm ty s) c d)
  refine ⟨by rw [v1_length, hlen], ht.1, ?_, ?_⟩
  · rw [ht.2, Seqhash.hex_length, hlen]
  · rw [ht.2]; exact hex_digits _

/-- the hypothesis of `hex_len` holds of the digest the correspondence check instantiates the model
with (the Lean BLAKE3-256 of Base/Blake3): it always returns 32 bytes -/
theorem hex_len_blake3 {s : Str} {ty : String} {c d : Bool} {h : Str}
    (e : hashSpec Blake3.sum256 s ty c d = .ok h) :
    h.length = 71 ∧ (h.drop 7).length = 64 ∧ ∀ x ∈ h.drop 7, x ∈ "0123456789abcdef".toList := by
  have := hex_len Blake3.sum256 Blake3.sum256_length e
  exact ⟨this.1, this.2.2.1, this.2.2.2⟩

/-! ### rejections (for every rotation function, so also for the Booth-loop model `hash`) -/

/-- unknown molecule types are rejected with an error -/
theorem reject_type (rot : Str → Option Str) (blake : List UInt8 → List UInt8) (s : Str) (ty : String) (c d : Bool)
    (h : ty ≠ "DNA" ∧ ty ≠ "RNA" ∧ ty ≠ "PROTEIN") : hashWith rot blake s ty c d = .err := by
  apply hashWith_err
  intro hacc
  rcases hacc.type with e | e | e
  · exact h.1 e
  · exact h.2.1 e
  · exact h.2.2 e

/-- a letter outside the type's alphabet (after upper-casing, and `U → T` under RNA) is rejected
with an error -/
theorem reject_letter (rot : Str → Option Str) (blake : List UInt8 → List UInt8) (s : Str) (ty : String) (c d : Bool)
    (x : Char) (hx : x ∈ norm ty s)
    (hbad : ((ty = "DNA" ∨ ty = "RNA") ∧ x ∉ nucleotideLetters) ∨ (ty = "PROTEIN" ∧ x ∉ proteinLetters)) :
    hashWith rot blake s ty c d = .err := by
  obtain ⟨h1, h2, h3⟩ := str_ne
  apply hashWith_err
  rintro (⟨hty, hl⟩ | ⟨hty, hl, _⟩)
  · rcases hbad with ⟨_, hn⟩ | ⟨hp, _⟩
    · exact hn (hl x hx)
    · subst hp; rcases hty with e | e
      · exact h2 e.symm
      · exact h3 e.symm
  · rcases hbad with ⟨hn, _⟩ | ⟨_, hn⟩
    · subst hty; rcases hn with e | e
      · exact h2 e.symm
      · exact h3 e.symm
    · exact hn (hl x hx)

/-- double-stranded proteins are rejected with an error -/
theorem reject_ds_protein (rot : Str → Option Str) (blake : List UInt8 → List UInt8) (s : Str) (c : Bool) :
    hashWith rot blake s "PROTEIN" c true = .err := by
  obtain ⟨h1, h2, h3⟩ := str_ne
  apply hashWith_err
  rintro (⟨e | e, _⟩ | ⟨_, _, e⟩)
  · exact h2 e.symm
  · exact h3 e.symm
  · exact absurd e (by simp)

/-- and those three are the only reasons for rejection -/
theorem err_iff (blake : List UInt8 → List UInt8) (s : Str) (ty : String) (c d : Bool) :
    hashSpec blake s ty c d = .err ↔ ¬ Accepted ty d (norm ty s) := by
  constructor
  · intro e ha
    rw [hashSpec_ok _ _ _ _ _ ha] at e
    cases e
  · exact hashSpec_err blake s ty c d

/-! ### the same for the model of the code itself

`Seqhash.hash` has the Booth loop as its rotation step; C12 (`Props/C12Booth.booth_least`) proves it
equal to the arg-min, so `hash = hashSpec` and nothing is left "modulo C12". -/

theorem hash_model_eq_spec : Seqhash.hash = Seqhash.hashSpec := Props.C12Booth.hash_eq_hashSpec

theorem model_hash_inj_partial {blake : List UInt8 → List UInt8} (hb : Function.Injective blake)
    {a b : Str} {ta tb : String} {ca da cb db : Bool} {h : Str}
    (hcl : da = true → (ta = "DNA" → 'U' ∉ upper a) ∧ (tb = "DNA" → 'U' ∉ upper b))
    (h₁ : Seqhash.hash blake a ta ca da = .ok h) (h₂ : Seqhash.hash blake b tb cb db = .ok h) :
    ta = tb ∧ ca = cb ∧ da = db ∧ SameMolecule (norm ta a) (norm tb b) ca da := by
  rw [hash_model_eq_spec] at h₁ h₂; exact hash_inj_partial hb hcl h₁ h₂

theorem model_hash_inj_general {blake : List UInt8 → List UInt8} (hb : Function.Injective blake)
    {a b : Str} {ta tb : String} {ca da cb db : Bool} {h : Str}
    (h₁ : Seqhash.hash blake a ta ca da = .ok h) (h₂ : Seqhash.hash blake b tb cb db = .ok h) :
    ta = tb ∧ ca = cb ∧ da = db ∧
      ∃ x ∈ strands da (norm ta a), ∃ y ∈ strands da (norm tb b), SameUpToRotation ca x y := by
  rw [hash_model_eq_spec] at h₁ h₂; exact hash_inj_general hb h₁ h₂

theorem model_hash_same_molecule_partial (blake : List UInt8 → List UInt8) {a b : Str} {ty : String} {c d : Bool}
    (ha : Accepted ty d (norm ty a)) (hb : Accepted ty d (norm ty b))
    (hcl : d = true → ty = "DNA" → 'U' ∉ upper a ∧ 'U' ∉ upper b)
    (hz : d = true → 'Z' ∉ upper a ∧ 'Z' ∉ upper b)
    (h : SameMolecule (norm ty a) (norm ty b) c d) :
    Seqhash.hash blake a ty c d = Seqhash.hash blake b ty c d := by
  rw [hash_model_eq_spec]; exact hash_same_molecule_partial blake ha hb hcl hz h

theorem model_hash_collision_class {blake : List UInt8 → List UInt8} (hb : Function.Injective blake)
    {a b : Str} {ta tb : String} {ca da cb db : Bool} {h : Str}
    (h₁ : Seqhash.hash blake a ta ca da = .ok h) (h₂ : Seqhash.hash blake b tb cb db = .ok h) :
    ta = tb ∧ ca = cb ∧ da = db ∧
      (SameMolecule (norm ta a) (norm tb b) ca da ∨
        (da = true ∧ ta = "DNA" ∧ ('U' ∈ norm ta a ∨ 'U' ∈ norm tb b) ∧
          SameUpToRotation ca (revComp (norm ta a)) (revComp (norm tb b)) ∧
          OtherStrandLesser ca (norm ta a) ∧ OtherStrandLesser ca (norm tb b))) := by
  rw [hash_model_eq_spec] at h₁ h₂; exact hash_collision_class hb h₁ h₂

theorem model_hash_collision_of_residue (blake : List UInt8 → List UInt8) {a b : Str} {ty : String} {c : Bool}
    (ha : Accepted ty true (norm ty a)) (hb : Accepted ty true (norm ty b))
    (hs : SameUpToRotation c (revComp (norm ty a)) (revComp (norm ty b)))
    (la : OtherStrandLesser c (norm ty a)) (lb : OtherStrandLesser c (norm ty b)) :
    Seqhash.hash blake a ty c true = Seqhash.hash blake b ty c true := by
  rw [hash_model_eq_spec]; exact hash_collision_of_residue blake ha hb hs la lb

theorem model_hash_form (blake : List UInt8 → List UInt8) (s : Str) (ty : String) (c d : Bool)
    (h : Accepted ty d (norm ty s)) :
    Seqhash.hash blake s ty c d =
      .ok ("v1_".toList ++ tag ty c d ++ ['_'] ++ hex (blake (bytes (canonSpec (norm ty s) c d)))) := by
  rw [hash_model_eq_spec]; exact hash_form blake s ty c d h

theorem model_hex_len (blake : List UInt8 → List UInt8) (hlen : ∀ x, (blake x).length = 32)
    {s : Str} {ty : String} {c d : Bool} {h : Str} (e : Seqhash.hash blake s ty c d = .ok h) :
    h.length = 71 ∧ h.take 7 = "v1_".toList ++ tag ty c d ++ ['_'] ∧
      (h.drop 7).length = 64 ∧ ∀ x ∈ h.drop 7, x ∈ "0123456789abcdef".toList := by
  rw [hash_model_eq_spec] at e; exact hex_len blake hlen e

/-- the model of the code never panics: it returns a value or the error -/
theorem model_hash_err_iff (blake : List UInt8 → List UInt8) (s : Str) (ty : String) (c d : Bool) :
    Seqhash.hash blake s ty c d = .err ↔ ¬ Accepted ty d (norm ty s) := by
  rw [hash_model_eq_spec]; exact err_iff blake s ty c d

/-! ### non-vacuity -/

/-- a toy digest that is injective: the identity -/
def toyDigest : List UInt8 → List UInt8 := id

theorem toyDigest_injective : Function.Injective toyDigest := fun _ _ h => h

/-- the premises of `hash_inj_partial` are satisfiable on a non-trivial pair: a plasmid and a rotation of
its reverse complement, declared circular double-stranded -/
example : ∃ h, hashSpec toyDigest "AACG".toList "DNA" true true = .ok h ∧
    hashSpec toyDigest "TTCG".toList "DNA" true true = .ok h :=
  ⟨_, hashSpec_ok toyDigest _ _ _ _ (by decide), by
    rw [hashSpec_ok toyDigest _ _ _ _ (by decide)]
    congr 2⟩

example : 'U' ∉ upper "AACG".toList ∧ 'U' ∉ upper "TTCG".toList := by decide
example : SameMolecule "AACG".toList "TTCG".toList true true :=
  Or.inr ⟨rfl, Or.inl ⟨2, by decide⟩⟩
/-- distinct molecules are separated: the conclusion of `hash_inj_partial` can fail, so the theorem has content -/
example : canonSpec "AACG".toList true true ≠ canonSpec "AACC".toList true true := by decide
/-- `Z` is inside `hash_inj_partial` (its complement, the zero rune, is shared with no other letter) -/
example : Accepted "DNA" true (norm "DNA" "AZ".toList) ∧ NoU (norm "DNA" "AZ".toList) := by decide
/-- under type RNA the spellings `U` and `T` are identified by `Hash` itself (first statements: upper-case,
`U → T`); the conclusions speak of the normalised sequence -/
theorem rna_reads_u_as_t (blake : List UInt8 → List UInt8) :
    hashSpec blake "ACGU".toList "RNA" false false = hashSpec blake "ACGT".toList "RNA" false false ∧
    norm "RNA" "ACGU".toList = norm "RNA" "ACGT".toList := by
  refine ⟨?_, by decide⟩
  rw [hashSpec_ok blake _ _ _ _ (by decide), hashSpec_ok blake _ _ _ _ (by decide)]
  congr 2
example : Accepted "PROTEIN" false (norm "PROTEIN" "mkv*".toList) := by decide
example : ¬ Accepted "DNA" false (norm "DNA" "ACGX".toList) := by decide
/-- a digest of constant length 32 exists (hypothesis of `hex_len`) -/
example : ∀ x : List UInt8, ((fun _ => List.replicate 32 (0 : UInt8)) x).length = 32 := fun _ => rfl

end PolyVerif.Props.C05
