import PolyVerif.Lemmas.DeBruijn
import PolyVerif.Lemmas.Barcodes
import PolyVerif.Props.C17Big
import PolyVerif.Props.C17Cert
import PolyVerif.Props.C17Cert10
import PolyVerif.Props.C17Cert11
import PolyVerif.Props.C11
/-
C17 — De Bruijn barcodes are unique, non-overlapping in n-mers and ban-free.

(1) `windowsDistinct_sound`: the executable checker `Spec.check` is sound for EVERY order n and every
    string: if it answers `true` the string has length 4ⁿ+n−1 and every n-letter word over A,T,G,C
    occurs exactly once among its windows (at exactly one position).
(2) the generated sequence, the property's orders 1..11:
    n = 1..8  `db_ok_n`: the MODEL of NucleobaseDeBruijnSequence passes the checker — kernel evaluation
              (n = 1..6 here, n = 7, 8 in Props/C17Big);
    n = 9..11 `generated9_isDeBruijn`, `generated10_isDeBruijn`, `generated11_isDeBruijn` (Props/C17Cert,
              C17Cert10, C17Cert11*): the string the RUNNING CODE returns, extracted on every run together
              with a certificate (window value ↦ position), passes a certificate checker in the kernel;
              `segments_isDeBruijn` (soundness of that checker, every order).
    No `native_decide` anywhere: every theorem of C17 is checked by the kernel alone.

    NOT claimed: the statement for all n,
        ∀ n ≥ 1, ∃ s, deBruijn n = .ok s ∧ IsDeBruijn n s
    (the Fredricksen–Kessler–Maiorana theorem: concatenating, in lexicographic order, the Lyndon
    words whose length divides n gives a de Bruijn sequence).  It is not needed for the property,
    whose quantifier is n = 1..11, and is not proved here.
(3) the barcode laws, for EVERY order n ≥ 1, every requested length ≥ n, every list of bans, every
    list of arbitrary filter functions and ANY string `db` (for `barcodes_no_shared_nmer`: any `db`
    that passes the checker): the call returns (no panic, both loops terminate); every barcode is
    a piece of `db` of exactly the requested length; no n-letter word occurs in two barcodes (so
    the barcodes are pairwise different); no barcode contains a ban or the reverse complement of
    one (also for the independent code-set reverse complement: `barcodes_ban_free_spec`, through Props/C11
    `rc_spec`); every filter accepts every barcode.
-/
namespace PolyVerif.Props.C17
open PolyVerif PolyVerif.DeBruijn PolyVerif.Spec PolyVerif.Transform

/-! ### (1) the checker is sound, for every order -/

/-- every pass count `k` of the checker is sound -/
theorem checkWith_sound (k n : Nat) (s : Str) (h : checkWith k n s = true) : IsDeBruijn n s := by
  obtain ⟨_, hlen, hs, hnd⟩ := checkWith_facts k n s h
  refine ⟨hlen, ?_⟩
  intro w hw hwa
  have hp := windows_perm_words hlen hs hnd
  have hmem : w ∈ windows n s := hp.mem_iff.mpr (mem_words.mpr ⟨hw, hwa⟩)
  exact List.count_eq_one_of_mem hnd hmem

/-- `check n s = true → |s| = 4ⁿ+n−1 ∧ every n-letter word over ATGC occurs exactly once as a window of s` -/
theorem windowsDistinct_sound (n : Nat) (s : Str) (h : check n s = true) :
    s.length = 4 ^ n + n - 1 ∧
      ∀ w : Str, w.length = n → (∀ c ∈ w, c ∈ dbAlphabet) → (windows n s).count w = 1 :=
  checkWith_sound 0 n s h

/-- the same, by position: every word starts at exactly one position of `s` -/
theorem check_unique_position (k n : Nat) (s : Str) (h : checkWith k n s = true)
    (w : Str) (hw : w.length = n) (hwa : ∀ c ∈ w, c ∈ dbAlphabet) :
    ∃! i, i + n ≤ s.length ∧ (s.drop i).take n = w := by
  obtain ⟨_, hlen, hs, hnd⟩ := checkWith_facts k n s h
  have hp := windows_perm_words hlen hs hnd
  have hmem : w ∈ windows n s := hp.mem_iff.mpr (mem_words.mpr ⟨hw, hwa⟩)
  obtain ⟨i, hi, hiw⟩ := mem_windows.mp hmem
  refine ⟨i, ⟨hi, hiw⟩, ?_⟩
  rintro j ⟨hj, hjw⟩
  have hli : i < (windows n s).length := by rw [length_windows]; omega
  have hlj : j < (windows n s).length := by rw [length_windows]; omega
  have e : (windows n s)[j] = (windows n s)[i] := by rw [getElem_windows, getElem_windows, hjw, hiw]
  exact (List.Nodup.getElem_inj_iff hnd).mp e

/-- a string that passes the checker consists of A,T,G,C and its windows are pairwise different -/
theorem check_letters_and_distinct (k n : Nat) (s : Str) (h : checkWith k n s = true) :
    (∀ c ∈ s, c ∈ dbAlphabet) ∧ (windows n s).Nodup :=
  ⟨(checkWith_facts k n s h).2.2.1, (checkWith_facts k n s h).2.2.2⟩

example : check 2 "AATAGACTTGTCGGCCA".toList = true := by decide
example : check 2 "AATAGACTTGTCGGCCT".toList = false := by decide     -- CT twice, CA missing
example : check 2 "AATAGACTTGTCGGCC".toList = false := by decide      -- too short
example : check 1 "ATGN".toList = false := by decide                  -- a letter outside the alphabet

/-! ### (2) the generated sequence, orders 1..8 (kernel evaluation of the model) -/

theorem db_ok_1 : checkOptWith 0 1 (deBruijn 1).toOption = true := by decide +kernel
theorem db_ok_2 : checkOptWith 0 2 (deBruijn 2).toOption = true := by decide +kernel
theorem db_ok_3 : checkOptWith 0 3 (deBruijn 3).toOption = true := by decide +kernel
theorem db_ok_4 : checkOptWith 0 4 (deBruijn 4).toOption = true := by decide +kernel
set_option maxRecDepth 1000000 in
theorem db_ok_5 : checkOptWith 0 5 (deBruijn 5).toOption = true := by decide +kernel
set_option maxRecDepth 1000000 in
theorem db_ok_6 : checkOptWith 0 6 (deBruijn 6).toOption = true := by decide +kernel

/-- reading a `db_ok` fact: the call returned a string and the string passes the checker -/
theorem of_checkOpt {k n : Nat} (h : checkOptWith k n (deBruijn n).toOption = true) :
    ∃ s, deBruijn n = .ok s ∧ checkWith k n s = true := by
  cases hd : deBruijn n with
  | ok s => rw [hd] at h; exact ⟨s, rfl, h⟩
  | panic => rw [hd] at h; simp [Res.toOption, checkOptWith] at h
  | fuel => rw [hd] at h; simp [Res.toOption, checkOptWith] at h

/-- orders 1..8: the model of `NucleobaseDeBruijnSequence(n)` returns a string that passes the checker -/
theorem deBruijn_checks_le8 (n : Nat) (h1 : 1 ≤ n) (h8 : n ≤ 8) :
    ∃ s, deBruijn n = .ok s ∧ check n s = true := by
  have : n = 1 ∨ n = 2 ∨ n = 3 ∨ n = 4 ∨ n = 5 ∨ n = 6 ∨ n = 7 ∨ n = 8 := by omega
  rcases this with rfl | rfl | rfl | rfl | rfl | rfl | rfl | rfl
  · exact of_checkOpt db_ok_1
  · exact of_checkOpt db_ok_2
  · exact of_checkOpt db_ok_3
  · exact of_checkOpt db_ok_4
  · exact of_checkOpt db_ok_5
  · exact of_checkOpt db_ok_6
  · exact of_checkOpt db_ok_7
  · exact of_checkOpt db_ok_8

/-- orders 1..8: the generated sequence has length 4ⁿ+n−1 and contains every n-letter word exactly once -/
theorem deBruijn_isDeBruijn_le8 (n : Nat) (h1 : 1 ≤ n) (h8 : n ≤ 8) :
    ∃ s, deBruijn n = .ok s ∧ IsDeBruijn n s := by
  obtain ⟨s, hs, hc⟩ := deBruijn_checks_le8 n h1 h8
  exact ⟨s, hs, checkWith_sound 0 n s hc⟩

/-- order 0 is outside the property: Go panics (`a[1:2]` of an empty array), and so does the model -/
theorem deBruijn_zero_panics : deBruijn 0 = .panic := by decide

/-! ### (3) the barcode laws: every order, every length ≥ order, every ban list, arbitrary filters -/

section Laws
variable {db : Str} {len n : Nat} {bans : List Str} {filters : List (Str → Bool)}

theorem stride_cast (hl : n ≤ len) : ((len : Int) - ((n : Int) - 1)) = ((len + 1 - n : Nat) : Int) := by
  omega

/-- the barcodes are the pieces `db[p : p+len]` at positions that are ≥ len−n+1 apart, all inside
`db`, none of them rejected (the invariant from which the laws follow) -/
theorem barcodes_positions (hl : n ≤ len) {bs : List Str}
    (h : barcodesOn db len n bans filters = .ok bs) :
    ∃ starts : List Nat, bs = starts.map (fun p => (db.drop p).take len) ∧
      (∀ p ∈ starts, p + len ≤ db.length ∧ rejected bans filters ((db.drop p).take len) = false) ∧
      starts.Pairwise (fun p q => p + (len + 1 - n) ≤ q) := by
  unfold barcodesOn at h
  rw [stride_cast hl] at h
  obtain ⟨starts, e, hall, hpw⟩ := outerLoop_spec (by omega) h
  exact ⟨starts, e, fun p hp => ⟨(hall p hp).2.1, (hall p hp).2.2⟩, hpw⟩

/-- termination, and no panic: for `n ≤ len` the loops return a list, whatever `db`, the bans and the filters -/
theorem barcodes_terminate (hl : n ≤ len) :
    ∃ bs, barcodesOn db len n bans filters = .ok bs := by
  unfold barcodesOn
  rw [stride_cast hl]
  exact outerLoop_total (by omega) (by omega) (by omega)

/-- each barcode is a contiguous piece of `db` -/
theorem barcodes_substrings (hl : n ≤ len) {bs : List Str}
    (h : barcodesOn db len n bans filters = .ok bs) : ∀ b ∈ bs, b <:+: db := by
  obtain ⟨starts, rfl, _, _⟩ := barcodes_positions hl h
  intro b hb
  obtain ⟨p, _, rfl⟩ := List.mem_map.mp hb
  exact (List.take_prefix _ _).isInfix.trans (List.drop_suffix _ _).isInfix

/-- … of exactly the requested length -/
theorem barcodes_len (hl : n ≤ len) {bs : List Str}
    (h : barcodesOn db len n bans filters = .ok bs) : ∀ b ∈ bs, b.length = len := by
  obtain ⟨starts, rfl, hall, _⟩ := barcodes_positions hl h
  intro b hb
  obtain ⟨p, hp, rfl⟩ := List.mem_map.mp hb
  have := (hall p hp).1
  simp only [List.length_take, List.length_drop]; omega

/-- no barcode contains a banned sequence or the reverse complement of one
(`contains` is Go's `strings.Contains`; `contains_iff_infix`: it is the contiguous-piece relation) -/
theorem barcodes_ban_free (hl : n ≤ len) {bs : List Str}
    (h : barcodesOn db len n bans filters = .ok bs) :
    ∀ b ∈ bs, ∀ ban ∈ bans, ¬ ban <:+: b ∧ ¬ revComp ban <:+: b := by
  obtain ⟨starts, rfl, hall, _⟩ := barcodes_positions hl h
  intro b hb ban hban
  obtain ⟨p, hp, rfl⟩ := List.mem_map.mp hb
  have hr := (hall p hp).2
  unfold rejected at hr
  simp only [Bool.or_eq_false_iff, List.any_eq_false, Bool.or_eq_true, not_or] at hr
  have := hr.1 ban hban
  simp only [contains_iff_infix] at this
  exact this

/-- the same law with the INDEPENDENT reverse complement (reverse the ban, replace every letter by the
code of the complementary base set — Spec/Nucleotide), for bans over the IUPAC codes: `barcodes_ban_free`
speaks of `Transform.revComp`, which reads the complement table regenerated from the code; Props/C11
`rc_spec` (re-decided on that table on every run) says the two agree, so a wrong table breaks this theorem -/
theorem barcodes_ban_free_spec (hl : n ≤ len) {bs : List Str}
    (h : barcodesOn db len n bans filters = .ok bs) (hb : ∀ ban ∈ bans, C11.Iupac ban) :
    ∀ b ∈ bs, ∀ ban ∈ bans, ¬ ban <:+: b ∧ ¬ (ban.reverse.map complCode) <:+: b := by
  intro b hbm ban hban
  have := barcodes_ban_free hl h b hbm ban hban
  rwa [C11.rc_spec (hb ban hban)] at this

/-- every filter accepts every barcode -/
theorem barcodes_filters (hl : n ≤ len) {bs : List Str}
    (h : barcodesOn db len n bans filters = .ok bs) : ∀ b ∈ bs, ∀ f ∈ filters, f b = true := by
  obtain ⟨starts, rfl, hall, _⟩ := barcodes_positions hl h
  intro b hb f hf
  obtain ⟨p, hp, rfl⟩ := List.mem_map.mp hb
  have hr := (hall p hp).2
  unfold rejected at hr
  simp only [Bool.or_eq_false_iff, List.any_eq_false, Bool.not_eq_true', Bool.not_eq_false] at hr
  simpa using hr.2 f hf

/-- no two barcodes share an n-letter word, for any `db` whose n-letter windows are pairwise different -/
theorem barcodes_no_shared_nmer_of_distinct (hd : (windows n db).Nodup) (hl : n ≤ len) {bs : List Str}
    (h : barcodesOn db len n bans filters = .ok bs) :
    bs.Pairwise (fun b1 b2 => ∀ w : Str, w.length = n → ¬ (w <:+: b1 ∧ w <:+: b2)) := by
  obtain ⟨starts, rfl, hall, hpw⟩ := barcodes_positions hl h
  rw [List.pairwise_map]
  refine (hpw.imp_of_mem ?_)
  intro p1 p2 hp1 hp2 hlt w hw ⟨hw1, hw2⟩
  obtain ⟨q1, ha1, hb1, e1⟩ := infix_piece (hall p1 hp1).1 hw hw1
  obtain ⟨q2, ha2, hb2, e2⟩ := infix_piece (hall p2 hp2).1 hw hw2
  have hq1 : q1 < (windows n db).length := by rw [length_windows]; have := (hall p1 hp1).1; omega
  have hq2 : q2 < (windows n db).length := by rw [length_windows]; have := (hall p2 hp2).1; omega
  have e : (windows n db)[q1] = (windows n db)[q2] := by rw [getElem_windows, getElem_windows, ← e1, ← e2]
  have := (List.Nodup.getElem_inj_iff hd).mp e
  omega

/-- no two barcodes share an n-letter word, for any `db` that passes the checker -/
theorem barcodes_no_shared_nmer {k : Nat} (hc : checkWith k n db = true) (hl : n ≤ len) {bs : List Str}
    (h : barcodesOn db len n bans filters = .ok bs) :
    bs.Pairwise (fun b1 b2 => ∀ w : Str, w.length = n → ¬ (w <:+: b1 ∧ w <:+: b2)) :=
  barcodes_no_shared_nmer_of_distinct (checkWith_facts k n db hc).2.2.2 hl h

/-- consequently the barcodes are pairwise different -/
theorem barcodes_unique {k : Nat} (hc : checkWith k n db = true) (hl : n ≤ len) {bs : List Str}
    (h : barcodesOn db len n bans filters = .ok bs) : bs.Nodup := by
  have h1 := (checkWith_facts k n db hc).1
  have hlen := barcodes_len hl h
  refine ((barcodes_no_shared_nmer hc hl h).imp_of_mem ?_)
  intro b1 b2 hb1 _ hno e
  subst e
  have hw : (b1.take n).length = n := by rw [List.length_take, hlen b1 hb1]; omega
  exact hno _ hw ⟨(List.take_prefix _ _).isInfix, (List.take_prefix _ _).isInfix⟩

end Laws

/-- all laws for the function itself, whenever the generated sequence of that order passes the checker -/
theorem createBarcodes_laws {k n len : Nat} {db : Str} (bans : List Str) (filters : List (Str → Bool))
    (hdb : deBruijn n = .ok db) (hc : checkWith k n db = true) (hl : n ≤ len) :
    ∃ bs, createBarcodesWith len n bans filters = .ok bs ∧
      (∀ b ∈ bs, b <:+: db ∧ b.length = len) ∧
      bs.Pairwise (fun b1 b2 => ∀ w : Str, w.length = n → ¬ (w <:+: b1 ∧ w <:+: b2)) ∧
      bs.Nodup ∧
      (∀ b ∈ bs, ∀ ban ∈ bans, ¬ ban <:+: b ∧ ¬ revComp ban <:+: b) ∧
      (∀ b ∈ bs, ∀ f ∈ filters, f b = true) := by
  have h1 := (checkWith_facts k n db hc).1
  obtain ⟨bs, hbs⟩ := @barcodes_terminate db len n bans filters hl
  refine ⟨bs, by simp [createBarcodesWith, hdb, Res.bind, hbs], ?_, barcodes_no_shared_nmer hc hl hbs,
    barcodes_unique hc hl hbs, barcodes_ban_free hl hbs, barcodes_filters hl hbs⟩
  exact fun b hb => ⟨barcodes_substrings hl hbs b hb, barcodes_len hl hbs b hb⟩

/-- orders 1..8 (kernel-evaluated sequence): every call with `length ≥ n` returns barcodes obeying all laws -/
theorem createBarcodes_laws_le8 (n len : Nat) (h1 : 1 ≤ n) (h8 : n ≤ 8) (hl : n ≤ len)
    (bans : List Str) (filters : List (Str → Bool)) :
    ∃ db bs, deBruijn n = .ok db ∧ IsDeBruijn n db ∧ createBarcodesWith len n bans filters = .ok bs ∧
      (∀ b ∈ bs, b <:+: db ∧ b.length = len) ∧
      bs.Pairwise (fun b1 b2 => ∀ w : Str, w.length = n → ¬ (w <:+: b1 ∧ w <:+: b2)) ∧
      bs.Nodup ∧
      (∀ b ∈ bs, ∀ ban ∈ bans, ¬ ban <:+: b ∧ ¬ revComp ban <:+: b) ∧
      (∀ b ∈ bs, ∀ f ∈ filters, f b = true) := by
  obtain ⟨db, hdb, hc⟩ := deBruijn_checks_le8 n h1 h8
  obtain ⟨bs, hbs⟩ := createBarcodes_laws bans filters hdb hc hl
  exact ⟨db, bs, hdb, checkWith_sound 0 n db hc, hbs⟩

/-- the executable twin the correspondence driver runs (it keeps the suffix of `db` it has reached
instead of walking `db` from its head for every slot) returns the model's value on every input -/
theorem barcodesOnFast_eq (db : Str) (len n : Nat) (bans : List Str) (filters : List (Str → Bool)) :
    barcodesOnFast db len n bans filters = barcodesOn db len n bans filters :=
  outerLoopFast_eq db len _ bans filters _ 0 db 0 rfl

/-! ### orders 9, 10, 11: the sequence the running code returns (extracted table, kernel-checked certificate) -/

/-- orders 9..11 of the property's first sentence, for the strings `NucleobaseDeBruijnSequence(9)`, `(10)`, `(11)`
return (Props/C17Cert*: `decide +kernel` on certificates regenerated from the code on every run) -/
theorem generated_isDeBruijn_9_11 : IsDeBruijn 9 generated9 ∧ IsDeBruijn 10 generated10 ∧ IsDeBruijn 11 generated11 :=
  ⟨generated9_isDeBruijn.1, generated10_isDeBruijn.1, generated11_isDeBruijn.1⟩

/-- the barcode laws that need distinct windows, on those two strings (the other laws hold for any string) -/
theorem barcodes_no_shared_nmer_generated {len : Nat} {bans : List Str} {filters : List (Str → Bool)} {bs : List Str} :
    (9 ≤ len → barcodesOn generated9 len 9 bans filters = .ok bs →
      bs.Pairwise (fun b1 b2 => ∀ w : Str, w.length = 9 → ¬ (w <:+: b1 ∧ w <:+: b2))) ∧
    (10 ≤ len → barcodesOn generated10 len 10 bans filters = .ok bs →
      bs.Pairwise (fun b1 b2 => ∀ w : Str, w.length = 10 → ¬ (w <:+: b1 ∧ w <:+: b2))) ∧
    (11 ≤ len → barcodesOn generated11 len 11 bans filters = .ok bs →
      bs.Pairwise (fun b1 b2 => ∀ w : Str, w.length = 11 → ¬ (w <:+: b1 ∧ w <:+: b2))) :=
  ⟨fun hl h => barcodes_no_shared_nmer_of_distinct generated9_isDeBruijn.2 hl h,
   fun hl h => barcodes_no_shared_nmer_of_distinct generated10_isDeBruijn.2 hl h,
   fun hl h => barcodes_no_shared_nmer_of_distinct generated11_isDeBruijn.2 hl h⟩

/-- `CreateBarcodes` is the call with no bans and no filters -/
theorem createBarcodes_eq (len n : Nat) : createBarcodes len n = createBarcodesWith len n [] [] := rfl

/-! ### non-vacuity: concrete calls (the second is the case the unrepaired code got wrong:
shifting past `GG` to avoid the reverse complement of `CC` re-admitted `CC`) -/

example : createBarcodes 5 2 = .ok ["AATAG".toList, "GACTT".toList, "TGTCG".toList] := by decide
example : createBarcodesWith 3 2 ["CC".toList] [] =
    .ok ["AAT".toList, "TAG".toList, "GAC".toList, "CTT".toList, "TGT".toList, "TCG".toList] := by decide
example : createBarcodesWith 3 2 ["TA".toList] [fun s => s.head? ≠ some 'A'] =
    .ok ["GAC".toList, "TCG".toList, "GGC".toList] := by decide
/-- outside the domain (`length < n`) the Go code panics or does not terminate; the model says so -/
example : createBarcodesWith 1 3 [] [] = .panic := by decide

end PolyVerif.Props.C17
