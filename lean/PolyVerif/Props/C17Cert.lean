import PolyVerif.Lemmas.DeBruijnCert
import PolyVerif.Gen.DeBruijnCert9
/-
C17, order 9 — kernel-checked, no `native_decide`.

`Gen/DeBruijnCert9.lean` is regenerated on every run from the string that
`primers.NucleobaseDeBruijnSequence(9)` of the RUNNING code returns: the sequence itself (packed) and
a certificate for "all 9-letter windows differ" (for each window value, the position where it starts).
The kernel walks the sequence once, in segments of 65536 symbols (`cert9_seg*`, `decide +kernel`), and
`Lemmas/DeBruijnCert.segments_isDeBruijn` — proved once, for every order — turns that into
`IsDeBruijn 9 generated9`.  A change of the generated sequence in /repo changes the table and breaks
these theorems unless the new sequence is again a de Bruijn sequence.

What is proved here is about the code's actual output (`generated9` = the text the extracted table
stands for; the correspondence driver compares it on every run with the reply of the real function and
with the model's `deBruijn 9`).  Order 10: Props/C17Cert10.lean; order 11: Props/C17Cert11*.lean.
-/
namespace PolyVerif.Props.C17
open PolyVerif PolyVerif.Spec PolyVerif.Gen

set_option maxRecDepth 1000000 in
theorem cert9_seg0 : segCheck DB9.lk 262144 8 128 DB9.segs DB9.states 0 = true := by decide +kernel
set_option maxRecDepth 1000000 in
theorem cert9_seg1 : segCheck DB9.lk 262144 8 128 DB9.segs DB9.states 1 = true := by decide +kernel
set_option maxRecDepth 1000000 in
theorem cert9_seg2 : segCheck DB9.lk 262144 8 128 DB9.segs DB9.states 2 = true := by decide +kernel
set_option maxRecDepth 1000000 in
theorem cert9_seg3 : segCheck DB9.lk 262144 8 128 DB9.segs DB9.states 3 = true := by decide +kernel
set_option maxRecDepth 1000000 in
theorem cert9_seg4 : segCheck DB9.lk 262144 8 128 DB9.segs DB9.states 4 = true := by decide +kernel

/-- the text returned by `NucleobaseDeBruijnSequence(9)`, as extracted -/
def generated9 : Str := seqStr DB9.chunkSymbols DB9.segs.flatten DB9.seqLength

/-- order 9: the generated sequence has length 4⁹+8 and contains every 9-letter word exactly once
(and, what the barcode laws use, its 9-letter windows are pairwise different) -/
theorem generated9_isDeBruijn : IsDeBruijn 9 generated9 ∧ (windows 9 generated9).Nodup := by
  have h := segments_isDeBruijn 9 (by omega) DB9.lk 128 DB9.segs DB9.states (by decide)
    (by
      intro j hj
      have : j = 0 ∨ j = 1 ∨ j = 2 ∨ j = 3 ∨ j = 4 := by
        have : DB9.segs.length = 5 := by decide
        omega
      rcases this with rfl | rfl | rfl | rfl | rfl
      · exact cert9_seg0
      · exact cert9_seg1
      · exact cert9_seg2
      · exact cert9_seg3
      · exact cert9_seg4)
    (by decide) (by decide)
  exact h

end PolyVerif.Props.C17
