import PolyVerif.Lemmas.Fasta
import PolyVerif.Lemmas.Chan
/-
C13 — FASTA records survive write/read, re-wrapping and streaming unchanged.

Model: Model/Fasta.lean (scanner, parser loop, Build, the ParseConcurrent producer on a channel).
Spec:  Spec/FastaLayout.lean (every layout the property says must not matter).
Channels: Base/Chan.lean, general theorems in Lemmas/Chan.lean.

`producer_refines` (Fasta.loopOps_eq) relates TWO TRANSCRIPTIONS of the same Go switch: `loopOps` (the
goroutine's loop as the channel operations it performs) and `parseLines` (the records, used by `parse`).  It
makes `producer` independent of `parse`, so the stream_* theorems are about the loop; it is not evidence that
either transcription is the Go code — a transcription error would be copied into both.  The tie of `loopOps`
to the real goroutine is the stream correspondence (every stream case compares the received sequence and the
close with a run of this model), the tie of `parseLines` to Parse the layout / raw correspondence.

`m` is the scanner's token limit (the code passes math.MaxInt32 = `maxInt32`); the only size
restriction anywhere is `LinesFit m text`: every line of the text is shorter than `m - 1`.
There is no bound on the number of records, the sequence lengths, the wrap widths, the channel
capacity, or the schedule.
-/
namespace PolyVerif.Props.C13
open PolyVerif PolyVerif.Fasta PolyVerif.Spec.FastaSpec PolyVerif.Chan

/-! ### write, then parse -/

/-- Writing a list of named sequences with `Build` and parsing the text returns the same names and
sequences in the same order, for sequences of any length (including empty ones). -/
theorem parse_build (m : Nat) (rs : List Rec) (h : WFRecs rs) (hfit : LinesFit m (build rs)) :
    parse m (build rs) = rs := by
  have hl : ∀ r ∈ rs, ∀ c ∈ r.seq, letter c = true := fun r hr => (h.2 r hr).2
  rw [build_eq_render] at hfit ⊢
  rw [parse_render m (buildLines rs) true (buildBlocks rs) (buildLines_clean rs h.2) (buildLines_texts rs)
    (buildBlocks_ok rs hl) (by simpa [buildBlocks] using h.1) hfit, buildBlocks_toRec rs hl]

/-- `LinesFit` for `Build`'s output in terms of the records: names and sequences shorter than the limit -/
theorem linesFit_build (m : Nat) (rs : List Rec) (h : WFRecs rs)
    (hlen : ∀ r ∈ rs, r.name.length + 2 < m ∧ r.seq.length + 1 < m) : LinesFit m (build rs) := by
  intro l hl
  rw [build_eq_render, rawLines_render _ _ (fun x hx => (buildLines_clean rs h.2 x hx).1)] at hl
  have hraws : ∀ (ls : List Line), rawsOf ls true = ls.map rawOf := by
    intro ls; induction ls with
    | nil => rfl
    | cons x ls ih => simp [rawsOf, ih]
  rw [hraws] at hl
  simp only [buildLines, List.mem_map, List.mem_flatMap, List.mem_cons, List.not_mem_nil, or_false] at hl
  obtain ⟨x, ⟨r, hr, rfl | rfl⟩, rfl⟩ := hl
  · have := (hlen r hr).1; simp [rawOf]; omega
  · have := (hlen r hr).2; simp [rawOf]; omega

/-- the code as it is (limit 2^31 - 1): any record list whose names and sequences are shorter than 2 GiB -/
theorem parse_build_now (rs : List Rec) (h : WFRecs rs)
    (hlen : ∀ r ∈ rs, r.name.length + 2 < maxInt32 ∧ r.seq.length + 1 < maxInt32) :
    parseNow (build rs) = rs :=
  parse_build maxInt32 rs h (linesFit_build maxInt32 rs h hlen)

/-- why the property's lists have length ≥ 1: the final flush always sends one record, so the empty
text — which is what `Build` writes for the empty list — parses to one record with empty name and sequence -/
theorem parse_empty (m : Nat) : build [] = [] ∧ parse m [] = [⟨[], []⟩] := ⟨rfl, rfl⟩

/-! ### layout independence -/

/-- The parse result does not depend on how sequence lines are wrapped (any line lengths ≥ 1), on blank
lines — empty ones and lines of blanks and tabs (skipped since fix 2e08c5c) —, on `;` comment lines, on
CRLF line ends, or on a missing final newline. -/
theorem parse_layout (m : Nat) (rs : List Rec) (ℓ : FastaLayout) (h : WFRecs rs) (hℓ : WFLayout ℓ)
    (hfit : LinesFit m (layoutFasta rs ℓ)) : parse m (layoutFasta rs ℓ) = rs := by
  have hl : ∀ r ∈ rs, ∀ c ∈ r.seq, letter c = true := fun r hr => (h.2 r hr).2
  unfold layoutFasta at hfit ⊢
  rw [parse_render m _ _ (blocksOf rs ℓ.recs) (allLines_clean rs ℓ.recs h.2 hℓ) (allLines_texts rs ℓ.recs)
    (blocksOf_ok rs ℓ.recs hℓ hl) (blocksOf_ne_nil ℓ.recs h.1) hfit, blocksOf_toRec rs ℓ.recs hℓ hl]

/-- any two layouts of the same records, and `Build`'s own output, parse alike -/
theorem parse_layout_invariant (m : Nat) (rs : List Rec) (ℓ ℓ' : FastaLayout) (h : WFRecs rs)
    (hℓ : WFLayout ℓ) (hℓ' : WFLayout ℓ') (hfit : LinesFit m (layoutFasta rs ℓ))
    (hfit' : LinesFit m (layoutFasta rs ℓ')) (hfitb : LinesFit m (build rs)) :
    parse m (layoutFasta rs ℓ) = parse m (layoutFasta rs ℓ') ∧ parse m (layoutFasta rs ℓ) = parse m (build rs) := by
  rw [parse_layout m rs ℓ h hℓ hfit, parse_layout m rs ℓ' h hℓ' hfit', parse_build m rs h hfitb]
  exact ⟨rfl, rfl⟩

/-- `LinesFit` follows from the lengths of the lines that are written -/
theorem linesFit_render (m : Nat) (ls : List Line) (f : Bool) (hnl : ∀ x ∈ ls, '\n' ∉ x.1)
    (hlen : ∀ x ∈ ls, x.1.length + 2 < m) : LinesFit m (renderLines ls f) := by
  intro l hl
  rw [rawLines_render ls f hnl] at hl
  induction ls with
  | nil => simp [rawsOf] at hl
  | cons x ls ih =>
    have hx := hlen x (by simp)
    unfold rawsOf at hl
    split at hl
    · split at hl
      · simp at hl
      · simp only [List.mem_singleton] at hl; subst hl; omega
    · simp only [List.mem_cons] at hl
      rcases hl with rfl | hl
      · unfold rawOf; cases x.2 <;> simp <;> omega
      · exact ih (fun y hy => hnl y (by simp [hy])) (fun y hy => hlen y (by simp [hy])) hl

/-! ### streaming: ParseConcurrent on a channel of capacity `c`, all schedules -/

/-- the goroutine's loop sends exactly the parsed records, in order, then closes once -/
theorem producer_refines (m : Nat) (text : Str) :
    producer m text = (parse m text).map (Chan.Op.send 0) ++ [Chan.Op.close 0] := producer_eq m text

theorem producer_wf (m : Nat) (text : Str) : WFProg [0] (producer m text) := by
  rw [producer_eq]; exact wfProg_sendAll _

theorem producer_sends (m : Nat) (text : Str) : sends 0 (producer m text) = parse m text := by
  rw [producer_eq]; exact sends_sendAll 0 _

/-- SAFETY, for every capacity, EVERY consumer and every schedule: what has been received is a prefix
of the parsed records (same records, same order, none lost or duplicated so far); the producer never
panics (so it never sends on, or closes, a closed channel); the channel has been closed at most once;
and once it is closed nothing remains to be sent. -/
theorem stream_prefix (m c : Nat) (text : Str) (C : Consumer Rec) (s : Sys Rec)
    (hr : Reach C (system m c text) s) :
    recvd 0 s.hist <+: parse m text ∧ s.panicked = false ∧ (s.chans 0).closes ≤ 1 ∧
      ((s.chans 0).closed = true → s.prog = []) := by
  have hi := inv_reach (caps := fun _ => c) (producer_wf m text) hr
  refine ⟨producer_sends m text ▸ recvd_prefix hi 0, hi.noPanic, ?_, prog_nil_of_closed hi⟩
  have := hi.closesOk 0
  split at this <;> omega

/-- TERMINATION, for every capacity and every schedule of a `for range` consumer: no run is infinite;
a run of `n` steps satisfies `n ≤ 3·(k+1) + 2` where `k` is the number of records. -/
theorem stream_terminates (m c : Nat) (text : Str) :
    (¬ ∃ f : Nat → Sys Rec, f 0 = system m c text ∧ ∀ n, Step ranging (f n) (f (n + 1))) ∧
    (∀ n s, ReachN ranging n (system m c text) s → n ≤ 3 * ((parse m text).length + 1) + 2) := by
  have h2 : TwoChan (ranging : Consumer Rec) := concurrent_two (by simp)
  have ho := wfProg_only2 (producer_wf m text) (fun _ => c)
  refine ⟨no_infinite_path (concurrent_stops _) h2 _ ho, fun n s hn => ?_⟩
  have := (reachN_measure (concurrent_stops _) h2 ho hn).2
  have hm : Chan.measure (init (fun _ => c) (producer m text)) = 3 * ((parse m text).length + 1) + 2 := by
    simp [Chan.measure, init, producer_eq, unseen]
  omega

/-- COMPLETENESS, for every capacity and every schedule of a `for range` consumer: a run that cannot be
extended has received exactly the parsed records in order, has then observed the channel closed, the
channel was closed exactly once, is empty, and the producer has finished without panic. -/
theorem stream_complete (m c : Nat) (text : Str) (s : Sys Rec)
    (hr : Reach ranging (system m c text) s) (hs : Stuck ranging s) :
    recvd 0 s.hist = parse m text ∧ seen s.hist 0 = true ∧ (s.chans 0).closed = true ∧
      (s.chans 0).closes = 1 ∧ (s.chans 0).buf = [] ∧ s.prog = [] ∧ s.panicked = false := by
  obtain ⟨hp, hnp, hch⟩ := stuck_concurrent (producer_wf m text) hr hs
  obtain ⟨hcl, hone, hb, hseen, hrec⟩ := hch 0 (by simp)
  exact ⟨producer_sends m text ▸ hrec, hseen, hcl, hone, hb, hp, hnp⟩

/-- The property's streaming clause: for records and layouts of the domain, whatever the channel
capacity and the schedule, the consumer receives a prefix of `rs` at every moment, and when the run
ends it has received exactly `rs`, in order, and the channel has been closed exactly once. -/
theorem stream_fifo (m c : Nat) (rs : List Rec) (ℓ : FastaLayout) (h : WFRecs rs) (hℓ : WFLayout ℓ)
    (hfit : LinesFit m (layoutFasta rs ℓ)) (s : Sys Rec)
    (hr : Reach ranging (system m c (layoutFasta rs ℓ)) s) :
    recvd 0 s.hist <+: rs ∧ s.panicked = false ∧
      (Stuck ranging s → recvd 0 s.hist = rs ∧ seen s.hist 0 = true ∧ (s.chans 0).closes = 1) := by
  have hp := stream_prefix m c _ ranging s hr
  rw [parse_layout m rs ℓ h hℓ hfit] at hp
  refine ⟨hp.1, hp.2.1, fun hs => ?_⟩
  have hc := stream_complete m c _ s hr hs
  rw [parse_layout m rs ℓ h hℓ hfit] at hc
  exact ⟨hc.1, hc.2.1, hc.2.2.2.1⟩

/-- `fasta.Parse` (collect from a 1000-slot channel until closed) returns the records ParseConcurrent
sends: the scheduler run used by the driver is a maximal `Step`-path, so `stream_complete` applies. -/
theorem parseCollect_eq (text : Str) : parseCollect text = parseNow text := by
  have h2 : TwoChan (ranging : Consumer Rec) := concurrent_two (by simp)
  have ho := wfProg_only2 (producer_wf maxInt32 text) (fun _ => 1000)
  exact (stream_complete maxInt32 1000 text _ (runFuel_reach _ _ _ _)
    (runFuel_stuck (concurrent_stops _) h2 true _ _ ho (fuelFor_ge_measure _))).1

/-! ### non-vacuity: concrete inputs meeting the hypotheses (tests on literals, not theorems) -/

def exRecs : List Rec := [⟨"seq 1 |x é世".toList, "ACGTNacgt".toList⟩, ⟨[], []⟩, ⟨">;".toList, "M".toList⟩]

def exLayout : FastaLayout :=
  { recs := [{ before := [.blank, .comment " c".toList], widths := [0, 2], width := 1, crlf := true,
               between := [.blank] },
             { after := [.comment [], .blank, .spaces " \t ".toList] }],
    finalNewline := false }

example : WFRecs exRecs := by decide
example : WFLayout exLayout := by decide
example : LinesFit 64 (layoutFasta exRecs exLayout) := by decide
example : layoutFasta exRecs exLayout =
    "\r\n; c\r\n>seq 1 |x é世\r\nA\r\n\r\nCGT\r\n\r\nNa\r\n\r\ncg\r\n\r\nt\r\n\r\n>\n;\n\n \t \n>>;\nM".toList := by decide
example : parse 64 (layoutFasta exRecs exLayout) = exRecs := by decide
example : parse 64 (build exRecs) = exRecs := by decide
-- regression for the fixed finding C13-whitespace-line (2e08c5c): a line of blanks between sequence lines is skipped
example : parse 64 ">a\nAC\n  \nGT\n".toList = [⟨"a".toList, "ACGT".toList⟩] := by decide
-- outside the domain the conclusion fails: a sequence "line" that starts with '>' is a header
example : parse 64 (build [⟨"a".toList, ">b".toList⟩]) ≠ [⟨"a".toList, ">b".toList⟩] := by decide
-- a line longer than the scanner's limit ends the parse silently (the defect fixed by 99317d2 had m = 65536)
example : parse 8 (build [⟨"a".toList, "ACGTACGTAC".toList⟩]) = [⟨"a".toList, []⟩] := by decide

end PolyVerif.Props.C13
