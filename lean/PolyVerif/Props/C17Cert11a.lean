import PolyVerif.Lemmas.DeBruijnCert
import PolyVerif.Gen.DeBruijnCert11
/-
C17, order 11, segments 0..21 of 65 (see Props/C17Cert.lean for the method).  Three modules so that lake
checks them in parallel; each kernel evaluation covers 65536 symbols.
-/
namespace PolyVerif.Props.C17
open PolyVerif PolyVerif.Spec PolyVerif.Gen

set_option maxRecDepth 1000000 in
theorem cert11_seg0 : segCheck DB11.lk 4194304 10 128 DB11.segs DB11.states 0 = true := by decide +kernel
set_option maxRecDepth 1000000 in
theorem cert11_seg1 : segCheck DB11.lk 4194304 10 128 DB11.segs DB11.states 1 = true := by decide +kernel
set_option maxRecDepth 1000000 in
theorem cert11_seg2 : segCheck DB11.lk 4194304 10 128 DB11.segs DB11.states 2 = true := by decide +kernel
set_option maxRecDepth 1000000 in
theorem cert11_seg3 : segCheck DB11.lk 4194304 10 128 DB11.segs DB11.states 3 = true := by decide +kernel
set_option maxRecDepth 1000000 in
theorem cert11_seg4 : segCheck DB11.lk 4194304 10 128 DB11.segs DB11.states 4 = true := by decide +kernel
set_option maxRecDepth 1000000 in
theorem cert11_seg5 : segCheck DB11.lk 4194304 10 128 DB11.segs DB11.states 5 = true := by decide +kernel
set_option maxRecDepth 1000000 in
theorem cert11_seg6 : segCheck DB11.lk 4194304 10 128 DB11.segs DB11.states 6 = true := by decide +kernel
set_option maxRecDepth 1000000 in
theorem cert11_seg7 : segCheck DB11.lk 4194304 10 128 DB11.segs DB11.states 7 = true := by decide +kernel
set_option maxRecDepth 1000000 in
theorem cert11_seg8 : segCheck DB11.lk 4194304 10 128 DB11.segs DB11.states 8 = true := by decide +kernel
set_option maxRecDepth 1000000 in
theorem cert11_seg9 : segCheck DB11.lk 4194304 10 128 DB11.segs DB11.states 9 = true := by decide +kernel
set_option maxRecDepth 1000000 in
theorem cert11_seg10 : segCheck DB11.lk 4194304 10 128 DB11.segs DB11.states 10 = true := by decide +kernel
set_option maxRecDepth 1000000 in
theorem cert11_seg11 : segCheck DB11.lk 4194304 10 128 DB11.segs DB11.states 11 = true := by decide +kernel
set_option maxRecDepth 1000000 in
theorem cert11_seg12 : segCheck DB11.lk 4194304 10 128 DB11.segs DB11.states 12 = true := by decide +kernel
set_option maxRecDepth 1000000 in
theorem cert11_seg13 : segCheck DB11.lk 4194304 10 128 DB11.segs DB11.states 13 = true := by decide +kernel
set_option maxRecDepth 1000000 in
theorem cert11_seg14 : segCheck DB11.lk 4194304 10 128 DB11.segs DB11.states 14 = true := by decide +kernel
set_option maxRecDepth 1000000 in
theorem cert11_seg15 : segCheck DB11.lk 4194304 10 128 DB11.segs DB11.states 15 = true := by decide +kernel
set_option maxRecDepth 1000000 in
theorem cert11_seg16 : segCheck DB11.lk 4194304 10 128 DB11.segs DB11.states 16 = true := by decide +kernel
set_option maxRecDepth 1000000 in
theorem cert11_seg17 : segCheck DB11.lk 4194304 10 128 DB11.segs DB11.states 17 = true := by decide +kernel
set_option maxRecDepth 1000000 in
theorem cert11_seg18 : segCheck DB11.lk 4194304 10 128 DB11.segs DB11.states 18 = true := by decide +kernel
set_option maxRecDepth 1000000 in
theorem cert11_seg19 : segCheck DB11.lk 4194304 10 128 DB11.segs DB11.states 19 = true := by decide +kernel
set_option maxRecDepth 1000000 in
theorem cert11_seg20 : segCheck DB11.lk 4194304 10 128 DB11.segs DB11.states 20 = true := by decide +kernel
set_option maxRecDepth 1000000 in
theorem cert11_seg21 : segCheck DB11.lk 4194304 10 128 DB11.segs DB11.states 21 = true := by decide +kernel

end PolyVerif.Props.C17
