import Mathlib.Tactic.Linarith
import Mathlib.Tactic.Ring
import Mathlib.Tactic.FieldSimp
import Mathlib.Tactic.Positivity
import Mathlib.Tactic.NormNum
import PolyVerif.Lemmas.CodonF64
import PolyVerif.Props.C18
/-
C18 — the clauses for the reading the code implements: float64.

Props/C18.lean proves the numeric clauses for EXACT arithmetic (`exactArith`).  The code computes in float64, and on
about 3 % of shares the float64 share differs from the exact floor (57/100 → 5699), after which a weight near a
cut-off can differ by thousands: there `compromise_weight` does not describe the real function.  This file closes
the gap at the level the kernel can reach:

* float64 semantics = `rne` (IEEE binary64 round to nearest, ties to even, over `Nat`; Model/CodonOps.lean),
  `shareF64`, `cutF64`, and the model instance `f64Arith`.  Lean's own `Float` is opaque to the kernel and is not
  used here.  That the real code computes exactly `compromise f64Arith` is NOT a theorem: it is checked bit for bit
  on every case of every run (Driver/C18.lean `corr`), as is Lean's `Float` instance.
* THE BRIDGE (`shareF64_bounds`, `cutF64_bounds`): the float64 share is the exact share or one less; the float64
  cut-off weight is within `10000·c·2⁻⁵³ + 1` of the real `10000·c`.
* the clauses for `f64Arith`: `compromise_weight_f64` (each weight is the mean of the two float64 shares, or zero when
  either is below the float64 cut-off weight), `compromise_zero_below_f64`, `compromise_mean_f64`,
  `compromise_symm_f64`, `compromise_never_rare_f64` (stated exactly: a codon that keeps a positive weight has, in
  both tables, a real usage share above `c·(1 − 2⁻⁵³) − 1/10000`).
Domain: as in Props/C18 plus `boundedShares` (every weight ≤ its amino acid's total ≤ 2^38; sequences of 10^5 letters
give totals below 2^17).
-/
namespace PolyVerif.Props.C18
open PolyVerif PolyVerif.Codon PolyVerif.CodonTables PolyVerif.Spec PolyVerif.Spec.ValueTables
open PolyVerif.Lemmas.CodonCombine PolyVerif.Lemmas.CodonF64

/-- THE BRIDGE for shares: what Go computes, `int(float64(w)/float64(total)*10000)` (two roundings, then
truncation), is the exact share `⌊10000·w/total⌋` or one less -/
theorem shareF64_bounds (w tot : Int) (hw : 0 ≤ w) (hwt : w ≤ tot) (ht : 0 < tot) (hb : tot ≤ 2 ^ 38) :
    shareFloor w tot - 1 ≤ shareF64 w tot ∧ shareF64 w tot ≤ shareFloor w tot := by
  by_cases hw0 : w = 0
  · subst hw0
    simp [shareF64, rne, shareFloor]
  have hP : w.toNat ≠ 0 := by omega
  have hQ : tot.toNat ≠ 0 := by omega
  have hPc : ((w.toNat : Nat) : ℚ) = (w : ℚ) := by
    have : ((w.toNat : Nat) : Int) = w := Int.toNat_of_nonneg hw
    exact_mod_cast this
  have hQc : ((tot.toNat : Nat) : ℚ) = (tot : ℚ) := by
    have : ((tot.toNat : Nat) : Int) = tot := Int.toNat_of_nonneg (le_of_lt ht)
    exact_mod_cast this
  have htq : (0 : ℚ) < tot := by exact_mod_cast ht
  have hwq : (0 : ℚ) < w := by
    have : 0 < w := lt_of_le_of_ne hw (Ne.symm hw0)
    exact_mod_cast this
  have hwtq : (w : ℚ) ≤ tot := by exact_mod_cast hwt
  obtain ⟨ha2, ha⟩ := rne_rel_err w.toNat tot.toNat hP hQ
  rw [hPc, hQc] at ha
  set a := rne w.toNat tot.toNat with hadef
  set δ : ℚ := 1 / 2 ^ 53 with hδ
  have hδ0 : 0 ≤ δ := by positivity
  have hδ1 : δ ≤ 1 := by rw [hδ]; norm_num
  have hδlt : δ < 1 := by rw [hδ]; norm_num
  have hx0pos : (0 : ℚ) < (w : ℚ) / tot := div_pos hwq htq
  have hx0le : (w : ℚ) / tot ≤ 1 := by rw [div_le_one htq]; exact hwtq
  have ha' : |val a - (w : ℚ) / tot| ≤ (w : ℚ) / tot * δ := by
    rw [hδ]; rw [mul_one_div]; exact ha
  -- α > 0, hence the second rounding is of a non-zero number
  have hαpos : 0 < val a := by
    rw [abs_le] at ha'
    nlinarith [ha'.1, mul_lt_mul_of_pos_left hδlt hx0pos]
  have ha2q : (0 : ℚ) < a.2 := by exact_mod_cast ha2
  have ha1 : a.1 ≠ 0 := by
    intro h0
    have : val a = 0 := by simp [val, h0]
    linarith
  have hp2 : a.1 * 10000 ≠ 0 := by omega
  obtain ⟨hb2, hbe⟩ := rne_rel_err (a.1 * 10000) a.2 hp2 (by omega)
  set b := rne (a.1 * 10000) a.2 with hbdef
  have h10 : ((a.1 * 10000 : Nat) : ℚ) / (a.2 : ℚ) = 10000 * val a := by
    simp only [val]; push_cast; ring
  rw [h10] at hbe
  have hbe' : |val b - 10000 * val a| ≤ 10000 * val a * δ := by
    rw [hδ, mul_one_div]; exact hbe
  set x : ℚ := 10000 * ((w : ℚ) / tot) with hx
  have hx0 : 0 ≤ x := by positivity
  have hx1 : x ≤ 10000 := by rw [hx]; linarith
  have h1 : |10000 * val a - x| ≤ x * δ := by
    have : 10000 * val a - x = 10000 * (val a - (w : ℚ) / tot) := by rw [hx]; ring
    rw [this, abs_mul, abs_of_pos (by norm_num : (0 : ℚ) < 10000), hx]
    nlinarith [ha']
  have h2 := two_round x (10000 * val a) (val b) δ hδ0 hδ1 hx0 h1 hbe'
  -- ε := 10000 (2δ + δ²), and ε · 2^38 < 1
  have hε : x * (2 * δ + δ ^ 2) ≤ 10000 * (2 * δ + δ ^ 2) :=
    mul_le_mul_of_nonneg_right hx1 (by positivity)
  have hεtot : 10000 * (2 * δ + δ ^ 2) * tot < 1 := by
    have htb : (tot : ℚ) ≤ 2 ^ 38 := by exact_mod_cast hb
    have : 10000 * (2 * δ + δ ^ 2) * (2 : ℚ) ^ 38 < 1 := by rw [hδ]; norm_num
    have h0 : (0 : ℚ) ≤ 10000 * (2 * δ + δ ^ 2) := by positivity
    nlinarith [mul_le_mul_of_nonneg_left htb h0]
  have hεlt1 : 10000 * (2 * δ + δ ^ 2) < 1 := by rw [hδ]; norm_num
  rw [abs_le] at h2
  -- B = ⌊β⌋
  have hb2q : (0 : ℚ) < b.2 := by exact_mod_cast hb2
  have hBle : ((b.1 / b.2 : Nat) : ℚ) ≤ val b := by
    rw [val, le_div_iff₀ hb2q]
    exact_mod_cast Nat.div_mul_le_self b.1 b.2
  have hBlt : val b < ((b.1 / b.2 : Nat) : ℚ) + 1 := by
    rw [val, div_lt_iff₀ hb2q]
    have : b.1 < (b.1 / b.2 + 1) * b.2 := by
      have := Nat.div_add_mod b.1 b.2
      have := Nat.mod_lt b.1 hb2
      nlinarith
    exact_mod_cast this
  -- F = ⌊x⌋ as an integer quotient
  have hF1 : (10000 * w) / tot * tot ≤ 10000 * w := Int.ediv_mul_le _ (by omega)
  have hF2 : 10000 * w < ((10000 * w) / tot + 1) * tot := Int.lt_ediv_add_one_mul_self _ ht
  have hF1q : (((10000 * w) / tot : Int) : ℚ) * tot ≤ 10000 * w := by exact_mod_cast hF1
  have hF2q : (10000 : ℚ) * w + 1 ≤ ((((10000 * w) / tot : Int) : ℚ) + 1) * tot := by
    have : 10000 * w + 1 ≤ ((10000 * w) / tot + 1) * tot := hF2
    exact_mod_cast this
  have hxt : x * tot = 10000 * w := by rw [hx]; field_simp
  show (10000 * w) / tot - 1 ≤ ((b.1 / b.2 : Nat) : Int) ∧ ((b.1 / b.2 : Nat) : Int) ≤ (10000 * w) / tot
  constructor
  · -- F - 1 ≤ B
    by_contra hcon
    have hlt : ((b.1 / b.2 : Nat) : Int) + 2 ≤ (10000 * w) / tot := by omega
    have hltq : ((b.1 / b.2 : Nat) : ℚ) + 2 ≤ (((10000 * w) / tot : Int) : ℚ) := by
      have h := (Int.cast_le (R := ℚ)).2 hlt
      simp only [Int.cast_add, Int.cast_natCast, Int.cast_ofNat, Int.cast_one] at h
      exact h
    -- β < B + 1 ≤ F - 1, but β ≥ x - ε ≥ F - ε... with x ≥ F
    have hxF : (((10000 * w) / tot : Int) : ℚ) ≤ x := by
      rw [← mul_le_mul_iff_of_pos_right htq, hxt]; exact hF1q
    linarith [h2.1]
  · -- B ≤ F
    by_contra hcon
    have hlt : (10000 * w) / tot + 1 ≤ ((b.1 / b.2 : Nat) : Int) := by omega
    have hltq : (((10000 * w) / tot : Int) : ℚ) + 1 ≤ ((b.1 / b.2 : Nat) : ℚ) := by
      have h := (Int.cast_le (R := ℚ)).2 hlt
      simp only [Int.cast_add, Int.cast_natCast, Int.cast_ofNat, Int.cast_one] at h
      exact h
    have hβ : ((((10000 * w) / tot : Int) : ℚ) + 1) * tot ≤ val b * tot :=
      mul_le_mul_of_nonneg_right (le_trans hltq hBle) (le_of_lt htq)
    have hβ2 : val b * tot ≤ (x + 10000 * (2 * δ + δ ^ 2)) * tot :=
      mul_le_mul_of_nonneg_right (by linarith [h2.2]) (le_of_lt htq)
    nlinarith

/-- THE BRIDGE for the cut-off: `int(10000·c)` in float64 against the real number `10000·c` -/
theorem cutF64_bounds (c : ℚ) (h0 : 0 ≤ c) :
    10000 * c * (1 - 1 / 2 ^ 53) - 1 < (cutF64 c : ℚ) ∧ (cutF64 c : ℚ) ≤ 10000 * c * (1 + 1 / 2 ^ 53) := by
  by_cases hc : c = 0
  · subst hc
    simp [cutF64, rne]
  have hcpos : 0 < c := lt_of_le_of_ne h0 (Ne.symm hc)
  have hnum : 0 < c.num := Rat.num_pos.2 hcpos
  have hP : 10000 * c.num.toNat ≠ 0 := by omega
  have hQ : c.den ≠ 0 := c.den_nz
  obtain ⟨hb2, hbe⟩ := rne_rel_err (10000 * c.num.toNat) c.den hP hQ
  have hx : ((10000 * c.num.toNat : Nat) : ℚ) / (c.den : ℚ) = 10000 * c := by
    have h1 : ((c.num.toNat : Nat) : ℚ) = (c.num : ℚ) := by
      have : ((c.num.toNat : Nat) : Int) = c.num := Int.toNat_of_nonneg (le_of_lt hnum)
      exact_mod_cast this
    have h2 : (c.num : ℚ) / (c.den : ℚ) = c := Rat.num_div_den c
    push_cast
    rw [h1, mul_div_assoc, h2]
  rw [hx] at hbe
  set b := rne (10000 * c.num.toNat) c.den with hbdef
  have hb2q : (0 : ℚ) < b.2 := by exact_mod_cast hb2
  have hBle : ((b.1 / b.2 : Nat) : ℚ) ≤ val b := by
    rw [val, le_div_iff₀ hb2q]
    exact_mod_cast Nat.div_mul_le_self b.1 b.2
  have hBlt : val b < ((b.1 / b.2 : Nat) : ℚ) + 1 := by
    rw [val, div_lt_iff₀ hb2q]
    have : b.1 < (b.1 / b.2 + 1) * b.2 := by
      have := Nat.div_add_mod b.1 b.2
      have := Nat.mod_lt b.1 hb2
      nlinarith
    exact_mod_cast this
  have hcast : ((cutF64 c : Int) : ℚ) = ((b.1 / b.2 : Nat) : ℚ) := by
    have : cutF64 c = ((b.1 / b.2 : Nat) : Int) := rfl
    rw [this, Int.cast_natCast]
  rw [hcast]
  rw [abs_le] at hbe
  constructor <;> nlinarith [hbe.1, hbe.2]

/-! ### the clauses for the float64 instance -/

theorem shareF64_nonneg (w tot : Int) : 0 ≤ shareF64 w tot := by
  unfold shareF64
  exact Int.natCast_nonneg _

theorem f64_share {w tot : Int} (ht : 0 < tot) : f64Arith.share w tot = shareF64 w tot := by
  have : ¬ tot = 0 := by omega
  simp only [f64Arith, this, if_false]

theorem f64_comb {cw f s : Int} (hf : 0 ≤ f) (hs : 0 ≤ s) : comb f64Arith cw f s = ruleInt cw f s := by
  simp only [comb, ruleInt, f64Arith, Bool.or_eq_true, decide_eq_true_eq]
  split
  · rfl
  · exact Int.tdiv_eq_ediv_of_nonneg (by omega)

/-- weights and totals of a bounded table -/
theorem bounded_mem {t : Table} (w : Lemmas.CodonCombine.WF t) (hb : boundedShares t = true) {l x : Str} (h : (l, x) ∈ pairs t) :
    weightAt t l x ≤ totalOf t l ∧ totalOf t l ≤ 2 ^ 38 := by
  obtain ⟨a, ha, c, hc, rfl, rfl⟩ := mem_pairs.1 h
  rw [weightAt_mem w ha hc]
  have he : (a.letter, c.triplet, c.weight) ∈ entries t := mem_entriesOf.2 ⟨a, ha, c, hc, rfl⟩
  simp only [boundedShares, List.all_eq_true, decide_eq_true_eq] at hb
  exact hb _ he

/-- Under the property's hypotheses the float64 function returns a table (no error, no panic) and every codon's
weight is the rule applied to the two FLOAT64 shares and the FLOAT64 cut-off weight, exactly as Go computes them:
zero when either float64 share is below the float64 cut-off weight, the mean of the two float64 shares otherwise. -/
theorem compromise_weight_f64 {t1 t2 : Table} (h : Compatible t1 t2 = true)
    (p1 : posTotals t1 = true) (p2 : posTotals t2 = true) (c : Rat) (c0 : 0 ≤ c) (c1 : c ≤ 1) :
    ∃ r, compromise f64Arith t1 t2 c = .ok r ∧ pairs r = pairs t1 ∧
      ∀ l x, (l, x) ∈ pairs t1 → weightAt r l x =
        ruleInt (cutF64 c) (shareF64 (weightAt t1 l x) (totalOf t1 l)) (shareF64 (weightAt t2 l x) (totalOf t2 l)) := by
  obtain ⟨w1, w2, s12, s21⟩ := compatible_unpack h
  have hb0 : f64Arith.below0 c = false := by simp only [f64Arith, decide_eq_false_iff_not]; exact Rat.not_lt.2 c0
  have hb1 : f64Arith.above1 c = false := by simp only [f64Arith, decide_eq_false_iff_not]; exact Rat.not_lt.2 c1
  refine ⟨_, compromise_eq f64Arith w1 w2 s12 s21 c hb0 hb1, pairs_mapWeights _ _, ?_⟩
  intro l x hp
  rw [weightAt_mapWeights w1 _ hp]
  have ht1 := pos_total w1 p1 hp
  have ht2 := pos_total w2 p2 (s12 _ hp)
  rw [f64_share ht1, f64_share ht2, f64_comb (shareF64_nonneg _ _) (shareF64_nonneg _ _)]
  rfl

section clauses
variable {t1 t2 r : Table} (h : Compatible t1 t2 = true)
  (p1 : posTotals t1 = true) (p2 : posTotals t2 = true)
  {c : Rat} (c0 : 0 ≤ c) (c1 : c ≤ 1) (hr : compromise f64Arith t1 t2 c = .ok r)
include h p1 p2 c0 c1 hr

theorem compromise_rule_f64 {l x : Str} (hp : (l, x) ∈ pairs t1) : weightAt r l x =
    ruleInt (cutF64 c) (shareF64 (weightAt t1 l x) (totalOf t1 l)) (shareF64 (weightAt t2 l x) (totalOf t2 l)) := by
  obtain ⟨r', h1, _, h3⟩ := compromise_weight_f64 h p1 p2 c c0 c1
  rw [hr] at h1
  cases h1
  exact h3 l x hp

/-- zero if either float64 share is below the float64 cut-off weight -/
theorem compromise_zero_below_f64 {l x : Str} (hp : (l, x) ∈ pairs t1)
    (hlow : shareF64 (weightAt t1 l x) (totalOf t1 l) < cutF64 c ∨ shareF64 (weightAt t2 l x) (totalOf t2 l) < cutF64 c) :
    weightAt r l x = 0 := by
  rw [compromise_rule_f64 h p1 p2 c0 c1 hr hp, ruleInt, if_pos hlow]

/-- the mean of the two float64 shares when neither is below the float64 cut-off weight -/
theorem compromise_mean_f64 {l x : Str} (hp : (l, x) ∈ pairs t1)
    (hf : cutF64 c ≤ shareF64 (weightAt t1 l x) (totalOf t1 l)) (hs : cutF64 c ≤ shareF64 (weightAt t2 l x) (totalOf t2 l)) :
    weightAt r l x = (shareF64 (weightAt t1 l x) (totalOf t1 l) + shareF64 (weightAt t2 l x) (totalOf t2 l)) / 2 := by
  rw [compromise_rule_f64 h p1 p2 c0 c1 hr hp, ruleInt, if_neg (by omega)]

/-- a codon that keeps a positive weight has both float64 shares at or above the float64 cut-off weight -/
theorem compromise_positive_f64 {l x : Str} (hp : (l, x) ∈ pairs t1) (hpos : 0 < weightAt r l x) :
    cutF64 c ≤ shareF64 (weightAt t1 l x) (totalOf t1 l) ∧ cutF64 c ≤ shareF64 (weightAt t2 l x) (totalOf t2 l) := by
  rw [compromise_rule_f64 h p1 p2 c0 c1 hr hp, ruleInt] at hpos
  split at hpos <;> omega

end clauses

/-- real usage share of one codon above `c·(1 − 2⁻⁵³) − 1/10000`, from `cutF64 c ≤ shareF64 w tot` -/
theorem share_above_cut {w tot : Int} {c : Rat} (hw : 0 ≤ w) (hwt : w ≤ tot) (ht : 0 < tot) (hb : tot ≤ 2 ^ 38) (c0 : 0 ≤ c)
    (hle : cutF64 c ≤ shareF64 w tot) : c * (1 - 1 / 2 ^ 53) - 1 / 10000 < (w : ℚ) / (tot : ℚ) := by
  have hs := (shareF64_bounds w tot hw hwt ht hb).2
  have hc := (cutF64_bounds c c0).1
  have htq : (0 : ℚ) < tot := by exact_mod_cast ht
  have hF1 : (10000 * w) / tot * tot ≤ 10000 * w := Int.ediv_mul_le _ (by omega)
  have hF1q : (((10000 * w) / tot : Int) : ℚ) * tot ≤ 10000 * w := by exact_mod_cast hF1
  have hFx : (((10000 * w) / tot : Int) : ℚ) ≤ 10000 * ((w : ℚ) / tot) := by
    rw [← mul_le_mul_iff_of_pos_right htq]
    have : 10000 * ((w : ℚ) / tot) * tot = 10000 * w := by field_simp
    rw [this]; exact hF1q
  have h1 : ((cutF64 c : Int) : ℚ) ≤ ((shareF64 w tot : Int) : ℚ) := by exact_mod_cast hle
  have h2 : ((shareF64 w tot : Int) : ℚ) ≤ (((10000 * w) / tot : Int) : ℚ) := by exact_mod_cast hs
  linarith

/-- "never rarer than the cut-off in either organism", for the float64 function, stated exactly: a codon that keeps a
positive weight has, in BOTH tables, a real usage share above `c·(1 − 2⁻⁵³) − 1/10000` (the cut-off, minus one ulp
of its float64 scaling, minus one unit of the 10000 scale) -/
theorem compromise_never_rare_f64 {t1 t2 r : Table} (h : Compatible t1 t2 = true)
    (n1 : nonNeg t1 = true) (n2 : nonNeg t2 = true) (p1 : posTotals t1 = true) (p2 : posTotals t2 = true)
    (b1 : boundedShares t1 = true) (b2 : boundedShares t2 = true)
    {c : Rat} (c0 : 0 ≤ c) (c1 : c ≤ 1) (hr : compromise f64Arith t1 t2 c = .ok r)
    {l x : Str} (hp : (l, x) ∈ pairs t1) (hpos : 0 < weightAt r l x) :
    c * (1 - 1 / 2 ^ 53) - 1 / 10000 < (weightAt t1 l x : ℚ) / (totalOf t1 l : ℚ) ∧
    c * (1 - 1 / 2 ^ 53) - 1 / 10000 < (weightAt t2 l x : ℚ) / (totalOf t2 l : ℚ) := by
  obtain ⟨w1, w2, s12, _⟩ := compatible_unpack h
  obtain ⟨hf, hs⟩ := compromise_positive_f64 h p1 p2 c0 c1 hr hp hpos
  have hp2 := s12 _ hp
  obtain ⟨ha1, ha2⟩ := bounded_mem w1 b1 hp
  obtain ⟨hb1, hb2⟩ := bounded_mem w2 b2 hp2
  exact ⟨share_above_cut (nonneg_weightAt n1 l x) ha1 (pos_total w1 p1 hp) ha2 c0 hf,
         share_above_cut (nonneg_weightAt n2 l x) hb1 (pos_total w2 p2 hp2) hb2 c0 hs⟩

/-- symmetric as maps, exactly (the hypothesis of `compromise_symm_any` — a commutative mean — holds for `f64Arith`) -/
theorem compromise_symm_f64 {t1 t2 : Table} (h : Compatible t1 t2 = true) (c : Rat) (c0 : 0 ≤ c) (c1 : c ≤ 1) :
    ∃ r12 r21, compromise f64Arith t1 t2 c = .ok r12 ∧ compromise f64Arith t2 t1 c = .ok r21 ∧
      (∀ q, q ∈ pairs r12 ↔ q ∈ pairs r21) ∧ ∀ l x, (l, x) ∈ pairs r12 → weightAt r12 l x = weightAt r21 l x :=
  compromise_symm_any f64Arith (fun a b => by simp only [f64Arith, Int.add_comm]) h c
    (by simp only [f64Arith, decide_eq_false_iff_not]; exact Rat.not_lt.2 c0)
    (by simp only [f64Arith, decide_eq_false_iff_not]; exact Rat.not_lt.2 c1)

/-- the two readings of one weight differ only through the bridge: float64 share ∈ {exact share, exact share − 1} -/
theorem share_readings {t : Table} (w : Lemmas.CodonCombine.WF t) (n : nonNeg t = true) (p : posTotals t = true)
    (b : boundedShares t = true) {l x : Str} (hp : (l, x) ∈ pairs t) :
    shareFloor (weightAt t l x) (totalOf t l) - 1 ≤ shareF64 (weightAt t l x) (totalOf t l) ∧
    shareF64 (weightAt t l x) (totalOf t l) ≤ shareFloor (weightAt t l x) (totalOf t l) := by
  obtain ⟨h1, h2⟩ := bounded_mem w b hp
  exact shareF64_bounds _ _ (nonneg_weightAt n l x) h1 (pos_total w p hp) h2

/-! ### non-vacuity (the tables of Props/C18) and the disagreement the bridge is about -/

example : boundedShares tA = true ∧ boundedShares tB = true := by decide
example : shareF64 57 100 = 5699 ∧ shareFloor 57 100 = 5700 := by decide +kernel
example : cutF64 (3 / 10) = 3000 ∧ (10000 * (3 / 10 : Rat)).floor = 3000 := by decide +kernel
example : compromise f64Arith tA tB (1 / 4) = compromise exactArith tA tB (1 / 4) := by decide +kernel

end PolyVerif.Props.C18
