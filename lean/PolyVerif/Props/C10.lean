import PolyVerif.Lemmas.DigestLin
/-
Property C10 — Type IIS digestion follows enzyme geometry, independent of the stored origin.

Model: `Digest.cutWithEnzyme` (Model/Digest.lean: doubling, literal-site scan, overhang records,
end trimming, modulo reduction + duplicate dropping, stable sort, wrap-around overhang, pairing
loop with its `> len` break, slicing with Go bounds).
Spec: `DigestSpec.digest` on the cyclic word / `DigestSpec.digestLin` on a linear word
(Spec/Digest.lean).  `Driver.C10.enzymeOf name g` is the `clone.Enzyme` value for a geometry `g`
(site, reverse-complement site as literal regular expressions, skip, overhang length).
`wfLayout g s` is the hypothesis of the theorems: non-palindromic upper-case ACGT site that fits the
plasmid, any skip and any overhang length (0 = blunt cutter), site occurrences (either orientation) do not overlap one another around
the circle, paired cuts at least two overhang lengths apart.
-/
namespace PolyVerif.Props.C10
open PolyVerif PolyVerif.Transform PolyVerif.Digest PolyVerif.DigestSpec PolyVerif.Driver.C10

/-- a fragment as (forward overhang, interior, reverse overhang) -/
def tr (f : Fragment) : Str × Str × Str := (f.fwd, f.seq, f.rev)

/-- the fragments of an outcome as triples -/
def triples : Outcome (List Fragment) → Option (List (Str × Str × Str))
  | .ok fs => some (fs.map tr)
  | _ => none

/-! ### the enzyme table -/

/-- The built-in enzyme table of the code is the REBASE geometry: looking a name up in
`getBaseRestrictionEnzymes` gives exactly the `Enzyme` built from the pinned geometry
(site, its reverse complement, skip, overhang length). -/
theorem builtin_pinned : ∀ ng ∈ builtin, baseEnzymes.lookup ng.1 = some (enzymeOf ng.1 ng.2) := by decide

/-- the built-in geometries are well-formed (non-empty, non-palindromic upper-case ACGT site) -/
theorem builtin_wf : ∀ ng ∈ builtin, wfGeometry ng.2 = true := by decide

/-- CutWithEnzymeByName is CutWithEnzyme with the pinned geometry. -/
theorem byName_eq : ∀ ng ∈ builtin, ∀ (s : Str) (c d : Bool),
    cutWithEnzymeByName s c d ng.1 = cutWithEnzyme s c d (enzymeOf ng.1 ng.2) := by
  intro ng h s c d
  simp only [cutWithEnzymeByName, builtin_pinned ng h]

/-! ### the spec does not depend on the origin -/

/-- **spec_rotation**: the cyclic-word digestion yields the same multiset of fragments whichever
letter the circle is read from (equivariance of cyclic site search, cuts and distances). -/
theorem spec_rotation (g : Geometry) (k : Nat) (s : Str) : (digest g (Spec.rotl k s)).Perm (digest g s) :=
  digest_rotl g k s

/-- the quantifier does not depend on the origin -/
theorem wf_rotation (g : Geometry) (k : Nat) (s : Str) (h : wfLayout g s = true) :
    wfLayout g (Spec.rotl k s) = true := wfLayout_rotl g k s h

/-! ### circular parts -/

/-- **cut_circular**: on every layout of the quantifier, directional digestion of the circular part
succeeds (no slice is out of range) and returns exactly the multiset of fragments of the cyclic-word
spec: the stretches from the cut of a forward-pointing site to the next cut when that one belongs to
a backward-pointing site, each as (first `oh` letters, interior, last `oh` letters). -/
theorem cut_circular (name : String) (g : Geometry) (s : Str) (h : wfLayout g s = true) :
    ∃ fr, cutWithEnzyme s true true (enzymeOf name g) = .ok fr ∧ (fr.map tr).Perm (digest g s) := by
  have hwf : WF g (letter (upper s)) (upper s).length := wf_of_wfLayoutW h
  obtain ⟨fr, h1, h2⟩ := cutCore_circular name g (upper s) hwf
  refine ⟨fr, ?_, h2⟩
  simp only [cutWithEnzyme, sequenceOf, if_true, upper_append]
  rw [← upper_length s]
  exact h1

/-- **Rotation independence of the code**: whichever base the stored circular sequence starts at,
the multiset of fragments is the same. -/
theorem cut_rotation_independent (name : String) (g : Geometry) (s : Str) (k : Nat) (h : wfLayout g s = true) :
    ∃ fr fr', cutWithEnzyme (Spec.rotl k s) true true (enzymeOf name g) = .ok fr ∧
      cutWithEnzyme s true true (enzymeOf name g) = .ok fr' ∧ (fr.map tr).Perm (fr'.map tr) := by
  obtain ⟨fr, h1, h2⟩ := cut_circular name g (Spec.rotl k s) (wf_rotation g k s h)
  obtain ⟨fr', h1', h2'⟩ := cut_circular name g s h
  exact ⟨fr, fr', h1, h1', (h2.trans (spec_rotation g k s)).trans h2'.symm⟩

/-- **cut_geometry**: every fragment returned for a circular part of the quantifier sits at the
offsets the enzyme geometry dictates.  There are a forward site at `p` and a backward-pointing site
(reverse complement read at `q`) such that, on the upper-cased cyclic word,
* the forward overhang is the `oh` letters starting `skip` letters after the site's end (`p + |site| + skip`),
* the reverse overhang is the `oh` letters ending `skip` letters before the reverse site's start
  (they start at `q - skip - oh`),
* overhang ++ interior ++ overhang is the whole stretch between the two cuts, `d ≥ 2·oh` letters,
* and no other cut of the layout lies in that stretch (no reverse cut is nearer, every other forward
  cut is further away). -/
theorem cut_geometry (name : String) (g : Geometry) (s : Str) (h : wfLayout g s = true)
    (fr : List Fragment) (hfr : cutWithEnzyme s true true (enzymeOf name g) = .ok fr) :
    let w := letter (upper s)
    let n := s.length
    ∀ f ∈ fr, ∃ p ∈ sites w n g.site, ∃ q ∈ sites w n (rcSite g.site), ∃ d,
      d = dist n (fwdCut g n p) (revCut g n q) ∧ 2 * g.oh ≤ d ∧
      (∀ r ∈ revCuts g w n, d ≤ dist n (fwdCut g n p) r) ∧
      (∀ c' ∈ fwdCuts g w n, c' ≠ fwdCut g n p → d < dist n (fwdCut g n p) c') ∧
      f.fwd = window w (p + g.site.length + g.skip) g.oh ∧
      f.rev = window w (wrap n ((q : Int) - g.skip - g.oh)) g.oh ∧
      f.fwd ++ f.seq ++ f.rev = window w (p + g.site.length + g.skip) d := by
  intro w n f hf
  obtain ⟨fr', h1, h2⟩ := cut_circular name g s h
  rw [hfr] at h1
  have hfr' : fr = fr' := by simpa using h1
  subst hfr'
  have hwf : WF g (letter (upper s)) (upper s).length := wf_of_wfLayoutW h
  have hmem : tr f ∈ digestW g (letter (upper s)) (upper s).length := by
    have : tr f ∈ fr.map tr := List.mem_map.2 ⟨f, hf, rfl⟩
    exact h2.mem_iff.1 this
  have := digestW_geometry g (letter_periodic (upper s)) hwf.n_pos hwf.paired hmem
  rw [upper_length] at this
  exact this

/-! ### linear parts -/

/-- **cut_linear_inside**: a linear part never yields a fragment needing bases beyond its ends —
whenever the call returns (any enzyme, directional or not), forward overhang ++ interior ++ reverse
overhang of every fragment is a contiguous piece of the (upper-cased) sequence. -/
theorem cut_linear_inside (s : Str) (directional : Bool) (e : Enzyme) (fr : List Fragment)
    (h : cutWithEnzyme s false directional e = .ok fr) :
    ∀ f ∈ fr, ∃ a b, upper s = a ++ (f.fwd ++ f.seq ++ f.rev) ++ b := by
  intro f hf
  have := cutCore_linear_inside (sequenceOf s false) s.length directional e fr h f hf
  simp only [sequenceOf, Bool.false_eq_true, if_false] at this
  obtain ⟨a, b, hab⟩ := this
  exact ⟨a, b, hab.symm⟩

/-- **cut_linear**: on every linear layout of the quantifier (`wfLinear`: the same conditions read
without wrap-around), directional digestion succeeds and returns exactly the multiset of fragments of
the linear spec: the stretches from the cut of a forward-pointing site to the next cut to its right
when that one belongs to a backward-pointing site. -/
theorem cut_linear (name : String) (g : Geometry) (s : Str) (h : wfLinear g s = true) :
    ∃ fr, cutWithEnzyme s false true (enzymeOf name g) = .ok fr ∧ (fr.map tr).Perm (digestLin g s) := by
  have hwf : WFL g (letter (upper s)) (upper s).length := wfl_of_wfLinearW h
  obtain ⟨fr, h1, h2⟩ := cutCore_linear name g (upper s) hwf
  refine ⟨fr, ?_, h2⟩
  simp only [cutWithEnzyme, sequenceOf, Bool.false_eq_true, if_false]
  rw [← upper_length s]
  exact h1

/-- **cut_linear_geometry**: every fragment returned for a linear part of the quantifier starts
`|site| + skip` letters after a forward site at `p`, ends `skip` letters before a backward-pointing
site at `q` that fits inside the part, both overhangs are the `oh` letters at its two ends, the
stretch has `d ≥ 2·oh` letters and contains no other cut. -/
theorem cut_linear_geometry (name : String) (g : Geometry) (s : Str) (h : wfLinear g s = true)
    (fr : List Fragment) (hfr : cutWithEnzyme s false true (enzymeOf name g) = .ok fr) :
    let w := letter (upper s)
    let n := s.length
    ∀ f ∈ fr, ∃ p ∈ linSites w n g.site, ∃ q ∈ linSites w n (rcSite g.site), ∃ d,
      p + g.site.length + g.skip + d + g.skip = q ∧ q + g.site.length ≤ n ∧ 2 * g.oh ≤ d ∧
      (∀ r ∈ linRevCuts g w n, ((p + g.site.length + g.skip : Nat) : Int) ≤ r → ((p + g.site.length + g.skip + d : Nat) : Int) ≤ r) ∧
      (∀ c' ∈ linFwdCuts g w n, ((p + g.site.length + g.skip : Nat) : Int) < c' → ((p + g.site.length + g.skip + d : Nat) : Int) < c') ∧
      f.fwd = window w (p + g.site.length + g.skip) g.oh ∧
      f.rev = window w (p + g.site.length + g.skip + d - g.oh) g.oh ∧
      f.fwd ++ f.seq ++ f.rev = window w (p + g.site.length + g.skip) d := by
  intro w n f hf
  obtain ⟨fr', h1, h2⟩ := cut_linear name g s h
  rw [hfr] at h1
  have hfr' : fr = fr' := by simpa using h1
  subst hfr'
  have hwf : WFL g (letter (upper s)) (upper s).length := wfl_of_wfLinearW h
  have hmem : tr f ∈ digestLinW g (letter (upper s)) (upper s).length := by
    have : tr f ∈ fr.map tr := List.mem_map.2 ⟨f, hf, rfl⟩
    exact h2.mem_iff.1 this
  have := digestLinW_geometry g hwf.paired hmem
  rw [upper_length] at this
  exact this

/-! ### letter case -/

/-- **cut_case**: letter case is irrelevant — two stored sequences with the same upper-case reading
are digested identically (any topology, directional or not, any enzyme). -/
theorem cut_case {s t : Str} (h : upper s = upper t) (circular directional : Bool) (e : Enzyme) :
    cutWithEnzyme s circular directional e = cutWithEnzyme t circular directional e :=
  cutWithEnzyme_case h circular directional e

/-! ### coincident cuts of a blunt cutter: outside the property's quantifier, and why nothing depends on it

With overhang 0 a forward and a backward-pointing site may cut the same bond.  The property statement
does not determine the outcome there (is the empty stretch a fragment? does a bond cut from both
sides end an earlier forward cut's stretch?).  The property's quantifier is therefore read as
`wfLayout` minus such layouts (`inQuantifierW = wfLayoutW && noCoincident`, "paired cuts … APART");
the judge skips them (correspondence drift only).  The theorems above hold on all of `wfLayout` for
the resolution written into `stretch`; inside the quantifier the opposite resolution (`stretchAlt`:
a cut at the same bond is not "next", an equidistant forward cut does not cancel) gives the same
digestion, so no judged verdict and no theorem restricted to the quantifier depends on the choice. -/

/-- **tie_free_circular** -/
theorem tie_free_circular (g : Geometry) (w : Nat → Char) (n : Nat) (hn : 0 < n) (h : noCoincident g w n = true) :
    digestAltW g w n = digestW g w n := digestAltW_eq g hn h

/-- **tie_free_linear** -/
theorem tie_free_linear (g : Geometry) (w : Nat → Char) (n : Nat) (h : noCoincidentLin g w n = true) :
    digestLinAltW g w n = digestLinW g w n := digestLinAltW_eq g h

/-! ### the judge reads the spec through an array -/

/-- The compiled judge evaluates the spec through the array-backed reading function `letterA`;
that is the spec's own reading function, so the judged quantities are `digestU` / `wfLayoutU`
(and their linear counterparts). -/
theorem judge_reading (g : Geometry) (u : Str) :
    digestW g (letterA u.toArray) u.toArray.size = digestU g u ∧
    wfLayoutW g (letterA u.toArray) u.toArray.size = wfLayoutU g u ∧
    digestLinW g (letterA u.toArray) u.toArray.size = digestLinU g u ∧
    wfLinearW g (letterA u.toArray) u.toArray.size = wfLinearW g (letter u) u.length := by
  simp [letterA_eq, digestU, wfLayoutU, digestLinU]

/-! ### non-vacuity and regressions (kernel-evaluated examples) -/

example : upper "ggTCtc".toList = upper "GGtctC".toList := by decide

/-- a 45-base BsaI plasmid inside the quantifier; the code returns the one fragment, and so it does
when the stored origin lies inside the forward site (rotation 5: the site straddles the origin) -/
def demo : Str := "TTGGTCTCACCCCACGTTGCAATGGGGTGAGACCAATAAAAAAAAA".toList

example : wfLayout (ofRebase "GGTCTC" 1 5) demo = true := by decide
example : digest (ofRebase "GGTCTC" 1 5) demo = [("CCCC".toList, "ACGTTGCAAT".toList, "GGGG".toList)] := by decide
example : triples (cutWithEnzyme demo true true (enzymeOf "BsaI" (ofRebase "GGTCTC" 1 5))) =
    some [("CCCC".toList, "ACGTTGCAAT".toList, "GGGG".toList)] := by decide
example : triples (cutWithEnzyme (Spec.rotl 5 demo) true true (enzymeOf "BsaI" (ofRebase "GGTCTC" 1 5))) =
    some [("CCCC".toList, "ACGTTGCAAT".toList, "GGGG".toList)] := by decide
example : triples (cutWithEnzyme demo false true (enzymeOf "BsaI" (ofRebase "GGTCTC" 1 5))) =
    some [("CCCC".toList, "ACGTTGCAAT".toList, "GGGG".toList)] := by decide

/-- a blunt cutter (MlyI `GAGTC(5/5)`: skip 5, overhang 0) whose forward and backward-pointing sites cut
at the SAME bond: OUTSIDE the property's quantifier (`noCoincident` is false; not judged), but inside
`wfLayout`; under the resolution written into `stretch` the empty stretch is reported, and that is what
the code does at every origin (rotations 0 and 4: the forward site straddles the origin) and for the
linear part.  `bluntApart` is the same plasmid with one more base between the sites: inside the
quantifier, one fragment of one base. -/
def blunt : Str := "AAGAGTCAAAAATTTTTGACTCAATTTAAATT".toList

def bluntApart : Str := "AAGAGTCAAAAACTTTTTGACTCAATTTAAATT".toList

example : noCoincident (ofRebase "GAGTC" 5 5) (letter blunt) blunt.length = false := by decide
example : inQuantifierW (ofRebase "GAGTC" 5 5) (letter bluntApart) bluntApart.length = true := by decide
example : triples (cutWithEnzyme bluntApart true true (enzymeOf "" (ofRebase "GAGTC" 5 5))) = some [([], ['C'], [])] := by decide
example : wfLayout (ofRebase "GAGTC" 5 5) blunt = true := by decide
example : digest (ofRebase "GAGTC" 5 5) blunt = [([], [], [])] := by decide
example : triples (cutWithEnzyme blunt true true (enzymeOf "" (ofRebase "GAGTC" 5 5))) = some [([], [], [])] := by decide
example : triples (cutWithEnzyme (Spec.rotl 4 blunt) true true (enzymeOf "" (ofRebase "GAGTC" 5 5))) = some [([], [], [])] := by
  decide
example : wfLinear (ofRebase "GAGTC" 5 5) blunt = true ∧
    triples (cutWithEnzyme blunt false true (enzymeOf "" (ofRebase "GAGTC" 5 5))) = some [([], [], [])] := by decide

/-- Regression (former finding `C10-linear-end-reverse-site`, repaired in /repo by 2839bce): on the
LINEAR part `AAGGACAAAAATTTTTGTCC` with site GGAC, skip 0, overhang 5 — a backward-pointing site in
the last bases, overhang longer than the site — the code returns the fragment the geometry dictates. -/
example :
    wfLinear ⟨"GGAC".toList, 0, 5⟩ "AAGGACAAAAATTTTTGTCC".toList = true ∧
    digestLin ⟨"GGAC".toList, 0, 5⟩ "AAGGACAAAAATTTTTGTCC".toList = [("AAAAA".toList, [], "TTTTT".toList)] ∧
    triples (cutWithEnzyme "AAGGACAAAAATTTTTGTCC".toList false true (enzymeOf "" ⟨"GGAC".toList, 0, 5⟩)) =
      some [("AAAAA".toList, [], "TTTTT".toList)] := by
  decide

end PolyVerif.Props.C10
