import PolyVerif.Lemmas.Digest
/-
Property C10 — Type IIS digestion follows enzyme geometry, independent of the stored origin.

Model: `Digest.cutWithEnzyme` (Model/Digest.lean).  Spec: `DigestSpec.digest` on the cyclic
word, `DigestSpec.digestLin` on a linear word (Spec/Digest.lean).  `Driver.C10.enzymeOf name g`
is the `clone.Enzyme` value for a geometry `g` (site, reverse-complement site, skip, overhang).
-/
namespace PolyVerif.Props.C10
open PolyVerif PolyVerif.Transform PolyVerif.Digest PolyVerif.DigestSpec PolyVerif.Driver.C10

/-- the fragments of an outcome as (forward overhang, interior, reverse overhang) -/
def triples : Outcome (List Fragment) → Option (List (Str × Str × Str))
  | .ok fs => some (fs.map fun f => (f.fwd, f.seq, f.rev))
  | _ => none

/-- The built-in enzyme table of the code is the REBASE geometry: looking a name up in
`getBaseRestrictionEnzymes` gives exactly the `Enzyme` built from the pinned geometry
(site, its reverse complement, skip, overhang length). -/
theorem builtin_pinned : ∀ ng ∈ builtin, baseEnzymes.lookup ng.1 = some (enzymeOf ng.1 ng.2) := by decide

/-- the built-in geometries are well-formed (non-palindromic upper-case ACGT site, overhang ≥ 1) -/
theorem builtin_wf : ∀ ng ∈ builtin, wfGeometry ng.2 = true := by decide

/-- **Letter case is irrelevant**: two stored sequences with the same upper-case reading are
digested identically (any topology, directional or not, any enzyme). -/
theorem cut_case {s t : Str} (h : upper s = upper t) (circular directional : Bool) (e : Enzyme) :
    cutWithEnzyme s circular directional e = cutWithEnzyme t circular directional e :=
  cutWithEnzyme_case h circular directional e

example : upper "ggTCtc".toList = upper "GGtctC".toList := by decide

/-- Regression (former finding `C10-linear-end-reverse-site`, repaired in /repo by 2839bce): on the
LINEAR part `AAGGACAAAAATTTTTGTCC` with site GGAC, skip 0, overhang 5 — a backward-pointing site in
the last bases, overhang longer than the site — the code returns the fragment the geometry dictates. -/
example :
    wfLinear ⟨"GGAC".toList, 0, 5⟩ "AAGGACAAAAATTTTTGTCC".toList = true ∧
    digestLin ⟨"GGAC".toList, 0, 5⟩ "AAGGACAAAAATTTTTGTCC".toList = [("AAAAA".toList, [], "TTTTT".toList)] ∧
    triples (cutWithEnzyme "AAGGACAAAAATTTTTGTCC".toList false true (enzymeOf "" ⟨"GGAC".toList, 0, 5⟩)) =
      some [("AAAAA".toList, [], "TTTTT".toList)] := by
  decide

end PolyVerif.Props.C10
