import PolyVerif.Lemmas.NcbiTables
/-
C06 — Translation implements the NCBI genetic codes codon by codon.

Part 1 (table obligations) is decided on the REGENERATED tables (`Gen.codonTables`, `Gen.translate64`:
what `codon.GetCodonTable` and `codon.Translate` answer in the compiled code) against the hand-typed
NCBI spec (`Spec/Ncbi.lean`); a changed letter in codon.go breaks one of the `decide`s
(`Lemmas/NcbiTables.lean: rows_ok_*`, or `ids_complete` / `starts_eq` / `stops_eq` below).
Part 2 is proved for EVERY table (no hypothesis, or `WFTable` where stated — a predicate that does not
mention weights, so re-weighted tables satisfy it too) and EVERY string of any length and any letters (codons are
framed by letters since /repo 053f18d; the one-letter-per-codon clauses need A/C/G/T letters).
-/
namespace PolyVerif.Props.C06
open PolyVerif PolyVerif.Codon PolyVerif.CodonTranslate

/-! ### Part 0: the hand-typed NCBI spec is internally consistent

`Spec.Ncbi.aa` looks a codon up with `find?` (first hit).  These facts, decided by the kernel on the spec
itself, show that a first hit is the only hit, so a typing slip inside the spec (a codon listed under two amino
acids, a reassignment typed twice with different targets, a reassignment that changes nothing, a codon that is
both start and stop) cannot be masked. -/

/-- the standard code lists each of the 64 codons exactly once, under 21 distinct letters -/
theorem spec_standard_partition :
    (Spec.Ncbi.standard.flatMap (·.2)).Nodup ∧ (Spec.Ncbi.standard.map (·.1)).Nodup ∧
    (∀ c ∈ Spec.Ncbi.standard.flatMap (·.2), c ∈ all64) ∧ (∀ c ∈ all64, c ∈ Spec.Ncbi.standard.flatMap (·.2)) := by
  decide +kernel

/-- ids are distinct; in every code no codon is reassigned twice, every reassigned codon is one of the 64, and
every reassignment differs from the standard code -/
theorem spec_reassignments_consistent :
    Spec.Ncbi.ids.Nodup ∧
    ∀ code ∈ Spec.Ncbi.codes, (code.reassigned.map (·.1)).Nodup ∧
      ∀ r ∈ code.reassigned, r.1 ∈ all64 ∧ Spec.Ncbi.standardAA r.1 ≠ some r.2 := by
  decide +kernel

/-- every code assigns a residue to each of the 64 codons -/
theorem spec_total : ∀ id ∈ Spec.Ncbi.ids, ∀ c ∈ all64, (Spec.Ncbi.aa id c).isSome = true := by decide +kernel

/-- start and stop lists: codons of the 64, no repetition, no codon both start and stop -/
theorem spec_starts_stops_consistent : ∀ code ∈ Spec.Ncbi.codes,
    code.starts.Nodup ∧ code.stops.Nodup ∧ (∀ c ∈ code.starts, c ∈ all64 ∧ c ∉ code.stops) ∧ (∀ c ∈ code.stops, c ∈ all64) := by
  decide +kernel

/-- the codes whose stop codons are context dependent (also read as amino acids) -/
def contextStopIds : List Nat := [27, 28, 31]

/-- except for codes 27, 28, 31 the stop list is exactly the set of cells that read `*`; in those three no cell
reads `*` (NCBI prints the amino acid in the AAs line and the `*` in the Starts line) -/
theorem spec_stops_are_star_cells : ∀ id ∈ Spec.Ncbi.ids,
    (contextStopIds.contains id = false → ∀ c ∈ all64, (c ∈ Spec.Ncbi.stops id ↔ Spec.Ncbi.aa id c = some '*')) ∧
    (contextStopIds.contains id = true → ∀ c ∈ all64, Spec.Ncbi.aa id c ≠ some '*') := by
  decide +kernel

/-! ### Part 1: the 25 tables -/

/-- every one of NCBI's 25 codes is offered by the library (`Gen.codonTableIds`: the ids for which `GetCodonTable(i)`,
i = 0 … 255, is not the empty table; the regenerated tables and the 64-codon rows exist for each).  An id the library
offers BESIDE these (an alias such as 0 for the standard code, a newly added NCBI code) is outside the property, which
speaks of "each of the 25 NCBI tables the library offers": such ids are reported by the correspondence check
(class `table/extra-id-offered`) and do not break this theorem. -/
theorem ids_complete :
    (∀ id ∈ Spec.Ncbi.ids, id ∈ Gen.codonTableIds ∧ (genTable? id).isSome = true ∧ (gen64? id).isSome = true) ∧
      Spec.Ncbi.ids.length = 25 ∧ Spec.Ncbi.ids.Nodup := by
  decide +kernel

/-- all 25 × 64 cells.  For every table id and every codon (paired with the residue the compiled
`codon.Translate` returned for it, `Gen.translate64`): NCBI assigns that residue, the model reads it from
the regenerated table, and the model's `translate` of the codon returns it. -/
theorem codon_by_codon : ∀ id ∈ Spec.Ncbi.ids,
    (gen64 id).length = 64 ∧ all64.length = 64 ∧
    ∀ p ∈ all64.zip (gen64 id),
      Spec.Ncbi.aa id p.1 = some p.2 ∧ aaOf (getCodonTable id) p.1 = [p.2] ∧
        translate p.1 (getCodonTable id) = .ok [p.2] := by
  intro id hid
  obtain ⟨hlen, hwf, hcells⟩ := rowOk_spec (rows_ok id hid)
  refine ⟨hlen, all64_length, fun p hp => ⟨(hcells p hp).1, (hcells p hp).2, ?_⟩⟩
  have hc := (List.of_mem_zip hp).1
  have h3 := all64_len3 p.1 hc
  have hne : emptyTable (getCodonTable id) = false := by
    have : (getCodonTable id).aminoAcids ≠ [] := by
      intro h0
      have := hwf.1.2.2 p.1 hc
      simp [triplets, h0] at this
    cases h : (getCodonTable id).aminoAcids with
    | nil => exact absurd h this
    | cons a as => simp [emptyTable, h]
  have hb : byteLen p.1 ≠ 0 := by
    intro h0
    rw [(byteLen_eq_zero _).1 h0] at h3
    cases h3
  simp only [translate, hne, hb]
  rw [translateCore_eq_chunks]
  match hp1 : p.1, h3 with
  | [x, y, z], _ =>
    have := (hcells p hp).2
    rw [hp1] at this
    simp [chunks3, aaOf] at this ⊢
    exact this

/-- two codon lists are equal as sets and neither repeats a codon -/
def SameCodons (a b : List Str) : Prop := a.Nodup ∧ b.Nodup ∧ (∀ c ∈ a, c ∈ b) ∧ (∀ c ∈ b, c ∈ a)

instance (a b : List Str) : Decidable (SameCodons a b) := by unfold SameCodons; infer_instance

/-- start codon lists equal NCBI's -/
theorem starts_eq : ∀ id ∈ Spec.Ncbi.ids, SameCodons (getCodonTable id).startCodons (Spec.Ncbi.starts id) := by
  decide +kernel

/-- stop codon lists equal NCBI's -/
theorem stops_eq : ∀ id ∈ Spec.Ncbi.ids, SameCodons (getCodonTable id).stopCodons (Spec.Ncbi.stops id) := by
  decide +kernel

/-- every default table lists each of the 64 codons exactly once (hence upper case, length 3), one letter per entry -/
theorem triplets_partition : ∀ id ∈ Spec.Ncbi.ids, WFTable (getCodonTable id) :=
  fun id hid => (rowOk_spec (rows_ok id hid)).2.1

/-- replace every weight by any function of (letter, triplet, old weight) — e.g. `OptimizeTable` -/
def mapWeights (f : Str → Str → Int → Int) (t : Table) : Table :=
  { t with aminoAcids := t.aminoAcids.map fun a => { a with codons := a.codons.map fun c => { c with weight := f a.letter c.triplet c.weight } } }

/-- well-formedness does not mention weights: every re-weighting of a well-formed table is well-formed,
and it translates every codon as before -/
theorem reweight_wf (f : Str → Str → Int → Int) (t : Table) (h : WFTable t) :
    WFTable (mapWeights f t) ∧ translationMap (mapWeights f t) = translationMap t := by
  have ht : triplets (mapWeights f t) = triplets t := by
    simp [triplets, mapWeights, List.flatMap_map, Function.comp_def]
  refine ⟨⟨?_, ?_⟩, ?_⟩
  · simpa [Partition, ht] using h.1
  · intro a ha
    simp only [mapWeights, List.mem_map] at ha
    obtain ⟨a', ha', rfl⟩ := ha
    exact h.2 a' ha'
  · simp [translationMap, mapWeights, List.flatMap_map, Function.comp_def]

/-- re-weighting keeps every entry's letter and number of synonyms (so the "at most 8 synonyms" of the default
tables, C07 `default_synonyms_le_8`, carries over to every re-weighted table) -/
theorem reweight_synonyms (f : Str → Str → Int → Int) (t : Table) :
    (mapWeights f t).aminoAcids.map (fun a => (a.letter, a.codons.length)) =
      t.aminoAcids.map (fun a => (a.letter, a.codons.length)) := by
  simp [mapWeights, List.map_map, Function.comp_def]

/-! ### Part 2: every table, every string -/

/-- the translation is the concatenation, in order, of the residues of the complete in-frame codons -/
theorem translate_chunks (t : Table) (s : Str) :
    translateCore t s = (chunks3 s).flatMap (aaOf t) := translateCore_eq_chunks t s

/-- a concatenation made at a codon boundary translates to the concatenation of the translations -/
theorem translate_append (t : Table) (a b : Str) (h3 : a.length % 3 = 0) :
    translateCore t (a ++ b) = translateCore t a ++ translateCore t b := by
  rw [translate_chunks t _, translate_chunks t a, translate_chunks t b,
      chunks3_append a b h3, List.flatMap_append]

/-- a trailing partial codon is ignored -/
theorem translate_tail (t : Table) (a r : Str) (h3 : a.length % 3 = 0) (hl : r.length < 3) :
    translateCore t (a ++ r) = translateCore t a := by
  rw [translate_append t a r h3, translate_chunks t r, chunks3_short r hl]
  simp

/-- letter case is irrelevant: two strings with the same upper-casing have the same translation -/
theorem translate_case (t : Table) (s s' : Str) (h : upper s = upper s') :
    translateCore t s = translateCore t s' := by
  have key : ∀ x : Str, (chunks3 x).flatMap (aaOf t) = (chunks3 (upper x)).flatMap (mapGetStr (translationMap t)) := by
    intro x
    simp only [upper, chunks3_map, List.flatMap_map]
    rfl
  rw [translate_chunks t s, translate_chunks t s', key, key, h]

theorem upper_upper_acgt : ∀ c ∈ acgtLetters, c.toUpper.toUpper = c.toUpper ∧ c.toLower.toUpper = c.toUpper ∧
    c.toUpper.val ≤ 127 ∧ c.toLower.val ≤ 127 ∧ c.val ≤ 127 := by decide

theorem acgt_ascii {s : Str} (h : Acgt s) : Ascii s := fun c hc => (upper_upper_acgt c (h c hc)).2.2.2.2

/-- in particular the upper-cased and the lower-cased copy of a DNA string translate like the string itself -/
theorem translate_case_upper_lower (t : Table) (s : Str) (h : Acgt s) :
    translateCore t (upper s) = translateCore t s ∧ translateCore t (lower s) = translateCore t s := by
  constructor
  · apply translate_case t _ _
    simp only [upper, List.map_map]
    exact List.map_congr_left fun a ha => (upper_upper_acgt a (h a ha)).1
  · apply translate_case t _ _
    simp only [upper, lower, List.map_map]
    exact List.map_congr_left fun a ha => (upper_upper_acgt a (h a ha)).2.1

theorem acgt_upper_mem_all64 : ∀ x ∈ acgtLetters, ∀ y ∈ acgtLetters, ∀ z ∈ acgtLetters,
    upper [x, y, z] ∈ all64 := by decide +kernel

/-- under a well-formed table every A/C/G/T codon, in either case, reads as exactly one letter -/
theorem aaOf_single (t : Table) (h : WFTable t) (c : Str) (hc : Acgt c) (h3 : c.length = 3) :
    ∃ r : Char, aaOf t c = [r] := by
  match c, h3 with
  | [x, y, z], _ =>
    have hm := acgt_upper_mem_all64 x (hc x (by simp)) y (hc y (by simp)) z (hc z (by simp))
    have hin := h.1.2.2 _ hm
    rw [triplets_eq_keys] at hin
    obtain ⟨e, he, hek⟩ := List.mem_map.1 hin
    have hnd : ((translationMap t).map (·.1)).Nodup := by rw [← triplets_eq_keys]; exact h.1.1
    have hg := mapGet_of_nodup (translationMap t) e.1 e.2 hnd he
    -- the value is the letter of an amino-acid entry: one character
    have hv : e.2.length = 1 := by
      simp only [translationMap, List.mem_flatMap, List.mem_map] at he
      obtain ⟨a, ha, c', _, rfl⟩ := he
      exact h.2 a ha
    match hv2 : e.2, hv with
    | [r], _ =>
      refine ⟨r, ?_⟩
      simp only [aaOf, mapGetStr]
      rw [← hek, hg, hv2]

/-- a codon that holds a letter outside A/C/G/T (in either case) — N, U, a gap, a letter outside ASCII — is in no
well-formed table: it contributes NO residue (the empty string), and the frame goes on with the next three letters.
With `translate_chunks` this says what the translation of an arbitrary string is: one residue per complete in-frame
A/C/G/T codon, nothing for the other complete codons, nothing for a trailing partial codon. -/
theorem translate_foreign_codon (t : Table) (h : WFTable t) (c : Str) (hc : upper c ∉ all64) : aaOf t c = [] := by
  simp only [aaOf, mapGetStr]
  have : mapGet (translationMap t) (upper c) = none := by
    rw [mapGet_none_iff]
    intro e he hek
    apply hc
    apply h.1.2.1
    rw [triplets_eq_keys]
    exact hek ▸ List.mem_map_of_mem (f := (·.1)) he
  rw [this]

/-- one residue per complete in-frame codon: for an A/C/G/T string under a well-formed table the
translation has exactly ⌊|s|/3⌋ letters -/
theorem translate_len (t : Table) (h : WFTable t) (s : Str) (hs : Acgt s) :
    (translateCore t s).length = s.length / 3 := by
  rw [translate_chunks t s, ← chunks3_length]
  have : ∀ l : List Str, (∀ c ∈ l, Acgt c ∧ c.length = 3) → (l.flatMap (aaOf t)).length = l.length := by
    intro l
    induction l with
    | nil => simp
    | cons c cs ih =>
      intro hl
      obtain ⟨r, hr⟩ := aaOf_single t h c (hl c (by simp)).1 (hl c (by simp)).2
      simp [hr, ih (fun x hx => hl x (by simp [hx]))]
  apply this
  intro c hc
  exact ⟨fun x hx => hs x (chunks3_mem_sub s c hc x hx), chunks3_mem_length s c hc⟩

/-- … and it is the map of "the letter of the codon" over the complete in-frame codons -/
theorem translate_map (t : Table) (h : WFTable t) (s : Str) (hs : Acgt s) :
    ∃ residue : Str → Char, (∀ c ∈ chunks3 s, aaOf t c = [residue c]) ∧
      translateCore t s = (chunks3 s).map residue := by
  refine ⟨fun c => (aaOf t c).headD '?', ?_, ?_⟩
  · intro c hc
    obtain ⟨r, hr⟩ := aaOf_single t h c (fun x hx => hs x (chunks3_mem_sub s c hc x hx)) (chunks3_mem_length s c hc)
    simp [hr]
  · rw [translate_chunks t s]
    have : ∀ l : List Str, (∀ c ∈ l, ∃ r, aaOf t c = [r]) → l.flatMap (aaOf t) = l.map fun c => (aaOf t c).headD '?' := by
      intro l
      induction l with
      | nil => simp
      | cons c cs ih =>
        intro hl
        obtain ⟨r, hr⟩ := hl c (by simp)
        simp [hr, ih (fun x hx => hl x (by simp [hx]))]
    apply this
    intro c hc
    exact aaOf_single t h c (fun x hx => hs x (chunks3_mem_sub s c hc x hx)) (chunks3_mem_length s c hc)

theorem ncbi_chunks (id : Nat) (t : Table)
    (cell : ∀ x ∈ acgtLetters, ∀ y ∈ acgtLetters, ∀ z ∈ acgtLetters,
      ∃ r, Spec.Ncbi.aa id [x.toUpper, y.toUpper, z.toUpper] = some r ∧ aaOf t [x, y, z] = [r]) :
    ∀ s : Str, Acgt s → (Spec.Ncbi.codonsOf s).mapM (Spec.Ncbi.aa id) = some ((chunks3 s).flatMap (aaOf t))
  | a :: b :: c :: rest, h => by
    obtain ⟨r, hr1, hr2⟩ := cell a (h a (by simp)) b (h b (by simp)) c (h c (by simp))
    have ih := ncbi_chunks id t cell rest (fun x hx => h x (by simp [hx]))
    simp [Spec.Ncbi.codonsOf, chunks3, hr1, hr2, ih]
  | [], _ => by simp [Spec.Ncbi.codonsOf, chunks3]
  | [_], _ => by simp [Spec.Ncbi.codonsOf, chunks3]
  | [_, _], _ => by simp [Spec.Ncbi.codonsOf, chunks3]

/-- the translation of a DNA string under a default table is NCBI's translation of it -/
theorem translate_is_ncbi : ∀ id ∈ Spec.Ncbi.ids, ∀ s : Str, Acgt s →
    Spec.Ncbi.translation id s = some (translateCore (getCodonTable id) s) := by
  intro id hid s hs
  obtain ⟨hlen, _, hcells⟩ := rowOk_spec (rows_ok id hid)
  rw [translate_chunks _ s]
  simp only [Spec.Ncbi.translation]
  -- per codon
  have cell : ∀ x ∈ acgtLetters, ∀ y ∈ acgtLetters, ∀ z ∈ acgtLetters,
      ∃ r, Spec.Ncbi.aa id [x.toUpper, y.toUpper, z.toUpper] = some r ∧ aaOf (getCodonTable id) [x, y, z] = [r] := by
    intro x hx y hy z hz
    have hm := acgt_upper_mem_all64 x hx y hy z hz
    obtain ⟨i, hi, hget⟩ := List.getElem_of_mem hm
    have hi' : i < (gen64 id).length := by rw [hlen, ← all64_length]; exact hi
    have hp : (all64[i], (gen64 id)[i]) ∈ all64.zip (gen64 id) := by
      have : (all64.zip (gen64 id))[i]'(by simp [List.length_zip]; omega) = (all64[i], (gen64 id)[i]) := by simp
      exact this ▸ List.getElem_mem _
    refine ⟨(gen64 id)[i], ?_, ?_⟩
    · have := (hcells _ hp).1
      simp only [hget, upper, List.map_cons, List.map_nil] at this
      exact this
    · have := (hcells _ hp).2
      simp only [aaOf, hget] at this ⊢
      have hu : upper (upper [x, y, z]) = upper [x, y, z] := all64_upper _ hm
      rw [hu] at this
      exact this
  exact ncbi_chunks id (getCodonTable id) cell s hs

/-! ### the two error branches, and success otherwise -/

theorem translate_empty_table (s : Str) : translate s { startCodons := [], stopCodons := [], aminoAcids := [] } = .err := rfl

theorem translate_empty_sequence (t : Table) : translate [] t = .err := by
  simp [translate, byteLen]

theorem translate_ok (t : Table) (s : Str) (ht : emptyTable t = false) (hs : s ≠ []) :
    translate s t = .ok (translateCore t s) := by
  have : byteLen s ≠ 0 := fun h => hs ((byteLen_eq_zero s).1 h)
  simp [translate, ht, this]

/-- the concatenation law at the level of the API, for two non-empty pieces -/
theorem translate_append_api (t : Table) (ht : emptyTable t = false) (a b : Str)
    (hna : a ≠ []) (hnb : b ≠ []) (h3 : a.length % 3 = 0) :
    ∃ va vb, translate a t = .ok va ∧ translate b t = .ok vb ∧ translate (a ++ b) t = .ok (va ++ vb) := by
  refine ⟨translateCore t a, translateCore t b, translate_ok t a ht hna, translate_ok t b ht hnb, ?_⟩
  rw [translate_ok t (a ++ b) ht (by simp [hna]), translate_append t a b h3]

/-- … and the degenerate split points 0 and n: the API rejects the empty piece (`errEmtpySequenceString`) while
its translation proper is the empty protein, so the law holds there only when that error is READ AS the empty
protein.  The judge of the correspondence check does exactly this (class tag `empty-piece`); this lemma records
that the model behaves the same way. -/
theorem translate_empty_piece (t : Table) (s : Str) :
    translate [] t = .err ∧ translateCore t [] = [] ∧
    translateCore t ([] ++ s) = translateCore t [] ++ translateCore t s ∧
    translateCore t (s ++ []) = translateCore t s ++ translateCore t [] := by
  refine ⟨translate_empty_sequence t, rfl, ?_, ?_⟩
  · simp [show translateCore t [] = [] from rfl]
  · simp [show translateCore t [] = [] from rfl]

/-! ### non-vacuity -/

example : WFTable (getCodonTable 11) ∧ Acgt "atgGCTtaaGG".toList ∧
    translate "atgGCTtaaGG".toList (getCodonTable 11) = .ok "MA*".toList := by decide +kernel

example : Spec.Ncbi.translation 2 "ATGTGAAGA".toList = some "MW*".toList ∧
    Spec.Ncbi.translation 1 "ATGTGAAGA".toList = some "M*R".toList := by decide +kernel

/-- last write wins when a table lists a triplet twice (not a well-formed table) -/
example : translate "AAA".toList
    { startCodons := [], stopCodons := [],
      aminoAcids := [{ letter := ['X'], codons := [{ triplet := "AAA".toList, weight := 1 }] },
                     { letter := ['Y'], codons := [{ triplet := "AAA".toList, weight := 1 }] }] } = .ok ['Y'] := by decide +kernel

/-- a codon the table does not list contributes the empty string; letters outside ASCII count as one letter each -/
example : translate "ATGNNNTAA".toList (getCodonTable 1) = .ok "M*".toList ∧
    translate "ATéGCTTAA".toList (getCodonTable 1) = .ok "A*".toList := by decide +kernel

end PolyVerif.Props.C06
