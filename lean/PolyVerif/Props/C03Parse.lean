import PolyVerif.Props.C03
import PolyVerif.Lemmas.GbRoundTrip
/-
C03, write-then-read over the PARSER MODEL of property C01 (kept in a module of its own: it depends on
C01's spec and lemma files).
-/
namespace PolyVerif.Props.C03
open PolyVerif PolyVerif.StrBuild PolyVerif.GenbankBuild PolyVerif.Spec.GbStrict

/-! ### write-then-read over the parser model of property C01

Full statement (the property's clause):

    parse_build : WFSeq x → ∃ y, Genbank.parse (build x o) = .ok y ∧ y ≈ x          (WFSeq x := wfSeq x = true)

Proved below as `parse_build_partial` under the stronger, decidable hypothesis `covered x`
(Spec/GbRoundTrip.lean): `wfSeq x` AND the record is one that C01's abstract record type `GbRec`
expresses (molecule type DNA / mRNA / tRNA / rRNA, exactly one topology, a division, a date with a
real month, the LOCUS length equal to the number of bases, extra keywords of ≤ 10 capitals,
qualifier keys over `[a-z0-9_]`, values without quotation marks, … = `GbLayout.wf (toRec x)`) AND
every REFERENCE line has a range and fits on one line.  What is missing for the full statement is
on the C01 side (its composition theorem `parseLoop_layout` is stated for `GbRec`, which has no
empty locus fields, eight fewer molecule types, …) plus the wrapped REFERENCE line; on those
records the clause rests on the correspondence check (the REAL `Parse(Build(x)) ≈ x` is judged on
every case, and the parser MODEL is compared with the real parser on every written text). -/

open PolyVerif.Spec.GbRoundTrip in
/-- **Write-then-read (partial).**  For every covered record and every map iteration order the
parser model accepts the text `Build` writes and returns the record the writer was given: same
sequence, locus, metadata, references (numbered by position), extra blocks, and per feature the
same key, the same location text (cached, else `BuildLocationString` of the structure) and the
same qualifier map.  Metadata of any length (wrapped by `WrapString` wherever it breaks), any
number of features / qualifiers / references / blocks, any sequence length < 10^8. -/
theorem parse_build_partial (x : Sequence) (o : MapOrders) (h : covered x = true) :
    ∃ y, Genbank.parse (build x o) = .ok y ∧ approx x y = true :=
  ⟨_, PolyVerif.Lemmas.GbRoundTrip.parse_build_covered x o h, PolyVerif.Lemmas.GbRoundTrip.approx_covered x h⟩

/-- a covered record: wrapped definition, a reference, an extra block, two features -/
def coveredRecord : Sequence :=
  { exampleRecord with
    metadata := { exampleRecord.metadata with
      locus := { exampleRecord.metadata.locus with moleculeType := "DNA".toList },
      keywords := ".".toList },
    features :=
      [ { type := "CDS".toList,
          sequenceLocation := { join := true, subs := [{ start := 0, stop := 10, five := true }, { start := 20, stop := 30, complement := true }] },
          attributes := [("product".toList, "beta lactamase".toList), ("gene".toList, "bla".toList)] },
        { type := "misc_feature".toList, gbkLocationString := "complement(5..>60)".toList,
          sequenceLocation := { start := 4, stop := 60, complement := true, three := true } } ] }

open PolyVerif.Spec.GbRoundTrip in
/-- non-vacuity of `parse_build_partial` -/
example : covered coveredRecord = true := by decide +kernel

end PolyVerif.Props.C03
