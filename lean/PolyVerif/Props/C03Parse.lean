import PolyVerif.Props.C03
import PolyVerif.Lemmas.GbRoundTripG
/-
C03, write-then-read over the PARSER MODEL of property C01 (kept in a module of its own: it depends on
C01's spec and lemma files).
-/
namespace PolyVerif.Props.C03
open PolyVerif PolyVerif.StrBuild PolyVerif.GenbankBuild PolyVerif.Spec.GbStrict

/-! ### write-then-read over the parser model of property C01

Full statement (the property's clause):

    parse_build : WFSeq x → ∃ y, Genbank.parse (build x o) = .ok y ∧ y ≈ x          (WFSeq x := wfSeq x = true)

Proved below as `parse_build_partial` under the decidable hypothesis `covered x` (Spec/GbRoundTrip.lean) =
the judge's round-trip domain `wfSeqJ` minus the two known findings (`wfLayoutG`: metadata may hold runs
of blanks none of which falls on a wrap point), AND every REFERENCE
line wrapped without loss (any length; only a break AT its own two blanks is excluded), AND
`GbLayout.wf (toRec x)` (the record, as C01's abstract record type expresses it, lies in C01's domain:
a date with a real month, no quotation mark in a qualifier key, a location text that is one INSDC-shaped
expression, fewer than 10^8 bases), AND every structurally assembled location inside the part on which
read-after-write of the STRUCTURE is a theorem (`wfFeatureLoc` / `locProved`: every span forward on a
sequence, `0 ≤ Start < End`, and no one-operand node with the `Join` flag — that is C02's `Rep ∧ InRange ∧
Arity` — or the location is ONE span, then with any integers).  The complete list with reasons: `PARTIAL` in gen/c03.py.  On the
remaining records the clause rests on the correspondence check (the REAL `Parse(Build(x)) ≈ x` is judged on
every case, and the parser MODEL is compared with the real parser on every written text). -/

open PolyVerif.Spec.GbRoundTrip in
/-- **Write-then-read (partial).**  For every covered record and every map iteration order the
parser model accepts the text `Build` writes and returns the record the writer was given: same
sequence, locus, metadata, references (each with its own number when it has one, else numbered by its
position), extra blocks, and per feature the
same key, the same location text (cached, else `BuildLocationString` of the structure), the same
location STRUCTURE (`parseLocation` — C02's model of what `Parse` does with the location text — applied
to the text read back returns `SequenceLocation` modulo `normLoc`: for a cached text by the hypothesis
`cacheConsistent`, for a structurally assembled feature by `location_structure_read_back` below), and the
same qualifier map.  Metadata of any length (wrapped by `WrapString`
wherever it breaks), any number of features / qualifiers / references / blocks, any sequence length
< 10^8.  The result is stated EXACTLY: it is `toSequence (toRec x)`, the record that property C01's
abstract record type states for `x` — in particular an UNSET `Reference.Index` comes back as the
position, because that is what `Build` writes for it (be39eee): `{Index:""}` at position 1 and
`{Index:"1"}` are written to the same bytes, and `approx` says so (`withDefaultIndex`). -/
theorem parse_build_partial (x : Sequence) (o : MapOrders) (h : covered x = true) :
    Genbank.parse (build x o) = .ok (PolyVerif.GbLayout.toSequence (toRec x))
      ∧ approx x (PolyVerif.GbLayout.toSequence (toRec x)) = true :=
  ⟨PolyVerif.Lemmas.GbRoundTripG.parse_build_covered x o h, PolyVerif.Lemmas.GbRoundTripG.approx_covered x h⟩

/-- **"equal locations" for a structurally assembled feature**: `parseLocation` applied to the text
`BuildLocationString` writes for `p` succeeds and returns `p` modulo `normLoc` (partial flags of inner
nodes and the `Join` flag of a node with several operands are derived).  Domain `locProved` (decidable):
`wfLoc p` and either C02's domain (every span `0 ≤ Start < End`, no one-operand `Join` node; any nesting
of joins, merged complements, complement wrappers, any partial markers) or one span with ANY integers
(`-4..3`, `1..0`, `{0,0}`).  Over C02's `parseLocation_tprint` and `buildLoc_rep`; the bridge from C03's
decidable domain to C02's `Rep p l ∧ InRange ∧ Arity` is `Lemmas/GbLocStruct.lean` (`locOf`, `rep_locOf`). -/
theorem location_structure_read_back (p : Location.PLoc) (h : locProved p = true) :
    ∃ q, Location.parseLocation (Location.buildLoc p) = .ok q ∧ locBeq (normLoc q) (normLoc p) = true :=
  PolyVerif.Lemmas.GbLocStruct.parse_buildLoc_struct p h

/-- non-vacuity: a complemented join of a 5′-partial span and a complemented 3′-partial span, a double
complement, and a lone span with a negative start -/
example :
    locProved { complement := true, subs := [{ start := 0, stop := 10, five := true }, { start := 20, stop := 30, complement := true, three := true }] } = true
    ∧ locProved { complement := true, subs := [{ start := 2, stop := 9, complement := true }] } = true
    ∧ locProved { start := -5, stop := 3 } = true := by decide

/-- outside it (tested only): a span with a negative start below a join, `join(x)` with one operand -/
example :
    locProved { subs := [{ start := -5, stop := 3 }, { start := 4, stop := 9 }] } = false
    ∧ wfLoc { subs := [{ start := -5, stop := 3 }, { start := 4, stop := 9 }] } = true
    ∧ locProved { join := true, subs := [{ start := 1, stop := 3 }] } = false := by decide

/-- a sparse record: no length, molecule type, topology, division or date; a reference without range -/
def sparseRecord : Sequence :=
  { metadata := { locus := { name := "x1".toList }, references := [{ index := "1".toList, authors := "A".toList }] },
    features := [{ type := "gene".toList }],
    sequence := "acgt".toList }

/-- a record with a run of blanks inside a line, a REFERENCE line of 100 columns (wrapped inside the range)
with its own number 7, an unnumbered reference, and the number 7 once more -/
def wideRecord : Sequence :=
  { metadata := { locus := { name := "w1".toList, sequenceLength := "4".toList },
                  definition := "two   blanks inside".toList,
                  references := [{ range := "(bases 1 to 10; 20 to 30; 40 to 50; 60 to 70; 80 to 90; 100 to 110; 120 to 130)".toList, index := "7".toList }, { authors := "unnumbered".toList }, { index := "7".toList }] },
    sequence := "acgt".toList }

/-- a covered record: wrapped definition, a reference, an extra block, two features -/
def coveredRecord : Sequence :=
  { exampleRecord with
    metadata := { exampleRecord.metadata with
      locus := { exampleRecord.metadata.locus with moleculeType := "DNA".toList },
      keywords := ".".toList },
    features :=
      [ { type := "CDS".toList,
          sequenceLocation := { join := true, subs := [{ start := 0, stop := 10, five := true }, { start := 20, stop := 30, complement := true }] },
          attributes := [("product".toList, "beta lactamase".toList), ("gene".toList, "bla".toList)] },
        { type := "misc_feature".toList, gbkLocationString := "complement(5..>60)".toList,
          sequenceLocation := { start := 4, stop := 60, complement := true, three := true } } ] }

open PolyVerif.Spec.GbRoundTrip in
/-- non-vacuity of `parse_build_partial` -/
example : covered coveredRecord = true := by decide +kernel

open PolyVerif.Spec.GbRoundTrip in
/-- … also with a two-word molecule type and quotation marks inside a value, and with every optional
LOCUS field absent, a reference without range and a feature without location -/
example :
    covered { coveredRecord with
        metadata := { coveredRecord.metadata with locus := { coveredRecord.metadata.locus with moleculeType := "genomic DNA".toList } },
        features := [{ type := "CDS".toList, attributes := [("product".toList, "beta \"lactamase\" (bla)".toList), ("EC_number".toList, "3.5.2.6".toList)] }] } = true
    ∧ covered sparseRecord = true ∧ covered wideRecord = true := by decide +kernel

end PolyVerif.Props.C03
