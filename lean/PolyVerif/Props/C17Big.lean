import PolyVerif.Model.DeBruijn
import PolyVerif.Spec.DeBruijn
/-
C17, the two expensive kernel evaluations: the model of NucleobaseDeBruijnSequence, run by the
kernel for orders 7 and 8, passes the verified checker (`Spec.check`, proved sound in Props/C17
`windowsDistinct_sound`).  Kept in a module of its own, importing only the sequence model and the
checker, so that it is rebuilt (≈ 20 s + 75 s) only when one of those two changes.
Orders 1..6 are in Props/C17, orders 9..11 (compiled evaluation) in Props/C17Native.
-/
namespace PolyVerif.Props.C17
open PolyVerif PolyVerif.DeBruijn PolyVerif.Spec

set_option maxRecDepth 1000000 in
theorem db_ok_7 : checkOptWith 0 7 (deBruijn 7).toOption = true := by decide +kernel

set_option maxRecDepth 1000000 in
theorem db_ok_8 : checkOptWith 0 8 (deBruijn 8).toOption = true := by decide +kernel

end PolyVerif.Props.C17
