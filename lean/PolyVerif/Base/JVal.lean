/-
JSON values as `encoding/json` sees them for the poly structs, a compact printer, and the
shape of the regenerated struct tables (`Gen/PolyStructs.lean`).

Strings are lists of Unicode code points (`S`), not `List Char`: property C15 names
non-ASCII text, and the text layer of `encoding/json` (UTF-8, escaping) is outside the
model — it is tied by correspondence only.  Numbers are integers: the poly structs contain
no float field (the regenerated table says so; any other kind is `PKind.other`).
-/
namespace PolyVerif

/-- a Go string as its code points (valid scalar values in every generated case) -/
abbrev S := List Nat

/-- A JSON document.  Objects keep their members in textual order (Go emits struct fields
in declaration order and map entries sorted by key; the decoder processes members in
textual order). -/
inductive JVal where
  | null
  | bool (b : Bool)
  | num (n : Int)
  | str (s : S)
  | arr (xs : List JVal)
  | obj (kvs : List (S × JVal))

/-- kind of a Go struct field as `reflect` reports it -/
inductive PKind where
  | str | int | bool
  | struct (name : String)
  | slice (elem : PKind)
  | mapSS                    -- map[string]string
  | ptr (name : String)      -- pointer to a named struct
  | other (desc : String)    -- anything the model does not cover
  deriving DecidableEq, Repr

/-- One row of the regenerated table: the Go field, the JSON member name `encoding/json`
actually uses for it (`none`: the field is never written nor read), whether the member is
omitted for an empty value, the field's kind, and flags for behaviour outside the model
(`quoted`, `custom`, `asym`, `unexported`, `embedded`, `multi`). -/
structure PField where
  go : String
  json : Option S
  omitempty : Bool
  kind : PKind
  flags : List String
  deriving DecidableEq, Repr

def ofStr (s : String) : S := s.toList.map Char.toNat
def toStr (s : S) : String := String.ofList (s.map Char.ofNat)

/-- `omitempty` test on the encoded value (false, 0, "", null/nil, empty array / map) -/
def JVal.isEmpty : JVal → Bool
  | .null => true
  | .bool b => !b
  | .num n => n == 0
  | .str s => s.isEmpty
  | .arr xs => xs.isEmpty
  | .obj kvs => kvs.isEmpty

/-- `json.Marshal` of a struct: the table's fields in order; a field without JSON name is
skipped; an `omitempty` field of non-struct kind is skipped when its value is empty. -/
def encStruct (fs : List PField) (get : String → Option JVal) : JVal :=
  .obj (fs.filterMap fun f =>
    match f.json, get f.go with
    | some k, some v =>
      if f.omitempty && v.isEmpty && (match f.kind with | .struct _ => false | _ => true) then none
      else some (k, v)
    | _, _ => none)

/-- which Go field a JSON member name denotes (exact match; Go additionally falls back to a
case-insensitive match, which no document in the property's domain needs) -/
def fieldOf (fs : List PField) (k : S) : Option String :=
  (fs.find? (fun f => f.json == some k)).map (·.go)

/-! ### printer (compact form; what the harness feeds to the real `polyjson.Parse`) -/

def hexDigit (n : Nat) : Nat := if n < 10 then 48 + n else 87 + n

/-- JSON string body: `"` `\` and control characters escaped, everything else verbatim
(accumulator-passing: documents hold sequences of several million letters) -/
def escJsonAux : S → S → S
  | [], acc => acc.reverse
  | c :: cs, acc =>
    escJsonAux cs
      (if c == 34 then 34 :: 92 :: acc
       else if c == 92 then 92 :: 92 :: acc
       else if c < 32 then hexDigit (c % 16) :: hexDigit (c / 16) :: 48 :: 48 :: 117 :: 92 :: acc
       else c :: acc)

def escJson (s : S) : S := escJsonAux s []

def quoteJson (s : S) : S := 34 :: (escJson s ++ [34])

def intDigits (n : Int) : S := ofStr (toString n)

mutual
def JVal.print : JVal → S
  | .null => ofStr "null"
  | .bool true => ofStr "true"
  | .bool false => ofStr "false"
  | .num n => intDigits n
  | .str s => quoteJson s
  | .arr xs => 91 :: (JVal.printList xs ++ [93])
  | .obj kvs => 123 :: (JVal.printMembers kvs ++ [125])
def JVal.printList : List JVal → S
  | [] => []
  | [x] => JVal.print x
  | x :: y :: xs => JVal.print x ++ 44 :: JVal.printList (y :: xs)
def JVal.printMembers : List (S × JVal) → S
  | [] => []
  | [(k, v)] => quoteJson k ++ 58 :: JVal.print v
  | (k, v) :: m :: ms => quoteJson k ++ 58 :: (JVal.print v ++ 44 :: JVal.printMembers (m :: ms))
end

end PolyVerif
