/-
JSON values as `encoding/json` sees them for the poly structs, a printer for them (compact: `JVal.print`, the text
`json.Marshal` writes, Go's string escapes included; with a layout: `JVal.printL`, `JVal.printIndent` = the text
`json.MarshalIndent(v, "", " ")` writes), and the shape of the regenerated struct tables (`Gen/PolyStructs.lean`).

Strings are lists of code points (`S = List Nat`), not `List Char`: property C15 names non-ASCII text.  Two things
follow: the theorems about these functions (Lemmas/JsonText.lean: the reader of Base/JsonRead.lean reads back everything
the printers write) quantify over ALL lists of naturals, also over "code points" that no Go string holds (surrogates
0xD800–0xDFFF, values above 0x10FFFF) and for which Go would write U+FFFD — Go strings are the lists of scalar values;
and the UTF-8 encoding of code points into bytes is below the model (the correspondence compares decoded text).
Numbers are integers: the poly structs contain no float field (the regenerated table says so; any other kind is
`PKind.other`).
-/
namespace PolyVerif

/-- a Go string as its code points (valid scalar values in every generated case) -/
abbrev S := List Nat

/-- A JSON document.  Objects keep their members in textual order (Go emits struct fields
in declaration order and map entries sorted by key; the decoder processes members in
textual order). -/
inductive JVal where
  | null
  | bool (b : Bool)
  | num (n : Int)
  | str (s : S)
  | arr (xs : List JVal)
  | obj (kvs : List (S × JVal))

/-- kind of a Go struct field as `reflect` reports it -/
inductive PKind where
  | str | int | bool
  | struct (name : String)
  | slice (elem : PKind)
  | mapSS                    -- map[string]string
  | ptr (name : String)      -- pointer to a named struct
  | other (desc : String)    -- anything the model does not cover
  deriving DecidableEq, Repr

/-- One row of the regenerated table: the Go field, the JSON member name `encoding/json`
actually uses for it (`none`: the field is never written nor read), whether the member is
omitted for an empty value, the field's kind, and flags for behaviour outside the model
(`quoted`, `custom`, `asym`, `unexported`, `embedded`, `multi`). -/
structure PField where
  go : String
  json : Option S
  omitempty : Bool
  kind : PKind
  flags : List String
  /-- Go names of the field's type and of every type nested in it (slice / array / pointer element, map key and element) -/
  typs : List String := []
  deriving DecidableEq, Repr

def ofStr (s : String) : S := s.toList.map Char.toNat
def toStr (s : S) : String := String.ofList (s.map Char.ofNat)

/-- `omitempty` test on the encoded value (false, 0, "", null/nil, empty array / map) -/
def JVal.isEmpty : JVal → Bool
  | .null => true
  | .bool b => !b
  | .num n => n == 0
  | .str s => s.isEmpty
  | .arr xs => xs.isEmpty
  | .obj kvs => kvs.isEmpty

/-- `json.Marshal` of a struct: the table's fields in order; a field without JSON name is
skipped; an `omitempty` field of non-struct kind is skipped when its value is empty. -/
def encStruct (fs : List PField) (get : String → Option JVal) : JVal :=
  .obj (fs.filterMap fun f =>
    match f.json, get f.go with
    | some k, some v =>
      if f.omitempty && v.isEmpty && (match f.kind with | .struct _ => false | _ => true) then none
      else some (k, v)
    | _, _ => none)

/-- which Go field a JSON member name denotes (exact match; Go additionally falls back to a
case-insensitive match, which no document in the property's domain needs) -/
def fieldOf (fs : List PField) (k : S) : Option String :=
  (fs.find? (fun f => f.json == some k)).map (·.go)

/-! ### printer (compact form; what the harness feeds to the real `polyjson.Parse`) -/

def hexDigit (n : Nat) : Nat := if n < 10 then 48 + n else 87 + n

/-- `\uXXXX` (four lower-case hex digits) -/
def u4 (c : Nat) : S :=
  [92, 117, hexDigit (c / 4096 % 16), hexDigit (c / 256 % 16), hexDigit (c / 16 % 16), hexDigit (c % 16)]

/-- one code point inside a JSON string, exactly as `encoding/json` (Go 1.23, HTML escaping on) writes it:
`\"` `\\` `\b` `\f` `\n` `\r` `\t`, `\u00XX` for the other control characters, `\u003c` `\u003e` `\u0026` for
`<` `>` `&`, `\u2028` `\u2029`, everything else verbatim -/
def escOne (c : Nat) : S :=
  if c == 34 then [92, 34]
  else if c == 92 then [92, 92]
  else if c == 8 then [92, 98]
  else if c == 12 then [92, 102]
  else if c == 10 then [92, 110]
  else if c == 13 then [92, 114]
  else if c == 9 then [92, 116]
  else if c < 32 || c == 38 || c == 60 || c == 62 || c == 0x2028 || c == 0x2029 then u4 c
  else [c]

/-- JSON string body (accumulator-passing: documents hold sequences of several million letters) -/
def escJsonAux : S → S → S
  | [], acc => acc.reverse
  | c :: cs, acc => escJsonAux cs ((escOne c).reverse ++ acc)

def escJson (s : S) : S := escJsonAux s []

def quoteJson (s : S) : S := 34 :: (escJson s ++ [34])

/-- decimal digits of a natural number, most significant first (fuel `n + 1` is more than enough) -/
def natDigitsAux : Nat → Nat → S → S
  | 0, _, acc => acc
  | f + 1, n, acc => if n < 10 then (48 + n) :: acc else natDigitsAux f (n / 10) ((48 + n % 10) :: acc)

def natDigits (n : Nat) : S := natDigitsAux (n + 1) n []

/-- a JSON integer as Go's `strconv` writes it: `-` for negatives, no leading zeros, no `+` -/
def intDigits (n : Int) : S := if n < 0 then 45 :: natDigits n.natAbs else natDigits n.natAbs

mutual
def JVal.print : JVal → S
  | .null => [110, 117, 108, 108]
  | .bool true => [116, 114, 117, 101]
  | .bool false => [102, 97, 108, 115, 101]
  | .num n => intDigits n
  | .str s => quoteJson s
  | .arr [] => [91, 93]
  | .arr (x :: xs) => 91 :: (JVal.print x ++ JVal.printTail xs)
  | .obj [] => [123, 125]
  | .obj ((k, v) :: ms) => 123 :: (quoteJson k ++ 58 :: (JVal.print v ++ JVal.printMembersTail ms))
/-- the remaining elements, each preceded by `,`, then `]` -/
def JVal.printTail : List JVal → S
  | [] => [93]
  | x :: xs => 44 :: (JVal.print x ++ JVal.printTail xs)
/-- the remaining members, each preceded by `,`, then `}` -/
def JVal.printMembersTail : List (S × JVal) → S
  | [] => [125]
  | (k, v) :: ms => 44 :: (quoteJson k ++ 58 :: (JVal.print v ++ JVal.printMembersTail ms))
end

/-! ### printer with a layout (blanks between tokens), e.g. `json.MarshalIndent` -/

/-- where a JSON writer may put blanks: after `[` / `{` / `,` (before the element or member at nesting depth `d`),
before the closing `]` / `}` of a container at depth `d`, and after `:` -/
structure Layout where
  opn : Nat → S
  cls : Nat → S
  col : S

mutual
/-- the value at nesting depth `d` under layout `L`; empty containers are written `[]` / `{}` unbroken -/
def JVal.printL (L : Layout) : Nat → JVal → S
  | _, .null => [110, 117, 108, 108]
  | _, .bool true => [116, 114, 117, 101]
  | _, .bool false => [102, 97, 108, 115, 101]
  | _, .num n => intDigits n
  | _, .str s => quoteJson s
  | _, .arr [] => [91, 93]
  | d, .arr (x :: xs) => 91 :: (L.opn d ++ (JVal.printL L (d + 1) x ++ JVal.printTailL L d xs))
  | _, .obj [] => [123, 125]
  | d, .obj ((k, v) :: ms) =>
    123 :: (L.opn d ++ (quoteJson k ++ 58 :: (L.col ++ (JVal.printL L (d + 1) v ++ JVal.printMembersTailL L d ms))))
def JVal.printTailL (L : Layout) : Nat → List JVal → S
  | d, [] => L.cls d ++ [93]
  | d, x :: xs => 44 :: (L.opn d ++ (JVal.printL L (d + 1) x ++ JVal.printTailL L d xs))
def JVal.printMembersTailL (L : Layout) : Nat → List (S × JVal) → S
  | d, [] => L.cls d ++ [125]
  | d, (k, v) :: ms =>
    44 :: (L.opn d ++ (quoteJson k ++ 58 :: (L.col ++ (JVal.printL L (d + 1) v ++ JVal.printMembersTailL L d ms))))
end

/-- `json.MarshalIndent(v, "", " ")` (what `polyjson.Write` stores): a newline and one blank per nesting level before every
element / member and before the closing bracket, one blank after `:` -/
def indentLayout : Layout :=
  { opn := fun d => 10 :: List.replicate (d + 1) 32, cls := fun d => 10 :: List.replicate d 32, col := [32] }

def JVal.printIndent (v : JVal) : S := JVal.printL indentLayout 0 v

end PolyVerif
