/-
Go channels as a small-step transition system (DESIGN.md §3, "Goroutines and channels").

One PRODUCER goroutine, given as a straight-line program of `send ch v` / `close ch` steps
(what a parser goroutine does to its output channels, in program order), and one CONSUMER,
given only by the set of channels it is blocked receiving on as a function of what it has
received so far (so: any consumer written with plain receives, `for range`, or `select`
without `default`/timeouts; how long it stalls between receives is the scheduler's choice,
i.e. the choice of the interleaving).  `Step` is the interleaving relation with Go's rules:

  * send on an open channel with room in the buffer appends to the buffer;
  * send on an open channel with capacity 0 is a rendezvous: it happens only together with a
    receive by a consumer that is ready on that channel;
  * otherwise a send blocks (no step);
  * send on / close of a closed channel panics (`panicked`, the producer is dead);
  * receive takes the oldest buffered value; on an empty closed channel it returns "closed"
    (`none`); on an empty open channel it blocks.

Channels are identified by numbers; the theorems in Lemmas/Chan.lean are about programs that
use the channels 0 and 1 only (one producer, one or two channels).  `closes` is a history
variable (number of close operations that succeeded) so that "closed exactly once" is a
statement about states.  Core Lean only: the drivers run `runFuel` below.
-/
namespace PolyVerif.Chan

-- channels are identified by natural numbers

structure Chan (α : Type) where
  cap : Nat
  buf : List α
  closed : Bool
  closes : Nat

inductive Op (α : Type) where
  | send (ch : Nat) (v : α)
  | close (ch : Nat)

def Op.chan {α : Type} : Op α → Nat
  | .send ch _ => ch
  | .close ch => ch

/-- one completed receive: the channel and the value, `none` = "channel closed" (`v, ok := <-ch` with `!ok`) -/
abbrev Obs (α : Type) := Nat × Option α

/-- A consumer: the channels it is ready to receive from, given what it has received so far. -/
structure Consumer (α : Type) where
  ready : List (Obs α) → Nat → Bool

structure Sys (α : Type) where
  chans : Nat → Chan α
  prog : List (Op α)
  panicked : Bool
  hist : List (Obs α)

def upd {α : Type} (f : Nat → Chan α) (ch : Nat) (c : Chan α) : Nat → Chan α :=
  fun i => if i = ch then c else f i

@[simp] theorem upd_same {α : Type} (f : Nat → Chan α) (ch : Nat) (c : Chan α) : upd f ch c ch = c := by
  simp [upd]

theorem upd_other {α : Type} (f : Nat → Chan α) {ch i : Nat} (c : Chan α) (h : i ≠ ch) : upd f ch c i = f i := by
  simp [upd, h]

def init {α : Type} (caps : Nat → Nat) (P : List (Op α)) : Sys α :=
  { chans := fun ch => { cap := caps ch, buf := [], closed := false, closes := 0 },
    prog := P, panicked := false, hist := [] }

inductive Step {α : Type} (C : Consumer α) : Sys α → Sys α → Prop
  | sendBuf {s : Sys α} {ch : Nat} {v : α} {rest : List (Op α)} :
      s.prog = .send ch v :: rest → (s.chans ch).closed = false → (s.chans ch).buf.length < (s.chans ch).cap →
      Step C s { s with prog := rest, chans := upd s.chans ch { s.chans ch with buf := (s.chans ch).buf ++ [v] } }
  | sendSync {s : Sys α} {ch : Nat} {v : α} {rest : List (Op α)} :
      s.prog = .send ch v :: rest → (s.chans ch).closed = false → (s.chans ch).cap = 0 → C.ready s.hist ch = true →
      Step C s { s with prog := rest, hist := s.hist ++ [(ch, some v)] }
  | sendClosed {s : Sys α} {ch : Nat} {v : α} {rest : List (Op α)} :
      s.prog = .send ch v :: rest → (s.chans ch).closed = true →
      Step C s { s with prog := [], panicked := true }
  | close {s : Sys α} {ch : Nat} {rest : List (Op α)} :
      s.prog = .close ch :: rest → (s.chans ch).closed = false →
      Step C s { s with prog := rest,
                        chans := upd s.chans ch { s.chans ch with closed := true, closes := (s.chans ch).closes + 1 } }
  | closeClosed {s : Sys α} {ch : Nat} {rest : List (Op α)} :
      s.prog = .close ch :: rest → (s.chans ch).closed = true →
      Step C s { s with prog := [], panicked := true }
  | recv {s : Sys α} {ch : Nat} {v : α} {b : List α} :
      C.ready s.hist ch = true → (s.chans ch).buf = v :: b →
      Step C s { s with chans := upd s.chans ch { s.chans ch with buf := b }, hist := s.hist ++ [(ch, some v)] }
  | recvClosed {s : Sys α} {ch : Nat} :
      C.ready s.hist ch = true → (s.chans ch).buf = [] → (s.chans ch).closed = true →
      Step C s { s with hist := s.hist ++ [(ch, none)] }

/-- `Reach C s t`: some schedule leads from `s` to `t` -/
inductive Reach {α : Type} (C : Consumer α) : Sys α → Sys α → Prop
  | refl (s : Sys α) : Reach C s s
  | tail {s t u : Sys α} : Reach C s t → Step C t u → Reach C s u

/-- `ReachN C n s t`: a schedule of exactly `n` steps -/
inductive ReachN {α : Type} (C : Consumer α) : Nat → Sys α → Sys α → Prop
  | refl (s : Sys α) : ReachN C 0 s s
  | tail {n : Nat} {s t u : Sys α} : ReachN C n s t → Step C t u → ReachN C (n + 1) s u

/-- no step is possible: the run is maximal (finished or deadlocked) -/
def Stuck {α : Type} (C : Consumer α) (s : Sys α) : Prop := ∀ t, ¬ Step C s t

/-- values sent to `ch` by a program, in program order -/
def sends {α : Type} (ch : Nat) : List (Op α) → List α
  | [] => []
  | .send c v :: r => if c = ch then v :: sends ch r else sends ch r
  | .close _ :: r => sends ch r

/-- values received from `ch`, in order -/
def recvd {α : Type} (ch : Nat) : List (Obs α) → List α
  | [] => []
  | (c, some v) :: r => if c = ch then v :: recvd ch r else recvd ch r
  | (_, none) :: r => recvd ch r

/-- the consumer has observed `ch` closed -/
def seen {α : Type} (h : List (Obs α)) (ch : Nat) : Bool :=
  h.any (fun o => o.1 == ch && o.2.isNone)

/-- no operation on `ch` -/
def quiet {α : Type} (ch : Nat) (p : List (Op α)) : Bool := p.all (fun op => op.chan != ch)

/-- the operations on `ch` are: sends, then exactly one close, then nothing -/
def closesLast {α : Type} (ch : Nat) : List (Op α) → Bool
  | [] => false
  | .send _ _ :: r => closesLast ch r
  | .close c :: r => if c = ch then quiet ch r else closesLast ch r

/-- a producer program over the channels 0 and 1 that closes every channel in `chs` after its last
send to it, exactly once, and touches no other channel -/
def WFProg {α : Type} (chs : List Nat) (P : List (Op α)) : Prop :=
  (∀ op ∈ P, op.chan ∈ chs) ∧ (∀ ch ∈ chs, ch < 2 ∧ closesLast ch P = true)

/-! ### the consumers of the two properties -/

/-- receives from every channel of `D` concurrently (one `for range` goroutine per channel, or a
`select` loop), each until it is observed closed -/
def concurrent {α : Type} (D : List Nat) : Consumer α :=
  ⟨fun h ch => D.contains ch && !seen h ch⟩

/-- `for v := range ch0 { … }` -/
def ranging {α : Type} : Consumer α := concurrent [0]

/-- drains channel 0 until closed, then channel 1 until closed (the documented usage of uniprot.Read:
`for e := range entries {…}; for err := range errors {…}`) -/
def sequential {α : Type} : Consumer α :=
  ⟨fun h ch => if ch = 0 then !seen h 0 else if ch = 1 then seen h 0 && !seen h 1 else false⟩

/-- never receives again from a channel it has seen closed -/
def StopsAtClosed {α : Type} (C : Consumer α) : Prop := ∀ h ch, C.ready h ch = true → seen h ch = false

/-- only ever receives from the channels 0 and 1 -/
def TwoChan {α : Type} (C : Consumer α) : Prop := ∀ h ch, C.ready h ch = true → ch < 2

/-! ### a deterministic scheduler (used by the drivers to compute the outcome of a run; by
`next_sound` its runs are `Step`-paths, so the theorems about all paths apply to them) -/

/-- the producer's step, if enabled -/
def prodStep {α : Type} (C : Consumer α) (s : Sys α) : Option (Sys α) :=
  match s.prog with
  | [] => none
  | .send ch v :: rest =>
    if (s.chans ch).closed then some { s with prog := [], panicked := true }
    else if (s.chans ch).buf.length < (s.chans ch).cap then
      some { s with prog := rest, chans := upd s.chans ch { s.chans ch with buf := (s.chans ch).buf ++ [v] } }
    else if (s.chans ch).cap = 0 ∧ C.ready s.hist ch = true then
      some { s with prog := rest, hist := s.hist ++ [(ch, some v)] }
    else none
  | .close ch :: rest =>
    if (s.chans ch).closed then some { s with prog := [], panicked := true }
    else some { s with prog := rest,
                       chans := upd s.chans ch { s.chans ch with closed := true, closes := (s.chans ch).closes + 1 } }

/-- the consumer's receive on `ch`, if enabled -/
def consStep {α : Type} (C : Consumer α) (s : Sys α) (ch : Nat) : Option (Sys α) :=
  if C.ready s.hist ch = true then
    match (s.chans ch).buf with
    | v :: b => some { s with chans := upd s.chans ch { s.chans ch with buf := b }, hist := s.hist ++ [(ch, some v)] }
    | [] => if (s.chans ch).closed then some { s with hist := s.hist ++ [(ch, none)] } else none
  else none

/-- scheduler: `eager = true` lets the producer run whenever it can (a slow consumer), `false`
prefers the consumer (a fast one) -/
def next {α : Type} (C : Consumer α) (eager : Bool) (s : Sys α) : Option (Sys α) :=
  let p := prodStep C s
  let c := (consStep C s 0).orElse (fun _ => consStep C s 1)
  if eager then p.orElse (fun _ => c) else c.orElse (fun _ => p)

def runFuel {α : Type} (C : Consumer α) (eager : Bool) : Nat → Sys α → Sys α
  | 0, s => s
  | n + 1, s => match next C eager s with
    | some t => runFuel C eager n t
    | none => s

/-- an upper bound on the length of any run (see `Lemmas/Chan.lean`, `measure`) -/
def fuelFor {α : Type} (s : Sys α) : Nat :=
  3 * s.prog.length + (s.chans 0).buf.length + (s.chans 1).buf.length + 2

end PolyVerif.Chan
