import PolyVerif.Base.Proto
/-
Generic `main` of a per-property model driver executable (`pm_Cxx`):
  pm_Cxx render                  : stdin = abstract cases, stdout = harness requests
  pm_Cxx judge <cases> <outs>    : one verdict line per case
Drivers import models, specs and regenerated tables only (no proof module, no Mathlib).
-/
namespace PolyVerif

def stripNl (cs : List Char) : List Char :=
  match cs.getLast? with
  | some '\n' => cs.dropLast
  | _ => cs

partial def renderLoop (d : PropDriver) (h : IO.FS.Stream) (out : IO.FS.Stream) : IO Unit := do
  let line ← h.getLine
  if line.isEmpty then return ()
  let line := String.ofList (stripNl line.toList)
  out.putStrLn (lineOf (d.render (fieldsOf line)))
  renderLoop d h out

def driverMain (d : PropDriver) (args : List String) : IO UInt32 := do
  match args with
  | ["render"] =>
    renderLoop d (← IO.getStdin) (← IO.getStdout); (← IO.getStdout).flush; return 0
  | ["judge", casesPath, outsPath] =>
    let cases ← IO.FS.lines casesPath
    let outs ← IO.FS.lines outsPath
    let stdout ← IO.getStdout
    for i in [0:cases.size] do
      let o := if h : i < outs.size then fieldsOf outs[i] else ["missing"]
      stdout.putStrLn (d.judge (fieldsOf cases[i]!) o).toLine
    stdout.flush
    return 0
  | _ => IO.eprintln "usage: pm_Cxx render | judge <cases> <outs>"; return 2

end PolyVerif
