/-
BLAKE3-256 (unkeyed hash mode), written from the BLAKE3 specification.  Used ONLY by the
correspondence check to instantiate the `blake` parameter of the seqhash model; no theorem
depends on it (the theorems hold for every digest function).  It is compared with the vendored Go
BLAKE3 only THROUGH `seqhash.Hash`: every C04/C05 case compares the real hash (Go BLAKE3 of the
canonical representative) with the model's hash computed with `sum256`, on inputs from the empty
string to 10^5 bytes (several chunks and parent nodes).  There is no separate digest op and no
published test vector is checked here.  `sum256_length` (Lemmas/SeqhashSpec) proves the 32-byte length.
-/
namespace PolyVerif.Blake3

def iv : Array UInt32 := #[0x6A09E667, 0xBB67AE85, 0x3C6EF372, 0xA54FF53A, 0x510E527F, 0x9B05688C, 0x1F83D9AB, 0x5BE0CD19]
def perm : Array Nat := #[2, 6, 3, 10, 7, 0, 4, 13, 1, 11, 12, 5, 9, 14, 15, 8]

def CHUNK_START : UInt32 := 1
def CHUNK_END : UInt32 := 2
def PARENT : UInt32 := 4
def ROOT : UInt32 := 8

@[inline] def rotr (x : UInt32) (n : UInt32) : UInt32 := (x >>> n) ||| (x <<< (32 - n))

def g (s : Array UInt32) (a b c d : Nat) (mx my : UInt32) : Array UInt32 :=
  let sa := s[a]! + s[b]! + mx
  let sd := rotr (s[d]! ^^^ sa) 16
  let sc := s[c]! + sd
  let sb := rotr (s[b]! ^^^ sc) 12
  let sa := sa + sb + my
  let sd := rotr (sd ^^^ sa) 8
  let sc := sc + sd
  let sb := rotr (sb ^^^ sc) 7
  (((s.set! a sa).set! b sb).set! c sc).set! d sd

def round (s m : Array UInt32) : Array UInt32 :=
  let s := g s 0 4 8 12 m[0]! m[1]!
  let s := g s 1 5 9 13 m[2]! m[3]!
  let s := g s 2 6 10 14 m[4]! m[5]!
  let s := g s 3 7 11 15 m[6]! m[7]!
  let s := g s 0 5 10 15 m[8]! m[9]!
  let s := g s 1 6 11 12 m[10]! m[11]!
  let s := g s 2 7 8 13 m[12]! m[13]!
  g s 3 4 9 14 m[14]! m[15]!

def permute (m : Array UInt32) : Array UInt32 := perm.map fun i => m[i]!

/-- compression function; returns the 8-word chaining value (= first 8 output words) -/
def compress (cv block : Array UInt32) (counter : UInt64) (blockLen flags : UInt32) : Array UInt32 :=
  let s : Array UInt32 := cv ++ #[iv[0]!, iv[1]!, iv[2]!, iv[3]!, counter.toUInt32, (counter >>> 32).toUInt32, blockLen, flags]
  let rec loop (n : Nat) (s m : Array UInt32) : Array UInt32 :=
    match n with
    | 0 => s
    | n + 1 => let s := round s m; if n = 0 then s else loop n s (permute m)
  let s := loop 7 s block
  (Array.range 8).map fun i => s[i]! ^^^ s[i + 8]!

def wordsOfBlock (bs : List UInt8) : Array UInt32 :=
  let b := (bs ++ List.replicate (64 - bs.length) 0).toArray
  (Array.range 16).map fun i =>
    b[4*i]!.toUInt32 ||| (b[4*i+1]!.toUInt32 <<< (8 : UInt32)) ||| (b[4*i+2]!.toUInt32 <<< (16 : UInt32)) ||| (b[4*i+3]!.toUInt32 <<< (24 : UInt32))

def splitEvery (n : Nat) (bs : List UInt8) : List (List UInt8) :=
  if n = 0 then [bs] else
  let rec go (fuel : Nat) (bs : List UInt8) : List (List UInt8) :=
    match fuel with
    | 0 => []
    | fuel + 1 => if bs.length ≤ n then [bs] else bs.take n :: go fuel (bs.drop n)
  go (bs.length + 1) bs

/-- chaining value of one chunk (≤ 1024 bytes); `rootFlag` is OR-ed into the last block's flags -/
def chunkCV (bs : List UInt8) (index : UInt64) (rootFlag : UInt32) : Array UInt32 :=
  let blocks := splitEvery 64 bs
  let nb := blocks.length
  let rec go (i : Nat) (cv : Array UInt32) : List (List UInt8) → Array UInt32
    | [] => cv
    | b :: rest =>
      let fl := (if i = 0 then CHUNK_START else 0) ||| (if i + 1 = nb then CHUNK_END ||| rootFlag else 0)
      go (i + 1) (compress cv (wordsOfBlock b) index b.length.toUInt32 fl) rest
  go 0 iv blocks

def parentCV (l r : Array UInt32) (rootFlag : UInt32) : Array UInt32 :=
  compress iv (l ++ r) 0 64 (PARENT ||| rootFlag)

/-- largest power of two strictly less than `n` (for `n ≥ 2`) -/
def leftLen (n : Nat) : Nat :=
  let rec go (fuel p : Nat) : Nat := match fuel with
    | 0 => p
    | fuel + 1 => if 2 * p < n then go fuel (2 * p) else p
  go n 1

/-- chaining value of a subtree of chunks; `first` = index of its first chunk -/
def subtreeCV (fuel : Nat) (chunks : List (List UInt8)) (first : Nat) (rootFlag : UInt32) : Array UInt32 :=
  match fuel with
  | 0 => iv
  | fuel + 1 =>
    match chunks with
    | [] => chunkCV [] 0 rootFlag
    | [c] => chunkCV c first.toUInt64 rootFlag
    | _ =>
      let k := leftLen chunks.length
      parentCV (subtreeCV fuel (chunks.take k) first 0) (subtreeCV fuel (chunks.drop k) (first + k) 0) rootFlag

def sum256 (bs : List UInt8) : List UInt8 :=
  let chunks := splitEvery 1024 bs
  let cv := subtreeCV (chunks.length + 1) chunks 0 ROOT
  cv.toList.flatMap fun (w : UInt32) => [w.toUInt8, (w >>> (8 : UInt32)).toUInt8, (w >>> (16 : UInt32)).toUInt8, (w >>> (24 : UInt32)).toUInt8]

end PolyVerif.Blake3
