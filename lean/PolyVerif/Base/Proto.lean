/-
Line protocol shared by the case generators (Python), the Go harness and the
Lean driver.  One case per line, fields separated by TAB, every field escaped
so that it contains no TAB / LF / CR / backslash.
-/
namespace PolyVerif

abbrev Str := List Char

/-- tail-recursive (fields can be millions of characters long) -/
def escapeAux : List Char → List Char → List Char
  | [], acc => acc.reverse
  | '\\' :: cs, acc => escapeAux cs ('\\' :: '\\' :: acc)
  | '\n' :: cs, acc => escapeAux cs ('n' :: '\\' :: acc)
  | '\t' :: cs, acc => escapeAux cs ('t' :: '\\' :: acc)
  | '\r' :: cs, acc => escapeAux cs ('r' :: '\\' :: acc)
  | c :: cs, acc => escapeAux cs (c :: acc)

def escapeChars (cs : List Char) : List Char := escapeAux cs []

def unescapeAux : List Char → List Char → List Char
  | [], acc => acc.reverse
  | '\\' :: '\\' :: cs, acc => unescapeAux cs ('\\' :: acc)
  | '\\' :: 'n' :: cs, acc => unescapeAux cs ('\n' :: acc)
  | '\\' :: 't' :: cs, acc => unescapeAux cs ('\t' :: acc)
  | '\\' :: 'r' :: cs, acc => unescapeAux cs ('\r' :: acc)
  | c :: cs, acc => unescapeAux cs (c :: acc)

def unescapeChars (cs : List Char) : List Char := unescapeAux cs []

def escape (s : String) : String := String.ofList (escapeChars s.toList)
def unescape (s : String) : String := String.ofList (unescapeChars s.toList)

/-- split a protocol line into unescaped fields -/
def fieldsOf (line : String) : List String :=
  (line.splitOn "\t").map unescape

def lineOf (fields : List String) : String :=
  "\t".intercalate (fields.map escape)

/-- Verdict of the Lean side on one case, given the implementation's output.
`corr`  : the implementation's output equals the model's output (correspondence);
`judge` : the property's own spec predicate evaluated on the implementation's
          output (`none` = the case lies outside the property's quantifier, not judged);
`cls`   : a short class / branch tag used for the input-distribution evidence
          (prefix `triv:` marks a case that is trivial by the property's rule);
`detail`: on disagreement, the model's output / the reason. -/
structure Verdict where
  corr : Bool
  judge : Option Bool
  cls : String := ""
  detail : String := ""

def Verdict.toLine (v : Verdict) : String :=
  lineOf [if v.corr then "same" else "DIFF",
          match v.judge with | none => "skip" | some true => "pass" | some false => "FAIL",
          v.cls, v.detail]

/-- A property's driver: `render` turns an abstract case into the concrete
harness request (the inputs the real code is run on lie, by construction, in the
domain the theorems quantify over); `judge` compares. -/
structure PropDriver where
  render : List String → List String
  judge : List String → List String → Verdict

def boolStr (b : Bool) : String := if b then "true" else "false"

def natOfStr (s : String) : Nat := s.toNat?.getD 0

def joinWith (sep : String) (xs : List String) : String := sep.intercalate xs

end PolyVerif
