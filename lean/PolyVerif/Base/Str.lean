import PolyVerif.Base.Proto
/-
Go library functions used by poly/io/genbank (properties C01, C03), one small executable
definition each, over `Str = List Char` (ASCII: one byte = one rune), with their basic lemmas.

  strings.Split(s, sep)            ↦ `Str.split`      (a one-byte separator reduces to `splitC`)
  strings.SplitAfter(s, sep)       ↦ `Str.splitAfter`
  strings.SplitN(s, string(c), 2)  ↦ `Str.splitN2`
  strings.Join(fields, sep)        ↦ `Str.join`
  strings.TrimSpace                ↦ `Str.trimSpace`  (Go's ASCII white space: \t \n \v \f \r and blank)
  strings.Contains / Index         ↦ `Str.contains` / `Str.index`
  strings.HasPrefix / HasSuffix    ↦ `Str.hasPrefix` / `Str.hasSuffix`
  strings.TrimPrefix / Trim        ↦ `Str.trimPrefix` / `Str.trim`
  strconv.Itoa on naturals         ↦ `Str.ofNat`
  s[i] (index expression)          ↦ `Str.at`  (`Outcome.panic` outside `0 ≤ i < len`)

`c!"text"` is the character-list literal `['t','e','x','t']` (expanded at elaboration time, so
that `decide`, `simp` and `rfl` see a plain list and never a `String`).  Core Lean only.
-/
namespace PolyVerif

open Lean in
/-- `c!"abc"` = `['a','b','c'] : List Char` -/
macro:max "c!" s:str : term => do
  let cs := s.getString.toList
  let elems := cs.toArray.map fun c => Syntax.mkCharLit c
  `(([$elems,*] : List Char))

namespace Str

/-! ### results of Go calls that may panic -/

inductive Outcome (α : Type) | ok (a : α) | err | panic
  deriving Repr, DecidableEq

def Outcome.bind {α β : Type} : Outcome α → (α → Outcome β) → Outcome β
  | .ok a, f => f a
  | .err, _ => .err
  | .panic, _ => .panic

def Outcome.map {α β : Type} (f : α → β) : Outcome α → Outcome β
  | .ok a => .ok (f a)
  | .err => .err
  | .panic => .panic

instance : Monad Outcome where
  pure := Outcome.ok
  bind := Outcome.bind

@[simp] theorem Outcome.pure_eq {α : Type} (a : α) : (pure a : Outcome α) = .ok a := rfl
@[simp] theorem Outcome.ok_bind {α β : Type} (a : α) (f : α → Outcome β) : (Outcome.ok a >>= f) = f a := rfl
@[simp] theorem Outcome.panic_bind {α β : Type} (f : α → Outcome β) : ((Outcome.panic : Outcome α) >>= f) = .panic := rfl
@[simp] theorem Outcome.err_bind {α β : Type} (f : α → Outcome β) : ((Outcome.err : Outcome α) >>= f) = .err := rfl
@[simp] theorem Outcome.bind_ok' {α β : Type} (a : α) (f : α → Outcome β) : (Outcome.ok a).bind f = f a := rfl
@[simp] theorem Outcome.bind_panic' {α β : Type} (f : α → Outcome β) : (Outcome.panic : Outcome α).bind f = .panic := rfl
@[simp] theorem Outcome.bind_err' {α β : Type} (f : α → Outcome β) : (Outcome.err : Outcome α).bind f = .err := rfl

/-- `mapM` written out (structural, so that it unfolds in proofs) -/
def mapOutcome {α β : Type} (f : α → Outcome β) : List α → Outcome (List β)
  | [] => .ok []
  | a :: as =>
    match f a with
    | .ok b => (match mapOutcome f as with | .ok bs => .ok (b :: bs) | .err => .err | .panic => .panic)
    | .err => .err
    | .panic => .panic

/-! ### character classes (ASCII) -/

/-- `unicode.IsSpace` restricted to ASCII -/
def isSpace (c : Char) : Bool :=
  c == ' ' || c == '\t' || c == '\n' || c == '\x0b' || c == '\x0c' || c == '\r'

def isDigit (c : Char) : Bool := 48 ≤ c.toNat && c.toNat ≤ 57
def isUpper (c : Char) : Bool := 65 ≤ c.toNat && c.toNat ≤ 90
def isLower (c : Char) : Bool := 97 ≤ c.toNat && c.toNat ≤ 122
/-- `[a-zA-Z]` -/
def isLetter (c : Char) : Bool := isUpper c || isLower c
/-- `\w` = `[0-9A-Za-z_]` -/
def isWord (c : Char) : Bool := isDigit c || isLetter c || c == '_'
/-- printable ASCII, 0x20..0x7E -/
def isPrint (c : Char) : Bool := 32 ≤ c.toNat && c.toNat ≤ 126

/-! ### strings.Split -/

/-- put `c` in front of the first field -/
def consHead (c : Char) : List Str → List Str
  | [] => [[c]]
  | l :: ls => (c :: l) :: ls

/-- `strings.Split(s, string(c))`: always at least one field; `n` separators give `n+1` fields -/
def splitC (c : Char) : Str → List Str
  | [] => [[]]
  | x :: xs => if x = c then [] :: splitC c xs else consHead x (splitC c xs)

/-- general separator (non-empty), by fuel = length + 1 -/
def splitGo (sep : Str) : Nat → Str → List Str
  | 0, s => [s]
  | _ + 1, [] => [[]]
  | f + 1, x :: xs =>
    if sep.isPrefixOf (x :: xs) then [] :: splitGo sep f ((x :: xs).drop sep.length)
    else consHead x (splitGo sep f xs)

/-- `strings.Split(s, sep)` for a non-empty separator -/
def split (s sep : Str) : List Str :=
  match sep with
  | [c] => splitC c s
  | _ => splitGo sep (s.length + 1) s

/-- `strings.SplitAfter(s, sep)` for a non-empty separator: the separator stays at the end of
each piece; the last piece is what follows the last separator (possibly empty) -/
def splitAfterGo (sep : Str) : Nat → Str → List Str
  | 0, s => [s]
  | _ + 1, [] => [[]]
  | f + 1, x :: xs =>
    if sep.isPrefixOf (x :: xs) then sep :: splitAfterGo sep f ((x :: xs).drop sep.length)
    else consHead x (splitAfterGo sep f xs)

def splitAfter (s sep : Str) : List Str := splitAfterGo sep (s.length + 1) s

/-- `strings.SplitN(s, string(c), 2)`: cut at the first `c` -/
def splitN2 (c : Char) (s : Str) : List Str :=
  if s.contains c then [s.takeWhile (· != c), (s.dropWhile (· != c)).drop 1] else [s]

/-- `strings.Join(fields, sep)` -/
def join (sep : Str) : List Str → Str
  | [] => []
  | [l] => l
  | l :: ls => l ++ sep ++ join sep ls

/-! ### trimming -/

def trimLeftSpace (s : Str) : Str := s.dropWhile isSpace
def trimRightSpace (s : Str) : Str := (s.reverse.dropWhile isSpace).reverse
/-- `strings.TrimSpace` -/
def trimSpace (s : Str) : Str := trimRightSpace (trimLeftSpace s)

/-- `strings.Trim(s, cutset)` -/
def trim (s cutset : Str) : Str :=
  (((s.dropWhile (cutset.contains ·)).reverse).dropWhile (cutset.contains ·)).reverse

def hasPrefix (s p : Str) : Bool := p.isPrefixOf s
def hasSuffix (s p : Str) : Bool := p.reverse.isPrefixOf s.reverse
/-- `strings.TrimPrefix` -/
def trimPrefix (s p : Str) : Str := if p.isPrefixOf s then s.drop p.length else s

/-! ### substrings -/

/-- `strings.Contains(s, sub)` -/
def contains : Str → Str → Bool
  | [], sub => sub.isPrefixOf []
  | c :: cs, sub => sub.isPrefixOf (c :: cs) || contains cs sub

/-- `strings.Index(s, sub)`; `none` for -1 -/
def index : Str → Str → Option Nat
  | [], sub => if sub.isPrefixOf [] then some 0 else none
  | c :: cs, sub => if sub.isPrefixOf (c :: cs) then some 0 else (index cs sub).map (· + 1)

/-! ### index expressions -/

/-- `s[i]` -/
def «at» (s : Str) (i : Nat) : Outcome Char :=
  match s[i]? with
  | some c => .ok c
  | none => .panic

/-! ### numbers -/

def digitChar (d : Nat) : Char := Char.ofNat (48 + d)

/-- decimal digits, most significant first; fuel `f > n` is always enough -/
def digitsF : Nat → Nat → Str
  | 0, _ => []
  | f + 1, n => if n < 10 then [digitChar n] else digitsF f (n / 10) ++ [digitChar (n % 10)]

/-- `strconv.Itoa` on a natural number -/
def ofNat (n : Nat) : Str := digitsF (n + 1) n

def spaces (n : Nat) : Str := List.replicate n ' '

/-! ### basic lemmas -/

theorem consHead_ne_nil (c : Char) (l : List Str) : consHead c l ≠ [] := by
  cases l <;> simp [consHead]

theorem splitC_ne_nil (c : Char) (s : Str) : splitC c s ≠ [] := by
  cases s with
  | nil => simp [splitC]
  | cons x xs => simp only [splitC]; split <;> simp [consHead_ne_nil]

/-- a string without the separator is one field -/
theorem splitC_of_not_mem (c : Char) (s : Str) (h : c ∉ s) : splitC c s = [s] := by
  induction s with
  | nil => rfl
  | cons x xs ih =>
    have hx : x ≠ c := fun e => h (by simp [e])
    have hxs : c ∉ xs := fun e => h (by simp [e])
    simp [splitC, hx, ih hxs, consHead]

/-- splitting `a ++ c :: b` where `a` has no separator -/
theorem splitC_append (c : Char) (a b : Str) (h : c ∉ a) : splitC c (a ++ c :: b) = a :: splitC c b := by
  induction a with
  | nil => simp [splitC]
  | cons x xs ih =>
    have hx : x ≠ c := fun e => h (by simp [e])
    have hxs : c ∉ xs := fun e => h (by simp [e])
    simp [splitC, hx, ih hxs, consHead]

/-- `Split` inverts `Join` on fields that do not contain the separator -/
theorem splitC_join (c : Char) (ls : List Str) (hne : ls ≠ []) (h : ∀ l ∈ ls, c ∉ l) :
    splitC c (join [c] ls) = ls := by
  induction ls with
  | nil => exact absurd rfl hne
  | cons l rest ih =>
    cases rest with
    | nil => simpa [join] using splitC_of_not_mem c l (h l (by simp))
    | cons l2 r2 =>
      have h1 : c ∉ l := h l (by simp)
      have := ih (by simp) (fun x hx => h x (by simp [hx]))
      simp only [join, List.append_assoc, List.singleton_append]
      rw [splitC_append c l _ h1]
      rw [this]

theorem join_splitC (c : Char) (s : Str) : join [c] (splitC c s) = s := by
  induction s with
  | nil => rfl
  | cons x xs ih =>
    simp only [splitC]
    split
    · rename_i h
      have hne := splitC_ne_nil c xs
      cases hs : splitC c xs with
      | nil => exact absurd hs hne
      | cons l ls => rw [hs] at ih; simp [join, ih, h]
    · cases hs : splitC c xs with
      | nil => exact absurd hs (splitC_ne_nil c xs)
      | cons l ls =>
        rw [hs] at ih
        cases ls with
        | nil => simp [consHead, join] at ih ⊢; exact ih
        | cons l2 r2 => simp [consHead, join] at ih ⊢; exact ih

theorem trimLeftSpace_of_head {c : Char} {s : Str} (h : isSpace c = false) :
    trimLeftSpace (c :: s) = c :: s := by
  simp [trimLeftSpace, List.dropWhile, h]

theorem trimLeftSpace_spaces_append (n : Nat) (s : Str) :
    trimLeftSpace (spaces n ++ s) = trimLeftSpace s := by
  induction n with
  | zero => rfl
  | succ k ih =>
    simp only [spaces, List.replicate_succ, List.cons_append] at ih ⊢
    simp only [trimLeftSpace, List.dropWhile] at ih ⊢
    simpa [isSpace] using ih

theorem filter_spaces (p : Char → Bool) (hp : p ' ' = false) (n : Nat) : (spaces n).filter p = [] := by
  induction n with
  | zero => rfl
  | succ k ih => simp [spaces, List.replicate_succ, hp] at ih ⊢

end Str
end PolyVerif
