import PolyVerif.Base.JVal
/-
A JSON reader (text as code points → `JVal`): what `json.Unmarshal` does at the level of text.  It accepts the JSON grammar
restricted to integer numbers (a fraction or exponent is rejected: no poly field is a float), blanks between tokens,
the escapes `\" \\ \/ \b \f \n \r \t \uXXXX` (either case of hex; surrogate pairs are combined, a lone surrogate becomes
U+FFFD as in Go).  Total: recursion on fuel.  The driver of C15 reads with it what the real `json.Marshal` /
`json.MarshalIndent` wrote; Lemmas/JsonText.lean proves that it reads back every value the printers of Base/JVal.lean
write (compact and under any blank-only layout), which is the text layer of the theorems in Props/C15 and Props/C16.
On texts that neither a printer nor `json.Marshal` writes it is laxer than `encoding/json` (`007` reads as 7, any natural
number is accepted raw inside a string); nothing is claimed there.
-/
namespace PolyVerif.JsonRead
open PolyVerif

def isWs (c : Nat) : Bool := c == 32 || c == 9 || c == 10 || c == 13

def skipWs : S → S
  | [] => []
  | c :: cs => if isWs c then skipWs cs else c :: cs

def hexVal (c : Nat) : Option Nat :=
  if 48 ≤ c && c ≤ 57 then some (c - 48)
  else if 97 ≤ c && c ≤ 102 then some (c - 87)
  else if 65 ≤ c && c ≤ 70 then some (c - 55)
  else none

def flushHi (hi : Option Nat) (acc : S) : S :=
  match hi with
  | some _ => 0xFFFD :: acc
  | none => acc

/-- body of a string after the opening quote; `acc` reversed; `hi` = pending high surrogate.
Dispatch on the first character: `"` ends the string, `\` starts an escape, a raw control character is an error. -/
def readStr : S → S → Option Nat → Option (S × S)
  | [], _, _ => none
  | c :: r, acc, hi =>
    if c == 34 then some ((flushHi hi acc).reverse, r)
    else if c == 92 then
      match r with
      | [] => none
      | e :: r1 =>
        if e == 117 then
          match r1 with
          | a :: b :: c4 :: d :: r2 =>
            match hexVal a, hexVal b, hexVal c4, hexVal d with
            | some a, some b, some c4, some d =>
              let u := ((a * 16 + b) * 16 + c4) * 16 + d
              if 0xDC00 ≤ u && u ≤ 0xDFFF then
                match hi with
                | some h => readStr r2 ((0x10000 + (h - 0xD800) * 0x400 + (u - 0xDC00)) :: acc) none
                | none => readStr r2 (0xFFFD :: acc) none
              else if 0xD800 ≤ u && u ≤ 0xDBFF then readStr r2 (flushHi hi acc) (some u)
              else readStr r2 (u :: flushHi hi acc) none
            | _, _, _, _ => none
          | _ => none
        else
          let acc := flushHi hi acc
          if e == 34 then readStr r1 (34 :: acc) none
          else if e == 92 then readStr r1 (92 :: acc) none
          else if e == 47 then readStr r1 (47 :: acc) none
          else if e == 98 then readStr r1 (8 :: acc) none
          else if e == 102 then readStr r1 (12 :: acc) none
          else if e == 110 then readStr r1 (10 :: acc) none
          else if e == 114 then readStr r1 (13 :: acc) none
          else if e == 116 then readStr r1 (9 :: acc) none
          else none
    else if c < 32 then none
    else readStr r (c :: flushHi hi acc) none

def isDigit (c : Nat) : Bool := 48 ≤ c && c ≤ 57

def readDigits : S → Nat → Nat → Nat × Nat × S
  | [], n, k => (n, k, [])
  | c :: r, n, k => if isDigit c then readDigits r (n * 10 + (c - 48)) (k + 1) else (n, k, c :: r)

/-- the text after the digits starts a fraction or an exponent -/
def fracOrExp : S → Bool
  | [] => false
  | c :: _ => c == 46 || c == 101 || c == 69

/-- the digits of an integer (sign already read); a following `.`, `e`, `E` (a non-integer number) is rejected -/
def readNat (inp : S) (neg : Bool) : Option (JVal × S) :=
  match readDigits inp 0 0 with
  | (n, k, rest) =>
    if k == 0 then none
    else if fracOrExp rest then none
    else some (.num (if neg then -(n : Int) else n), rest)

def readNum : S → Option (JVal × S)
  | [] => none
  | c :: r => if c == 45 then readNat r true else readNat (c :: r) false

mutual
/-- one value; dispatch on the first non-blank character -/
def value : Nat → S → Option (JVal × S)
  | 0, _ => none
  | f + 1, inp =>
    match skipWs inp with
    | [] => none
    | c :: r =>
      if c == 34 then (readStr r [] none).map fun p => (.str p.1, p.2)
      else if c == 91 then
        match skipWs r with
        | [] => none
        | c' :: r' => if c' == 93 then some (.arr [], r') else elems f (c' :: r') []
      else if c == 123 then
        match skipWs r with
        | [] => none
        | c' :: r' => if c' == 125 then some (.obj [], r') else members f (c' :: r') []
      else if c == 110 then
        match r with
        | 117 :: 108 :: 108 :: r' => some (.null, r')
        | _ => none
      else if c == 116 then
        match r with
        | 114 :: 117 :: 101 :: r' => some (.bool true, r')
        | _ => none
      else if c == 102 then
        match r with
        | 97 :: 108 :: 115 :: 101 :: r' => some (.bool false, r')
        | _ => none
      else readNum (c :: r)
/-- the elements of an array after `[` (at least one), up to and including `]` -/
def elems : Nat → S → List JVal → Option (JVal × S)
  | 0, _, _ => none
  | f + 1, inp, acc =>
    match value f inp with
    | none => none
    | some (v, r) =>
      match skipWs r with
      | [] => none
      | c :: r' =>
        if c == 44 then elems f r' (v :: acc)
        else if c == 93 then some (.arr (v :: acc).reverse, r')
        else none
/-- the members of an object after `{` (at least one), up to and including `}` -/
def members : Nat → S → List (S × JVal) → Option (JVal × S)
  | 0, _, _ => none
  | f + 1, inp, acc =>
    match skipWs inp with
    | [] => none
    | q :: r =>
      if q == 34 then
        match readStr r [] none with
        | none => none
        | some (k, r) =>
          match skipWs r with
          | [] => none
          | c :: r =>
            if c == 58 then
              match value f r with
              | none => none
              | some (v, r) =>
                match skipWs r with
                | [] => none
                | c :: r' =>
                  if c == 44 then members f r' ((k, v) :: acc)
                  else if c == 125 then some (.obj ((k, v) :: acc).reverse, r')
                  else none
            else none
      else none
end

/-- a whole document; `none` on any syntax error or trailing text -/
def parse (inp : S) : Option JVal :=
  match value (inp.length + 8) inp with
  | some (v, r) => if (skipWs r).isEmpty then some v else none
  | none => none

end PolyVerif.JsonRead
