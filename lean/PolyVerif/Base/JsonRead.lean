import PolyVerif.Base.JVal
/-
A small JSON reader (text as code points → `JVal`) used by the C15 driver to read what the real
`json.Marshal` / `json.MarshalIndent` wrote.  It accepts the JSON grammar restricted to integer
numbers (a fraction or exponent is rejected: no poly field is a float).  Escapes `\uXXXX`
(Go writes them for `<`, `>`, `&`, U+2028, U+2029 and control characters) are decoded; surrogate
pairs are combined, a lone surrogate becomes U+FFFD as in Go.  Total: recursion on fuel.
This file is part of the correspondence tooling, not of any theorem.
-/
namespace PolyVerif.JsonRead
open PolyVerif

def isWs (c : Nat) : Bool := c == 32 || c == 9 || c == 10 || c == 13

def skipWs : S → S
  | [] => []
  | c :: cs => if isWs c then skipWs cs else c :: cs

def hexVal (c : Nat) : Option Nat :=
  if 48 ≤ c && c ≤ 57 then some (c - 48)
  else if 97 ≤ c && c ≤ 102 then some (c - 87)
  else if 65 ≤ c && c ≤ 70 then some (c - 55)
  else none

def flushHi (hi : Option Nat) (acc : S) : S :=
  match hi with
  | some _ => 0xFFFD :: acc
  | none => acc

/-- body of a string after the opening quote; `acc` reversed; `hi` = pending high surrogate -/
def readStr : S → S → Option Nat → Option (S × S)
  | [], _, _ => none
  | 34 :: r, acc, hi => some ((flushHi hi acc).reverse, r)
  | 92 :: 117 :: a :: b :: c :: d :: r, acc, hi =>
    match hexVal a, hexVal b, hexVal c, hexVal d with
    | some a, some b, some c, some d =>
      let u := ((a * 16 + b) * 16 + c) * 16 + d
      if 0xDC00 ≤ u && u ≤ 0xDFFF then
        match hi with
        | some h => readStr r ((0x10000 + (h - 0xD800) * 0x400 + (u - 0xDC00)) :: acc) none
        | none => readStr r (0xFFFD :: acc) none
      else if 0xD800 ≤ u && u ≤ 0xDBFF then readStr r (flushHi hi acc) (some u)
      else readStr r (u :: flushHi hi acc) none
    | _, _, _, _ => none
  | 92 :: e :: r, acc, hi =>
    let acc := flushHi hi acc
    if e == 34 then readStr r (34 :: acc) none
    else if e == 92 then readStr r (92 :: acc) none
    else if e == 47 then readStr r (47 :: acc) none
    else if e == 98 then readStr r (8 :: acc) none
    else if e == 102 then readStr r (12 :: acc) none
    else if e == 110 then readStr r (10 :: acc) none
    else if e == 114 then readStr r (13 :: acc) none
    else if e == 116 then readStr r (9 :: acc) none
    else none
  | [92], _, _ => none
  | c :: r, acc, hi => if c < 32 then none else readStr r (c :: flushHi hi acc) none

def readDigits : S → Nat → Nat → Nat × Nat × S
  | [], n, k => (n, k, [])
  | c :: r, n, k => if 48 ≤ c && c ≤ 57 then readDigits r (n * 10 + (c - 48)) (k + 1) else (n, k, c :: r)

/-- integer; a following `.`, `e`, `E` (a non-integer number) is rejected -/
def readNum (inp : S) : Option (JVal × S) :=
  let (neg, r) := match inp with
    | 45 :: r => (true, r)
    | r => (false, r)
  let (n, k, rest) := readDigits r 0 0
  if k == 0 then none
  else match rest with
    | 46 :: _ => none
    | 101 :: _ => none
    | 69 :: _ => none
    | _ => some (.num (if neg then -(n : Int) else n), rest)

mutual
def value : Nat → S → Option (JVal × S)
  | 0, _ => none
  | f + 1, inp =>
    match skipWs inp with
    | 110 :: 117 :: 108 :: 108 :: r => some (.null, r)
    | 116 :: 114 :: 117 :: 101 :: r => some (.bool true, r)
    | 102 :: 97 :: 108 :: 115 :: 101 :: r => some (.bool false, r)
    | 34 :: r => (readStr r [] none).map fun p => (.str p.1, p.2)
    | 91 :: r =>
      match skipWs r with
      | 93 :: r' => some (.arr [], r')
      | r' => elems f r' []
    | 123 :: r =>
      match skipWs r with
      | 125 :: r' => some (.obj [], r')
      | r' => members f r' []
    | r => readNum r
def elems : Nat → S → List JVal → Option (JVal × S)
  | 0, _, _ => none
  | f + 1, inp, acc =>
    match value f inp with
    | none => none
    | some (v, r) =>
      match skipWs r with
      | 44 :: r' => elems f r' (v :: acc)
      | 93 :: r' => some (.arr (v :: acc).reverse, r')
      | _ => none
def members : Nat → S → List (S × JVal) → Option (JVal × S)
  | 0, _, _ => none
  | f + 1, inp, acc =>
    match skipWs inp with
    | 34 :: r =>
      match readStr r [] none with
      | none => none
      | some (k, r) =>
        match skipWs r with
        | 58 :: r =>
          match value f r with
          | none => none
          | some (v, r) =>
            match skipWs r with
            | 44 :: r' => members f r' ((k, v) :: acc)
            | 125 :: r' => some (.obj ((k, v) :: acc).reverse, r')
            | _ => none
        | _ => none
    | _ => none
end

/-- a whole document; `none` on any syntax error or trailing text -/
def parse (inp : S) : Option JVal :=
  match value (inp.length + 8) inp with
  | some (v, r) => if (skipWs r).isEmpty then some v else none
  | none => none

end PolyVerif.JsonRead
