import PolyVerif.Base.Proto
/-
Go library functions used by the GenBank WRITER (`genbank.Build`, property C03), one executable
definition each, over `Str = List Char` (ASCII: one byte = one rune):

  wordwrap.WrapString(s, lim)        ↦ `wrapString`  (mitchellh/go-wordwrap v1.0.0, transcribed)
  unicode.IsSpace (Latin-1 part)     ↦ `isSpace`
  strings.Split(s, "\n")             ↦ `splitChar '\n'`
  generateWhiteSpace(n) / the padding loops (a negative count writes nothing) ↦ `spaces`
  sort.Strings                       ↦ `sortStrings` (bytewise lexicographic order, insertion sort:
                                        the keys of a Go map are distinct, so every correct sort
                                        returns the same slice)
  `for key := range m`               ↦ `permute seed m`: the entries of the association list in an
                                        ARBITRARY order chosen by `seed` (every seed gives a
                                        permutation, every permutation has a seed)
  m[key]                             ↦ `lookupD` (absent key ⇒ "")

Core Lean only.
-/
namespace PolyVerif.StrBuild
open PolyVerif

/-! ### white space and padding -/

/-- `unicode.IsSpace` on Latin-1: `'\t' '\n' '\v' '\f' '\r' ' '` U+0085 U+00A0 -/
def isSpace (c : Char) : Bool :=
  c == ' ' || c == '\t' || c == '\n' || c == '\x0b' || c == '\x0c' || c == '\r'
    || c == Char.ofNat 0x85 || c == Char.ofNat 0xA0

/-- `n` blanks; callers pass `a - b` in `Nat`, which is 0 where Go's `int` is negative and the
padding loop body never runs -/
def spaces (n : Nat) : Str := List.replicate n ' '

/-! ### wordwrap.WrapString

The Go function keeps an output buffer that is only ever appended to, plus `current`, `wordBuf`
and `spaceBuf`.  Here the output buffer is the result under construction (what is appended is
emitted in front of the result of the remaining input); `word` and `space` hold `wordBuf` and
`spaceBuf` REVERSED (a `WriteRune` is a cons). -/
def wrapGo (lim : Nat) : (current : Nat) → (word space : Str) → Str → Str
  | current, word, space, [] =>
    if word.length = 0 then
      if current + space.length ≤ lim then space.reverse else []
    else space.reverse ++ word.reverse
  | current, word, space, c :: rest =>
    if c = '\n' then
      if word.length = 0 then
        if current + space.length > lim then '\n' :: wrapGo lim 0 [] [] rest
        else space.reverse ++ '\n' :: wrapGo lim 0 [] [] rest
      else space.reverse ++ (word.reverse ++ '\n' :: wrapGo lim 0 [] [] rest)
    else if isSpace c then
      if space.length = 0 ∨ word.length > 0 then
        space.reverse ++ (word.reverse ++ wrapGo lim (current + (space.length + word.length)) [] [c] rest)
      else wrapGo lim current word (c :: space) rest
    else
      if current + (space.length + (c :: word).length) > lim ∧ (c :: word).length < lim then
        '\n' :: wrapGo lim 0 (c :: word) [] rest
      else wrapGo lim current (c :: word) space rest

/-- `wordwrap.WrapString(s, lim)` -/
def wrapString (s : Str) (lim : Nat) : Str := wrapGo lim 0 [] [] s

/-! ### strings.Split with a one-byte separator -/

def splitStep (sep : Char) (c : Char) (acc : List Str) : List Str :=
  if c = sep then [] :: acc
  else match acc with
    | [] => [[c]]
    | l :: ls => (c :: l) :: ls

/-- `strings.Split(s, string(sep))`: `n` separators give `n + 1` fields -/
def splitChar (sep : Char) (s : Str) : List Str := s.foldr (splitStep sep) [[]]

/-! ### sort.Strings -/

/-- bytewise `a ≤ b` (lexicographic; on ASCII a `Char`'s code is its byte) -/
def strLe : Str → Str → Bool
  | [], _ => true
  | _ :: _, [] => false
  | a :: as, b :: bs => a.toNat < b.toNat || (a.toNat == b.toNat && strLe as bs)

def orderedInsert (a : Str) : List Str → List Str
  | [] => [a]
  | b :: l => if strLe a b then a :: b :: l else b :: orderedInsert a l

/-- `sort.Strings` -/
def sortStrings : List Str → List Str
  | [] => []
  | a :: l => orderedInsert a (sortStrings l)

/-! ### Go maps -/

def insertAt {α : Type} : Nat → α → List α → List α
  | 0, a, l => a :: l
  | _ + 1, a, [] => [a]
  | n + 1, a, b :: l => b :: insertAt n a l

/-- an arbitrary rearrangement of `l`, chosen by `seed`: the order in which `range` visits a map -/
def permute {α : Type} : List Nat → List α → List α
  | _, [] => []
  | [], a :: l => a :: permute [] l
  | s :: seed, a :: l => insertAt (s % (l.length + 1)) a (permute seed l)

/-- `for key := range m { keys = append(keys, key) }` under the iteration order `seed` -/
def rangeKeys (seed : List Nat) (m : List (Str × Str)) : List Str := (permute seed m).map Prod.fst

/-- `m[key]` -/
def lookupD (m : List (Str × Str)) (k : Str) : Str :=
  match m.lookup k with
  | some v => v
  | none => []

end PolyVerif.StrBuild
