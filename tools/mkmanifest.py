#!/usr/bin/env python3
"""Regenerates /verif/MANIFEST.json from the per-property metadata in gen/cXX.py."""
import json, os, sys, importlib.util
ROOT = os.path.dirname(os.path.dirname(os.path.abspath(__file__)))
sys.path.insert(0, os.path.join(ROOT, "gen"))
props = [json.loads(l) for l in open(os.path.join(ROOT, "properties.jsonl"))]
checks, na = [], []
for p in props:
    pid = p["id"]
    path = os.path.join(ROOT, "gen", pid.lower() + ".py")
    if not os.path.exists(path):
        na.append({"property_id": pid, "reason": "check not built yet (planned in DESIGN.md section 4); nothing is claimed for it"})
        continue
    spec = importlib.util.spec_from_file_location("g" + pid, path)
    m = importlib.util.module_from_spec(spec); spec.loader.exec_module(m)
    checks.append({
        "property_id": pid,
        "quick_cmd": "./check %s --tier quick" % pid,
        "thorough_cmd": "./check %s --tier thorough" % pid,
        "evidence_file": "/verif/evidence/%s.json" % pid,
        "replay_cmd_template": "./check %s --replay {path}" % pid,
        "engine": "lean-proof+correspondence",
        "level_claimed": {"category": "proof", "text": m.LEVEL_TEXT, "design_ref": "DESIGN.md section 4, " + pid},
        "level_note": m.LEVEL_NOTE,
        "technique": m.TECHNIQUE,
    })
man = {
    "version": 1,
    "setup_cmd": "./setup.sh",
    "hooks": {"guard": "verif", "enable": "go build -tags verif (the harness is always built with the tag; no hook file exists in /repo at present)",
              "baseline_off_cmd": "cd /repo && go test -vet=off -count=1 ./...", "source_commits": [], "add_only": True},
    "engines": [{"name": "lean-proof+correspondence", "path": "/verif/check",
                 "serves_properties": [c["property_id"] for c in checks],
                 "kind_free_text": "Lean 4 theorems about executable models (lean/PolyVerif/Props), tied to /repo on every run by regenerated tables (harness/cmd/extract -> lean/PolyVerif/Gen) and by a differential correspondence check (harness/cmd/run vs the compiled model driver polymodel), with the property's spec predicate judged on the implementation's outputs"}],
    "checks": checks,
    "not_applicable": na,
    "notes": "See DESIGN.md. known_findings.json lists recorded and fixed defects.",
}
json.dump(man, open(os.path.join(ROOT, "MANIFEST.json"), "w"), indent=1)
print("checks:", len(checks), "not_applicable:", len(na))
