#!/bin/sh
# tools/mutcheck.sh <property-id> <patch.diff> [tier]
# Runs ./check <id> against a scratch worktree of /repo with the patch applied, from a scratch
# copy of /verif (so that concurrently running work in /verif and /repo is not disturbed).
# Prints the check's VIOLATION / KNOWN-FINDING lines and its exit status. Cleans up after itself.
set -u
PID=$1; PATCH=$(readlink -f "$2"); TIER=${3:-quick}
S=/tmp/mutcheck.$$; mkdir -p $S
trap 'git -C /repo worktree remove --force $S/repo >/dev/null 2>&1; rm -rf $S' EXIT INT TERM
git -C /repo worktree add --detach $S/repo HEAD >/dev/null 2>&1 || { echo "worktree failed"; exit 2; }
if ! git -C $S/repo apply "$PATCH"; then echo "PATCH-DOES-NOT-APPLY"; git -C /repo worktree remove --force $S/repo; rm -rf $S; exit 2; fi
rsync -a --exclude .git --exclude build/replay --exclude 'build/C*' /verif/ $S/verif/
( cd $S/verif && VERIF_REPO=$S/repo VERIF_SEED=${VERIF_SEED:-1} timeout ${MUTCHECK_TIMEOUT:-2400} ./check $PID --tier $TIER > $S/out.txt 2> $S/err.txt; echo "exit=$?" >> $S/out.txt )
grep -E '^(VIOLATION|KNOWN-FINDING|exit=)' $S/out.txt
tail -1 $S/err.txt
for f in $(grep -o 'replay=[^ ]*' $S/out.txt | cut -d= -f2 | head -2); do echo "--- $f"; head -c 1500 $f; echo; done
git -C /repo worktree remove --force $S/repo; rm -rf $S
