#!/usr/bin/env python3
"""tools/harmrun.py <dir-with-patch.diff-and-meta.json> [...]
False-alarm measurement: applies a HARMLESS rewrite (a patch that preserves the properties) to a scratch
worktree and runs every check whose anchored files the patch touches; reports any VIOLATION (= false alarm,
unless the rewrite turns out not to be harmless). Results are stored in seeded-harmless/<name>/."""
import sys, os, json, re, subprocess, shutil
props = [json.loads(l) for l in open("/verif/properties.jsonl")]
# checks that exercise a file although it is not among the property's anchors
extra = {"seqhash/seqhash.go": ["C09"], "transform/transform.go": ["C02", "C04", "C05", "C09", "C10", "C17", "C19"],
         "poly.go": ["C01", "C03"], "io/genbank/genbank.go": ["C15"], "io/gff/gff.go": ["C15"], "checks/checks.go": ["C19"]}
for src in sys.argv[1:]:
    src = os.path.abspath(src)
    meta = json.load(open(os.path.join(src, "meta.json")))
    name = "%s-%s" % (meta["property"], meta.get("variant", os.path.basename(src)))
    patch = os.path.join(src, "patch.diff")
    files = re.findall(r"^\+\+\+ b/(\S+)", open(patch).read(), flags=re.M)
    pids = sorted({p["id"] for p in props for f in files if f in p["anchors"]["files"]} | {x for f in files for x in extra.get(f, [])})
    res = {}
    for pid in pids:
        p = subprocess.run(["/verif/tools/mutcheck.sh", pid, patch, "quick"], capture_output=True, text=True)
        out = p.stdout
        viol = re.findall(r"^VIOLATION .*$", out, flags=re.M)
        ran = re.search(r"\[check\] %s \w+: \d+ cases" % pid, out)
        if "PATCH-DOES-NOT-APPLY" in out: res[pid] = "patch does not apply"
        elif viol:
            m = re.search(r'"case": "((?:[^"\\]|\\.)*)"', out)
            b = re.search(r'"broken": \[\s*"((?:[^"\\]|\\.)*)"', out)
            res[pid] = ("ALARM with input: " + m.group(1)[:200]) if (m and "no-failing-input-found" not in viol[0]) else ("ALARM no-failing-input-found: " + (b.group(1)[:200] if b else ""))
        elif ran and "exit=0" in out: res[pid] = "quiet"
        else: res[pid] = "ERROR " + out.strip().split("\n")[-1][:120]
    dst = os.path.join("/verif/seeded-harmless", name)
    os.makedirs(dst, exist_ok=True)
    shutil.copy(patch, dst)
    meta["checks_run"] = res
    json.dump(meta, open(os.path.join(dst, "meta.json"), "w"), indent=1)
    print(name, json.dumps(res))
