#!/usr/bin/env python3
"""tools/seedrun.py [seed-name ...] [--tier quick|thorough]
Runs the check of each seed's property against the seeded change (tools/mutcheck.sh: scratch worktree of
/repo + scratch copy of /verif) and records the outcome in seeded/<name>/meta.json ("detected_by")."""
import sys, os, json, subprocess, glob, re
tier = "quick"
names = []
args = sys.argv[1:]
while args:
    a = args.pop(0)
    if a == "--tier": tier = args.pop(0)
    else: names.append(a)
if not names:
    names = sorted(os.path.basename(d) for d in glob.glob("/verif/seeded/*") if os.path.isdir(d))
for n in names:
    d = os.path.join("/verif/seeded", n)
    meta = json.load(open(os.path.join(d, "meta.json")))
    pid = meta["property"]
    if not os.path.exists("/verif/gen/%s.py" % pid.lower()):
        print(n, "SKIP (no check for %s yet)" % pid); continue
    p = subprocess.run(["/verif/tools/mutcheck.sh", pid, os.path.join(d, "patch.diff"), tier], capture_output=True, text=True)
    out = p.stdout
    viol = re.findall(r"^VIOLATION .*$", out, flags=re.M)
    with_input = [v for v in viol if "no-failing-input-found" not in v]
    m = re.search(r'"case": "((?:[^"\\]|\\.)*)"', out)
    ran = re.search(r"\[check\] %s \w+: \d+ cases" % pid, out)
    if "PATCH-DOES-NOT-APPLY" in out: res = "ERROR: patch does not apply to the current tree"
    elif with_input: res = "detected: VIOLATION with a failing input"
    elif viol: res = "detected: VIOLATION no-failing-input-found"
    elif ran and "exit=0" in out: res = "MISSED"
    else: res = "ERROR: the check did not run to completion (%s)" % out.strip().split("\n")[-1][:120]
    meta["detected_by"] = {"check": "./check %s --tier %s" % (pid, tier), "result": res,
                           "example_replay_case": (m.group(1)[:300] if m else None)}
    json.dump(meta, open(os.path.join(d, "meta.json"), "w"), indent=1)
    print(n, res, "|", (m.group(1)[:100] if m else ""))
