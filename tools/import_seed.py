#!/usr/bin/env python3
"""tools/import_seed.py <src-dir> <seed-name>
Imports a seeded change produced by an independent sub-agent (patch.diff, demo/, meta.json) into
/verif/seeded/<seed-name>/ after CONFIRMING it in a scratch worktree of /repo:
  1. demo passes on the unchanged tree, 2. patch applies, 3. whole suite still passes (102) with the patch,
  4. demo fails with the patch.   The result is recorded in meta.json ("confirmed")."""
import sys, os, json, re, shutil, subprocess, tempfile, glob
src, name = sys.argv[1], sys.argv[2]
env = dict(os.environ, GOFLAGS="-mod=mod", GOPROXY="off", GOSUMDB="off", GOTOOLCHAIN="local")
meta = json.load(open(os.path.join(src, "meta.json")))
demos = glob.glob(os.path.join(src, "demo", "*_test.go"))
if not demos:
    print("no demo test file"); sys.exit(2)
godirs = sorted({os.path.dirname(f) for f in subprocess.run(["git", "-C", "/repo", "ls-files", "*.go"], capture_output=True, text=True).stdout.split()}, key=len, reverse=True)
pkgdir = meta.get("demo_package_dir") or meta.get("demo_dir") or meta.get("demo_package") or ""
if not pkgdir.strip("./") or pkgdir.strip("./") not in godirs:
    text = json.dumps(meta)
    pkgdir = next((d for d in godirs if d and re.search(r"(?<![A-Za-z0-9_/])(\./)?" + re.escape(d) + r"/", text)), None)
if not pkgdir and re.search(r"^package poly(_test)?\s*$", open(demos[0]).read(), flags=re.M):
    pkgdir = "."
if not pkgdir:
    print("cannot determine demo package dir"); sys.exit(2)
pkgdir = pkgdir.strip("./") or "."
wt = tempfile.mkdtemp(prefix="seedwt.")
os.rmdir(wt)
subprocess.run(["git", "-C", "/repo", "worktree", "add", "--detach", wt, "HEAD"], check=True, capture_output=True)
def run(cmd):
    p = subprocess.run(cmd, cwd=wt, env=env, shell=True, capture_output=True, text=True)
    return p.returncode, p.stdout + p.stderr
def demo():
    for d in demos:
        shutil.copy(d, os.path.join(wt, pkgdir, "zz_" + os.path.basename(d)))
    rc, out = run("go test -vet=off -count=1 -run 'TestDemo|Demo' ./%s/" % pkgdir)
    for d in demos:
        os.remove(os.path.join(wt, pkgdir, "zz_" + os.path.basename(d)))
    return rc, out
res = {}
try:
    rc, out = demo(); res["demo_without_change"] = "pass" if rc == 0 else "FAIL: " + out[-300:]
    rc, out = run("git apply %s" % os.path.join(os.path.abspath(src), "patch.diff")); res["patch_applies"] = rc == 0
    rc, out = run("go test -vet=off -count=1 -json ./... | grep -c '\"Action\":\"pass\".*\"Test\"'"); res["suite_pass_count_with_change"] = int(out.strip().split()[-1]) if out.strip() else -1
    rc2, out2 = run("go test -vet=off -count=1 ./... 2>&1 | grep -c '^FAIL\\|^--- FAIL'"); res["suite_fail_marks_with_change"] = int(out2.strip().split()[-1])
    rc, out = demo(); res["demo_with_change"] = "fails (as required)" if rc != 0 else "PASSES (seed rejected)"
finally:
    subprocess.run(["git", "-C", "/repo", "worktree", "remove", "--force", wt], capture_output=True)
ok = res.get("demo_without_change") == "pass" and res.get("patch_applies") and res.get("suite_pass_count_with_change") == 102 \
     and res.get("suite_fail_marks_with_change") == 0 and res.get("demo_with_change", "").startswith("fails")
print(name, "CONFIRMED" if ok else "REJECTED", json.dumps(res))
if ok:
    dst = os.path.join("/verif/seeded", name)
    os.makedirs(dst, exist_ok=True)
    shutil.copy(os.path.join(src, "patch.diff"), dst)
    shutil.rmtree(os.path.join(dst, "demo"), ignore_errors=True)
    shutil.copytree(os.path.join(src, "demo"), os.path.join(dst, "demo"))
    meta.update({"breaks": meta.get("summary"), "needs_to_manifest": meta.get("manifests_when"), "kind": "independent-subagent",
                 "demo_package_dir": pkgdir,
                 "demonstration": "copy demo/*_test.go into %s/ of the tree and run `go test -vet=off -count=1 -run TestDemo ./%s/`" % (pkgdir, pkgdir),
                 "confirmed": res, "detected_by": None})
    json.dump(meta, open(os.path.join(dst, "meta.json"), "w"), indent=1)
sys.exit(0 if ok else 1)
