#!/usr/bin/env python3
"""Regenerates the generated blocks of DESIGN.md (between <!-- BEGIN GENERATED:name --> and <!-- END GENERATED:name -->)
from the per-property metadata (gen/cXX.py), the evidence files, known_findings.json and seeded/*/meta.json."""
import json, glob, os, re, sys, importlib.util, subprocess, collections
ROOT = "/verif"
sys.path.insert(0, ROOT + "/gen")
def meta(pid):
    spec = importlib.util.spec_from_file_location("g" + pid, "%s/gen/%s.py" % (ROOT, pid.lower()))
    m = importlib.util.module_from_spec(spec); spec.loader.exec_module(m); return m
props = [json.loads(l) for l in open(ROOT + "/properties.jsonl")]

def block_summary():
    out = ["| id | title | theorems (quick run) | proof modules | PARTIAL (clauses not proved at full strength) | known findings |", "|---|---|---|---|---|---|"]
    kf = json.load(open(ROOT + "/known_findings.json"))["findings"]
    for p in props:
        pid = p["id"]; m = meta(pid)
        try:
            ev = json.load(open("%s/evidence/%s.json" % (ROOT, pid)))["coverage"]
            th = "%d / %d discharged" % (ev["discharged"], ev["obligations"])
        except Exception:
            th = "?"
        mods = ", ".join(x.replace("PolyVerif.Props.", "") for x in getattr(m, "PROOF_MODULES", ["PolyVerif.Props." + pid]) + getattr(m, "NATIVE_MODULES", []))
        partial = getattr(m, "PARTIAL", [])
        ptxt = "; ".join(str(x)[:160] for x in partial) if partial else "none"
        known = ", ".join(f["id"] for f in kf if f["property"] == pid and f["kind"] == "known") or "—"
        out.append("| %s | %s | %s | %s | %s | %s |" % (pid, p["title"][:60], th, mods, ptxt.replace("|", "/").replace("\n", " "), known))
    return "\n".join(out)

def block_findings():
    kf = json.load(open(ROOT + "/known_findings.json"))["findings"]
    out = ["**Recorded, not repaired (`kind: known`)**", "", "| property | id | what fails | exemplar |", "|---|---|---|---|"]
    for f in kf:
        if f["kind"] == "known":
            out.append("| %s | `%s` | %s | `%s` |" % (f["property"], f["id"], f["what"].replace("|", "/"), f.get("exemplar", "")))
    out += ["", "**Repaired (`kind: fixed`; one `fix:` commit each in `/repo`, suite 102/102 after each)**", "", "| property | commit | what failed |", "|---|---|---|"]
    seen = set()
    for f in kf:
        if f["kind"] == "fixed" and f.get("commit") not in seen:
            seen.add(f.get("commit"))
            out.append("| %s | `%s` | %s |" % (f["property"], f.get("commit"), f["what"].replace("|", "/")[:200]))
    log = subprocess.run(["git", "-C", "/repo", "log", "--format=%h %s"], capture_output=True, text=True).stdout.split("\n")
    nfix = sum(1 for l in log if " fix:" in l)
    out += ["", "`git -C /repo log` shows %d `fix:` commits in all; %d distinct commits are listed above." % (nfix, len(seen))]
    return "\n".join(out)

def block_seeds():
    rows = []
    for mpath in sorted(glob.glob(ROOT + "/seeded/*/meta.json")):
        d = json.load(open(mpath)); name = os.path.basename(os.path.dirname(mpath))
        det = d.get("detected_by") or {}
        rows.append((d["property"], name, {"reverted-fix": "reverted fix"}.get(d.get("kind"), "independent sub-agent"),
                     (d.get("breaks") or d.get("summary") or "")[:150].replace("|", "/").replace("\n", " "), det.get("result", "not run")))
    out = ["| property | seed | origin | what it changes | `./check` quick tier |", "|---|---|---|---|---|"]
    for r in rows: out.append("| %s | `%s` | %s | %s | %s |" % r)
    c = collections.Counter(r[4].split(":")[0] for r in rows)
    out += ["", "Totals over %d seeded changes: %s." % (len(rows), ", ".join("%s %d" % kv for kv in sorted(c.items())))]
    return "\n".join(out)

blocks = {"summary": block_summary, "findings": block_findings, "seeds": block_seeds}
txt = open(ROOT + "/DESIGN.md").read()
for name, fn in blocks.items():
    a, b = "<!-- BEGIN GENERATED:%s -->" % name, "<!-- END GENERATED:%s -->" % name
    if a in txt and b in txt:
        i, j = txt.index(a) + len(a), txt.index(b)
        txt = txt[:i] + "\n" + fn() + "\n" + txt[j:]
open(ROOT + "/DESIGN.md", "w").write(txt)
print("ok")
