#!/usr/bin/env python3
"""Prints the markdown tables of DESIGN.md §10 from seeded/*/meta.json and known_findings.json."""
import json, glob, os, collections
rows = []
for m in sorted(glob.glob("/verif/seeded/*/meta.json")):
    d = json.load(open(m)); name = os.path.basename(os.path.dirname(m))
    det = (d.get("detected_by") or {})
    rows.append((d["property"], name, d.get("kind", "independent-subagent"), (d.get("breaks") or d.get("summary") or "")[:110].replace("|", "/").replace("\n", " "),
                 det.get("result", "not run"), (det.get("example_replay_case") or "")[:60].replace("|", "/")))
print("| property | seed | origin | what it changes | result of `./check` (quick tier) | example replay input |")
print("|---|---|---|---|---|---|")
for r in rows:
    print("| %s | `%s` | %s | %s | %s | `%s` |" % r)
c = collections.Counter((r[4].split(":")[0]) for r in rows)
print("\nTotals:", dict(c))
