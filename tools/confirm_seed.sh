#!/bin/sh
# tools/confirm_seed.sh <seed-dir> : confirms a seeded change in a scratch worktree:
#  suite passes with the change; demo fails with it; demo passes without it. Prints one summary line.
D=$(readlink -f "$1"); S=/tmp/confirm.$$; export GOFLAGS=-mod=mod GOPROXY=off GOSUMDB=off GOTOOLCHAIN=local
git -C /repo worktree add --detach $S HEAD >/dev/null 2>&1
without=$("$D/demo.sh" $S 2>&1 | tail -3 | tr '\n' ' ')
git -C $S apply "$D/patch.diff" || { echo "$D: PATCH FAILED"; git -C /repo worktree remove --force $S; exit 1; }
pass=$(cd $S && go test -vet=off -count=1 -json ./... 2>/dev/null | grep -c '"Action":"pass".*"Test"')
fail=$(cd $S && go test -vet=off -count=1 ./... 2>&1 | grep -c '^FAIL\|^--- FAIL')
with=$("$D/demo.sh" $S 2>&1 | tail -3 | tr '\n' ' ')
git -C /repo worktree remove --force $S
echo "$(basename $D): suite pass=$pass failmarks=$fail | WITH: $with | WITHOUT: $without"
