#!/usr/bin/env python3
"""tools/mklock.py — writes theorems.lock.json: for every property the names of the theorems found in its proof
modules (PROOF_MODULES + NATIVE_MODULES) now. `check` reports a listed theorem that is missing as a broken obligation."""
import importlib.util, importlib.machinery, json, os, sys
ROOT = os.path.dirname(os.path.dirname(os.path.abspath(__file__)))
loader = importlib.machinery.SourceFileLoader("vcheck", os.path.join(ROOT, "check"))
spec = importlib.util.spec_from_loader("vcheck", loader); chk = importlib.util.module_from_spec(spec); loader.exec_module(chk)
lock = {}
for i in range(1, 21):
    pid = "C%02d" % i
    prop = chk.load_prop(pid)
    mods = getattr(prop, "PROOF_MODULES", ["PolyVerif.Props." + pid]) + getattr(prop, "NATIVE_MODULES", [])
    files = [os.path.join(chk.LEAN, *m.split(".")) + ".lean" for m in mods]
    lock[pid] = sorted(chk.theorem_names(files))
json.dump(lock, open(os.path.join(ROOT, "theorems.lock.json"), "w"), indent=1)
print({k: len(v) for k, v in lock.items()})
