#!/usr/bin/env python3
"""splitpatch.py <patch> <file> <hunk-indices-comma> : prints a patch holding only those hunks (0-based, per file)."""
import sys, re
patch, fname, idx = sys.argv[1], sys.argv[2], [int(x) for x in sys.argv[3].split(",")]
txt = open(patch).read()
files = re.split(r"(?m)^(?=diff --git )", txt)
for f in files:
    if not f.startswith("diff --git a/" + fname + " "):
        continue
    parts = re.split(r"(?m)^(?=@@ )", f)
    sys.stdout.write(parts[0])
    for i in idx:
        sys.stdout.write(parts[1 + i])
