// Package runner executes requests against the real poly code, in-process.
// One request per stdin line (op TAB args...), one reply per stdout line:
//
//	ok TAB values... | err TAB message | panic TAB message | timeout
//
// A panic in poly is recovered and reported; a timeout is reported and the
// process exits with status 3 (leaked goroutines cannot be reclaimed), the
// check restarts it on the remaining requests.
package runner

import (
	"bufio"
	"fmt"
	"os"
	"strconv"
	"sync"
	"sync/atomic"
	"time"

	"verifharness/proto"
)

// handler runs one request; it returns the reply fields (without status) or an error.
type Handler func(args []string) ([]string, error)

var handlers = map[string]Handler{}

func Register(op string, h Handler) { handlers[op] = h }

type reply struct {
	status string
	fields []string
}

func call(h Handler, args []string) (r reply) {
	defer func() {
		if p := recover(); p != nil {
			r = reply{"panic", []string{fmt.Sprint(p)}}
		}
	}()
	out, err := h(args)
	if err != nil {
		return reply{"err", []string{err.Error()}}
	}
	return reply{"ok", out}
}

var uniq atomic.Int64

// Unique returns a number no other call in this process gets: ops that need a scratch file name use it, so
// that requests executed concurrently (VERIF_PAR) never share a file.
func Unique() int64 { return uniq.Add(1) }

// stdout of the protocol; set by Main
var stdout *bufio.Writer

// exactly one writer ends a request as `timeout`: the runner's own timer or an op calling TimeoutNow
var timeoutOnce sync.Once

func timeoutExit(fields []string) {
	timeoutOnce.Do(func() {
		if stdout != nil {
			fmt.Fprintln(stdout, proto.Line(append([]string{"timeout"}, fields...)...))
			stdout.Flush()
		}
		os.Exit(3)
	})
	select {} // the other writer is exiting the process
}

// TimeoutNow lets an op that has established, with a deadline of its own, that the library call it is
// waiting for will never return, end the request exactly as the runner's own timeout does: the reply
// `timeout` (followed by the given detail fields: the check and the judges look at the first field only) is
// written and flushed and the process exits with status 3 (the goroutines stuck in the library cannot be
// reclaimed; the check restarts the harness on the remaining requests). It does not return; deferred calls
// of the op do NOT run, so the op removes its temporary files before calling it. Only to be called from
// the goroutine that runs the op.
func TimeoutNow(fields ...string) {
	timeoutExit(fields)
}

func Main() {
	timeout := 20 * time.Second
	if v := os.Getenv("VERIF_CASE_TIMEOUT_MS"); v != "" {
		if ms, err := strconv.Atoi(v); err == nil {
			timeout = time.Duration(ms) * time.Millisecond
		}
	}
	// VERIF_FLUSH_EACH=1: flush every reply, so that a process killed mid-request (e.g. by the race detector
	// with GORACE=halt_on_error=1) loses only the reply of the request that killed it
	flushEach := os.Getenv("VERIF_FLUSH_EACH") != ""
	in := bufio.NewReaderSize(os.Stdin, 1<<20)
	out := bufio.NewWriterSize(os.Stdout, 1<<20)
	stdout = out
	defer out.Flush()
	// VERIF_PAR=k (k > 1): requests are executed k at a time in concurrent goroutines and answered in order.
	// For ops that are functions of their arguments this puts every library call next to k-1 other calls
	// (shared scratch buffers, caches and pools show up as wrong answers, and as reports under -race).
	if k, _ := strconv.Atoi(os.Getenv("VERIF_PAR")); k > 1 {
		mainPar(in, out, k, timeout, flushEach)
		return
	}
	for {
		line, err := in.ReadString('\n')
		if len(line) > 0 && line[len(line)-1] == '\n' {
			line = line[:len(line)-1]
		}
		if line == "" && err != nil {
			break
		}
		fields := proto.Fields(line)
		h, ok := handlers[fields[0]]
		if !ok {
			fmt.Fprintln(out, proto.Line("err", "unknown-op "+fields[0]))
			if err != nil {
				break
			}
			continue
		}
		done := make(chan reply, 1)
		go func() { done <- call(h, fields[1:]) }()
		select {
		case r := <-done:
			fmt.Fprintln(out, proto.Line(append([]string{r.status}, r.fields...)...))
			if flushEach {
				out.Flush()
			}
		case <-time.After(timeout):
			timeoutExit(nil)
		}
		if err != nil {
			break
		}
	}
}

// mainPar is Main's loop for VERIF_PAR=k: batches of k requests run concurrently; replies keep the order of
// the requests. A batch shares one deadline; at the deadline the replies of the requests before the first
// unfinished one are written, that one is answered `timeout`, and the process exits with status 3 (the check
// restarts the harness on the remaining requests, which re-runs the rest of the batch).
func mainPar(in *bufio.Reader, out *bufio.Writer, k int, timeout time.Duration, flushEach bool) {
	eof := false
	for !eof {
		var dones []chan reply
		for len(dones) < k {
			line, err := in.ReadString('\n')
			if len(line) > 0 && line[len(line)-1] == '\n' {
				line = line[:len(line)-1]
			}
			if err != nil {
				eof = true
				if line == "" {
					break
				}
			}
			fields := proto.Fields(line)
			done := make(chan reply, 1)
			if h, ok := handlers[fields[0]]; ok {
				go func() { done <- call(h, fields[1:]) }()
			} else {
				done <- reply{"err", []string{"unknown-op " + fields[0]}}
			}
			dones = append(dones, done)
			if eof {
				break
			}
		}
		deadline := time.After(timeout)
		for _, done := range dones {
			select {
			case r := <-done:
				fmt.Fprintln(out, proto.Line(append([]string{r.status}, r.fields...)...))
				if flushEach {
					out.Flush()
				}
			case <-deadline:
				timeoutExit(nil)
			}
		}
	}
}
