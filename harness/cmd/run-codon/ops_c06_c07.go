package main

// Ops for C06 (Translate, default tables) and C07 (Optimize, random.ProteinSequence).
//
// Table specs (first argument of most ops):
//   id:N        codon.GetCodonTable(N), used read-only
//   rw:N:SEQ    a DEEP COPY of GetCodonTable(N) (default tables share their slices, known finding C08),
//               re-weighted with OptimizeTable(SEQ)
//   txt:TEXT    parseTableText(TEXT)
// Every op that takes a table spec returns as its first value the text form of the table it used when the
// spec is rw: (the table is an output of OptimizeTable then), and "" otherwise; op "table" always returns it.

import (
	"errors"
	"fmt"
	"sort"
	"strconv"
	"strings"
	"verifharness/runner"

	"github.com/TimothyStiles/poly/random"
	"github.com/TimothyStiles/poly/transform/codon"
)

func c0607Table(spec string) (codon.Table, error) {
	switch {
	case strings.HasPrefix(spec, "id:"):
		n, err := strconv.Atoi(spec[3:])
		if err != nil {
			return codon.Table{}, err
		}
		return codon.GetCodonTable(n), nil
	case strings.HasPrefix(spec, "rw:"):
		parts := strings.SplitN(spec[3:], ":", 2)
		if len(parts) != 2 {
			return codon.Table{}, errors.New("bad rw spec")
		}
		n, err := strconv.Atoi(parts[0])
		if err != nil {
			return codon.Table{}, err
		}
		t := parseTableText(tableText(codon.GetCodonTable(n)))
		return t.OptimizeTable(parts[1]), nil
	case strings.HasPrefix(spec, "txt:"):
		return parseTableText(spec[4:]), nil
	}
	return codon.Table{}, errors.New("bad table spec")
}

// usedTable is the table text reported back: only for re-weighted tables
func usedTable(spec string, t codon.Table) string {
	if strings.HasPrefix(spec, "rw:") {
		return tableText(t)
	}
	return ""
}

func c06Translate(s string, t codon.Table) (st, val string) {
	defer func() {
		if p := recover(); p != nil {
			st, val = "panic", fmt.Sprint(p)
		}
	}()
	v, err := codon.Translate(s, t)
	if err != nil {
		return "err", ""
	}
	return "ok", v
}

func c07Optimize(p string, t codon.Table) (st, val string) {
	defer func() {
		if r := recover(); r != nil {
			st, val = "panic", fmt.Sprint(r)
		}
	}()
	v, err := codon.Optimize(p, t)
	if err != nil {
		return "err", ""
	}
	return "ok", v
}

func init() {
	// translate SPEC s1 s2 ... -> table, st1, v1, st2, v2, ...
	runner.Register("translate", func(a []string) ([]string, error) {
		t, err := c0607Table(a[0])
		if err != nil {
			return nil, err
		}
		out := []string{usedTable(a[0], t)}
		for _, s := range a[1:] {
			st, v := c06Translate(s, t)
			out = append(out, st, v)
		}
		return out, nil
	})
	// table SPEC -> table text (start and stop lists, amino acids in the order the library holds them)
	runner.Register("table", func(a []string) ([]string, error) {
		t, err := c0607Table(a[0])
		if err != nil {
			return nil, err
		}
		return []string{tableText(t)}, nil
	})
	// optimize SPEC protein n -> table, then n times: status, dna, status of Translate(dna), its value
	runner.Register("optimize", func(a []string) ([]string, error) {
		t, err := c0607Table(a[0])
		if err != nil {
			return nil, err
		}
		n, _ := strconv.Atoi(a[2])
		out := []string{usedTable(a[0], t)}
		for i := 0; i < n; i++ {
			st, dna := c07Optimize(a[1], t)
			tst, tv := "-", ""
			if st == "ok" {
				tst, tv = c06Translate(dna, t)
			}
			out = append(out, st, dna, tst, tv)
		}
		return out, nil
	})
	// optfreq SPEC letter perCall calls -> table, "TRIPLET=count,..." (sorted), number of calls that did not return ok
	runner.Register("optfreq", func(a []string) ([]string, error) {
		t, err := c0607Table(a[0])
		if err != nil {
			return nil, err
		}
		per, _ := strconv.Atoi(a[2])
		calls, _ := strconv.Atoi(a[3])
		protein := strings.Repeat(a[1], per)
		counts := map[string]int{}
		bad := 0
		for i := 0; i < calls; i++ {
			st, dna := c07Optimize(protein, t)
			if st != "ok" || len(dna)%3 != 0 {
				bad++
				continue
			}
			for j := 0; j+3 <= len(dna); j += 3 {
				counts[dna[j:j+3]]++
			}
		}
		var keys []string
		for k := range counts {
			keys = append(keys, k)
		}
		sort.Strings(keys)
		var parts []string
		for _, k := range keys {
			parts = append(parts, k+"="+strconv.Itoa(counts[k]))
		}
		return []string{usedTable(a[0], t), strings.Join(parts, ","), strconv.Itoa(bad)}, nil
	})
	// opthist SPEC n STEP... : a history on ONE private table instance (deep copy of SPEC's table).
	//   W:seq      re-weight the instance in place with OptimizeTable(seq) (same backing arrays)
	//   O:protein  -> "O", table text now, then n times: status, dna, status of Translate(dna), value
	//   T:dna      -> "T", table text now, status of Translate(dna), value
	//   S:i,j      swap the letters of amino-acid entries i and j (mod the number of entries) through the
	//              exported fields: the same instance now holds a different code
	runner.Register("opthist", func(a []string) ([]string, error) {
		t0, err := c0607Table(a[0])
		if err != nil {
			return nil, err
		}
		n, _ := strconv.Atoi(a[1])
		t := parseTableText(tableText(t0))
		var out []string
		for _, step := range a[2:] {
			switch {
			case strings.HasPrefix(step, "W:"):
				t = t.OptimizeTable(step[2:])
			case strings.HasPrefix(step, "O:"):
				out = append(out, "O", tableText(t))
				for i := 0; i < n; i++ {
					st, dna := c07Optimize(step[2:], t)
					tst, tv := "-", ""
					if st == "ok" {
						tst, tv = c06Translate(dna, t)
					}
					out = append(out, st, dna, tst, tv)
				}
			case strings.HasPrefix(step, "T:"):
				st, v := c06Translate(step[2:], t)
				out = append(out, "T", tableText(t), st, v)
			case strings.HasPrefix(step, "S:"):
				ij := strings.SplitN(step[2:], ",", 2)
				if len(ij) == 2 && len(t.AminoAcids) > 0 {
					i, _ := strconv.Atoi(ij[0])
					j, _ := strconv.Atoi(ij[1])
					i, j = i%len(t.AminoAcids), j%len(t.AminoAcids)
					t.AminoAcids[i].Letter, t.AminoAcids[j].Letter = t.AminoAcids[j].Letter, t.AminoAcids[i].Letter
				}
			default:
				return nil, errors.New("bad step")
			}
		}
		return out, nil
	})
	// randprot length seed SPEC -> status of ProteinSequence, protein, table, status of Optimize, dna, status of Translate, value
	runner.Register("randprot", func(a []string) ([]string, error) {
		length, _ := strconv.Atoi(a[0])
		seed, _ := strconv.ParseInt(a[1], 10, 64)
		t, err := c0607Table(a[2])
		if err != nil {
			return nil, err
		}
		pst, p := func() (st, v string) {
			defer func() {
				if r := recover(); r != nil {
					st, v = "panic", fmt.Sprint(r)
				}
			}()
			s, err := random.ProteinSequence(length, seed)
			if err != nil {
				return "err", ""
			}
			return "ok", s
		}()
		ost, dna, tst, tv := "-", "", "-", ""
		if pst == "ok" {
			ost, dna = c07Optimize(p, t)
			if ost == "ok" {
				tst, tv = c06Translate(dna, t)
			}
		}
		return []string{pst, p, usedTable(a[2], t), ost, dna, tst, tv}, nil
	})
}
