package main

// Ops for C06 (Translate, default tables) and C07 (Optimize, random.ProteinSequence).
//
// Table specs (first argument of most ops):
//   id:N        codon.GetCodonTable(N), used read-only
//   rw:N:SEQ    a DEEP COPY of GetCodonTable(N) (default tables share their slices, known finding C08),
//               re-weighted with OptimizeTable(SEQ)
//   txt:TEXT    parseTableText(TEXT)
// Every op that takes a table spec returns as its first value the text form of the table it used (for id: the
// driver compares it with the regenerated default table, for rw: it is the output of OptimizeTable).
//
// Translate is always preceded by a throw-away call on a two-letter sequence with the same table: a correct
// Translate keeps no state between calls, so this changes nothing; an implementation that lets a trailing
// partial codon survive a call (pooled buffers …) is exposed on every case.

import (
	"errors"
	"fmt"
	"math/rand"
	"reflect"
	"runtime/debug"
	"sort"
	"strconv"
	"strings"
	"sync/atomic"
	"time"
	"verifharness/runner"

	"github.com/mroth/weightedrand"

	"github.com/TimothyStiles/poly/random"
	"github.com/TimothyStiles/poly/transform/codon"
)

func c0607Table(spec string) (codon.Table, error) {
	switch {
	case strings.HasPrefix(spec, "id:"):
		n, err := strconv.Atoi(spec[3:])
		if err != nil {
			return codon.Table{}, err
		}
		return codon.GetCodonTable(n), nil
	case strings.HasPrefix(spec, "rw:"):
		parts := strings.SplitN(spec[3:], ":", 2)
		if len(parts) != 2 {
			return codon.Table{}, errors.New("bad rw spec")
		}
		n, err := strconv.Atoi(parts[0])
		if err != nil {
			return codon.Table{}, err
		}
		t := parseTableText(tableText(codon.GetCodonTable(n)))
		return t.OptimizeTable(parts[1]), nil
	case strings.HasPrefix(spec, "txt:"):
		return parseTableText(spec[4:]), nil
	}
	return codon.Table{}, errors.New("bad table spec")
}

// usedTable is the table text reported back
func usedTable(spec string, t codon.Table) string {
	return tableText(t)
}

var throwAwayCount atomic.Int64 // requests may run concurrently (VERIF_PAR)

func c06Translate(s string, t codon.Table) (st, val string) {
	defer func() {
		if p := recover(); p != nil {
			st, val = "panic", fmt.Sprint(p)
		}
	}()
	// throw-away call that ends in a partial codon of one or two letters, alternating (see the header)
	if throwAwayCount.Add(1)%2 == 0 {
		_, _ = codon.Translate("GT", t)
	} else {
		_, _ = codon.Translate("G", t)
	}
	v, err := codon.Translate(s, t)
	if err != nil {
		return "err", ""
	}
	return "ok", v
}

func c07Optimize(p string, t codon.Table) (st, val string) {
	defer func() {
		if r := recover(); r != nil {
			st, val = "panic", fmt.Sprint(r)
		}
	}()
	v, err := codon.Optimize(p, t)
	if err != nil {
		return "err", ""
	}
	return "ok", v
}

func init() {
	// translate SPEC s1 s2 ... -> table, st1, v1, st2, v2, ...
	runner.Register("translate", func(a []string) ([]string, error) {
		t, err := c0607Table(a[0])
		if err != nil {
			return nil, err
		}
		out := []string{usedTable(a[0], t)}
		for _, s := range a[1:] {
			st, v := c06Translate(s, t)
			out = append(out, st, v)
		}
		return out, nil
	})
	// table SPEC -> table text (start and stop lists, amino acids in the order the library holds them)
	runner.Register("table", func(a []string) ([]string, error) {
		t, err := c0607Table(a[0])
		if err != nil {
			return nil, err
		}
		return []string{tableText(t)}, nil
	})
	// optimize SPEC protein n -> table, then n times: status, dna, status of Translate(dna), its value
	runner.Register("optimize", func(a []string) ([]string, error) {
		t, err := c0607Table(a[0])
		if err != nil {
			return nil, err
		}
		n, _ := strconv.Atoi(a[2])
		out := []string{usedTable(a[0], t)}
		for i := 0; i < n; i++ {
			st, dna := c07Optimize(a[1], t)
			tst, tv := "-", ""
			if st == "ok" {
				tst, tv = c06Translate(dna, t)
			}
			out = append(out, st, dna, tst, tv)
		}
		return out, nil
	})
	// optfreq SPEC letter perCall calls -> table, "TRIPLET=count,..." (sorted), number of calls that did not return ok
	runner.Register("optfreq", func(a []string) ([]string, error) {
		t, err := c0607Table(a[0])
		if err != nil {
			return nil, err
		}
		per, _ := strconv.Atoi(a[2])
		calls, _ := strconv.Atoi(a[3])
		protein := strings.Repeat(a[1], per)
		counts := map[string]int{}
		bad := 0
		for i := 0; i < calls; i++ {
			st, dna := c07Optimize(protein, t)
			if st != "ok" || len(dna)%3 != 0 {
				bad++
				continue
			}
			for j := 0; j+3 <= len(dna); j += 3 {
				counts[dna[j:j+3]]++
			}
		}
		var keys []string
		for k := range counts {
			keys = append(keys, k)
		}
		sort.Strings(keys)
		var parts []string
		for _, k := range keys {
			parts = append(parts, k+"="+strconv.Itoa(counts[k]))
		}
		return []string{usedTable(a[0], t), strings.Join(parts, ","), strconv.Itoa(bad)}, nil
	})
	// opthist SPEC n STEP... : a history on ONE private table instance (deep copy of SPEC's table).
	//   W:seq      re-weight the instance in place with OptimizeTable(seq) (same backing arrays)
	//   O:protein  -> "O", table text now, then n times: status, dna, status of Translate(dna), value
	//   T:dna      -> "T", table text now, status of Translate(dna), value
	//   S:i,j      swap the letters of amino-acid entries i and j (mod the number of entries) through the
	//              exported fields: the same instance now holds a different code
	runner.Register("opthist", func(a []string) ([]string, error) {
		t0, err := c0607Table(a[0])
		if err != nil {
			return nil, err
		}
		n, _ := strconv.Atoi(a[1])
		t := parseTableText(tableText(t0))
		var out []string
		for _, step := range a[2:] {
			switch {
			case strings.HasPrefix(step, "W:"):
				t = t.OptimizeTable(step[2:])
			case strings.HasPrefix(step, "O:"):
				out = append(out, "O", tableText(t))
				for i := 0; i < n; i++ {
					st, dna := c07Optimize(step[2:], t)
					tst, tv := "-", ""
					if st == "ok" {
						tst, tv = c06Translate(dna, t)
					}
					out = append(out, st, dna, tst, tv)
				}
			case strings.HasPrefix(step, "T:"):
				st, v := c06Translate(step[2:], t)
				out = append(out, "T", tableText(t), st, v)
			case strings.HasPrefix(step, "S:"):
				ij := strings.SplitN(step[2:], ",", 2)
				if len(ij) == 2 && len(t.AminoAcids) > 0 {
					i, _ := strconv.Atoi(ij[0])
					j, _ := strconv.Atoi(ij[1])
					i, j = i%len(t.AminoAcids), j%len(t.AminoAcids)
					t.AminoAcids[i].Letter, t.AminoAcids[j].Letter = t.AminoAcids[j].Letter, t.AminoAcids[i].Letter
				}
			default:
				return nil, errors.New("bad step")
			}
		}
		return out, nil
	})
	// randprot length seed SPEC -> status of ProteinSequence, protein, table, status of Optimize, dna, status of Translate, value
	runner.Register("randprot", func(a []string) ([]string, error) {
		length, _ := strconv.Atoi(a[0])
		seed, _ := strconv.ParseInt(a[1], 10, 64)
		t, err := c0607Table(a[2])
		if err != nil {
			return nil, err
		}
		pst, p := func() (st, v string) {
			defer func() {
				if r := recover(); r != nil {
					st, v = "panic", fmt.Sprint(r)
				}
			}()
			s, err := random.ProteinSequence(length, seed)
			if err != nil {
				return "err", ""
			}
			return "ok", s
		}()
		// same seed, same protein (the generator is re-seeded by every call)
		if pst == "ok" {
			if again, err := random.ProteinSequence(length, seed); err != nil || again != p {
				pst = "nondeterministic"
			}
		}
		ost, dna, tst, tv := "-", "", "-", ""
		if pst == "ok" {
			ost, dna = c07Optimize(p, t)
			if ost == "ok" {
				tst, tv = c06Translate(dna, t)
			}
		}
		return []string{pst, p, usedTable(a[2], t), ost, dna, tst, tv}, nil
	})
}

// ---------------------------------------------------------------- the weighted pick itself

type modelChooser struct {
	items  []string
	totals []int
	max    int
}

// parseChoices reads "ITEM=w,ITEM=w,..." in order
func parseChoices(s string) (items []string, weights []int) {
	for _, e := range strings.Split(s, ",") {
		if e == "" {
			continue
		}
		kv := strings.SplitN(e, "=", 2)
		w := 0
		if len(kv) == 2 {
			w, _ = strconv.Atoi(kv[1])
		}
		items = append(items, kv[0])
		weights = append(weights, w)
	}
	return
}

func weightedrandVersion() string {
	if bi, ok := debug.ReadBuildInfo(); ok {
		for _, d := range bi.Deps {
			if d.Path == "github.com/mroth/weightedrand" {
				if d.Replace != nil {
					return d.Version + "=>" + d.Replace.Path + "@" + d.Replace.Version
				}
				return d.Version
			}
		}
	}
	return "unknown"
}

func joinInts2(xs []int) string {
	var p []string
	for _, x := range xs {
		p = append(p, strconv.Itoa(x))
	}
	return strings.Join(p, ",")
}

func init() {
	// pick CHOICES SEEDS -> version of github.com/mroth/weightedrand, the chooser's data ("ITEM=w,…" in the order
	// NewChooser left them), its totals, its max (all three read with reflect from the unexported fields), and for
	// every seed "r=ITEM": r is what rand.Intn(max)+1 returns right after rand.Seed(seed); ITEM is what Pick()
	// returns right after the same rand.Seed(seed).
	runner.Register("pick", func(a []string) ([]string, error) {
		items, weights := parseChoices(a[0])
		var cs []weightedrand.Choice
		for i := range items {
			cs = append(cs, weightedrand.Choice{Item: items[i], Weight: uint(weights[i])})
		}
		ch := weightedrand.NewChooser(cs...)
		v := reflect.ValueOf(ch)
		fd, ft, fm := v.FieldByName("data"), v.FieldByName("totals"), v.FieldByName("max")
		if !fd.IsValid() || !ft.IsValid() || !fm.IsValid() || fd.Kind() != reflect.Slice || ft.Kind() != reflect.Slice {
			return nil, errors.New("weightedrand.Chooser does not have the fields data/totals/max")
		}
		var data []string
		for i := 0; i < fd.Len(); i++ {
			c := fd.Index(i)
			data = append(data, fmt.Sprint(c.FieldByName("Item").Elem().String())+"="+strconv.FormatUint(c.FieldByName("Weight").Uint(), 10))
		}
		var totals []int
		for i := 0; i < ft.Len(); i++ {
			totals = append(totals, int(ft.Index(i).Int()))
		}
		max := int(fm.Int())
		var draws []string
		for _, sd := range strings.Split(a[1], ",") {
			if sd == "" {
				continue
			}
			seed, _ := strconv.ParseInt(sd, 10, 64)
			one := func() (res string) {
				defer func() {
					if p := recover(); p != nil {
						res = "panic"
					}
				}()
				rand.Seed(seed)
				r := rand.Intn(max) + 1
				rand.Seed(seed)
				item := ch.Pick().(string)
				return strconv.Itoa(r) + "=" + item
			}()
			draws = append(draws, one)
		}
		return []string{weightedrandVersion(), strings.Join(data, ","), joinInts2(totals), strconv.Itoa(max), strings.Join(draws, ",")}, nil
	})

	// optfreqmix SPEC protein calls -> table, "L:TRIPLET=count,…;K:…" (per residue letter, sorted), calls that did not return ok
	runner.Register("optfreqmix", func(a []string) ([]string, error) {
		t, err := c0607Table(a[0])
		if err != nil {
			return nil, err
		}
		calls, _ := strconv.Atoi(a[2])
		p := a[1]
		counts := map[string]map[string]int{}
		bad := 0
		for i := 0; i < calls; i++ {
			st, dna := c07Optimize(p, t)
			if st != "ok" || len(dna) != 3*len(p) {
				bad++
				continue
			}
			for j := 0; j < len(p); j++ {
				l := p[j : j+1]
				if counts[l] == nil {
					counts[l] = map[string]int{}
				}
				counts[l][dna[3*j:3*j+3]]++
			}
		}
		var letters []string
		for l := range counts {
			letters = append(letters, l)
		}
		sort.Strings(letters)
		var parts []string
		for _, l := range letters {
			var keys []string
			for k := range counts[l] {
				keys = append(keys, k)
			}
			sort.Strings(keys)
			var es []string
			for _, k := range keys {
				es = append(es, k+"="+strconv.Itoa(counts[l][k]))
			}
			parts = append(parts, l+":"+strings.Join(es, ","))
		}
		return []string{usedTable(a[0], t), strings.Join(parts, ";"), strconv.Itoa(bad)}, nil
	})

	// optpairs SPEC protein calls -> table, counts of the codon pairs at positions (2i, 2i+1) "TRIPLETTRIPLET=count,…", bad calls
	runner.Register("optpairs", func(a []string) ([]string, error) {
		t, err := c0607Table(a[0])
		if err != nil {
			return nil, err
		}
		calls, _ := strconv.Atoi(a[2])
		p := a[1]
		counts := map[string]int{}
		bad := 0
		for i := 0; i < calls; i++ {
			st, dna := c07Optimize(p, t)
			if st != "ok" || len(dna) != 3*len(p) {
				bad++
				continue
			}
			for j := 0; j+6 <= len(dna); j += 6 {
				counts[dna[j:j+6]]++
			}
		}
		var keys []string
		for k := range counts {
			keys = append(keys, k)
		}
		sort.Strings(keys)
		var es []string
		for _, k := range keys {
			es = append(es, k+"="+strconv.Itoa(counts[k]))
		}
		return []string{usedTable(a[0], t), strings.Join(es, ","), strconv.Itoa(bad)}, nil
	})

	// optpos SPEC protein calls -> table, per POSITION codon counts "0:TRIPLET=count,…;1:…", calls that did not return ok
	runner.Register("optpos", func(a []string) ([]string, error) {
		t, err := c0607Table(a[0])
		if err != nil {
			return nil, err
		}
		calls, _ := strconv.Atoi(a[2])
		p := a[1]
		counts := make([]map[string]int, len(p))
		for i := range counts {
			counts[i] = map[string]int{}
		}
		bad := 0
		for i := 0; i < calls; i++ {
			st, dna := c07Optimize(p, t)
			if st != "ok" || len(dna) != 3*len(p) {
				bad++
				continue
			}
			for j := 0; j < len(p); j++ {
				counts[j][dna[3*j:3*j+3]]++
			}
		}
		var parts []string
		for j := range counts {
			var keys []string
			for k := range counts[j] {
				keys = append(keys, k)
			}
			sort.Strings(keys)
			var es []string
			for _, k := range keys {
				es = append(es, k+"="+strconv.Itoa(counts[j][k]))
			}
			parts = append(parts, strconv.Itoa(j)+":"+strings.Join(es, ","))
		}
		return []string{usedTable(a[0], t), strings.Join(parts, ";"), strconv.Itoa(bad)}, nil
	})

	// optreplay SPEC protein CHOOSERS -> table, status, dna, found, offset | "probe-seed", "r1,r2,…", touched (did the call touch the
	// global generator), status and value of Translate(dna)
	// CHOOSERS = "L:ITEM=w,ITEM=w;K:…": per residue letter the choices in the order the MODEL says NewChooser leaves them.
	// Optimize seeds math/rand with the wall clock in nanoseconds. The clock is read before and after the call; for
	// every nanosecond s in that window (and a margin) the harness re-seeds with s and replays the model's picks
	// (r := rand.Intn(max)+1, first total >= r) until it finds the seed that reproduces the real output. It reports the
	// draws r_i of that seed; the driver then checks `optimize … rs = dna` on the Lean model. No seed found => found=0.
	runner.Register("optreplay", func(a []string) ([]string, error) {
		t, err := c0607Table(a[0])
		if err != nil {
			return nil, err
		}
		p := a[1]
		choosers := map[string]*modelChooser{}
		for _, e := range strings.Split(a[2], ";") {
			kv := strings.SplitN(e, ":", 2)
			if len(kv) != 2 {
				continue
			}
			items, weights := parseChoices(kv[1])
			mc := &modelChooser{items: items}
			for _, w := range weights {
				mc.max += w
				mc.totals = append(mc.totals, mc.max)
			}
			choosers[kv[0]] = mc
		}
		// does the call touch the GLOBAL generator at all (re-seed it or draw from it)?  Seed it with a constant, call,
		// and look at the next value: untouched => Optimize draws from a generator of its own and no seed can be recovered
		// through the global one (the driver then falls back to the membership and frequency judgements).
		const probeSeed = 20260928
		rand.Seed(probeSeed)
		untouchedNext := rand.Int63()
		rand.Seed(probeSeed)
		t0 := time.Now().UnixNano()
		st, dna := c07Optimize(p, t)
		t1 := time.Now().UnixNano()
		touched := "1"
		if rand.Int63() == untouchedNext {
			touched = "0"
		}
		if st != "ok" {
			return []string{usedTable(a[0], t), st, "", "0", "0", "", touched, "-", ""}, nil
		}
		runes := []rune(p)
		if len(dna) != 3*len(runes) {
			return []string{usedTable(a[0], t), st, dna, "0", "0", "", touched, "-", ""}, nil
		}
		try := func(seed int64, record bool) (bool, []int) {
			rand.Seed(seed)
			var rs []int
			for i, aa := range runes {
				mc := choosers[string(aa)]
				if mc == nil || mc.max <= 0 {
					return false, nil
				}
				r := rand.Intn(mc.max) + 1
				j := sort.SearchInts(mc.totals, r)
				if j >= len(mc.items) || mc.items[j] != dna[3*i:3*i+3] {
					return false, nil
				}
				if record {
					rs = append(rs, r)
				}
			}
			return true, rs
		}
		tst, tv := c06Translate(dna, t)
		found := func(s int64, how string) ([]string, error) {
			_, rs := try(s, true)
			return []string{usedTable(a[0], t), st, dna, "1", how, joinInts2(rs), touched, tst, tv}, nil
		}
		// (1) Optimize did not re-seed: the draws continue the stream of the probe seed set just before the call
		if ok, _ := try(probeSeed, false); ok {
			return found(probeSeed, "probe-seed")
		}
		// (2) the clock value read between t0 and t1 (at most 5 ms of it), then a margin of 2 microseconds on both sides
		hi := t1
		if hi > t0+5000000 {
			hi = t0 + 5000000
		}
		for s := t0; s <= hi; s++ {
			if ok, _ := try(s, false); ok {
				return found(s, strconv.FormatInt(s-t0, 10))
			}
		}
		for d := int64(1); d <= 2000; d++ {
			for _, s := range []int64{t1 + d, t0 - d} {
				if ok, _ := try(s, false); ok {
					return found(s, strconv.FormatInt(s-t0, 10))
				}
			}
		}
		return []string{usedTable(a[0], t), st, dna, "0", strconv.FormatInt(t1-t0, 10), "", touched, tst, tv}, nil
	})
}
