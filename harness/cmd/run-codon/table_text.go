package main

import (
	"strconv"
	"strings"

	"github.com/TimothyStiles/poly/transform/codon"
)

// tableText renders a codon.Table in the protocol's text form (see lean/PolyVerif/Model/Codon.lean).
func tableText(t codon.Table) string {
	var aas []string
	for _, aa := range t.AminoAcids {
		var cs []string
		for _, c := range aa.Codons {
			cs = append(cs, c.Triplet+"="+strconv.Itoa(c.Weight))
		}
		aas = append(aas, aa.Letter+":"+strings.Join(cs, ","))
	}
	return strings.Join(t.StartCodons, ",") + "/" + strings.Join(t.StopCodons, ",") + "/" + strings.Join(aas, ";")
}

// parseTableText is the inverse of tableText; it allocates fresh slices (no sharing with the default tables).
func parseTableText(s string) codon.Table {
	var t codon.Table
	parts := strings.Split(s, "/")
	if len(parts) != 3 {
		return t
	}
	split := func(x, sep string) []string {
		var out []string
		for _, p := range strings.Split(x, sep) {
			if p != "" {
				out = append(out, p)
			}
		}
		return out
	}
	t.StartCodons = split(parts[0], ",")
	t.StopCodons = split(parts[1], ",")
	for _, a := range split(parts[2], ";") {
		lc := strings.SplitN(a, ":", 2)
		aa := codon.AminoAcid{Letter: lc[0]}
		if len(lc) == 2 {
			for _, c := range split(lc[1], ",") {
				tw := strings.SplitN(c, "=", 2)
				w := 0
				if len(tw) == 2 {
					w, _ = strconv.Atoi(tw[1])
				}
				aa.Codons = append(aa.Codons, codon.Codon{Triplet: tw[0], Weight: w})
			}
		}
		t.AminoAcids = append(t.AminoAcids, aa)
	}
	return t
}
