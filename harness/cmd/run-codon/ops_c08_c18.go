package main

// Harness ops for C08 (histories of table operations, concurrent re-weighting) and C18 (add / compromise).
//
// C08 design: the package-level default tables are process state and OptimizeTable writes through the
// slices GetCodonTable hands out (known finding C08-alias-default).  So that every history is independent
// of the ones run before it in the same process (and replays alone exactly as it ran in a batch):
//   * the FIRST time an id is named by a C08 op in this process, the table GetCodonTable(id) returns is
//     SNAPSHOTTED before anything re-weights it: that is the fresh-process state of the default table,
//     written by poly alone.  It is reported with the prefix "F" (fresh).
//   * every later history that names the id first puts the weights of the snapshot back THROUGH the same
//     aliasing (the only access there is without a hook) and reports the table with the prefix "R".
// The harness never writes a weight of its own choosing.  The Lean side judges every reported start table
// (uniform weight 1, regenerated NCBI assignment), starts its heap model from it (so it also learns the
// amino-acid order, which is the iteration order of a Go map and differs from process to process).

import (
	"errors"
	"fmt"
	"math"
	"os"
	"strconv"
	"strings"
	"sync"
	"verifharness/runner"

	"github.com/TimothyStiles/poly/transform/codon"
)

var (
	snapMu    sync.Mutex
	snapshots = map[int][][]int{} // id -> weights of GetCodonTable(id) at its first use by a C08 op in this process
)

// startTable snapshots (first use) or restores (later uses) default table id and reports it: "F"/"R" + table text.
func startTable(id int) string {
	snapMu.Lock()
	defer snapMu.Unlock()
	t := codon.GetCodonTable(id)
	snap, seen := snapshots[id]
	if !seen {
		for i := range t.AminoAcids {
			var ws []int
			for j := range t.AminoAcids[i].Codons {
				ws = append(ws, t.AminoAcids[i].Codons[j].Weight)
			}
			snap = append(snap, ws)
		}
		snapshots[id] = snap
		return "F" + tableText(t)
	}
	for i := range t.AminoAcids {
		for j := range t.AminoAcids[i].Codons {
			if i < len(snap) && j < len(snap[i]) {
				t.AminoAcids[i].Codons[j].Weight = snap[i][j]
			}
		}
	}
	return "R" + tableText(codon.GetCodonTable(id))
}

func parseIDs(s string) ([]int, error) {
	var ids []int
	for _, f := range strings.Split(s, ",") {
		if f == "" {
			continue
		}
		n, err := strconv.Atoi(f)
		if err != nil {
			return nil, err
		}
		ids = append(ids, n)
	}
	return ids, nil
}

func cutOfBits(s string) (float64, error) {
	b, err := strconv.ParseUint(s, 10, 64)
	if err != nil {
		return 0, err
	}
	return math.Float64frombits(b), nil
}

// histFiles: the JSON files of ONE history.  The step `j:<h>` means "parse the serialisation of handles[h]" and goes
// through the FILE entry points: handle h has one path for the whole history; WriteCodonJSON writes it the first time
// and whenever the handle's current content differs from what the file holds; if the file already holds exactly the
// serialisation of handles[h], it is NOT rewritten and ReadCodonJSON reads the unchanged file AGAIN.  So one path is
// read several times, by several result handles, possibly with in-place re-weightings of earlier results in between:
// every read must give the file's content (value semantics: a fresh copy of handles[h]).
type histFiles struct {
	dir     string
	written map[int]string // handle -> table text the file holds
}

func newHistFiles() *histFiles { return &histFiles{written: map[int]string{}} }

func (hf *histFiles) roundTrip(h int, t codon.Table) (codon.Table, error) {
	if hf.dir == "" {
		d, err := os.MkdirTemp("", fmt.Sprintf("verif-c08-%d-%d-", os.Getpid(), runner.Unique()))
		if err != nil {
			return codon.Table{}, err
		}
		hf.dir = d
	}
	path := fmt.Sprintf("%s/h%d.json", hf.dir, h)
	txt := tableText(t)
	if old, ok := hf.written[h]; !ok || old != txt {
		codon.WriteCodonJSON(t, path)
		hf.written[h] = txt
	}
	return codon.ReadCodonJSON(path), nil
}

func (hf *histFiles) cleanup() {
	if hf.dir != "" {
		os.RemoveAll(hf.dir)
	}
}

// one step of a history; a panic inside poly is reported as the step's output
func histStep(hf *histFiles, handles []codon.Table, tok string) (res codon.Table, out string, bad error) {
	defer func() {
		if p := recover(); p != nil {
			res, out = codon.Table{}, "panic"
		}
	}()
	f := strings.SplitN(tok, ":", 4)
	h := func(i int) (codon.Table, error) {
		if i >= len(f) {
			return codon.Table{}, errors.New("bad token " + tok)
		}
		n, err := strconv.Atoi(f[i])
		if err != nil || n < 0 || n >= len(handles) {
			return codon.Table{}, errors.New("bad handle in " + tok)
		}
		return handles[n], nil
	}
	switch f[0] {
	case "g":
		if len(f) < 2 {
			return res, "", errors.New("bad token " + tok)
		}
		id, err := strconv.Atoi(f[1])
		if err != nil {
			return res, "", err
		}
		t := codon.GetCodonTable(id)
		return t, "T" + tableText(t), nil
	case "w":
		t, err := h(1)
		if err != nil || len(f) < 3 {
			return res, "", errors.New("bad token " + tok)
		}
		s := tok[len(f[0])+len(f[1])+2:]
		r := t.OptimizeTable(s)
		return r, "T" + tableText(r), nil
	case "a":
		t1, err1 := h(1)
		t2, err2 := h(2)
		if err1 != nil || err2 != nil {
			return res, "", errors.New("bad token " + tok)
		}
		r := codon.AddCodonTable(t1, t2)
		return r, "T" + tableText(r), nil
	case "c":
		t1, err1 := h(1)
		t2, err2 := h(2)
		if err1 != nil || err2 != nil || len(f) < 4 {
			return res, "", errors.New("bad token " + tok)
		}
		cut, err := cutOfBits(f[3])
		if err != nil {
			return res, "", err
		}
		r, cerr := codon.CompromiseCodonTable(t1, t2, cut)
		if cerr != nil {
			return codon.Table{}, "err", nil
		}
		return r, "T" + tableText(r), nil
	case "j":
		t, err := h(1)
		if err != nil {
			return res, "", err
		}
		hn, _ := strconv.Atoi(f[1])
		r, jerr := hf.roundTrip(hn, t)
		if jerr != nil {
			return res, "", jerr
		}
		return r, "T" + tableText(r), nil
	case "o":
		t, err := h(1)
		if err != nil {
			return res, "", err
		}
		return codon.Table{}, "T" + tableText(t), nil
	}
	return res, "", errors.New("unknown history op " + tok)
}

// source of a C18 operand: "id:<n>:<coding sequence>" = deep copy of default table n, re-weighted; "raw:<table text>"
func c18Operand(src string) (codon.Table, error) {
	switch {
	case strings.HasPrefix(src, "raw:"):
		return parseTableText(src[4:]), nil
	case strings.HasPrefix(src, "id:"):
		f := strings.SplitN(src, ":", 3)
		if len(f) != 3 {
			return codon.Table{}, errors.New("bad operand")
		}
		id, err := strconv.Atoi(f[1])
		if err != nil {
			return codon.Table{}, err
		}
		// detach from the shared default table BEFORE re-weighting (C08), and again after
		t := parseTableText(tableText(codon.GetCodonTable(id))).OptimizeTable(f[2])
		return parseTableText(tableText(t)), nil
	}
	return codon.Table{}, errors.New("bad operand")
}

func guarded(f func() string) (out string) {
	defer func() {
		if p := recover(); p != nil {
			out = "panic"
		}
	}()
	return f()
}

func init() {
	// c08hist <ids> <tok>... -> init table per id, then one output per step
	runner.Register("c08hist", func(args []string) ([]string, error) {
		if len(args) < 1 {
			return nil, errors.New("usage")
		}
		ids, err := parseIDs(args[0])
		if err != nil {
			return nil, err
		}
		var out []string
		for _, id := range ids {
			out = append(out, startTable(id))
		}
		var handles []codon.Table
		hf := newHistFiles()
		defer hf.cleanup()
		for _, tok := range args[1:] {
			t, o, bad := histStep(hf, handles, tok)
			if bad != nil {
				return nil, bad
			}
			handles = append(handles, t)
			out = append(out, o)
		}
		return out, nil
	})

	// c08racectl : CONTROL of the race-detector runs.  Two goroutines of the harness write one variable without any
	// synchronisation (no poly code involved, so it races whatever poly does about sharing): under the race detector the
	// process must die with a DATA RACE report (reply `race`); without it the op answers ok.
	runner.Register("c08racectl", func(args []string) ([]string, error) {
		shared := 0
		start := make(chan struct{})
		var wg sync.WaitGroup
		for k := 0; k < 2; k++ {
			wg.Add(1)
			go func(k int) {
				defer wg.Done()
				<-start
				for i := 0; i < 1000; i++ {
					shared += k + i
				}
			}(k)
		}
		close(start)
		wg.Wait()
		return []string{strconv.Itoa(shared & 1)}, nil
	})

	// c08conc <id:s1,s2,...|id:@n>... : one goroutine per argument.  A WRITER (id:s1,s2,...) re-weights ITS default
	// table with s1, s2, ... in turn; a READER (id:@n) requests default table id n times while the writers run, each
	// time serialising it and adding it to itself, and reports the last text and whether all n looks were identical.
	// -> start table per thread, final per thread, then GetCodonTable(id) per thread afterwards
	runner.Register("c08conc", func(args []string) ([]string, error) {
		type thread struct {
			id    int
			seqs  []string
			reads int
		}
		var ths []thread
		for _, a := range args {
			f := strings.SplitN(a, ":", 2)
			if len(f) != 2 {
				return nil, errors.New("bad thread")
			}
			id, err := strconv.Atoi(f[0])
			if err != nil {
				return nil, err
			}
			if strings.HasPrefix(f[1], "@") {
				n, err := strconv.Atoi(f[1][1:])
				if err != nil {
					return nil, err
				}
				ths = append(ths, thread{id: id, reads: n})
			} else {
				ths = append(ths, thread{id: id, seqs: strings.Split(f[1], ",")})
			}
		}
		var out []string
		seen := map[int]string{}
		for _, th := range ths {
			if _, ok := seen[th.id]; !ok {
				seen[th.id] = startTable(th.id)
			}
			out = append(out, seen[th.id])
		}
		finals := make([]string, len(ths))
		start := make(chan struct{})
		var wg sync.WaitGroup
		for k := range ths {
			wg.Add(1)
			go func(k int) {
				defer wg.Done()
				defer func() {
					if p := recover(); p != nil {
						finals[k] = "panic"
					}
				}()
				<-start
				if ths[k].seqs == nil {
					same, last := true, ""
					for i := 0; i < ths[k].reads; i++ {
						t := codon.GetCodonTable(ths[k].id)
						txt := tableText(t) + "|" + tableText(codon.AddCodonTable(t, t))
						if i > 0 && txt != last {
							same = false
						}
						last = txt
					}
					if !same {
						finals[k] = "changed"
						return
					}
					finals[k] = "T" + strings.SplitN(last, "|", 2)[0]
					return
				}
				t := codon.GetCodonTable(ths[k].id)
				for _, s := range ths[k].seqs {
					t = t.OptimizeTable(s)
				}
				finals[k] = "T" + tableText(t)
			}(k)
		}
		close(start)
		wg.Wait()
		out = append(out, finals...)
		for _, th := range ths {
			out = append(out, "T"+tableText(codon.GetCodonTable(th.id)))
		}
		return out, nil
	})

	// c18pair <src1> <src2> <cutbits,cutbits,...> <protein>
	// -> t1, t2, add(t1,t2), add(t2,t1), then per cut: compromise(t1,t2,c), compromise(t2,t1,c), Optimize(protein, compromise(t1,t2,c))
	runner.Register("c18pair", func(args []string) ([]string, error) {
		if len(args) != 4 {
			return nil, errors.New("usage")
		}
		t1, err := c18Operand(args[0])
		if err != nil {
			return nil, err
		}
		t2, err := c18Operand(args[1])
		if err != nil {
			return nil, err
		}
		return pairReply(t1, t2, args[2], args[3])
	})

	// c18reuse <id:n:seqA> <seqB> <src2> <cutbits,...> <protein>
	// ONE Table value t (a detached copy of default table n) is re-weighted in place from seqA, combined with src2's
	// table (both argument positions, add and compromise), then THE SAME Table value (same backing arrays) is
	// re-weighted in place from seqB and combined again.  -> the c18pair reply of phase A, "|", the c18pair reply of phase B
	runner.Register("c18reuse", func(args []string) ([]string, error) {
		if len(args) != 5 || !strings.HasPrefix(args[0], "id:") {
			return nil, errors.New("usage")
		}
		f := strings.SplitN(args[0], ":", 3)
		if len(f) != 3 {
			return nil, errors.New("bad operand")
		}
		id, err := strconv.Atoi(f[1])
		if err != nil {
			return nil, err
		}
		u, err := c18Operand(args[2])
		if err != nil {
			return nil, err
		}
		t := parseTableText(tableText(codon.GetCodonTable(id))) // detached from the default table (C08)
		t = t.OptimizeTable(f[2])                               // in place
		outA, err := pairReply(t, u, args[3], args[4])
		if err != nil {
			return nil, err
		}
		t = t.OptimizeTable(args[1]) // in place again: same AminoAcids / Codons arrays
		outB, err := pairReply(t, u, args[3], args[4])
		if err != nil {
			return nil, err
		}
		return append(append(outA, "|"), outB...), nil
	})
}

// pairReply: t1, t2, add(t1,t2), add(t2,t1), then per cut: compromise(t1,t2,c), compromise(t2,t1,c), Optimize(protein, compromise(t1,t2,c))
func pairReply(t1, t2 codon.Table, cuts string, protein string) ([]string, error) {
	in1, in2 := tableText(t1), tableText(t2)
	out := []string{in1, in2}
	out = append(out, guarded(func() string { return "T" + tableText(codon.AddCodonTable(t1, t2)) }))
	out = append(out, guarded(func() string { return "T" + tableText(codon.AddCodonTable(t2, t1)) }))
	for _, cb := range strings.Split(cuts, ",") {
		if cb == "" {
			continue
		}
		cut, err := cutOfBits(cb)
		if err != nil {
			return nil, err
		}
		var r12 codon.Table
		ok12 := false
		out = append(out, guarded(func() string {
			r, e := codon.CompromiseCodonTable(t1, t2, cut)
			if e != nil {
				return "err"
			}
			r12, ok12 = r, true
			return "T" + tableText(r)
		}))
		out = append(out, guarded(func() string {
			r, e := codon.CompromiseCodonTable(t2, t1, cut)
			if e != nil {
				return "err"
			}
			return "T" + tableText(r)
		}))
		out = append(out, guarded(func() string {
			if !ok12 {
				return "none"
			}
			dna, e := codon.Optimize(protein, r12)
			if e != nil {
				return "err"
			}
			return "S" + dna
		}))
	}
	// the operands must not have been written to
	if tableText(t1) != in1 || tableText(t2) != in2 {
		return nil, fmt.Errorf("operand mutated")
	}
	return out, nil
}
