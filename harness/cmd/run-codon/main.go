// Command run-codon: harness for transform/codon and random (C06 C07 C08 C18).
package main

import "verifharness/runner"

func main() { runner.Main() }
