// Command run-seq: harness for transform / variants / checks / seqhash (C04 C05 C11 C12).
package main

import "verifharness/runner"

func main() { runner.Main() }
