package main

import (
	"encoding/hex"
	"math/big"
	"strconv"
	"strings"
	"verifharness/runner"

	"github.com/TimothyStiles/poly/checks"
	"github.com/TimothyStiles/poly/seqhash"
	"github.com/TimothyStiles/poly/transform"
	"github.com/TimothyStiles/poly/transform/variants"
)

func init() {
	// C11
	runner.Register("revcomp", func(a []string) ([]string, error) {
		return []string{transform.ReverseComplement(a[0]), transform.Complement(a[0]), transform.Reverse(a[0]), bstr(checks.IsPalindromic(a[0]))}, nil
	})
	runner.Register("variants", func(a []string) ([]string, error) {
		// Three regimes besides the ordinary one (same predicates as Driver/C11.lean `regime`):
		//  sampled   - too many readings to ship, but the code can build them within the memory budget:
		//              the code IS called; reply `sampled <count> <entries 0, 100000, 200000, …, last>`
		//  too-large - at most harnessCallsAbove readings but beyond the memory budget: not called
		//  (above harnessCallsAbove the code is called and must refuse at once)
		if n, known := iupacCount(a[0]); known {
			switch regime(n, len(a[0])) {
			case "too-large":
				return []string{"too-large"}, nil
			case "sampled":
				v, err := variants.AllVariantsIUPAC(a[0])
				if err != nil {
					return nil, err
				}
				var sample []string
				for i := 0; i < len(v); i += 100000 {
					sample = append(sample, v[i])
				}
				if len(v) > 0 && (len(v)-1)%100000 != 0 {
					sample = append(sample, v[len(v)-1])
				}
				return []string{"sampled", strconv.Itoa(len(v)), strings.Join(sample, ",")}, nil
			}
		}
		v, err := variants.AllVariantsIUPAC(a[0])
		if err != nil {
			return nil, err
		}
		return []string{strconv.Itoa(len(v)), strings.Join(v, ",")}, nil
	})
	// C12
	runner.Register("rotate", func(a []string) ([]string, error) {
		return []string{seqhash.RotateSequence(a[0])}, nil
	})
	// C12 on arbitrary byte strings (hex encoded on the protocol)
	runner.Register("rotatehex", func(a []string) ([]string, error) {
		raw, err := hex.DecodeString(a[0])
		if err != nil {
			return nil, err
		}
		return []string{hex.EncodeToString([]byte(seqhash.RotateSequence(string(raw))))}, nil
	})
	// C04 / C05
	runner.Register("hash", func(a []string) ([]string, error) {
		h, err := seqhash.Hash(a[0], a[1], a[2] == "true", a[3] == "true")
		if err != nil {
			return nil, err
		}
		return []string{h}, nil
	})
}

func hashFields(seq, ty, c, d string) (st string, val string) {
	defer func() {
		if p := recover(); p != nil {
			st, val = "panic", ""
		}
	}()
	h, err := seqhash.Hash(seq, ty, c == "true", d == "true")
	if err != nil {
		return "err", ""
	}
	return "ok", h
}

func init() {
	runner.Register("hash2", func(a []string) ([]string, error) {
		s1, v1 := hashFields(a[0], a[1], a[2], a[3])
		s2, v2 := hashFields(a[4], a[5], a[6], a[7])
		return []string{s1, v1, s2, v2}, nil
	})
	// hashflags ty w1 w2 ... : every word hashed under the four (circular, doubleStranded) pairs
	// (true,true) (true,false) (false,true) (false,false); one field per call, "err" for a rejected call
	runner.Register("hashflags", func(a []string) ([]string, error) {
		var out []string
		for _, w := range a[1:] {
			for _, f := range [][2]bool{{true, true}, {true, false}, {false, true}, {false, false}} {
				h, err := seqhash.Hash(w, a[0], f[0], f[1])
				if err != nil {
					h = "err"
				}
				out = append(out, h)
			}
		}
		return out, nil
	})
	// every word of length n over alpha, odometer order (last letter fastest)
	runner.Register("hashall", func(a []string) ([]string, error) {
		alpha := a[0]
		n := atoi(a[1])
		idx := make([]int, n)
		var out []string
		buf := make([]byte, n)
		for {
			for i := range idx {
				buf[i] = alpha[idx[i]]
			}
			h, err := seqhash.Hash(string(buf), a[2], a[3] == "true", a[4] == "true")
			if err != nil {
				h = "err" // per word: a family in which only SOME words are rejected must stay judgeable
			}
			out = append(out, h)
			i := n - 1
			for ; i >= 0; i-- {
				idx[i]++
				if idx[i] < len(alpha) {
					break
				}
				idx[i] = 0
			}
			if i < 0 {
				break
			}
		}
		// one reply field per word (a single joined field of 4^9 hashes is a 19 MB field, too long
		// for the line decoder of the model driver)
		return out, nil
	})
}

const harnessCallsAbove = 2147483647

// iupacCount: the number of concrete readings of s, from the harness's own table of IUPAC code
// sizes (not from the code under test); known = false if s has a letter outside the 15 codes
// (the code is then called: it refuses at once).
func iupacCount(s string) (*big.Int, bool) {
	n := big.NewInt(1)
	for _, c := range strings.ToUpper(s) {
		var k int64
		switch c {
		case 'A', 'C', 'G', 'T':
			k = 1
		case 'R', 'Y', 'S', 'W', 'K', 'M':
			k = 2
		case 'B', 'D', 'H', 'V':
			k = 3
		case 'N':
			k = 4
		default:
			return nil, false
		}
		n.Mul(n, big.NewInt(k))
	}
	return n, true
}

const sampledBudget = 230000000 // readings x (letters+1) the code is still asked to build (about 3 GB)

func regime(n *big.Int, length int) string {
	t := new(big.Int).Mul(n, big.NewInt(int64(length+1)))
	if n.Cmp(big.NewInt(2000000)) <= 0 && t.Cmp(big.NewInt(50000000)) <= 0 {
		return "full"
	}
	if n.Cmp(big.NewInt(harnessCallsAbove)) > 0 {
		return "called-must-refuse"
	}
	if t.Cmp(big.NewInt(sampledBudget)) <= 0 {
		return "sampled"
	}
	return "too-large"
}

func atoi(s string) int {
	n := 0
	for _, c := range s {
		n = n*10 + int(c-'0')
	}
	return n
}

func bstr(b bool) string {
	if b {
		return "true"
	}
	return "false"
}
