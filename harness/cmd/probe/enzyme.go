package main

import (
	"regexp"

	"github.com/TimothyStiles/poly/clone"
)

var bsaI = clone.Enzyme{Name: "BsaI", RegexpFor: regexp.MustCompile("GGTCTC"), RegexpRev: regexp.MustCompile("GAGACC"), Skip: 1, OverhangLen: 4, RecognitionSite: "GGTCTC"}
