// Command probe demonstrates, against the real code, each defect that was repaired by a
// "fix:" commit in /repo (or is recorded as a known finding).  One line per probe:
//
//	PROBE <name> holds|VIOLATED <detail>
//
// It is a demonstration aid, not a check: the checks decide the properties.
package main

import (
	"bytes"
	"fmt"
	"os"
	"regexp"
	"strings"
	"time"

	"github.com/TimothyStiles/poly"
	"github.com/TimothyStiles/poly/clone"
	"github.com/TimothyStiles/poly/io/fasta"
	"github.com/TimothyStiles/poly/io/genbank"
	"github.com/TimothyStiles/poly/io/gff"
	"github.com/TimothyStiles/poly/io/rebase"
	"github.com/TimothyStiles/poly/io/uniprot"
	"github.com/TimothyStiles/poly/primers"
	"github.com/TimothyStiles/poly/random"
	"github.com/TimothyStiles/poly/seqhash"
	"github.com/TimothyStiles/poly/transform/codon"
	"github.com/TimothyStiles/poly/transform/variants"
)

func report(name string, ok bool, detail string) {
	st := "holds"
	if !ok {
		st = "VIOLATED"
	}
	fmt.Printf("PROBE %-28s %-8s %s\n", name, st, detail)
}

func guard(name string, f func() (bool, string)) {
	done := make(chan struct{})
	go func() {
		defer func() {
			if p := recover(); p != nil {
				report(name, false, fmt.Sprint("panic: ", p))
			}
			close(done)
		}()
		ok, d := f()
		report(name, ok, d)
	}()
	select {
	case <-done:
	case <-time.After(5 * time.Second):
		report(name, false, "no result within 5 s (non-termination / blocked)")
	}
}

func gbRecord(locusLen string, features string, origin string) string {
	return "LOCUS       test                 " + locusLen + " bp    DNA     linear   SYN 01-JAN-2020\n" +
		"DEFINITION  a test.\nFEATURES             Location/Qualifiers\n" + features + "ORIGIN\n" + origin + "\n//\n"
}

func main() {
	only := ""
	if len(os.Args) > 1 {
		only = os.Args[1]
	}
	probes := []struct {
		name string
		f    func() (bool, string)
	}{
		{"C01-locus-two-digit-length", func() (bool, string) {
			s := genbank.Parse([]byte(gbRecord("20", "     gene            1..20\n                     /gene=\"x\"\n", "        1 acgtacgtac gtacgtacgt")))
			return s.Meta.Locus.SequenceLength == "20", fmt.Sprintf("SequenceLength=%q want \"20\"", s.Meta.Locus.SequenceLength)
		}},
		{"C01-qualifier-verbatim", func() (bool, string) {
			s := genbank.Parse([]byte(gbRecord("120", "     gene            1..20\n                     /note=\"a/b=c=d\"\n", "        1 acgtacgtac gtacgtacgt")))
			return len(s.Features) == 1 && s.Features[0].Attributes["note"] == "a/b=c=d", fmt.Sprintf("attributes=%v want note=a/b=c=d", s.Features[0].Attributes)
		}},
		{"C01-feature-without-qualifier", func() (bool, string) {
			s := genbank.Parse([]byte(gbRecord("120", "     misc_feature    1..5\n     gene            3..9\n                     /gene=\"x\"\n", "        1 acgtacgtac gtacgtacgt")))
			ok := len(s.Features) == 2 && s.Features[0].GbkLocationString == "1..5" && s.Features[1].Type == "gene"
			return ok, fmt.Sprintf("%d features, first location %q", len(s.Features), func() string {
				if len(s.Features) > 0 {
					return s.Features[0].GbkLocationString
				}
				return ""
			}())
		}},
		{"C01-multi-last-record", func() (bool, string) {
			one := strings.TrimSuffix(gbRecord("120", "     gene            1..20\n                     /gene=\"x\"\n", "        1 acgtacgtac gtacgtacgt"), "\n")
			s := genbank.ParseMulti([]byte(one + "\n" + one))
			return len(s) == 2, fmt.Sprintf("%d records from a 2-record file without final newline", len(s))
		}},
		{"C02-single-base", func() (bool, string) {
			s := genbank.Parse([]byte(gbRecord("120", "     variation       5\n                     /note=\"x\"\n", "        1 acgtacgtac gtacgtacgt")))
			got := s.Features[0].GetSequence()
			return got == "a", fmt.Sprintf("location 5 of acgtacgt... -> %q want \"a\"", got)
		}},
		{"C02-join-complement-second", func() (bool, string) {
			s := genbank.Parse([]byte(gbRecord("120", "     CDS             join(1..5,complement(7..10))\n                     /note=\"x\"\n", "        1 acgtacgtac gtacgtacgt")))
			got := s.Features[0].GetSequence()
			return got == "acgta"+"gtac", fmt.Sprintf("got %q want \"acgtagtac\"", got)
		}},
		{"C03-deterministic-build", func() (bool, string) {
			var s poly.Sequence
			s.Sequence = "acgtacgtac"
			s.Meta.Other = map[string]string{"COMMENT": "a", "DBLINK": "b", "DBSOURCE": "c", "PRIMARY": "d", "CONTIG": "e"}
			f := poly.Feature{Type: "gene", Attributes: map[string]string{"a": "1", "b": "2", "c": "3", "d": "4", "e": "5"}}
			f.SequenceLocation = poly.Location{Start: 0, End: 5}
			s.AddFeature(&f)
			first := genbank.Build(s)
			for i := 0; i < 50; i++ {
				if !bytes.Equal(first, genbank.Build(s)) {
					return false, fmt.Sprintf("build %d differs from build 0", i+1)
				}
			}
			return true, "50 builds identical"
		}},
		{"C03-remark-written", func() (bool, string) {
			var s poly.Sequence
			s.Sequence = "acgtacgtac"
			s.Meta.References = []poly.Reference{{Index: "1", Authors: "A", Title: "T", Journal: "J", PubMed: "1", Remark: "see also", Range: "(bases 1 to 10)"}}
			back := genbank.Parse(genbank.Build(s))
			return len(back.Meta.References) == 1 && back.Meta.References[0].Remark == "see also", fmt.Sprintf("remark after round trip: %+v", back.Meta.References)
		}},
		{"C03-continuation-column", func() (bool, string) {
			var s poly.Sequence
			s.Sequence = "acgtacgtac"
			s.Meta.Definition = strings.Repeat("word ", 30)
			lines := strings.Split(string(genbank.Build(s)), "\n")
			for _, l := range lines[1:4] {
				if strings.HasPrefix(l, " ") && !strings.HasPrefix(l, "            ") {
					return false, fmt.Sprintf("continuation line %q is not indented 12 columns", l[:20])
				}
			}
			return true, "continuation lines start in column 13"
		}},
		{"C07-unencodable-is-error", func() (bool, string) {
			_, err := codon.Optimize("MKJ", codon.GetCodonTable(11))
			return err != nil, fmt.Sprintf("err=%v", err)
		}},
		{"C07-random-protein-alphabet", func() (bool, string) {
			for seed := int64(0); seed < 50; seed++ {
				p, _ := random.ProteinSequence(60, seed)
				if strings.ContainsAny(p, "JBOUXZ") {
					return false, fmt.Sprintf("seed %d gives %q with a non-standard residue", seed, p)
				}
			}
			return true, "only standard residues"
		}},
		{"C08-default-table-pristine", func() (bool, string) {
			codon.GetCodonTable(1).OptimizeTable("ATGATGATG")
			t := codon.GetCodonTable(1)
			for _, aa := range t.AminoAcids {
				for _, c := range aa.Codons {
					if c.Weight != 1 {
						return false, fmt.Sprintf("fresh default table 1 has weight %d for %s", c.Weight, c.Triplet)
					}
				}
			}
			return true, "weights all 1"
		}},
		{"C09-cycle-without-seed", func() (bool, string) {
			fr := []clone.Fragment{{"AAAA", "ACGA", "CCTG"}, {"CCCC", "CCTG", "GGAT"}, {"TTTT", "GGAT", "CCTG"}}
			r := clone.CircularLigate(fr)
			return true, fmt.Sprintf("terminated with %d constructs", len(r))
		}},
		{"C10-origin-independence", func() (bool, string) {
			base := "ATATATGGTCTCAAAGCTTTTTTTTTTTTTTTTTTTTTTTTTTGGCCTGAGACCATATATATATATATATATATATAT"
			want := -1
			for k := 0; k < len(base); k++ {
				rot := base[k:] + base[:k]
				n := len(clone.CutWithEnzyme(clone.Part{rot, true}, true, mustEnzyme()))
				if want == -1 {
					want = n
				}
				if n != want {
					return false, fmt.Sprintf("rotation %d yields %d fragments, rotation 0 yields %d", k, n, want)
				}
			}
			return true, fmt.Sprintf("every rotation yields %d fragment(s)", want)
		}},
		{"C13-long-line", func() (bool, string) {
			in := []fasta.Fasta{{Name: "a", Sequence: strings.Repeat("ACGT", 20000)}}
			out := fasta.Parse(bytes.NewReader(fasta.Build(in)))
			return len(out) == 1 && out[0].Sequence == in[0].Sequence, fmt.Sprintf("%d records, sequence length %d want 80000", len(out), func() int {
				if len(out) > 0 {
					return len(out[0].Sequence)
				}
				return 0
			}())
		}},
		{"C14-length-71", func() (bool, string) {
			var s poly.Sequence
			s.Meta.Name = "r"
			s.Sequence = strings.Repeat("A", 71)
			back := gff.Parse(gff.Build(s))
			return back.Sequence == s.Sequence, "round trip of a 71-letter sequence"
		}},
		{"C16-supplier-table", func() (bool, string) {
			txt := "REBASE codes for commercial sources of enzymes\n\n                B        Life Technologies (1/98)\n                C        Minotech (3/01)\n\n<1>AaaI\n<2>XmaIII\n<3>C^GGCCG\n<4>\n<5>Acetobacter\n<6>M. Fukaya\n<7>BC\n<8>Ref.\n"
			m := rebase.Parse([]byte(txt))
			got := m["AaaI"].CommercialAvailability
			return len(got) == 2 && got[0] == "Life Technologies (1/98)" && got[1] == "Minotech (3/01)", fmt.Sprintf("suppliers=%q", got)
		}},
		{"rebase-empty-isoschizomers", func() (bool, string) {
			txt := "REBASE codes for commercial sources of enzymes\n\n\n<1>A\n<2>\n<3>G^AATTC\n<4>\n<5>org\n<6>src\n<7>\n<8>ref\n"
			got := rebase.Parse([]byte(txt))["A"].Isoschizomers
			return len(got) == 0, fmt.Sprintf("isoschizomers of a record with an empty <2> line = %q", got)
		}},
		{"C17-ban-readmitted", func() (bool, string) {
			for _, b := range primers.CreateBarcodesWithBannedSequences(3, 2, []string{"CC"}, nil) {
				if strings.Contains(b, "CC") || strings.Contains(b, "GG") {
					return false, fmt.Sprintf("barcode %q contains the banned CC or its reverse complement", b)
				}
			}
			return true, "no barcode contains CC/GG"
		}},
		{"C20-truncated-terminates", func() (bool, string) {
			doc := "<uniprot><entry><accession>P1</accession><name>N1</name><sequence>MK</sequence></entry><entry><accession>P2</acc"
			entries := make(chan uniprot.Entry, 100)
			errs := make(chan error, 100)
			go uniprot.Parse(strings.NewReader(doc), entries, errs)
			n := 0
			for range entries {
				n++
			}
			ne := 0
			for range errs {
				ne++
			}
			return ne >= 1, fmt.Sprintf("%d entries, %d errors, both channels closed", n, ne)
		}},
		{"C01-multiline-loc-noqual", func() (bool, string) {
			s := genbank.Parse([]byte(gbRecord("120", "     gene            join(1..2,\n                     3..4)\n     CDS             1..4\n                     /note=\"n\"\n", "        1 acgtacgtac gtacgtacgt")))
			return len(s.Features) == 2, fmt.Sprintf("%d features, want 2", len(s.Features))
		}},
		{"C01-continuation-slash", func() (bool, string) {
			s := genbank.Parse([]byte(gbRecord("120", "     gene            1..4\n                     /note=\"a\n                     /b\"\n", "        1 acgtacgtac gtacgtacgt")))
			return len(s.Features) == 1 && s.Features[0].Attributes["note"] == "a /b", fmt.Sprintf("attributes=%v want note=\"a /b\"", s.Features[0].Attributes)
		}},
		{"C01-firstword-dispatch", func() (bool, string) {
			txt := "LOCUS       test                 120 bp    DNA     linear   SYN 01-JAN-2020\nREFERENCE   1  (bases 1 to 20)\n  AUTHORS   A\n  TITLE     T\n  JOURNAL   see the\n            TITLE page\nCOMMENT     see\n            JOURNAL of x\nFEATURES             Location/Qualifiers\nORIGIN\n        1 acgtacgtac gtacgtacgt\n//\n"
			s := genbank.Parse([]byte(txt))
			r := s.Meta.References[0]
			return r.Title == "T" && r.Journal == "see the TITLE page", fmt.Sprintf("title=%q journal=%q", r.Title, r.Journal)
		}},
		{"C01-ref-toplevel-word", func() (bool, string) {
			txt := "LOCUS       test                 120 bp    DNA     linear   SYN 01-JAN-2020\nREFERENCE   1  (bases 1 to 20)\n  AUTHORS   A\n  JOURNAL   open\n            SOURCE code\n  PUBMED    123\nFEATURES             Location/Qualifiers\nORIGIN\n        1 acgtacgtac gtacgtacgt\n//\n"
			s := genbank.Parse([]byte(txt))
			return s.Meta.References[0].PubMed == "123", fmt.Sprintf("pubmed=%q want 123", s.Meta.References[0].PubMed)
		}},
		{"C01-locus-fields", func() (bool, string) {
			a := genbank.Parse([]byte("LOCUS       linear                 4 bp    DNA     circular BCT 01-JAN-2020\nORIGIN\n        1 acgt\n//\n")).Meta.Locus
			b := genbank.Parse([]byte("LOCUS       test                   4 bp    genomic DNA     linear BCT 01-JAN-2020\nORIGIN\n        1 acgt\n//\n")).Meta.Locus
			return a.Circular && !a.Linear && b.MoleculeType == "genomic DNA", fmt.Sprintf("name 'linear': circular=%v linear=%v; molecule type %q want \"genomic DNA\"", a.Circular, a.Linear, b.MoleculeType)
		}},
		{"C03-reference-wrapped", func() (bool, string) {
			var s poly.Sequence
			s.Sequence = "acgtacgtac"
			rng := "(bases 1 to 10; 20 to 30; 40 to 50; 60 to 70; 80 to 90; 100 to 110; 120 to 130)"
			s.Meta.References = []poly.Reference{{Index: "1", Authors: "A", Range: rng}}
			back := genbank.Parse(genbank.Build(s))
			return back.Meta.References[0].Range == rng, fmt.Sprintf("range read back as %q", back.Meta.References[0].Range)
		}},
		{"C03-odd-quote", func() (bool, string) {
			var s poly.Sequence
			s.Sequence = "acgtacgtac"
			f := poly.Feature{Type: "gene", Attributes: map[string]string{"a": "x\"y", "b": "z"}}
			f.SequenceLocation = poly.Location{Start: 0, End: 5}
			s.AddFeature(&f)
			back := genbank.Parse(genbank.Build(s))
			return len(back.Features) == 1 && len(back.Features[0].Attributes) == 2 && back.Features[0].Attributes["b"] == "z", fmt.Sprintf("attributes read back: %v", back.Features[0].Attributes)
		}},
		{"C02-double-complement", func() (bool, string) {
			s := genbank.Parse([]byte(gbRecord("120", "     gene            complement(complement(2..4))\n                     /note=\"x\"\n", "        1 gattacaggc gtacgtacgt")))
			got := s.Features[0].GetSequence()
			txt := genbank.BuildLocationString(s.Features[0].SequenceLocation)
			return got == "att" && txt == "complement(complement(2..4))", fmt.Sprintf("sequence %q want \"att\"; written back as %q", got, txt)
		}},
		{"C10-linear-end-reverse-site", func() (bool, string) {
			e := clone.Enzyme{Name: "x", RegexpFor: regexp.MustCompile("GGAC"), RegexpRev: regexp.MustCompile("GTCC"), Skip: 0, OverhangLen: 5, RecognitionSite: "GGAC"}
			fr := clone.CutWithEnzyme(clone.Part{"AAGGACAAAAATTTTTGTCC", false}, true, e)
			return len(fr) == 1, fmt.Sprintf("%d fragments, want 1 (AAAAA,\"\",TTTTT)", len(fr))
		}},
		{"C20-truncated-before-root", func() (bool, string) {
			entries := make(chan uniprot.Entry, 100)
			errs := make(chan error, 100)
			go uniprot.Parse(strings.NewReader("<?xml version=\"1.0\"?>\n"), entries, errs)
			for range entries {
			}
			ne := 0
			for range errs {
				ne++
			}
			return ne >= 1, fmt.Sprintf("%d errors for a stream that ends before its root element", ne)
		}},
		{"C14-hash-comment", func() (bool, string) {
			s := gff.Parse([]byte("##gff-version 3\n##sequence-region s 1 1\n#c\n###\n##FASTA\n>s\nA\n"))
			return s.Sequence == "A" && len(s.Features) == 0, fmt.Sprintf("sequence %q, %d features", s.Sequence, len(s.Features))
		}},
		{"C11-variants-overflow", func() (bool, string) {
			v, err := variants.AllVariantsIUPAC(strings.Repeat("N", 32))
			return err != nil, fmt.Sprintf("32 N's: %d variants, err=%v (want an error: 4^32 variants cannot be enumerated)", len(v), err)
		}},
		{"C05-unicode-fold", func() (bool, string) {
			_, err := seqhash.Hash("AC\u017fG", "DNA", false, false)
			_, err2 := seqhash.Hash("M\u0131K", "PROTEIN", false, false)
			return err != nil && err2 != nil, fmt.Sprintf("U+017F in DNA: err=%v; U+0131 in protein: err=%v", err, err2)
		}},
		{"C20-errcap0-sequential", func() (bool, string) {
			doc := "<uniprot><entry><accession>P1</accession><name>N1</name><sequence>MK</sequence></entry><entry><accession>P2</acc"
			entries := make(chan uniprot.Entry)
			errs := make(chan error)
			go uniprot.Parse(strings.NewReader(doc), entries, errs)
			n := 0
			for range entries {
				n++
			}
			ne := 0
			for range errs {
				ne++
			}
			return ne >= 1, fmt.Sprintf("unbuffered channels, entries drained first: %d entries, %d errors, both closed", n, ne)
		}},
		{"C13-whitespace-line", func() (bool, string) {
			out := fasta.Parse(strings.NewReader(">a\nAC\n  \nGT\n"))
			return len(out) == 1 && out[0].Sequence == "ACGT", fmt.Sprintf("sequence %q want ACGT", out[0].Sequence)
		}},
		{"C08-nonascii-frame", func() (bool, string) {
			t := parseTable(codon.GetCodonTable(11)).OptimizeTable("AA\u00e9ATGATG")
			for _, aa := range t.AminoAcids {
				for _, c := range aa.Codons {
					if c.Triplet == "ATG" {
						return c.Weight == 2, fmt.Sprintf("ATG counted %d times in AA\u00e9ATGATG, want 2", c.Weight)
					}
				}
			}
			return false, "no ATG"
		}},
		{"C01-location-forms", func() (bool, string) {
			s := genbank.Parse([]byte(gbRecord("120", "     misc_feature    order(1..5,7..9)\n                     /note=\"x\"\n     gene            1..4\n                     /gene=\"g\"\n", "        1 acgtacgtac gtacgtacgt")))
			return len(s.Features) == 2 && s.Features[0].GbkLocationString == "order(1..5,7..9)", fmt.Sprintf("%d features", len(s.Features))
		}},
		{"C14-trailing-semicolon", func() (bool, string) {
			s := gff.Parse([]byte("##gff-version 3\n##sequence-region s 1 1\ns\t.\tg\t1\t1\t.\t+\t.\tID=a;\n##FASTA\n>s\nA\n"))
			return len(s.Features) == 1 && s.Features[0].Attributes["ID"] == "a", fmt.Sprintf("%d features", len(s.Features))
		}},
		{"C14-crlf", func() (bool, string) {
			s := gff.Parse([]byte("##gff-version 3\r\n##sequence-region s 1 1\r\ns\t.\tg\t1\t1\t.\t+\t.\tID=a\r\n##FASTA\r\n>s\r\nA\r\n"))
			return len(s.Features) == 1 && s.Sequence == "A" && s.Meta.GffVersion == "3", fmt.Sprintf("%d features, sequence %q, version %q", len(s.Features), s.Sequence, s.Meta.GffVersion)
		}},
		{"C14-directive-before-region", func() (bool, string) {
			s := gff.Parse([]byte("##gff-version 3\n##species x\n##sequence-region s 1 1\ns\t.\tg\t1\t1\t.\t+\t.\tID=a\n##FASTA\n>s\nA\n"))
			return s.Meta.Name == "s" && s.Meta.RegionEnd == 1, fmt.Sprintf("region name %q end %d", s.Meta.Name, s.Meta.RegionEnd)
		}},
		{"C03-reference-number", func() (bool, string) {
			var s poly.Sequence
			s.Sequence = "acgtacgtac"
			s.Meta.References = []poly.Reference{{Index: "7", Authors: "A", Range: "(bases 1 to 10)"}}
			back := genbank.Parse(genbank.Build(s))
			return back.Meta.References[0].Index == "7", fmt.Sprintf("index read back as %q want 7", back.Meta.References[0].Index)
		}},
		{"genbank-quote-at-value-end", func() (bool, string) {
			var x poly.Sequence
			x.Sequence = "acgtacgtac"
			x.Features = []poly.Feature{{Type: "misc_feature", GbkLocationString: "1..4", Attributes: map[string]string{"note": "he said \"hi\""}}}
			back := genbank.Parse(genbank.Build(x))
			got := ""
			if len(back.Features) == 1 {
				got = back.Features[0].Attributes["note"]
			}
			return got == "he said \"hi\"", fmt.Sprintf("note read back as %q want %q", got, "he said \"hi\"")
		}},
		{"genbank-source-without-organism", func() (bool, string) {
			s := genbank.Parse([]byte("LOCUS       x 4 bp DNA linear\nSOURCE      some source\nREFERENCE   1  (bases 1 to 4)\n  AUTHORS   A\nFEATURES             Location/Qualifiers\nORIGIN\n        1 acgt\n//\n"))
			return s.Meta.Source == "some source" && s.Meta.Organism == "" && len(s.Meta.References) == 1 && s.Meta.References[0].Range == "(bases 1 to 4)",
				fmt.Sprintf("source %q organism %q want \"some source\" and \"\"", s.Meta.Source, s.Meta.Organism)
		}},
	}
	for _, p := range probes {
		if only == "" || only == p.name {
			guard(p.name, p.f)
		}
	}
}

func mustEnzyme() clone.Enzyme {
	// BsaI as in the built-in table, reached through the exported constructor path
	frs, _ := clone.CutWithEnzymeByName(clone.Part{"", false}, true, "BsaI")
	_ = frs
	return bsaI
}

// parseTable returns a deep copy of a codon table (the default tables share their slices).
func parseTable(t codon.Table) codon.Table {
	var c codon.Table
	c.StartCodons = append([]string{}, t.StartCodons...)
	c.StopCodons = append([]string{}, t.StopCodons...)
	for _, aa := range t.AminoAcids {
		c.AminoAcids = append(c.AminoAcids, codon.AminoAcid{Letter: aa.Letter, Codons: append([]codon.Codon{}, aa.Codons...)})
	}
	return c
}
