package main

// C01 — GenBank parser.
//
//	c01 <mode> <text>      mode = parse | multi | flat | read | readmulti | readflat | readflatgz
//
// reply: k {record}*  where record is the canonical serialisation of exactly the fields the
// property lists:
//
//	seq name length coding moltype circular linear division date
//	definition accession version keywords source organism
//	nrefs { index range authors title journal pubmed remark }*
//	nother { key value }*            (sorted by key)
//	nfeat { key loctext nq { key value }* (sorted by key) }*
//
// The Read* modes go through a temp file under /verif/build/tmp.

import (
	"bytes"
	"compress/gzip"
	"errors"
	"os"
	"path/filepath"
	"sort"
	"strconv"

	"verifharness/runner"

	"github.com/TimothyStiles/poly"
	"github.com/TimothyStiles/poly/io/genbank"
)

func c01bool(b bool) string {
	if b {
		return "true"
	}
	return "false"
}

func c01pairs(m map[string]string) []string {
	keys := make([]string, 0, len(m))
	for k := range m {
		keys = append(keys, k)
	}
	sort.Strings(keys)
	out := []string{strconv.Itoa(len(m))}
	for _, k := range keys {
		out = append(out, k, m[k])
	}
	return out
}

func c01ser(s poly.Sequence) []string {
	l := s.Meta.Locus
	out := []string{s.Sequence, l.Name, l.SequenceLength, l.SequenceCoding, l.MoleculeType, c01bool(l.Circular), c01bool(l.Linear),
		l.GenbankDivision, l.ModificationDate,
		s.Meta.Definition, s.Meta.Accession, s.Meta.Version, s.Meta.Keywords, s.Meta.Source, s.Meta.Organism,
		strconv.Itoa(len(s.Meta.References))}
	for _, r := range s.Meta.References {
		out = append(out, r.Index, r.Range, r.Authors, r.Title, r.Journal, r.PubMed, r.Remark)
	}
	out = append(out, c01pairs(s.Meta.Other)...)
	out = append(out, strconv.Itoa(len(s.Features)))
	for _, f := range s.Features {
		out = append(out, f.Type, f.GbkLocationString)
		out = append(out, c01pairs(f.Attributes)...)
	}
	return out
}

func c01tmp(name string, data []byte) (string, error) {
	dir := "/verif/build/tmp"
	if exe, err := os.Executable(); err == nil {
		dir = filepath.Join(filepath.Dir(filepath.Dir(exe)), "tmp") // <verif>/build/bin/run-genbank -> <verif>/build/tmp
	}
	if err := os.MkdirAll(dir, 0o755); err != nil {
		return "", err
	}
	p := filepath.Join(dir, "c01-"+strconv.Itoa(os.Getpid())+"-"+strconv.FormatInt(runner.Unique(), 10)+"-"+name)
	return p, os.WriteFile(p, data, 0o644)
}

func init() {
	runner.Register("c01", func(a []string) ([]string, error) {
		if len(a) != 2 {
			return nil, errors.New("c01: want mode text")
		}
		mode, text := a[0], []byte(a[1])
		var seqs []poly.Sequence
		switch mode {
		case "parse":
			seqs = []poly.Sequence{genbank.Parse(text)}
		case "multi":
			seqs = genbank.ParseMulti(text)
		case "flat":
			seqs = genbank.ParseFlat(text)
		case "read", "readmulti", "readflat":
			p, err := c01tmp(mode+".gb", text)
			if err != nil {
				return nil, err
			}
			defer os.Remove(p)
			switch mode {
			case "read":
				seqs = []poly.Sequence{genbank.Read(p)}
			case "readmulti":
				seqs = genbank.ReadMulti(p)
			default:
				seqs = genbank.ReadFlat(p)
			}
		case "readflatgz":
			var buf bytes.Buffer
			zw := gzip.NewWriter(&buf)
			if _, err := zw.Write(text); err != nil {
				return nil, err
			}
			if err := zw.Close(); err != nil {
				return nil, err
			}
			p, err := c01tmp("flat.seq.gz", buf.Bytes())
			if err != nil {
				return nil, err
			}
			defer os.Remove(p)
			seqs = genbank.ReadFlatGz(p)
		default:
			return nil, errors.New("c01: unknown mode " + mode)
		}
		out := []string{strconv.Itoa(len(seqs))}
		for _, s := range seqs {
			out = append(out, c01ser(s)...)
		}
		return out, nil
	})
}
