package main

// C03 — GenBank writer: determinism, layout, write-then-read.
//
// Canonical serialisation of a record (a flat list of protocol fields):
//
//	name seqlen moltype division date coding circular(0/1) linear(0/1)
//	definition accession version keywords source organism
//	nrefs  { index authors title journal pubmed remark range }*
//	nother { key value }*                       (output: sorted by key)
//	nfeat  { type gbkloc loc nattr { key value }* }*   (output: attrs sorted by key)
//	seq
//
// loc = "(" start " " end " " c j f t { " " loc }* ")"   with c j f t in {0,1}:
// Complement, Join, FivePrimePartial, ThreePrimePartial.
//
// ops
//	c03rec <rec fields>   : x = the record;          reply  "-" <tail>
//	c03img <text>         : x = genbank.Parse(text); reply  "x" <x fields> <tail>
//	tail = Build(x)  identical(true/false: >= 20 builds, maps refilled in varying orders; AND the first
//	       output, held while a DIFFERENT record is built, still equals the copy taken at once)
//	       pstatus(ok|panic)  wrstatus(same|diff|panic)  <fields of Parse(Build(x))>

import (
	"bytes"
	"errors"
	"fmt"
	"os"
	"path/filepath"
	"sort"
	"strconv"
	"strings"

	"verifharness/runner"

	"github.com/TimothyStiles/poly"
	"github.com/TimothyStiles/poly/io/genbank"
)

const c03Repeats = 24

func c03b(s string) bool { return s == "1" }
func c03bs(b bool) string {
	if b {
		return "1"
	}
	return "0"
}

// ---- location text

func c03locString(l poly.Location) string {
	var b strings.Builder
	c03locWrite(&b, l)
	return b.String()
}

func c03locWrite(b *strings.Builder, l poly.Location) {
	fmt.Fprintf(b, "(%d %d %s%s%s%s", l.Start, l.End, c03bs(l.Complement), c03bs(l.Join), c03bs(l.FivePrimePartial), c03bs(l.ThreePrimePartial))
	for _, s := range l.SubLocations {
		b.WriteByte(' ')
		c03locWrite(b, s)
	}
	b.WriteByte(')')
}

func c03locParse(s string, pos int) (poly.Location, int, error) {
	var l poly.Location
	bad := errors.New("bad loc")
	if pos >= len(s) || s[pos] != '(' {
		return l, pos, bad
	}
	pos++
	readInt := func() (int, error) {
		st := pos
		for pos < len(s) && (s[pos] == '-' || (s[pos] >= '0' && s[pos] <= '9')) {
			pos++
		}
		return strconv.Atoi(s[st:pos])
	}
	var err error
	if l.Start, err = readInt(); err != nil {
		return l, pos, bad
	}
	if pos >= len(s) || s[pos] != ' ' {
		return l, pos, bad
	}
	pos++
	if l.End, err = readInt(); err != nil {
		return l, pos, bad
	}
	if pos+5 > len(s) || s[pos] != ' ' {
		return l, pos, bad
	}
	fl := s[pos+1 : pos+5]
	l.Complement, l.Join, l.FivePrimePartial, l.ThreePrimePartial = fl[0] == '1', fl[1] == '1', fl[2] == '1', fl[3] == '1'
	pos += 5
	for pos < len(s) && s[pos] == ' ' {
		var sub poly.Location
		sub, pos, err = c03locParse(s, pos+1)
		if err != nil {
			return l, pos, err
		}
		l.SubLocations = append(l.SubLocations, sub)
	}
	if pos >= len(s) || s[pos] != ')' {
		return l, pos, bad
	}
	return l, pos + 1, nil
}

// ---- record <-> fields

type c03kv struct{ k, v string }

// c03raw keeps maps as ordered pair lists so that the Go maps can be refilled in varying orders.
type c03raw struct {
	seq   poly.Sequence // without maps / features' maps
	other []c03kv
	attrs [][]c03kv
}

func c03decode(f []string) (*c03raw, error) {
	bad := errors.New("bad record serialisation")
	i := 0
	next := func() (string, bool) {
		if i >= len(f) {
			return "", false
		}
		i++
		return f[i-1], true
	}
	need := func(n int) ([]string, bool) {
		if i+n > len(f) {
			return nil, false
		}
		i += n
		return f[i-n : i], true
	}
	r := &c03raw{}
	h, ok := need(14)
	if !ok {
		return nil, bad
	}
	r.seq.Meta.Locus = poly.Locus{Name: h[0], SequenceLength: h[1], MoleculeType: h[2], GenbankDivision: h[3],
		ModificationDate: h[4], SequenceCoding: h[5], Circular: c03b(h[6]), Linear: c03b(h[7])}
	r.seq.Meta.Definition, r.seq.Meta.Accession, r.seq.Meta.Version = h[8], h[9], h[10]
	r.seq.Meta.Keywords, r.seq.Meta.Source, r.seq.Meta.Organism = h[11], h[12], h[13]
	ns, ok := next()
	n, err := strconv.Atoi(ns)
	if !ok || err != nil {
		return nil, bad
	}
	for k := 0; k < n; k++ {
		q, ok := need(7)
		if !ok {
			return nil, bad
		}
		r.seq.Meta.References = append(r.seq.Meta.References, poly.Reference{Index: q[0], Authors: q[1], Title: q[2],
			Journal: q[3], PubMed: q[4], Remark: q[5], Range: q[6]})
	}
	ns, ok = next()
	n, err = strconv.Atoi(ns)
	if !ok || err != nil {
		return nil, bad
	}
	for k := 0; k < n; k++ {
		q, ok := need(2)
		if !ok {
			return nil, bad
		}
		r.other = append(r.other, c03kv{q[0], q[1]})
	}
	ns, ok = next()
	n, err = strconv.Atoi(ns)
	if !ok || err != nil {
		return nil, bad
	}
	for k := 0; k < n; k++ {
		q, ok := need(4)
		if !ok {
			return nil, bad
		}
		loc, end, err := c03locParse(q[2], 0)
		if err != nil || end != len(q[2]) {
			return nil, bad
		}
		na, err := strconv.Atoi(q[3])
		if err != nil {
			return nil, bad
		}
		var kv []c03kv
		for a := 0; a < na; a++ {
			p, ok := need(2)
			if !ok {
				return nil, bad
			}
			kv = append(kv, c03kv{p[0], p[1]})
		}
		r.seq.Features = append(r.seq.Features, poly.Feature{Type: q[0], GbkLocationString: q[1], SequenceLocation: loc})
		r.attrs = append(r.attrs, kv)
	}
	s, ok := next()
	if !ok || i != len(f) {
		return nil, bad
	}
	r.seq.Sequence = s
	return r, nil
}

// c03permute returns the pair list in an order that depends on the round.
func c03permute(kv []c03kv, round int) []c03kv {
	n := len(kv)
	out := make([]c03kv, n)
	if n == 0 {
		return out
	}
	for i := range kv {
		j := (i + round) % n
		if round%2 == 1 {
			j = n - 1 - j
		}
		out[j] = kv[i]
	}
	return out
}

// c03make builds a fresh poly.Sequence (fresh maps, filled in an order depending on round).
func c03make(r *c03raw, round int) poly.Sequence {
	s := r.seq
	s.Meta.References = append([]poly.Reference(nil), r.seq.Meta.References...)
	s.Meta.Other = make(map[string]string)
	for _, p := range c03permute(r.other, round) {
		s.Meta.Other[p.k] = p.v
	}
	s.Features = make([]poly.Feature, len(r.seq.Features))
	for i, f := range r.seq.Features {
		f.Attributes = make(map[string]string)
		for _, p := range c03permute(r.attrs[i], round) {
			f.Attributes[p.k] = p.v
		}
		s.Features[i] = f
	}
	return s
}

func c03sortedKV(m map[string]string) []c03kv {
	keys := make([]string, 0, len(m))
	for k := range m {
		keys = append(keys, k)
	}
	sort.Strings(keys)
	out := make([]c03kv, len(keys))
	for i, k := range keys {
		out[i] = c03kv{k, m[k]}
	}
	return out
}

func c03encode(s poly.Sequence) []string {
	l := s.Meta.Locus
	f := []string{l.Name, l.SequenceLength, l.MoleculeType, l.GenbankDivision, l.ModificationDate, l.SequenceCoding,
		c03bs(l.Circular), c03bs(l.Linear),
		s.Meta.Definition, s.Meta.Accession, s.Meta.Version, s.Meta.Keywords, s.Meta.Source, s.Meta.Organism}
	f = append(f, strconv.Itoa(len(s.Meta.References)))
	for _, r := range s.Meta.References {
		f = append(f, r.Index, r.Authors, r.Title, r.Journal, r.PubMed, r.Remark, r.Range)
	}
	f = append(f, strconv.Itoa(len(s.Meta.Other)))
	for _, p := range c03sortedKV(s.Meta.Other) {
		f = append(f, p.k, p.v)
	}
	f = append(f, strconv.Itoa(len(s.Features)))
	for _, ft := range s.Features {
		f = append(f, ft.Type, ft.GbkLocationString, c03locString(ft.SequenceLocation), strconv.Itoa(len(ft.Attributes)))
		for _, p := range c03sortedKV(ft.Attributes) {
			f = append(f, p.k, p.v)
		}
	}
	return append(f, s.Sequence)
}

func c03parse(text []byte) (s poly.Sequence, status string) {
	defer func() {
		if p := recover(); p != nil {
			status = "panic"
		}
	}()
	return genbank.Parse(text), "ok"
}

func c03writeRead(x poly.Sequence, want []byte) (fields []string, status string) {
	defer func() {
		if p := recover(); p != nil {
			fields, status = nil, "panic"
		}
	}()
	dir := filepath.Join("/verif", "build", "C03", "tmp")
	if exe, err := os.Executable(); err == nil {
		dir = filepath.Join(filepath.Dir(filepath.Dir(exe)), "C03", "tmp") // next to the binary's build directory
	}
	if err := os.MkdirAll(dir, 0o755); err != nil {
		return nil, "diff"
	}
	path := filepath.Join(dir, fmt.Sprintf("wr-%d-%d.gb", os.Getpid(), runner.Unique()))
	defer os.Remove(path)
	// a small history on ONE path: a LONGER record is written first, then the record under test; the file
	// must then hold exactly Build(x) (a Write that does not truncate leaves the old tail behind the new `//`)
	genbank.Write(c03longer(x), path)
	genbank.Write(x, path)
	got, err := os.ReadFile(path)
	if err != nil || !bytes.Equal(got, want) {
		return nil, "diff"
	}
	one := c03encode(genbank.Read(path))
	// the other exported reader that takes what Write writes: ReadMulti must find exactly this one record
	// (ParseMulti cuts a file after every line that ends in `//`: a record whose text has such a line inside —
	// a wrapped metadata line ending in the word `path//` — is outside ParseMulti's domain, property C01's
	// `noSlashEnd`; the single-record Read above is still judged for it)
	if !strings.Contains(string(want), "//\n") {
		multi := genbank.ReadMulti(path)
		if len(multi) != 1 || !c03equalFields(c03encode(multi[0]), one) {
			return nil, "diff"
		}
	}
	// and the same record written to a FRESH path gives the same bytes
	fresh := filepath.Join(dir, fmt.Sprintf("wr-%d-%d.gb", os.Getpid(), runner.Unique()))
	defer os.Remove(fresh)
	genbank.Write(x, fresh)
	got2, err := os.ReadFile(fresh)
	if err != nil || !bytes.Equal(got2, want) {
		return nil, "diff"
	}
	return one, "ok"
}

// c03longer is a record whose text is longer than x's in every section.
func c03longer(x poly.Sequence) poly.Sequence {
	l := x
	l.Sequence = x.Sequence + strings.Repeat("acgt", 1500)
	l.Meta.Definition = x.Meta.Definition + strings.Repeat(" previous content", 200)
	l.Meta.Locus.Name = x.Meta.Locus.Name + "previous"
	l.Features = append(append([]poly.Feature(nil), x.Features...), poly.Feature{Type: "misc_feature", GbkLocationString: "1..2",
		Attributes: map[string]string{"note": "previous content of this path"}})
	return l
}

func c03equalFields(a, b []string) bool {
	if len(a) != len(b) {
		return false
	}
	for i := range a {
		if a[i] != b[i] {
			return false
		}
	}
	return true
}

// c03tail: Build x >= 20 times (maps refilled in varying orders), Parse(Build(x)), Write/Read.
func c03tail(r *c03raw) []string {
	first := genbank.Build(c03make(r, 0))
	// the text of record A must stay A's while it is held: copy it at once, build a different record
	// (other name, other definition, other sequence length), then compare the HELD slice with the copy
	snapshot := append([]byte(nil), first...)
	other := c03make(r, 2)
	other.Meta.Locus.Name = other.Meta.Locus.Name + "_other"
	other.Meta.Definition = "another record " + other.Meta.Definition
	other.Sequence = "ttttt" + other.Sequence + "gg"
	otherOut := genbank.Build(other)
	identical := bytes.Equal(first, snapshot) && !bytes.Equal(otherOut, snapshot)
	first = snapshot
	same := c03make(r, 1)
	for round := 1; round < c03Repeats; round++ {
		var out []byte
		if round%3 == 0 {
			out = genbank.Build(same) // the very same value (same maps) again
		} else {
			out = genbank.Build(c03make(r, round))
		}
		if !bytes.Equal(out, first) {
			identical = false
		}
	}
	y, pst := c03parse(first)
	var yf []string
	wr := "panic"
	if pst == "ok" {
		yf = c03encode(y)
		wf, wst := c03writeRead(c03make(r, 5), first)
		switch {
		case wst == "ok" && c03equalFields(wf, yf):
			wr = "same"
		case wst == "panic":
			wr = "panic"
		default:
			wr = "diff"
		}
	} else {
		_, wst := c03writeRead(c03make(r, 5), first)
		if wst == "panic" {
			wr = "panic" // Read panics exactly as Parse does
		} else {
			wr = "diff"
		}
	}
	return append([]string{string(first), strconv.FormatBool(identical), pst, wr}, yf...)
}

func c03fromSequence(s poly.Sequence) *c03raw {
	r := &c03raw{seq: s}
	r.other = c03sortedKV(s.Meta.Other)
	r.seq.Meta.Other = nil
	r.seq.Features = make([]poly.Feature, len(s.Features))
	for i, f := range s.Features {
		r.attrs = append(r.attrs, c03sortedKV(f.Attributes))
		f.Attributes = nil
		f.ParentSequence = nil
		r.seq.Features[i] = f
	}
	return r
}

func init() {
	runner.Register("c03rec", func(a []string) ([]string, error) {
		r, err := c03decode(a)
		if err != nil {
			return nil, err
		}
		return append([]string{"-"}, c03tail(r)...), nil
	})
	runner.Register("c03img", func(a []string) ([]string, error) {
		if len(a) != 1 {
			return nil, errors.New("c03img: one argument")
		}
		x := genbank.Parse([]byte(a[0])) // a panic here is reported by the runner: the case is outside the parser's image
		xf := c03encode(x)
		return append(append([]string{"x"}, xf...), c03tail(c03fromSequence(x))...), nil
	})
}
