package main

// C02 — feature locations: parseLocation (reached through genbank.Parse), Feature.GetSequence,
// genbank.BuildLocationString, Sequence.AddFeature.  No hook into /repo.
//
// Location structure as text (same grammar as lean showPLoc / the driver's reader):
//
//	loc   = "(" start " " end " " flags { " " loc } ")"
//	flags = "-" | subset of "cj53" in that order  (Complement, Join, FivePrimePartial, ThreePrimePartial)
//
// ops
//	c02.parse <text> <parent>  : wrap <text> as the location of one feature of a minimal GenBank record
//	                             whose ORIGIN is <parent>, genbank.Parse it; reply
//	                             GetSequence()  loc(SequenceLocation)  BuildLocationString(SequenceLocation)
//	                             (observed twice; a second round that differs is an error "mutated|...")
//	c02.build <loc> <parent>   : poly.Feature{SequenceLocation: loc} added with Sequence.AddFeature to a
//	                             Sequence{Sequence: parent}; reply  GetSequence()  BuildLocationString(loc)
//	c02.batch <width> <nvar> <rec> <parent> { <text> <loc>*nvar }*  : c02.parse for every text and c02.build for every
//	                             structure; reply: "together" | "single" (see below), then per group 1+nvar fields, each "ok|v1|v2.." or "panic" (a panic in one
//	                             call does not hide the others).  The texts are first parsed as the features of ONE
//	                             record (one genbank.Parse per batch); if that panics or yields other features each text
//	                             gets its own record AND the reply starts with "single", which the judge counts as a failure.
//
// With <rec> = 1 the reply continues with the record leg (c02RecordLeg): every parsed and assembled location written
// by genbank.Build into one record and read back by genbank.Parse.
//
// In the record a location text longer than <width> (GenBank: 58) is wrapped after commas onto continuation
// lines that start in column 22, as GenBank files do, so that the gluing of continuation lines in getFeatures
// lies on the path text -> parseLocation -> GetSequence.

import (
	"errors"
	"strconv"
	"strings"

	"verifharness/runner"

	"github.com/TimothyStiles/poly"
	"github.com/TimothyStiles/poly/io/genbank"
)

func c02ShowLoc(b *strings.Builder, l poly.Location) {
	b.WriteByte('(')
	b.WriteString(strconv.Itoa(l.Start))
	b.WriteByte(' ')
	b.WriteString(strconv.Itoa(l.End))
	b.WriteByte(' ')
	n := b.Len()
	if l.Complement {
		b.WriteByte('c')
	}
	if l.Join {
		b.WriteByte('j')
	}
	if l.FivePrimePartial {
		b.WriteByte('5')
	}
	if l.ThreePrimePartial {
		b.WriteByte('3')
	}
	if b.Len() == n {
		b.WriteByte('-')
	}
	for _, s := range l.SubLocations {
		b.WriteByte(' ')
		c02ShowLoc(b, s)
	}
	b.WriteByte(')')
}

func c02LocString(l poly.Location) string {
	var b strings.Builder
	c02ShowLoc(&b, l)
	return b.String()
}

// c02ReadLoc reads one loc at s[i:]; returns the location and the index after it.
func c02ReadLoc(s string, i int) (poly.Location, int, error) {
	var l poly.Location
	bad := errors.New("bad location text")
	if i >= len(s) || s[i] != '(' {
		return l, i, bad
	}
	i++
	tok := func() string {
		j := i
		for j < len(s) && s[j] != ' ' && s[j] != ')' && s[j] != '(' {
			j++
		}
		t := s[i:j]
		i = j
		return t
	}
	var err error
	if l.Start, err = strconv.Atoi(tok()); err != nil {
		return l, i, bad
	}
	if i >= len(s) || s[i] != ' ' {
		return l, i, bad
	}
	i++
	if l.End, err = strconv.Atoi(tok()); err != nil {
		return l, i, bad
	}
	if i >= len(s) || s[i] != ' ' {
		return l, i, bad
	}
	i++
	for _, c := range tok() {
		switch c {
		case 'c':
			l.Complement = true
		case 'j':
			l.Join = true
		case '5':
			l.FivePrimePartial = true
		case '3':
			l.ThreePrimePartial = true
		case '-':
		default:
			return l, i, bad
		}
	}
	for i < len(s) && s[i] == ' ' {
		sub, j, err := c02ReadLoc(s, i+1)
		if err != nil {
			return l, i, err
		}
		l.SubLocations = append(l.SubLocations, sub)
		i = j
	}
	if i >= len(s) || s[i] != ')' {
		return l, i, bad
	}
	return l, i + 1, nil
}

// c02Wrap breaks a location text after commas into lines of at most width characters (a piece
// without a comma is never broken).
func c02Wrap(t string, width int) []string {
	if len(t) <= width {
		return []string{t}
	}
	var lines []string
	cur := ""
	start := 0
	for i := 0; i <= len(t); i++ {
		if i == len(t) || t[i] == ',' {
			end := i
			if i < len(t) {
				end = i + 1
			}
			piece := t[start:end]
			start = end
			if piece == "" {
				continue
			}
			if cur != "" && len(cur)+len(piece) > width {
				lines = append(lines, cur)
				cur = ""
			}
			cur += piece
		}
	}
	if cur != "" {
		lines = append(lines, cur)
	}
	return lines
}

// c02Record is a minimal GenBank flat file with one feature per location text.
func c02Record(texts []string, parent string, width int) []byte {
	var b strings.Builder
	b.WriteString("LOCUS       VERIF        " + strconv.Itoa(len(parent)) + " bp    DNA     linear   UNK 01-JAN-1980\n")
	b.WriteString("DEFINITION  location check.\n")
	b.WriteString("FEATURES             Location/Qualifiers\n")
	for _, t := range texts {
		for i, line := range c02Wrap(t, width) {
			if i == 0 {
				b.WriteString("     misc_feature    " + line + "\n")
			} else {
				b.WriteString("                     " + line + "\n")
			}
		}
		b.WriteString("                     /label=\"x\"\n")
	}
	b.WriteString("ORIGIN\n")
	b.WriteString("        1 " + parent + "\n")
	b.WriteString("//\n")
	return []byte(b.String())
}

// c02Watch makes the observations on a feature in the order  GetSequence, structure, BuildLocationString,
// and then all three once more: writing a location to text must not change what the feature denotes
// (BuildLocationString receives the root by value, but its SubLocations share their backing array with
// the feature). A second round that differs from the first is reported as "mutated|...".
func c02Watch(f poly.Feature, withStruct bool) string {
	seq1 := f.GetSequence()
	loc1 := c02LocString(f.SequenceLocation)
	built1 := genbank.BuildLocationString(f.SequenceLocation)
	seq2 := f.GetSequence()
	loc2 := c02LocString(f.SequenceLocation)
	built2 := genbank.BuildLocationString(f.SequenceLocation)
	if seq1 != seq2 || loc1 != loc2 || built1 != built2 {
		return "mutated|" + seq1 + "|" + seq2 + "|" + loc1 + "|" + loc2 + "|" + built1 + "|" + built2
	}
	// A third observation after the PARENT was edited in place to a different sequence of the same length
	// (c02Sigma: A<->C, G<->T letter by letter, which commutes with complementation, so the feature must now
	// read c02Sigma of what it read before, whatever the location tree is); the parent is restored afterwards.
	// A feature that keeps answering from the earlier parent (a cache keyed by the parent's address or length,
	// seeded change C02-l) is reported as "mutated|...stale-parent".
	// (only for parents over the 15 IUPAC codes: U/u complement to A and would not commute)
	if ps := f.ParentSequence; ps != nil && ps.Sequence != "" && strings.Trim(ps.Sequence, "ACGTRYSWKMBDHVNacgtryswkmbdhvn") == "" {
		old := ps.Sequence
		ps.Sequence = c02Sigma(old)
		seq3 := f.GetSequence()
		ps.Sequence = old
		seq4 := f.GetSequence()
		if seq3 != c02Sigma(seq1) || seq4 != seq1 {
			return "mutated|" + seq1 + "|" + seq3 + "|" + seq4 + "|stale-parent"
		}
	}
	if withStruct {
		return "ok|" + seq1 + "|" + loc1 + "|" + built1
	}
	return "ok|" + seq1 + "|" + built1
}

// c02Sigma exchanges A with C and G with T (either case) and leaves every other byte alone: for every letter x,
// complement(c02Sigma(x)) == c02Sigma(complement(x)).
func c02Sigma(s string) string {
	b := []byte(s)
	for i, c := range b {
		switch c {
		case 'A':
			b[i] = 'C'
		case 'C':
			b[i] = 'A'
		case 'G':
			b[i] = 'T'
		case 'T':
			b[i] = 'G'
		case 'a':
			b[i] = 'c'
		case 'c':
			b[i] = 'a'
		case 'g':
			b[i] = 't'
		case 't':
			b[i] = 'g'
		}
	}
	return string(b)
}

// c02Observe: the observations on a parsed feature, guarded on their own.
func c02Observe(f poly.Feature) (out string) {
	defer func() {
		if p := recover(); p != nil {
			out = "panic"
		}
	}()
	return c02Watch(f, true)
}

func c02ParseOne(text, parent string, width int) (out string) {
	defer func() {
		if p := recover(); p != nil {
			out = "panic"
		}
	}()
	seq := genbank.Parse(c02Record([]string{text}, parent, width))
	if len(seq.Features) != 1 {
		return "nofeature"
	}
	return c02Observe(seq.Features[0])
}

func c02BuildOne(loc, parent string) (out string) {
	defer func() {
		if p := recover(); p != nil {
			out = "panic"
		}
	}()
	l, n, err := c02ReadLoc(loc, 0)
	if err != nil || n != len(loc) {
		return "badloc"
	}
	var sequence poly.Sequence
	sequence.Sequence = parent
	feature := poly.Feature{Type: "misc_feature", SequenceLocation: l}
	features := sequence.AddFeature(&feature)
	return c02Watch(features[len(features)-1], false)
}

func c02ParseAll(texts []string, parent string, width int) (feats []poly.Feature, ok bool) {
	defer func() {
		if p := recover(); p != nil {
			feats, ok = nil, false
		}
	}()
	seq := genbank.Parse(c02Record(texts, parent, width))
	if len(seq.Features) != len(texts) || seq.Sequence != parent {
		return nil, false
	}
	for i := range texts {
		if seq.Features[i].GbkLocationString != texts[i] {
			return nil, false
		}
	}
	return seq.Features, true
}

func c02Split(r string) ([]string, error) {
	switch {
	case r == "panic":
		panic("poly panicked")
	case strings.HasPrefix(r, "ok|"):
		return strings.Split(r[3:], "|"), nil
	default:
		return nil, errors.New(r)
	}
}

func init() {
	runner.Register("c02.parse", func(a []string) ([]string, error) {
		return c02Split(c02ParseOne(a[0], a[1], 58))
	})
	runner.Register("c02.build", func(a []string) ([]string, error) {
		return c02Split(c02BuildOne(a[0], a[1]))
	})
	runner.Register("c02.batch", func(a []string) ([]string, error) {
		width, err1 := strconv.Atoi(a[0])
		nvar, err2 := strconv.Atoi(a[1])
		if err1 != nil || err2 != nil || nvar < 0 {
			return nil, errors.New("bad batch header")
		}
		recLeg := a[2] == "1"
		parent := a[3]
		rest := a[4:]
		group := 1 + nvar
		n := len(rest) / group
		texts := make([]string, n)
		for i := 0; i < n; i++ {
			texts[i] = rest[group*i]
		}
		feats, together := c02ParseAll(texts, parent, width)
		out := make([]string, 0, 2*group*n+1)
		// first reply field: whether the one-record path worked; the judge FAILs on "single"
		if together {
			out = append(out, "together")
		} else {
			out = append(out, "single")
		}
		for i := 0; i < n; i++ {
			if together {
				out = append(out, c02Observe(feats[i]))
			} else {
				out = append(out, c02ParseOne(texts[i], parent, width))
			}
			for k := 1; k <= nvar; k++ {
				out = append(out, c02BuildOne(rest[group*i+k], parent))
			}
		}
		if recLeg {
			out = append(out, c02RecordLeg(parent, feats, together, rest, n, nvar)...)
		}
		return out, nil
	})
}

// c02RecordLeg: the locations as genbank.Build writes them in a record, read back by genbank.Parse.
// One Sequence gets, per tree, the parsed feature with its GbkLocationString scrubbed (so that Build writes
// BuildLocationString of the parsed structure) and one feature per assembled structure; genbank.Build writes
// the record, genbank.Parse reads it; reply per feature "ok|GetSequence()|GbkLocationString as read back"
// (n*(1+nvar) fields, tree by tree), or "panic" / "missing" / "skip".
func c02RecordLeg(parent string, parsed []poly.Feature, together bool, rest []string, n, nvar int) (out []string) {
	group := 1 + nvar
	total := n * group
	fill := func(v string) []string {
		r := make([]string, total)
		for i := range r {
			r[i] = v
		}
		return r
	}
	if !together {
		return fill("skip")
	}
	defer func() {
		if p := recover(); p != nil {
			out = fill("panic")
		}
	}()
	sequence := genbank.Parse(c02Record(nil, parent, 58))
	for i := 0; i < n; i++ {
		f := parsed[i]
		f.GbkLocationString = ""
		f.ParentSequence = nil
		sequence.AddFeature(&f)
		for k := 1; k <= nvar; k++ {
			l, m, err := c02ReadLoc(rest[group*i+k], 0)
			if err != nil || m != len(rest[group*i+k]) {
				return fill("skip")
			}
			g := poly.Feature{Type: "misc_feature", SequenceLocation: l, Attributes: map[string]string{"label": "x"}}
			sequence.AddFeature(&g)
		}
	}
	back := genbank.Parse(genbank.Build(sequence))
	if len(back.Features) != total || back.Sequence != parent {
		return fill("missing")
	}
	out = make([]string, total)
	for i := range out {
		out[i] = c02ReadBack(back.Features[i])
	}
	return out
}

func c02ReadBack(f poly.Feature) (out string) {
	defer func() {
		if p := recover(); p != nil {
			out = "panic"
		}
	}()
	return "ok|" + f.GetSequence() + "|" + f.GbkLocationString
}
