package main

// C16 — rebase.Parse / rebase.Read / rebase.Export on the real code.

import (
	"encoding/hex"
	"encoding/json"
	"fmt"
	"os"
	"path/filepath"
	"reflect"
	"sort"
	"strconv"
	"strings"
	"verifharness/runner"

	"github.com/TimothyStiles/poly/io/rebase"
)

func c16List(l []string) []string {
	if len(l) == 0 { // nil and the empty slice are identified
		return []string{"nil"}
	}
	return append([]string{strconv.Itoa(len(l))}, l...)
}

// c16Entries renders the map canonically: entry count, then per entry (sorted by key) the key and
// the eight fields; string slices as a count (or "nil") followed by the items.
func c16Entries(m map[string]rebase.Enzyme) []string {
	keys := make([]string, 0, len(m))
	for k := range m {
		keys = append(keys, k)
	}
	sort.Strings(keys)
	out := []string{strconv.Itoa(len(keys))}
	for _, k := range keys {
		e := m[k]
		out = append(out, k, e.Name)
		out = append(out, c16List(e.Isoschizomers)...)
		out = append(out, e.RecognitionSequence, e.MethylationSite, e.MicroOrganism, e.Source)
		out = append(out, c16List(e.CommercialAvailability)...)
		out = append(out, e.References)
	}
	return out
}

// c16Report: Parse (with panic recovery), Read of the same bytes from a file, Export, Unmarshal back.
func c16Report(text []byte) (out []string) {
	defer func() {
		if p := recover(); p != nil {
			out = []string{"panic"}
		}
	}()
	m := rebase.Parse(text)
	out = append([]string{"ok"}, c16Entries(m)...)
	// Read through a file
	path := filepath.Join(c14TmpDir(), fmt.Sprintf("c16-%d-%d.txt", os.Getpid(), runner.Unique()))
	readFlag := "read-diff"
	if err := os.WriteFile(path, text, 0o644); err == nil {
		m2, err2 := rebase.Read(path)
		if err2 == nil && reflect.DeepEqual(m, m2) {
			readFlag = "read-same"
		}
		_ = os.Remove(path)
	}
	out = append(out, readFlag)
	// Export, then parse the JSON back into the same type
	js := rebase.Export(m)
	// hold the output across an Export of a different map: the bytes returned for m must stay m's
	_ = rebase.Export(map[string]rebase.Enzyme{"held-output-check": {Name: "held-output-check", Isoschizomers: []string{"other", "map"},
		References: strings.Repeat("another export ", len(js)/8+2)}})
	back := map[string]rebase.Enzyme{}
	jsonFlag := "json-diff"
	if err := json.Unmarshal(js, &back); err == nil && reflect.DeepEqual(m, back) {
		jsonFlag = "json-same"
	}
	out = append(out, jsonFlag)
	// the bytes of the export (held across the second Export above); compared byte for byte with the model's printer
	return append(out, string(js))
}

func init() {
	runner.Register("rebase_parse", func(a []string) ([]string, error) {
		return safeFields(c16Report([]byte(a[0]))), nil
	})
	// the sample distributed with the package; the reply starts with the file's text
	runner.Register("rebase_file", func(a []string) ([]string, error) {
		repo := os.Getenv("VERIF_REPO")
		if repo == "" {
			repo = "/repo"
		}
		text, err := os.ReadFile(filepath.Join(repo, "io", "rebase", "data", a[0]))
		if err != nil {
			return nil, err
		}
		return safeFields(append([]string{string(text)}, c16Report(text)...)), nil
	})
	// bytes given in hex (they need not be valid UTF-8)
	runner.Register("rebase_parse_hex", func(a []string) ([]string, error) {
		b, err := hex.DecodeString(a[0])
		if err != nil {
			return nil, err
		}
		return safeFields(c16Report(b)), nil
	})
	// json.Unmarshal of a JSON text into map[string]Enzyme: "ok" + entries, or "unmarshal-error"
	runner.Register("rebase_import", func(a []string) ([]string, error) {
		m := map[string]rebase.Enzyme{}
		if err := json.Unmarshal([]byte(a[0]), &m); err != nil {
			return []string{"unmarshal-error"}, nil
		}
		return safeFields(append([]string{"ok"}, c16Entries(m)...)), nil
	})
	// Read of a path that does not exist must return an error, not panic
	runner.Register("rebase_read_missing", func(a []string) ([]string, error) {
		m, err := rebase.Read(filepath.Join(c14TmpDir(), "does-not-exist-"+a[0]))
		if err != nil {
			return []string{"error", strconv.Itoa(len(m))}, nil
		}
		return []string{"no-error"}, nil
	})
}
