package main

// C20 — Uniprot streaming: uniprot.Parse / uniprot.Read against sequential and concurrent consumers with
// channel capacities 0..100, on well-formed, truncated and corrupted documents, plain and gzip-compressed.
// The op also tokenises the same stream with encoding/xml itself and reports the abstract trace the
// Lean model runs on.

import (
	"bytes"
	"compress/gzip"
	"encoding/xml"
	"fmt"
	"io"
	"math/rand"
	"os"
	"runtime"
	"strconv"
	"strings"
	"time"

	"github.com/TimothyStiles/poly/io/uniprot"

	"verifharness/runner"
)

func init() {
	runner.Register("c20.parse", c20Parse)
}

func c20List(l []string) string { return strconv.Itoa(len(l)) + ":" + strings.Join(l, ",") }

func c20Entry(e uniprot.Entry) []string {
	return []string{c20List(e.Accession), c20List(e.Name), e.Sequence.Value}
}

// c20Trace: the loop of uniprot.Parse as seen from outside, on our own decoder: o = a token that is not a
// start element, s = a start element other than entry, E = entry decoded, X = entry whose DecodeElement
// failed; ends with . (io.EOF) or ! (error).
// sticky reports whether every error was followed by an error on the next Token call.
func c20Trace(r io.Reader) (syms string, entries []uniprot.Entry, sticky bool) {
	d := xml.NewDecoder(r)
	var b strings.Builder
	sticky = true
	pendingErr := false
	for {
		tok, err := d.Token()
		if err != nil {
			if err.Error() == "EOF" {
				if pendingErr {
					sticky = false
				}
				b.WriteByte('.')
			} else {
				b.WriteByte('!')
				if _, err2 := d.Token(); err2 == nil {
					sticky = false
				}
			}
			break
		}
		if pendingErr {
			sticky = false
			pendingErr = false
		}
		if se, ok := tok.(xml.StartElement); ok && se.Name.Local == "entry" {
			var e uniprot.Entry
			if err := d.DecodeElement(&e, &se); err != nil {
				b.WriteByte('X')
				pendingErr = true
			} else {
				b.WriteByte('E')
			}
			entries = append(entries, e)
		} else if _, ok := tok.(xml.StartElement); ok {
			b.WriteByte('s')
		} else {
			b.WriteByte('o')
		}
	}
	return b.String(), entries, sticky
}

func c20Gzip(plain []byte) []byte {
	var buf bytes.Buffer
	w := gzip.NewWriter(&buf)
	_, _ = w.Write(plain)
	_ = w.Close()
	return buf.Bytes()
}

// c20DamageGz applies trunc:<permille> / flip:<permille> / truncabs:<bytes kept> to a gzip stream
// (pset is damage of the plain bytes, applied before).
func c20DamageGz(gz []byte, damage string) ([]byte, error) {
	if damage == "none" || strings.HasPrefix(damage, "pset:") {
		return gz, nil
	}
	parts := strings.SplitN(damage, ":", 2)
	if len(parts) != 2 {
		return nil, fmt.Errorf("bad gz damage %q", damage)
	}
	pm, err := strconv.Atoi(parts[1])
	if err != nil {
		return nil, err
	}
	pos := len(gz) * pm / 1000
	switch parts[0] {
	case "truncabs":
		if pm > len(gz) {
			pm = len(gz)
		}
		return gz[:pm], nil
	case "trunc":
		if pos > len(gz) {
			pos = len(gz)
		}
		return gz[:pos], nil
	case "flip":
		out := append([]byte(nil), gz...)
		if pos >= len(out) {
			pos = len(out) - 1
		}
		out[pos] ^= 0x5a
		return out, nil
	}
	return nil, fmt.Errorf("bad gz damage %q", damage)
}

// c20.parse consumer entCap errCap deadlineMs src gzdamage seed stall text
//   (src: plain | gz | read | read2 = two dumps opened with uniprot.Read before either is consumed)
//   -> closed nErr nDel (acc names seq)* traceSyms nTrace (acc names seq)* gzErr plainLen isPrefix sticky
//   |  openerr gzOpenErr leaked     (src read, uniprot.Read returned an error)
//   |  violation reason errors=.. delivered=..   (the library finished but broke the protocol)
//   (a library call that does not finish ends the request as `timeout blocked reason …`, process exits)
func c20Parse(args []string) ([]string, error) {
	if len(args) != 9 {
		return nil, fmt.Errorf("c20.parse: want 9 arguments")
	}
	sequential := args[0] == "seq"
	entCap, e1 := strconv.Atoi(args[1])
	errCap, e2 := strconv.Atoi(args[2])
	deadlineMs, e3 := strconv.Atoi(args[3])
	seed, e4 := strconv.ParseInt(args[6], 10, 64)
	stall, e5 := strconv.Atoi(args[7])
	if e1 != nil || e2 != nil || e3 != nil || e4 != nil || e5 != nil {
		return nil, fmt.Errorf("bad numbers")
	}
	src, gzDamage, text := args[4], args[5], []byte(args[8])
	if strings.HasPrefix(gzDamage, "pset:") {
		// byte-level damage of the plain stream: pset:<position>:<byte value>
		var p, b int
		if _, err := fmt.Sscanf(gzDamage, "pset:%d:%d", &p, &b); err != nil {
			return nil, err
		}
		if p >= 0 && p < len(text) {
			text[p] = byte(b)
		}
	}

	// the byte stream the decoder will see, and what our own gzip reader makes of it
	gzErr, plainLen, isPrefix := "0", len(text), "1"
	var stream func() io.Reader
	var gzBytes []byte
	switch src {
	case "plain":
		stream = func() io.Reader { return bytes.NewReader(text) }
	case "gz", "read", "read2":
		var err error
		gzBytes, err = c20DamageGz(c20Gzip(text), gzDamage)
		if err != nil {
			return nil, err
		}
		zr, err := gzip.NewReader(bytes.NewReader(gzBytes))
		if err != nil {
			gzErr, plainLen = "1", 0
		} else {
			got, rerr := io.ReadAll(zr)
			if rerr != nil {
				gzErr = "1"
			}
			plainLen = len(got)
			if !bytes.HasPrefix(text, got) {
				isPrefix = "0"
			}
		}
		stream = func() io.Reader {
			zr, err := gzip.NewReader(bytes.NewReader(gzBytes))
			if err != nil {
				return nil
			}
			return zr
		}
	default:
		return nil, fmt.Errorf("bad src %q", src)
	}

	var entries chan uniprot.Entry
	var errs chan error
	var startSecond func() (blocked bool, problem string)
	var tmpFiles []string
	done := make(chan interface{}, 1)
	switch src {
	case "plain", "gz":
		r := stream()
		if r == nil {
			// gzip header unreadable: nothing to hand to Parse (uniprot.Read reports this as its own error)
			return []string{"openerr", "1", "0"}, nil
		}
		entries = make(chan uniprot.Entry, entCap)
		errs = make(chan error, errCap)
		go func() {
			defer func() { done <- recover() }()
			uniprot.Parse(r, entries, errs)
		}()
	case "read", "read2":
		f, err := os.CreateTemp(c13TmpDir(), "c20-*.xml.gz")
		if err != nil {
			return nil, err
		}
		path := f.Name()
		defer os.Remove(path)
		tmpFiles = append(tmpFiles, path)
		if _, err := f.Write(gzBytes); err != nil {
			f.Close()
			return nil, err
		}
		f.Close()
		before := runtime.NumGoroutine()
		ce, cr, rerr := uniprot.Read(path)
		if rerr != nil {
			// Read reports a file it cannot open as gzip through its error result; the channels it returns
			// are open and nothing will ever arrive on them.  Check that, and that no goroutine was started.
			open := "0"
			if _, err := gzip.NewReader(bytes.NewReader(gzBytes)); err != nil {
				open = "1"
			}
			leaked := "0"
			time.Sleep(2 * time.Millisecond)
			if runtime.NumGoroutine() > before {
				leaked = "1"
			}
			select {
			case <-ce:
				leaked = "1" // something arrived, or the channel was closed by somebody
			case <-cr:
				leaked = "1"
			default:
			}
			return []string{"openerr", open, leaked}, nil
		}
		entries, errs = ce, cr
		done <- nil
		if src == "read2" {
			// HISTORY: a SECOND dump (the same document with every accession prefixed by "B") is opened with
			// uniprot.Read before anything of the first has been consumed; the first is then consumed and
			// reported as usual, the second is drained afterwards and must be exactly what our own decoding of
			// its text gives — otherwise the first is reported as not closed.
			textB := bytes.ReplaceAll(text, []byte("<accession>"), []byte("<accession>B"))
			fb, err := os.CreateTemp(c13TmpDir(), "c20b-*.xml.gz")
			if err != nil {
				return nil, err
			}
			pathB := fb.Name()
			defer os.Remove(pathB)
			tmpFiles = append(tmpFiles, pathB)
			if _, err := fb.Write(c20Gzip(textB)); err != nil {
				fb.Close()
				return nil, err
			}
			fb.Close()
			ceB, crB, errB := uniprot.Read(pathB)
			if errB != nil {
				return nil, fmt.Errorf("second Read failed: %v", errB)
			}
			_, wantB, _ := c20Trace(bytes.NewReader(textB))
			startSecond = func() (bool, string) {
				var gotB []uniprot.Entry
				nErrB := 0
				to := time.After(ioDeadline(deadlineMs))
				for ceB != nil || crB != nil {
					select {
					case e, open := <-ceB:
						if !open {
							ceB = nil
						} else {
							gotB = append(gotB, e)
						}
					case _, open := <-crB:
						if !open {
							crB = nil
						} else {
							nErrB++
						}
					case <-to:
						return true, fmt.Sprintf("second dump: channels not closed within the deadline (%d entries, %d errors so far)", len(gotB), nErrB)
					}
				}
				if nErrB != 0 || len(gotB) != len(wantB) {
					return false, fmt.Sprintf("second dump: %d entries and %d errors, want %d entries and no error", len(gotB), nErrB, len(wantB))
				}
				for i := range gotB {
					if strings.Join(c20Entry(gotB[i]), "\x00") != strings.Join(c20Entry(wantB[i]), "\x00") {
						return false, fmt.Sprintf("second dump: entry %d is %q, want %q", i, c20Entry(gotB[i]), c20Entry(wantB[i]))
					}
				}
				return false, ""
			}
		}
	}

	rng := rand.New(rand.NewSource(seed))
	// stall > 1000: additionally ONE long stall of (stall - 1000) ms before the third receive (a parser that
	// gives up on a slow consumer after a timeout would lose an entry there)
	longStall, receives := 0, 0
	if stall > 1000 {
		longStall, stall = stall-1000, 300
	}
	pause := func() {
		receives++
		if receives == 3 && longStall > 0 {
			time.Sleep(time.Duration(longStall) * time.Millisecond)
		}
		if rng.Intn(1000) >= stall {
			return
		}
		switch rng.Intn(3) {
		case 0:
			runtime.Gosched()
		case 1:
			time.Sleep(time.Duration(1+rng.Intn(200)) * time.Microsecond)
		case 2:
			x := 0
			for i := 0; i < 1+rng.Intn(20000); i++ {
				x += i
			}
			_ = x
		}
	}
	deadline := time.After(ioDeadline(deadlineMs) + time.Duration(longStall)*time.Millisecond)
	var delivered []uniprot.Entry
	nErr := 0
	// blocked: the library did not finish within the deadline (the request ends as `timeout`, the process exits);
	// violation: the library finished but the harness saw something the property forbids (reply `violation`)
	blocked, violation := "", ""
	// the parser goroutine's end is watched while consuming: a panic (channels never closed) is reported at
	// once instead of after the deadline; a normal return is remembered
	doneCh, parserDone := done, false
	onDone := func(p interface{}) {
		doneCh, parserDone = nil, true
		if p != nil {
			violation = fmt.Sprintf("parser goroutine panicked: %v", p)
		}
	}
	if sequential {
		// the documented usage: for e := range entries {...}; for err := range errors {...}
	entLoop:
		for {
			pause()
			select {
			case e, ok := <-entries:
				if !ok {
					break entLoop
				}
				delivered = append(delivered, e)
			case p := <-doneCh:
				if onDone(p); violation != "" {
					break entLoop
				}
			case <-deadline:
				blocked = "entries channel not closed within the deadline"
				break entLoop
			}
		}
	errLoop:
		for blocked == "" && violation == "" {
			pause()
			select {
			case _, ok := <-errs:
				if !ok {
					break errLoop
				}
				nErr++
			case p := <-doneCh:
				onDone(p)
			case <-deadline:
				blocked = "error channel not closed within the deadline (entries channel closed)"
			}
		}
	} else {
		ec, rc := entries, errs
		for blocked == "" && violation == "" && (ec != nil || rc != nil) {
			pause()
			select {
			case p := <-doneCh:
				onDone(p)
			case e, ok := <-ec:
				if !ok {
					ec = nil
				} else {
					delivered = append(delivered, e)
				}
			case _, ok := <-rc:
				if !ok {
					rc = nil
				} else {
					nErr++
				}
			case <-deadline:
				blocked = fmt.Sprintf("channels not closed within the deadline (entries closed: %v, errors closed: %v)", ec == nil, rc == nil)
			}
		}
	}
	if blocked == "" && violation == "" {
		// closed means closed: further receives return !ok at once
		for i := 0; i < 2 && violation == ""; i++ {
			select {
			case _, ok := <-entries:
				if ok {
					violation = "a value arrived on the entries channel after it was observed closed"
				}
			case <-time.After(time.Second):
				violation = "the entries channel blocks after it was observed closed"
			}
			select {
			case _, ok := <-errs:
				if ok {
					violation = "a value arrived on the error channel after it was observed closed"
				}
			case <-time.After(time.Second):
				violation = "the error channel blocks after it was observed closed"
			}
		}
		// the parser goroutine has returned without panic (no send on, no second close of, a closed channel)
		if !parserDone {
			select {
			case p := <-done:
				if p != nil {
					violation = fmt.Sprintf("parser goroutine panicked after closing: %v", p)
				}
			case <-time.After(5 * time.Second):
				blocked = "parser goroutine did not return after both channels were closed"
			}
		}
	}
	if blocked == "" && violation == "" && startSecond != nil {
		b, problem := startSecond()
		if b {
			blocked = problem
		} else {
			violation = problem // the second dump, opened while the first was unread, did not come through intact
		}
	}
	counts := []string{"errors=" + strconv.Itoa(nErr), "delivered=" + strconv.Itoa(len(delivered))}
	if blocked != "" {
		// The model says every stream terminates, for every capacity and consumer. The request ends as `timeout`
		// (judged FAIL) and the process exits: a parser goroutine that is blocked or spinning (and possibly
		// allocating) must not live on. Does not return.
		ioBlocked(tmpFiles, blocked, counts...)
	}
	if violation != "" {
		return append([]string{"violation", violation}, counts...), nil
	}
	closed := true

	// our own tokenisation of the same stream
	syms, trEntries, sticky := "", []uniprot.Entry(nil), true
	if r := stream(); r != nil {
		syms, trEntries, sticky = c20Trace(r)
	}

	out := []string{"0", strconv.Itoa(nErr), strconv.Itoa(len(delivered))}
	if closed {
		out[0] = "1"
	}
	for _, e := range delivered {
		out = append(out, c20Entry(e)...)
	}
	out = append(out, syms, strconv.Itoa(len(trEntries)))
	for _, e := range trEntries {
		out = append(out, c20Entry(e)...)
	}
	st := "1"
	if !sticky {
		st = "0"
	}
	out = append(out, gzErr, strconv.Itoa(plainLen), isPrefix, st)
	return out, nil
}
