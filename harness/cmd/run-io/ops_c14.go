package main

// C14 — gff.Build / gff.Parse / gff.Write / gff.Read / Feature.GetSequence on the real code.

import (
	"encoding/hex"
	"fmt"
	"os"
	"path/filepath"
	"sort"
	"strconv"
	"strings"
	"unicode/utf8"
	"verifharness/runner"

	"github.com/TimothyStiles/poly"
	"github.com/TimothyStiles/poly/io/gff"
)

// c14TmpDir is a scratch directory under /verif/build (next to the harness binaries).
func c14TmpDir() string {
	exe, err := os.Executable()
	dir := os.TempDir()
	if err == nil {
		dir = filepath.Join(filepath.Dir(filepath.Dir(exe)), "tmp-io")
	}
	_ = os.MkdirAll(dir, 0o755)
	return dir
}

// c14Fields is the canonical rendering of a parsed poly.Sequence: the fields gff fills in,
// attributes in sorted key order, and GetSequence of every feature (status, value).
func c14Fields(s poly.Sequence) []string {
	out := []string{s.Meta.Name, s.Meta.GffVersion, strconv.Itoa(s.Meta.RegionStart), strconv.Itoa(s.Meta.RegionEnd),
		strconv.Itoa(s.Meta.Size), s.Description, s.Sequence, strconv.Itoa(len(s.Features))}
	for _, f := range s.Features {
		out = append(out, f.Name, f.Source, f.Type, strconv.Itoa(f.SequenceLocation.Start), strconv.Itoa(f.SequenceLocation.End),
			f.Score, f.Strand, f.Phase, strconv.Itoa(len(f.Attributes)))
		keys := make([]string, 0, len(f.Attributes))
		for k := range f.Attributes {
			keys = append(keys, k)
		}
		sort.Strings(keys)
		for _, k := range keys {
			out = append(out, k, f.Attributes[k])
		}
		st, v := c14GetSeq(f)
		out = append(out, st, v)
	}
	return out
}

// safeFields keeps a reply line valid UTF-8 whatever the code under test returned (a corrupted buffer
// may be cut inside a multi-byte letter): an invalid field is replaced by "invalid-utf8:" + hex.
func safeFields(fs []string) []string {
	for i, f := range fs {
		if !utf8.ValidString(f) {
			fs[i] = "invalid-utf8:" + hex.EncodeToString([]byte(f))
		}
	}
	return fs
}

func c14GetSeq(f poly.Feature) (st, v string) {
	defer func() {
		if p := recover(); p != nil {
			st, v = "panic", ""
		}
	}()
	v = f.GetSequence()
	if !utf8.ValidString(v) { // a slice that cuts a multi-byte letter: keep the reply line valid UTF-8
		return "invalid-utf8", hex.EncodeToString([]byte(v))
	}
	return "ok", v
}

// c14Parse runs gff.Parse with panic recovery: ("ok", fields...) or ("panic").
func c14Parse(text []byte) (out []string) {
	defer func() {
		if p := recover(); p != nil {
			out = []string{"panic"}
		}
	}()
	return append([]string{"ok"}, c14Fields(gff.Parse(text))...)
}

func c14Read(path string) (out []string) {
	defer func() {
		if p := recover(); p != nil {
			out = []string{"panic"}
		}
	}()
	return append([]string{"ok"}, c14Fields(gff.Read(path))...)
}

func sameFields(a, b []string) string {
	if len(a) != len(b) {
		return "rw-diff"
	}
	for i := range a {
		if a[i] != b[i] {
			return "rw-diff"
		}
	}
	return "rw-same"
}

func c14Atoi(s string) int {
	n, _ := strconv.Atoi(s)
	return n
}


func init() {
	// gff_roundtrip name version rstart rend locusName accession locusSeqLen seq nfeat
	//   { name source type start end score strand phase nattr { key value } }
	// reply: Build text, then Parse(Build) as status+fields, then rw-same/rw-diff for Write/Read through a file
	runner.Register("gff_roundtrip", func(a []string) ([]string, error) {
		var s poly.Sequence
		s.Meta.Name, s.Meta.GffVersion = a[0], a[1]
		s.Meta.RegionStart, s.Meta.RegionEnd = c14Atoi(a[2]), c14Atoi(a[3])
		s.Meta.Locus.Name, s.Meta.Accession, s.Meta.Locus.SequenceLength = a[4], a[5], a[6]
		s.Sequence = a[7]
		n := c14Atoi(a[8])
		p := 9
		for i := 0; i < n; i++ {
			f := poly.Feature{Name: a[p], Source: a[p+1], Type: a[p+2], Score: a[p+5], Strand: a[p+6], Phase: a[p+7]}
			f.SequenceLocation.Start, f.SequenceLocation.End = c14Atoi(a[p+3]), c14Atoi(a[p+4])
			na := c14Atoi(a[p+8])
			p += 9
			if na > 0 {
				f.Attributes = make(map[string]string)
			}
			for j := 0; j < na; j++ {
				f.Attributes[a[p]] = a[p+1]
				p += 2
			}
			s.AddFeature(&f)
		}
		if p != len(a) {
			return nil, fmt.Errorf("bad request: %d fields used of %d", p, len(a))
		}
		text := gff.Build(s)
		// hold the output across a Build of a different record: the bytes returned for s must stay s's
		var other poly.Sequence
		other.Meta.Name, other.Meta.RegionStart, other.Meta.RegionEnd = "held-output-check", 1, 3*len(s.Sequence)+11
		other.Sequence = strings.Repeat("NNX", len(s.Sequence)+4)
		of := poly.Feature{Name: "held", Source: "other", Type: "region", Attributes: map[string]string{"ID": "other-record"}}
		of.SequenceLocation.End = 3
		other.AddFeature(&of)
		_ = gff.Build(other)
		parsed := c14Parse(text)
		path := filepath.Join(c14TmpDir(), fmt.Sprintf("c14-%d-%d.gff", os.Getpid(), runner.Unique()))
		gff.Write(s, path)
		onDisk, _ := os.ReadFile(path)
		viaFile := c14Read(path)
		_ = os.Remove(path)
		rw := sameFields(parsed, viaFile)
		if string(onDisk) != string(text) {
			rw = "rw-diff"
		}
		out := []string{string(text)}
		out = append(out, parsed...)
		return safeFields(append(out, rw)), nil
	})
	// gff_parse text  → Parse(text) as status+fields, then rw-same/rw-diff for Read of the same text from a file
	runner.Register("gff_parse", func(a []string) ([]string, error) {
		parsed := c14Parse([]byte(a[0]))
		path := filepath.Join(c14TmpDir(), fmt.Sprintf("c14-%d-%d.gff", os.Getpid(), runner.Unique()))
		if err := os.WriteFile(path, []byte(a[0]), 0o644); err != nil {
			return nil, err
		}
		viaFile := c14Read(path)
		_ = os.Remove(path)
		return safeFields(append(parsed, sameFields(parsed, viaFile))), nil
	})
}
